import Cellml.Load.Loader

/-! # Lemmas about connection resolution (used by Props/C01; reusable for C17/C15/C13)

    A. association lists, `root`, `resolve`, well-formed mappings (`WF`)
    B. the invariant of the work list and its preservation
    C. direction of a connection -/

namespace Load

/-! ## A. mappings -/

def keys (m : List (VRef × VRef)) : List VRef := m.map Prod.fst

@[simp] theorem keys_nil : keys [] = [] := rfl
@[simp] theorem keys_cons (t s : VRef) (m : List (VRef × VRef)) : keys ((t, s) :: m) = t :: keys m := rfl

theorem mem_keys_of_mem {m : List (VRef × VRef)} {t s : VRef} (h : (t, s) ∈ m) : t ∈ keys m :=
  List.mem_map.mpr ⟨(t, s), h, rfl⟩

@[simp] theorem lookup_nil {β : Type} (v : VRef) : ([] : List (VRef × β)).lookup v = none := rfl

theorem lookup_cons {β : Type} (v t : VRef) (s : β) (m : List (VRef × β)) :
    ((t, s) :: m).lookup v = if v = t then some s else m.lookup v := by
  simp only [List.lookup_cons]
  by_cases h : v = t
  · subst h; simp
  · have : (v == t) = false := by simpa using h
    simp [this, h]

theorem lookup_none_of_not_mem_keys {m : List (VRef × VRef)} {v : VRef} (h : v ∉ keys m) : m.lookup v = none := by
  induction m with
  | nil => rfl
  | cons hd tl ih =>
      obtain ⟨t, s⟩ := hd
      simp only [keys_cons, List.mem_cons, not_or] at h
      rw [lookup_cons, if_neg h.1]
      exact ih h.2

theorem mem_keys_of_lookup {m : List (VRef × VRef)} {v s : VRef} (h : m.lookup v = some s) : (v, s) ∈ m := by
  induction m with
  | nil => simp at h
  | cons hd tl ih =>
      obtain ⟨t, s'⟩ := hd
      rw [lookup_cons] at h
      by_cases hv : v = t
      · subst hv; simp only [if_true, Option.some.injEq] at h; subst h; exact List.mem_cons_self
      · rw [if_neg hv] at h; exact List.mem_cons_of_mem _ (ih h)

/-- a mapping built by the work list: every new target is fresh and not a source, every new source is a source
    variable or an earlier target. `S` = "has an `assigned_to` from the start" (no `in` interface). -/
def WF (S : VRef → Prop) : List (VRef × VRef) → Prop
  | [] => True
  | (t, s) :: m => WF S m ∧ ¬ S t ∧ t ∉ keys m ∧ (S s ∨ s ∈ keys m)

theorem WF.key_not_src {S : VRef → Prop} : ∀ {m : List (VRef × VRef)}, WF S m → ∀ v, v ∈ keys m → ¬ S v
  | [], _, v, hv => by simp at hv
  | (t, s) :: m, h, v, hv => by
      simp only [keys_cons, List.mem_cons] at hv
      rcases hv with rfl | hv
      · exact h.2.1
      · exact WF.key_not_src h.1 v hv

theorem WF.val_ok {S : VRef → Prop} : ∀ {m : List (VRef × VRef)}, WF S m → ∀ t s, (t, s) ∈ m → S s ∨ s ∈ keys m
  | [], _, t, s, hm => by simp at hm
  | (t0, s0) :: m, h, t, s, hm => by
      simp only [List.mem_cons, Prod.mk.injEq] at hm
      rcases hm with ⟨_, rfl⟩ | hm
      · rcases h.2.2.2 with hs | hs
        · exact Or.inl hs
        · exact Or.inr (List.mem_cons_of_mem _ hs)
      · rcases WF.val_ok h.1 t s hm with hs | hs
        · exact Or.inl hs
        · exact Or.inr (List.mem_cons_of_mem _ hs)

theorem WF.keys_nodup {S : VRef → Prop} : ∀ {m : List (VRef × VRef)}, WF S m → (keys m).Nodup
  | [], _ => List.nodup_nil
  | (t, s) :: m, h => by
      simp only [keys_cons, List.nodup_cons]
      exact ⟨h.2.2.1, WF.keys_nodup h.1⟩

/-- the mapping is a function: membership and lookup coincide -/
theorem WF.lookup_iff {S : VRef → Prop} : ∀ {m : List (VRef × VRef)}, WF S m → ∀ t s, m.lookup t = some s ↔ (t, s) ∈ m
  | [], _, t, s => by simp
  | (t0, s0) :: m, h, t, s => by
      rw [lookup_cons]
      by_cases ht : t = t0
      · subst ht
        simp only [if_true, Option.some.injEq, List.mem_cons, Prod.mk.injEq, true_and]
        constructor
        · intro e; exact Or.inl e.symm
        · rintro (e | hm)
          · exact e.symm
          · exact absurd (mem_keys_of_mem hm) h.2.2.1
      · rw [if_neg ht, WF.lookup_iff h.1]
        simp only [List.mem_cons, Prod.mk.injEq]
        constructor
        · intro hm; exact Or.inr hm
        · rintro (⟨e, _⟩ | hm)
          · exact absurd e ht
          · exact hm

theorem root_of_not_key : ∀ {m : List (VRef × VRef)} {v : VRef}, v ∉ keys m → root m v = v
  | [], _, _ => rfl
  | (t, s) :: m, v, h => by
      simp only [keys_cons, List.mem_cons, not_or] at h
      simp only [root, if_neg h.1]
      exact root_of_not_key h.2

theorem WF.root_src {S : VRef → Prop} {m : List (VRef × VRef)} (h : WF S m) {v : VRef} (hv : S v) : root m v = v :=
  root_of_not_key (fun hk => WF.key_not_src h v hk hv)

/-- every chain ends at a source -/
theorem WF.root_is_src {S : VRef → Prop} : ∀ {m : List (VRef × VRef)}, WF S m → ∀ v, v ∈ keys m → S (root m v)
  | [], _, v, hv => by simp at hv
  | (t, s) :: m, h, v, hv => by
      simp only [keys_cons, List.mem_cons] at hv
      by_cases hvt : v = t
      · subst hvt
        simp only [root, if_true]
        rcases h.2.2.2 with hs | hs
        · rw [WF.root_src h.1 hs]; exact hs
        · exact WF.root_is_src h.1 s hs
      · simp only [root, if_neg hvt]
        rcases hv with e | hv
        · exact absurd e hvt
        · exact WF.root_is_src h.1 v hv

/-- a root is never a key: resolution is idempotent -/
theorem WF.root_not_key {S : VRef → Prop} {m : List (VRef × VRef)} (h : WF S m) (v : VRef) : root m v ∉ keys m := by
  by_cases hv : v ∈ keys m
  · exact fun hk => WF.key_not_src h _ hk (WF.root_is_src h v hv)
  · rw [root_of_not_key hv]; exact hv

theorem ne_of_val {S : VRef → Prop} {m : List (VRef × VRef)} {t s : VRef} (hs : S s ∨ s ∈ keys m)
    (ht1 : ¬ S t) (ht2 : t ∉ keys m) : s ≠ t := by
  rintro rfl
  rcases hs with hs | hs
  · exact ht1 hs
  · exact ht2 hs

/-- the two ends of a recorded connection have the same root -/
theorem WF.root_mem {S : VRef → Prop} : ∀ {m : List (VRef × VRef)}, WF S m → ∀ t s, (t, s) ∈ m → root m t = root m s
  | [], _, t, s, hm => by simp at hm
  | (t0, s0) :: m, h, t, s, hm => by
      simp only [List.mem_cons, Prod.mk.injEq] at hm
      rcases hm with ⟨rfl, rfl⟩ | hm
      · have : s ≠ t := ne_of_val h.2.2.2 h.2.1 h.2.2.1
        simp only [root, if_true, if_neg this]
      · have ht : t ≠ t0 := fun e => h.2.2.1 (e ▸ mem_keys_of_mem hm)
        have hs : s ≠ t0 := ne_of_val (WF.val_ok h.1 t s hm) h.2.1 h.2.2.1
        simp only [root, if_neg ht, if_neg hs]
        exact WF.root_mem h.1 t s hm

/-- the `while` loop of `symbol_generator` does not see the newest entry unless it starts there -/
theorem resolve_cons_ne {m : List (VRef × VRef)} {t s : VRef} (hvals : ∀ a b, (a, b) ∈ m → b ≠ t) :
    ∀ (n : Nat) (v : VRef), v ≠ t → resolve ((t, s) :: m) n v = resolve m n v
  | 0, _, _ => rfl
  | n + 1, v, hv => by
      simp only [resolve, lookup_cons, if_neg hv]
      cases hl : m.lookup v with
      | none => rfl
      | some s' => exact resolve_cons_ne hvals n s' (hvals v s' (mem_keys_of_lookup hl))

/-- with fuel = length of the mapping the loop has finished: it computes `root` -/
theorem WF.resolve_eq_root {S : VRef → Prop} : ∀ {m : List (VRef × VRef)}, WF S m → ∀ (n : Nat) (v : VRef),
    m.length ≤ n → resolve m n v = root m v
  | [], _, n, v, _ => by cases n <;> rfl
  | (t, s) :: m, h, n, v, hn => by
      have hvals : ∀ a b, (a, b) ∈ m → b ≠ t := fun a b hab => ne_of_val (WF.val_ok h.1 a b hab) h.2.1 h.2.2.1
      by_cases hv : v = t
      · subst hv
        cases n with
        | zero => simp at hn
        | succ n =>
            have hs : s ≠ v := ne_of_val h.2.2.2 h.2.1 h.2.2.1
            simp only [resolve, lookup_cons, if_true, root]
            rw [resolve_cons_ne hvals n s hs]
            exact WF.resolve_eq_root h.1 n s (by simp only [List.length_cons] at hn; omega)
      · rw [resolve_cons_ne hvals n v hv]
        simp only [root, if_neg hv]
        exact WF.resolve_eq_root h.1 n v (by simp only [List.length_cons] at hn; omega)

/-- `resolve` only depends on the lookup function -/
theorem resolve_congr {m m' : List (VRef × VRef)} (h : ∀ v, m.lookup v = m'.lookup v) :
    ∀ (n : Nat) (v : VRef), resolve m n v = resolve m' n v
  | 0, _ => rfl
  | n + 1, v => by
      simp only [resolve, h v]
      cases m'.lookup v with
      | none => rfl
      | some s => exact resolve_congr h n s

/-- position of a key counted from the oldest entry (sources: 0): strictly decreasing along the mapping -/
def rank : List (VRef × VRef) → VRef → Nat
  | [], _ => 0
  | (t, _) :: m, v => if v = t then m.length + 1 else rank m v

theorem rank_le : ∀ (m : List (VRef × VRef)) (v : VRef), rank m v ≤ m.length
  | [], _ => Nat.le_refl _
  | (t, _) :: m, v => by
      simp only [rank, List.length_cons]
      split
      · omega
      · have := rank_le m v; omega

/-- acyclicity: every recorded connection goes from a strictly lower rank to a higher one -/
theorem WF.rank_lt {S : VRef → Prop} : ∀ {m : List (VRef × VRef)}, WF S m → ∀ t s, (t, s) ∈ m → rank m s < rank m t
  | [], _, t, s, hm => by simp at hm
  | (t0, s0) :: m, h, t, s, hm => by
      simp only [List.mem_cons, Prod.mk.injEq] at hm
      rcases hm with ⟨rfl, rfl⟩ | hm
      · have : s ≠ t := ne_of_val h.2.2.2 h.2.1 h.2.2.1
        simp only [rank, if_true, if_neg this]
        have := rank_le m s; omega
      · have ht : t ≠ t0 := fun e => h.2.2.1 (e ▸ mem_keys_of_mem hm)
        have hs : s ≠ t0 := ne_of_val (WF.val_ok h.1 t s hm) h.2.1 h.2.2.1
        simp only [rank, if_neg ht, if_neg hs]
        exact WF.rank_lt h.1 t s hm

/-! ## B. the invariant of the work list -/

/-- a variable that has an `assigned_to` from the start: no `in` interface -/
def Src (vt : VarTable) (v : VRef) : Prop := ((initAssigned vt).lookup v).isSome

theorem initAssigned_lookup : ∀ (vt : VarTable) (v a : VRef), (initAssigned vt).lookup v = some a → a = v
  | [], v, a, h => by simp [initAssigned] at h
  | (r, i) :: vt, v, a, h => by
      unfold initAssigned at h
      simp only [List.filterMap_cons] at h
      split at h
      · exact initAssigned_lookup vt v a h
      · rename_i b hb
        split at hb
        · simp only [Option.some.injEq] at hb; subst hb
          rw [lookup_cons] at h
          by_cases hv : v = r
          · subst hv; simp only [if_true, Option.some.injEq] at h; exact h.symm
          · rw [if_neg hv] at h; exact initAssigned_lookup vt v a h
        · simp at hb

theorem src_of_mem : ∀ {vt : VarTable} {v : VRef} {i : VarInfo}, (v, i) ∈ vt → i.isSrc = true → Src vt v
  | (r, j) :: vt, v, i, hm, hs => by
      unfold Src initAssigned
      simp only [List.filterMap_cons]
      simp only [List.mem_cons, Prod.mk.injEq] at hm
      by_cases hj : j.isSrc = true
      · simp only [hj, if_true, lookup_cons]
        by_cases hv : v = r
        · simp [hv]
        · rw [if_neg hv]
          rcases hm with ⟨e, _⟩ | hm
          · exact absurd e hv
          · exact src_of_mem hm hs
      · simp only [hj]
        rcases hm with ⟨_, e⟩ | hm
        · exact absurd (e ▸ hs) hj
        · exact src_of_mem hm hs

theorem mem_of_src : ∀ {vt : VarTable} {v : VRef}, Src vt v → ∃ i, (v, i) ∈ vt ∧ i.isSrc = true
  | [], v, h => by simp [Src, initAssigned] at h
  | (r, j) :: vt, v, h => by
      unfold Src initAssigned at h
      simp only [List.filterMap_cons] at h
      by_cases hj : j.isSrc = true
      · simp only [hj, if_true, lookup_cons] at h
        by_cases hv : v = r
        · exact ⟨j, by simp [hv], hj⟩
        · rw [if_neg hv] at h
          obtain ⟨i, hm, hi⟩ := mem_of_src (vt := vt) h
          exact ⟨i, List.mem_cons_of_mem _ hm, hi⟩
      · simp only [hj] at h
        obtain ⟨i, hm, hi⟩ := mem_of_src (vt := vt) h
        exact ⟨i, List.mem_cons_of_mem _ hm, hi⟩

/-- what holds of the state of the work list at every iteration. `l` = all directed connections, `dq` = the deque. -/
structure Inv (reg : Registry) (vt : VarTable) (l dq : List (VRef × VRef)) (st : CState) : Prop where
  wf       : WF (Src vt) st.mapping
  asg_iff  : ∀ v, (st.asg v).isSome ↔ (Src vt v ∨ v ∈ keys st.mapping)
  asg_self : ∀ v a, st.asg v = some a → st.asg a = some a
  asg_root : ∀ v a, st.asg v = some a → root st.mapping a = root st.mapping v
  conn_in  : ∀ c ∈ l, c ∈ dq ∨ (c.2, c.1) ∈ st.mapping
  map_from : ∀ t s, (t, s) ∈ st.mapping → (s, t) ∈ l
  dq_sub   : ∀ c ∈ dq, c ∈ l
  conv_ok  : ∀ e ∈ st.convs, st.asg e.src = some e.src ∧ e.target ∈ keys st.mapping ∧
               root st.mapping e.src = root st.mapping e.target ∧ Units.factor reg e.su e.tu = .ok e.cf

theorem inv_init (reg : Registry) (vt : VarTable) (l : List (VRef × VRef)) : Inv reg vt l l (initState vt) where
  wf := trivial
  asg_iff := by intro v; simp [CState.asg, initState, Src]
  asg_self := by
    intro v a h
    have := initAssigned_lookup vt v a h
    subst this; exact h
  asg_root := by
    intro v a h
    have := initAssigned_lookup vt v a h
    subst this; rfl
  conn_in := fun c hc => Or.inl hc
  map_from := by intro t s h; simp [initState] at h
  dq_sub := fun c hc => hc
  conv_ok := by intro e h; simp [initState] at h

/-- putting a connection back at the end of the deque changes nothing -/
theorem inv_requeue {reg : Registry} {vt : VarTable} {l rest : List (VRef × VRef)} {c : VRef × VRef} {st : CState}
    (h : Inv reg vt l (c :: rest) st) : Inv reg vt l (rest ++ [c]) st :=
  { h with
    conn_in := by
      intro x hx
      rcases h.conn_in x hx with hd | hm
      · left; simp only [List.mem_cons] at hd; simp only [List.mem_append, List.mem_singleton]; exact hd.symm
      · exact Or.inr hm
    dq_sub := by
      intro x hx
      apply h.dq_sub
      simp only [List.mem_append, List.mem_singleton] at hx; simp only [List.mem_cons]; exact hx.symm }

/-- recording the connection `s → t` (`t` unassigned, `s` assigned to `a`), with `t` assigned to `a` (factor one) or to
    itself (conversion equation added) -/
theorem inv_push {reg : Registry} {vt : VarTable} {l rest : List (VRef × VRef)} {s t a a' : VRef} {st st' : CState}
    (h : Inv reg vt l ((s, t) :: rest) st) (ht : st.asg t = none) (hs : st.asg s = some a)
    (ha' : a' = a ∨ a' = t)
    (hmap : st'.mapping = (t, s) :: st.mapping) (hasg : st'.assigned = (t, a') :: st.assigned)
    (hconv : st'.convs = st.convs ∨
      ∃ f, a' = t ∧ st'.convs = st.convs ++ [⟨t, a, f, unitsOf vt t, unitsOf vt s⟩] ∧
        Units.factor reg (unitsOf vt s) (unitsOf vt t) = .ok f) :
    Inv reg vt l rest st' := by
  have htS : ¬ Src vt t := fun hS => by
    have := (h.asg_iff t).mpr (Or.inl hS); rw [ht] at this; simp at this
  have htK : t ∉ keys st.mapping := fun hK => by
    have := (h.asg_iff t).mpr (Or.inr hK); rw [ht] at this; simp at this
  have hsOK : Src vt s ∨ s ∈ keys st.mapping := (h.asg_iff s).mp (by rw [hs]; rfl)
  have haa : st.asg a = some a := h.asg_self s a hs
  have hat : a ≠ t := fun e => by rw [e, ht] at haa; simp at haa
  have hst : s ≠ t := fun e => by rw [e, ht] at hs; simp at hs
  have hwf : WF (Src vt) st'.mapping := by rw [hmap]; exact ⟨h.wf, htS, htK, hsOK⟩
  have hasg' : ∀ v, st'.asg v = if v = t then some a' else st.asg v := by
    intro v; simp only [CState.asg, hasg, lookup_cons]
  have hroot' : ∀ v, root st'.mapping v = if v = t then root st.mapping s else root st.mapping v := by
    intro v; rw [hmap]; rfl
  have hne : ∀ v b, st.asg v = some b → v ≠ t := fun v b hv e => by rw [e, ht] at hv; simp at hv
  refine ⟨hwf, ?_, ?_, ?_, ?_, ?_, ?_, ?_⟩
  · intro v
    rw [hasg', hmap, keys_cons, List.mem_cons]
    by_cases hv : v = t
    · simp [hv]
    · rw [if_neg hv, h.asg_iff v]; simp [hv]
  · intro v b hv
    rw [hasg'] at hv ⊢
    by_cases hvt : v = t
    · rw [if_pos hvt] at hv
      simp only [Option.some.injEq] at hv; subst hv
      rcases ha' with e | e
      · rw [e, if_neg hat]; exact haa
      · rw [e, if_pos rfl]
    · rw [if_neg hvt] at hv
      have hb := h.asg_self v b hv
      rw [if_neg (hne b b hb)]; exact hb
  · intro v b hv
    rw [hasg'] at hv
    rw [hroot', hroot']
    by_cases hvt : v = t
    · rw [if_pos hvt] at hv
      simp only [Option.some.injEq] at hv; subst hv
      rcases ha' with e | e
      · rw [e, if_neg hat, if_pos hvt]; exact h.asg_root s a hs
      · rw [e, hvt]
    · rw [if_neg hvt] at hv
      have hb := h.asg_self v b hv
      rw [if_neg (hne b b hb), if_neg hvt]; exact h.asg_root v b hv
  · intro c hc
    rcases h.conn_in c hc with hd | hm
    · simp only [List.mem_cons] at hd
      rcases hd with e | hd
      · right; rw [hmap, e]; exact List.mem_cons_self
      · exact Or.inl hd
    · right; rw [hmap]; exact List.mem_cons_of_mem _ hm
  · intro t' s' hm
    rw [hmap] at hm
    simp only [List.mem_cons, Prod.mk.injEq] at hm
    rcases hm with ⟨rfl, rfl⟩ | hm
    · exact h.dq_sub _ List.mem_cons_self
    · exact h.map_from t' s' hm
  · intro c hc; exact h.dq_sub c (List.mem_cons_of_mem _ hc)
  · intro e he
    have old : ∀ e ∈ st.convs, st'.asg e.src = some e.src ∧ e.target ∈ keys st'.mapping ∧
        root st'.mapping e.src = root st'.mapping e.target ∧ Units.factor reg e.su e.tu = .ok e.cf := by
      intro e he
      obtain ⟨h1, h2, h3, h4⟩ := h.conv_ok e he
      have hsrc : e.src ≠ t := hne _ _ h1
      have htgt : e.target ≠ t := fun e' => htK (e' ▸ h2)
      refine ⟨?_, ?_, ?_, h4⟩
      · rw [hasg', if_neg hsrc]; exact h1
      · rw [hmap]; exact List.mem_cons_of_mem _ h2
      · rw [hroot', hroot', if_neg hsrc, if_neg htgt]; exact h3
    rcases hconv with hc | ⟨f, hf1, hf2, hf3⟩
    · rw [hc] at he; exact old e he
    · rw [hf2] at he
      simp only [List.mem_append, List.mem_singleton] at he
      rcases he with he | rfl
      · exact old e he
      · refine ⟨?_, ?_, ?_, hf3⟩
        · show st'.asg a = some a
          rw [hasg', if_neg hat]; exact haa
        · show t ∈ keys st'.mapping
          rw [hmap]; exact List.mem_cons_self
        · show root st'.mapping a = root st'.mapping t
          rw [hroot', hroot', if_neg hat, if_pos rfl]; exact h.asg_root s a hs

/-- one successful iteration of the loop body preserves the invariant -/
theorem stepConn_some {reg : Registry} {vt : VarTable} {l rest : List (VRef × VRef)} {s t : VRef} {st st' : CState}
    (h : Inv reg vt l ((s, t) :: rest) st) (hstep : stepConn reg vt st (s, t) = .ok (some st')) :
    Inv reg vt l rest st' := by
  unfold stepConn at hstep
  simp only at hstep
  split at hstep
  · cases hstep
  · rename_i hnt
    have ht : st.asg t = none := by
      cases hx : st.asg t with
      | none => rfl
      | some x => rw [hx] at hnt; simp at hnt
    split at hstep
    · cases hstep
    · rename_i a hs
      split at hstep
      · cases hstep
      · cases hstep
      · rename_i f hf
        split at hstep
        · split at hstep
          · simp only [Except.ok.injEq, Option.some.injEq] at hstep
            subst hstep
            exact inv_push h ht hs (Or.inl rfl) rfl rfl (Or.inl rfl)
          · split at hstep
            · cases hstep
            · simp only [Except.ok.injEq, Option.some.injEq] at hstep
              subst hstep
              exact inv_push h ht hs (Or.inl rfl) rfl rfl (Or.inl rfl)
        · simp only [Except.ok.injEq, Option.some.injEq] at hstep
          subst hstep
          exact inv_push h ht hs (Or.inr rfl) rfl rfl (Or.inr ⟨f, rfl, rfl, hf⟩)

/-- the loop preserves the invariant: when it returns, the deque is empty and the invariant holds of the result -/
theorem connectLoop_inv {reg : Registry} {vt : VarTable} {l : List (VRef × VRef)} :
    ∀ (dq : List (VRef × VRef)) (unch : Nat) (hu : unch ≤ dq.length) (st st' : CState),
      Inv reg vt l dq st → connectLoop reg vt dq unch hu st = .ok st' → Inv reg vt l [] st' := by
  intro dq unch hu st
  fun_induction connectLoop reg vt dq unch hu st with
  | case1 unch st hu _ => intro st' hinv h; simp only [Except.ok.injEq] at h; subst h; exact hinv
  | case2 unch st c rest hu e he _ => intro st' hinv h; cases h
  | case3 unch st c rest hu he hlt _ ih =>
      intro st' hinv h
      exact ih st' (inv_requeue hinv) h
  | case4 unch st c rest hu he hlt _ =>
      intro st' hinv h
      cases h
  | case5 unch st c rest hu st1 he _ ih =>
      intro st' hinv h
      obtain ⟨s, t⟩ := c
      exact ih st' (stepConn_some hinv he) h

theorem connect_inv {reg : Registry} {vt : VarTable} {l : List (VRef × VRef)} {st : CState}
    (h : connect reg vt l = .ok st) : Inv reg vt l [] st :=
  connectLoop_inv l 0 (Nat.zero_le _) (initState vt) st (inv_init reg vt l) h

/-! ## C. direction of a connection -/

def Conn.swap (c : Conn) : Conn := ⟨c.c2, c.v2, c.c1, c.v1⟩

theorem directionPC_ends {pv cv : VRef} {pi ci : VarInfo} {s t : VRef} (h : directionPC pv pi cv ci = .ok (s, t)) :
    (s = pv ∧ t = cv) ∨ (s = cv ∧ t = pv) := by
  unfold directionPC at h
  split at h
  · simp only [Except.ok.injEq, Prod.mk.injEq] at h; exact Or.inl ⟨h.1.symm, h.2.symm⟩
  · split at h
    · simp only [Except.ok.injEq, Prod.mk.injEq] at h; exact Or.inr ⟨h.1.symm, h.2.symm⟩
    · cases h

/-- the direction only orders the two ends -/
theorem direction_ends {par : ParentMap} {vt : VarTable} {c : Conn} {s t : VRef}
    (h : direction par vt c = .ok (s, t)) :
    (s = c.end1 ∧ t = c.end2) ∨ (s = c.end2 ∧ t = c.end1) := by
  unfold direction at h
  split at h
  · cases h
  · cases h
  · split at h
    · split at h
      · simp only [Except.ok.injEq, Prod.mk.injEq] at h; exact Or.inl ⟨h.1.symm, h.2.symm⟩
      · split at h
        · simp only [Except.ok.injEq, Prod.mk.injEq] at h; exact Or.inr ⟨h.1.symm, h.2.symm⟩
        · cases h
    · split at h
      · exact directionPC_ends h
      · split at h
        · exact (directionPC_ends h).symm
        · cases h

/-- `directAll` is `direction` on every connection -/
theorem directAll_spec {comps : List String} {par : ParentMap} {vt : VarTable} :
    ∀ {ks : List Conn} {dl : List (VRef × VRef)}, directAll comps par vt ks = .ok dl →
      (∀ k ∈ ks, ∃ d ∈ dl, direction par vt k = .ok d) ∧ (∀ d ∈ dl, ∃ k ∈ ks, direction par vt k = .ok d)
  | [], dl, h => by simp only [directAll, Except.ok.injEq] at h; subst h; simp
  | k :: ks, dl, h => by
      unfold directAll at h
      split at h
      · cases h
      · split at h
        · cases h
        · split at h
          · cases h
          · rename_i d hd
            split at h
            · cases h
            · rename_i ds hds
              simp only [Except.ok.injEq] at h; subst h
              obtain ⟨ih1, ih2⟩ := directAll_spec hds
              constructor
              · intro k' hk'
                simp only [List.mem_cons] at hk'
                rcases hk' with rfl | hk'
                · exact ⟨d, List.mem_cons_self, hd⟩
                · obtain ⟨d', hd', h'⟩ := ih1 k' hk'
                  exact ⟨d', List.mem_cons_of_mem _ hd', h'⟩
              · intro d' hd'
                simp only [List.mem_cons] at hd'
                rcases hd' with rfl | hd'
                · exact ⟨k, List.mem_cons_self, hd⟩
                · obtain ⟨k', hk', h'⟩ := ih2 d' hd'
                  exact ⟨k', List.mem_cons_of_mem _ hk', h'⟩

/-! ## D. evaluating the work list on concrete inputs

    `connectLoop` is defined by well-founded recursion, which the kernel does not unfold; `connectLoopF` is the same loop
    with fuel (structural), and whenever it returns, `connectLoop` returns the same. Concrete witnesses are then
    checked with `decide +kernel` on `connectLoopF`. -/

def connectLoopF (reg : Registry) (vt : VarTable) : Nat → List (VRef × VRef) → Nat → CState → Option (Except Err CState)
  | 0, _, _, _ => none
  | _ + 1, [], _, st => some (.ok st)
  | n + 1, c :: rest, unch, st =>
    match stepConn reg vt st c with
    | .error e => some (.error e)
    | .ok none =>
        if unch + 1 ≤ (rest ++ [c]).length then connectLoopF reg vt n (rest ++ [c]) (unch + 1) st
        else some (.error (.assertion "Unable to add connections to the model"))
    | .ok (some st') => connectLoopF reg vt n rest 0 st'

theorem connectLoop_of_fuel {reg : Registry} {vt : VarTable} : ∀ (n : Nat) (dq : List (VRef × VRef)) (unch : Nat)
    (st : CState) (r : Except Err CState), connectLoopF reg vt n dq unch st = some r →
    ∀ h : unch ≤ dq.length, connectLoop reg vt dq unch h st = r
  | 0, _, _, _, _, hf, _ => by simp [connectLoopF] at hf
  | n + 1, [], unch, st, r, hf, h => by
      simp only [connectLoopF, Option.some.injEq] at hf
      rw [connectLoop.eq_1]; exact hf
  | n + 1, c :: rest, unch, st, r, hf, h => by
      rw [connectLoop.eq_2]
      simp only [connectLoopF] at hf
      cases hs : stepConn reg vt st c with
      | error e => rw [hs] at hf; simp only [Option.some.injEq] at hf; exact hf
      | ok o =>
          rw [hs] at hf
          cases o with
          | none =>
              simp only at hf ⊢
              by_cases hlt : unch + 1 ≤ (rest ++ [c]).length
              · rw [if_pos hlt] at hf; rw [dif_pos hlt]
                exact connectLoop_of_fuel n _ _ _ _ hf hlt
              · rw [if_neg hlt] at hf; rw [dif_neg hlt]
                simp only [Option.some.injEq] at hf; exact hf
          | some st' =>
              simp only at hf ⊢
              exact connectLoop_of_fuel n _ _ _ _ hf (Nat.zero_le _)

theorem connect_of_fuel {reg : Registry} {vt : VarTable} {l : List (VRef × VRef)} {r : Except Err CState} (n : Nat)
    (h : connectLoopF reg vt n l 0 (initState vt) = some r) : connect reg vt l = r :=
  connectLoop_of_fuel n l 0 (initState vt) r h (Nat.zero_le _)

/-! ## E. assembling `prepare` / `load` from their stages (for concrete witnesses) -/

theorem prepare_of_parts {doc : Doc} {reg : Registry} {ust : Units.Store} {chk : List VRef × List String}
    {par : ParentMap} {dl : List (VRef × VRef)} {st : CState}
    (h1 : buildUnits doc.units (Units.builtinRegistry, { id := 0, known := [] }) = .ok (reg, ust))
    (h2 : checkComps ust doc.comps [] ([], doc.cmeta.toList) = .ok chk)
    (h3 : buildParents (doc.comps.map (·.name)) doc.encaps [] [] = .ok par)
    (h4 : directAll (doc.comps.map (·.name)) par (varTable ust doc.comps) doc.conns = .ok dl)
    (h5 : connect reg (varTable ust doc.comps) dl = .ok st) :
    prepare doc = .ok ⟨reg, ust, varTable ust doc.comps, par, dl, st⟩ := by
  unfold prepare
  rw [h1]; simp only
  rw [h2]; simp only
  rw [h3]; simp only
  rw [h4]; simp only
  rw [h5]

theorem load_of_parts {doc : Doc} {L : Loaded} {defined : List VRef} (h1 : prepare doc = .ok L)
    (h2 : checkMaths L.ust L.vt L.st doc.comps (L.st.convs.map (·.target)) = .ok defined)
    (h3 : checkConstants (L.states doc) defined L.vt = .ok ()) :
    load doc = .ok (L.flat doc) := by
  unfold load
  rw [h1]; simp only
  rw [h2]; simp only
  rw [h3]

end Load
