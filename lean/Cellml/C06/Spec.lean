import Cellml.C06.Lemmas

/-! C06, structural part (core Lean only): what `_convert_variable_instance` does to the equation list of a state that
    satisfies the invariant. -/

namespace Model.CV
open Model

/-- the conversion factor as a `Quantity` in units `units / original_variable.units` -/
def cfQ (s : CState) (v : Nat) (u : U) (cf : Rat) : X := .lit cf (u.div (unitOfV s v))

/-- the equation list after `_convert_variable_instance` (the new variable is number `s.vars.length`) -/
def instEqs (s : CState) (v : Nat) (cfq : X) : Dir → List CEqn
  | .output => s.equations ++ [⟨.var s.vars.length, .mul (.var v) cfq⟩]
  | .input =>
    match s.varDef.lookup v with
    | some oe => s.equations.erase oe ++
        [⟨.var s.vars.length, .mul oe.rhs cfq⟩, ⟨.var v, .div (.var s.vars.length) cfq⟩]
    | none => s.equations ++ [⟨.var v, .div (.var s.vars.length) cfq⟩]

theorem transferCmeta_eq (s : CState) (src dst : Nat) (c : String) (hs : cmetaOfV s src = some c)
    (hd : cmetaOfV s dst = none) :
    transferCmeta s src dst =
      { s with vars := setV (setV s.vars dst (fun x => { x with cmeta := some c })) src
                            (fun x => { x with cmeta := none }),
               cmetaMap := insertKey c dst s.cmetaMap } := by
  simp only [transferCmeta, hs, hd]

/-- the optional `transfer_cmeta_id` step -/
theorem xfer_ok {s1 : CState} (h : Inv0 s1) (src dst : Nat) (move : Bool) (hd : cmetaOfV s1 dst = none) :
    (if (cmetaOfV s1 src).isSome && move then transferCmeta s1 src dst else s1).equations = s1.equations ∧
    (if (cmetaOfV s1 src).isSome && move then transferCmeta s1 src dst else s1).varDef = s1.varDef ∧
    (if (cmetaOfV s1 src).isSome && move then transferCmeta s1 src dst else s1).odeDef = s1.odeDef ∧
    (if (cmetaOfV s1 src).isSome && move then transferCmeta s1 src dst else s1).vars.length = s1.vars.length ∧
    Inv0 (if (cmetaOfV s1 src).isSome && move then transferCmeta s1 src dst else s1) := by
  by_cases hc : ((cmetaOfV s1 src).isSome && move) = true
  · rw [if_pos hc]
    obtain ⟨c, hc'⟩ : ∃ c, cmetaOfV s1 src = some c := by
      cases hcs : cmetaOfV s1 src with
      | none => rw [hcs] at hc; simp at hc
      | some c => exact ⟨c, rfl⟩
    rw [transferCmeta_eq s1 src dst c hc' hd]
    exact ⟨rfl, rfl, rfl, by simp [length_setV], h.congr rfl rfl rfl rfl (by simp [length_setV])⟩
  · rw [if_neg hc]; exact ⟨rfl, rfl, rfl, rfl, h⟩

theorem cmetaOfV_new (s : CState) (x : CVar) (hx : x.cmeta = none) :
    cmetaOfV { s with vars := s.vars ++ [x] } s.vars.length = none := by
  simp [cmetaOfV, hx]

theorem cfQ_vars (s : CState) (v : Nat) (u : U) (cf : Rat) : (cfQ s v u cf).vars = [] := rfl

theorem fresh_of_lt {s : CState} {nv : Nat} {e : CEqn} (hfresh : ∀ e0 ∈ s.equations, defKey e0 < nv)
    (hl : defKey e = nv) :
    (∀ e0 ∈ s.equations, keyKind e0 ≠ keyKind e) ∧ (∀ e0 ∈ s.equations, defKey e0 ≠ defKey e) := by
  have key : ∀ e0 ∈ s.equations, defKey e0 ≠ defKey e := by
    intro e0 he0 hk; have := hfresh e0 he0; omega
  exact ⟨fun e0 he0 hk => key e0 he0 (by unfold defKey; rw [hk]), key⟩

theorem instOutput_spec {s2 : CState} (h : Inv0 s2) (v nv : Nat) (cfq : X) (hq : cfq.vars = [])
    (hv : v < s2.vars.length) (hnv : nv < s2.vars.length) (hfresh : ∀ e0 ∈ s2.equations, defKey e0 < nv) :
    (instOutput s2 v nv cfq).equations = s2.equations ++ [⟨.var nv, .mul (.var v) cfq⟩] ∧
    (instOutput s2 v nv cfq).vars = s2.vars ∧ Inv0 (instOutput s2 v nv cfq) := by
  have hfk := fresh_of_lt (e := ⟨.var nv, .mul (.var v) cfq⟩) hfresh (by simp [defKey, keyKind])
  have hsc : EqScoped s2.vars.length ⟨.var nv, .mul (.var v) cfq⟩ := by
    rw [eqScoped_iff]; simp [CLhs.vars, X.vars, hq, hv, hnv]
  obtain ⟨a, b, _, d⟩ := addEq_ok h _ true hsc hfk.1 (fun _ => hfk.2)
  exact ⟨a, b, d⟩

theorem instInput_spec {s2 : CState} (h : Inv0 s2) (v nv : Nat) (cfq : X) (hq : cfq.vars = [])
    (hv : v < s2.vars.length) (hnv : nv < s2.vars.length) (hfresh : ∀ e0 ∈ s2.equations, defKey e0 < nv)
    (hvnv : v < nv) :
    (instInput s2 v nv cfq).equations =
      (match s2.varDef.lookup v with
       | some oe => s2.equations.erase oe ++ [⟨.var nv, .mul oe.rhs cfq⟩, ⟨.var v, .div (.var nv) cfq⟩]
       | none => s2.equations ++ [⟨.var v, .div (.var nv) cfq⟩]) ∧
    (instInput s2 v nv cfq).vars.length = s2.vars.length ∧ Inv0 (instInput s2 v nv cfq) := by
  -- the state after the optional replacement of the definition
  have h3 : ∃ s3 : CState, s3 = (match s2.varDef.lookup v with
        | some oe => addEq (removeEq s2 oe) ⟨.var nv, .mul oe.rhs cfq⟩ true
        | none => s2) ∧
      s3.equations = (match s2.varDef.lookup v with
        | some oe => s2.equations.erase oe ++ [⟨.var nv, .mul oe.rhs cfq⟩]
        | none => s2.equations) ∧ s3.vars = s2.vars ∧ Inv0 s3 ∧
      (∀ e0 ∈ s3.equations, keyKind e0 ≠ (false, v)) ∧
      (hasKey v s3.odeDef = hasKey v s2.odeDef) := by
    cases hlk : s2.varDef.lookup v with
    | none =>
      refine ⟨s2, rfl, rfl, rfl, h, ?_, rfl⟩
      intro e0 he0 hk
      cases hl0 : e0.lhs with
      | var v0 =>
        rw [keyKind_var hl0] at hk
        have : v0 = v := by simpa using hk
        subst this
        exact h.lookup_varDef_none _ hlk e0 he0 hl0
      | deriv x t => rw [keyKind_deriv hl0] at hk; simp at hk
    | some oe =>
      obtain ⟨hoe, hoel⟩ := (h.lookup_varDef v oe).mp hlk
      obtain ⟨r1, r2, _, r4⟩ := removeEq_ok h oe hoe
      have hfresh' : ∀ e0 ∈ (removeEq s2 oe).equations, defKey e0 < nv := by
        rw [r1]; intro e0 he0; exact hfresh e0 (List.mem_of_mem_erase he0)
      have hfk := fresh_of_lt (e := ⟨.var nv, .mul oe.rhs cfq⟩) hfresh' (by simp [defKey, keyKind])
      have hsc : EqScoped (removeEq s2 oe).vars.length ⟨.var nv, .mul oe.rhs cfq⟩ := by
        rw [r2, eqScoped_iff]
        have := (eqScoped_iff _ _).mp (h.scopedE oe hoe)
        simp only [CLhs.vars, X.vars, hq, List.append_nil, List.mem_cons, List.not_mem_nil, or_false]
        exact ⟨fun i hi => by rw [hi]; exact hnv, this.2⟩
      obtain ⟨a1, a2, _, a4⟩ := addEq_ok r4 _ true hsc hfk.1 (fun _ => hfk.2)
      refine ⟨_, rfl, by rw [a1, r1], by rw [a2, r2], a4, ?_, ?_⟩
      · rw [a1, r1]
        intro e0 he0 hk
        rcases List.mem_append.mp he0 with he0 | he0
        · exact key_absent_after_erase h oe hoe e0 he0 (by rw [hk, keyKind_var hoel])
        · simp only [List.mem_cons, List.not_mem_nil, or_false] at he0
          rw [he0] at hk; simp [keyKind] at hk; omega
      · cases hb : hasKey v s2.odeDef with
        | true =>
          obtain ⟨e0, he0, t, ht⟩ := (h.hasKey_odeDef v).mp hb
          refine (a4.hasKey_odeDef v).mpr ⟨e0, ?_, t, ht⟩
          rw [a1, r1]; apply List.mem_append_left
          exact (List.mem_erase_of_ne (by intro hee; rw [hee, hoel] at ht; cases ht)).mpr he0
        | false =>
          cases hb' : hasKey v (addEq (removeEq s2 oe) ⟨.var nv, .mul oe.rhs cfq⟩ true).odeDef with
          | false => rfl
          | true =>
            obtain ⟨e0, he0, t, ht⟩ := (a4.hasKey_odeDef v).mp hb'
            rw [a1, r1] at he0
            rcases List.mem_append.mp he0 with he0 | he0
            · have := (h.hasKey_odeDef v).mpr ⟨e0, List.mem_of_mem_erase he0, t, ht⟩
              rw [hb] at this; cases this
            · simp only [List.mem_cons, List.not_mem_nil, or_false] at he0
              rw [he0] at ht; cases ht
  obtain ⟨s3, hs3, e3, v3, i3, k3, o3⟩ := h3
  have hin : instInput s2 v nv cfq =
      addEq { s3 with vars := setV s3.vars v (fun x => { x with init := none }) } ⟨.var v, .div (.var nv) cfq⟩
        (!hasKey v s3.odeDef) := by rw [hs3]; rfl
  rw [hin]
  -- dropping the initial value
  have i4 : Inv0 { s3 with vars := setV s3.vars v (fun x => { x with init := none }) } :=
    i3.congr rfl rfl rfl rfl (by simp [length_setV])
  have hsc : EqScoped ({ s3 with vars := setV s3.vars v (fun x => { x with init := none }) } : CState).vars.length
      ⟨.var v, .div (.var nv) cfq⟩ := by
    rw [eqScoped_iff]; simp [CLhs.vars, X.vars, hq, length_setV, v3, hv, hnv]
  have hk4 : ∀ e0 ∈ ({ s3 with vars := setV s3.vars v (fun x => { x with init := none }) } : CState).equations,
      keyKind e0 ≠ keyKind ⟨.var v, .div (.var nv) cfq⟩ := by
    intro e0 he0; simpa [keyKind] using k3 e0 he0
  have hc4 : (!hasKey v ({ s3 with vars := setV s3.vars v (fun x => { x with init := none }) } : CState).odeDef) = true →
      ∀ e0 ∈ ({ s3 with vars := setV s3.vars v (fun x => { x with init := none }) } : CState).equations,
        defKey e0 ≠ defKey ⟨.var v, .div (.var nv) cfq⟩ := by
    intro hchk e0 he0 hk
    have hdk : defKey (⟨.var v, .div (.var nv) cfq⟩ : CEqn) = v := by simp [defKey, keyKind]
    rw [hdk] at hk
    cases hl0 : e0.lhs with
    | var v0 =>
      rw [defKey_var hl0] at hk; subst hk
      exact k3 e0 he0 (keyKind_var hl0)
    | deriv x t =>
      rw [defKey_deriv hl0] at hk; subst hk
      have := (i3.hasKey_odeDef x).mpr ⟨e0, he0, t, hl0⟩
      simp only [Bool.not_eq_true'] at hchk
      rw [hchk] at this; cases this
  obtain ⟨a1, a2, _, a4⟩ := addEq_ok i4 _ _ hsc hk4 hc4
  refine ⟨?_, by rw [a2]; simp [length_setV, v3], a4⟩
  rw [a1]
  show s3.equations ++ _ = _
  rw [e3]
  cases s2.varDef.lookup v <;> simp

/-- `_convert_variable_instance` on a state satisfying the invariant: the new variable, the equation list, and the
    invariant afterwards -/
theorem convertInstance_spec {s : CState} (h : Inv0 s) (v : Nat) (hv : v < s.vars.length) (cf : Rat) (u : U)
    (dir : Dir) (move : Bool) :
    (convertInstance s v cf u dir move).2 = s.vars.length ∧
    (convertInstance s v cf u dir move).1.equations = instEqs s v (cfQ s v u cf) dir ∧
    (convertInstance s v cf u dir move).1.vars.length = s.vars.length + 1 ∧
    Inv0 (convertInstance s v cf u dir move).1 := by
  unfold convertInstance
  rw [addVariable_eq _ _ _ _ (freshName_fresh s _)]
  dsimp only
  have hxc : (⟨freshName s (nameOfV s v ++ "_converted"), u, newInit s v cf dir, none⟩ : CVar).cmeta = none := rfl
  generalize (⟨freshName s (nameOfV s v ++ "_converted"), u, newInit s v cf dir, none⟩ : CVar) = x at hxc ⊢
  have h1 : Inv0 { s with vars := s.vars ++ [x] } := h.addVar x
  obtain ⟨e2, vd2, _, l2, i2⟩ := xfer_ok h1 v s.vars.length move (cmetaOfV_new s x hxc)
  generalize (if (cmetaOfV { s with vars := s.vars ++ [x] } v).isSome && move
      then transferCmeta { s with vars := s.vars ++ [x] } v s.vars.length else { s with vars := s.vars ++ [x] }) = s2
    at e2 vd2 l2 i2 ⊢
  have l2' : s2.vars.length = s.vars.length + 1 := by rw [l2]; simp
  have e2' : s2.equations = s.equations := e2
  have vd2' : s2.varDef = s.varDef := vd2
  have hfresh : ∀ e0 ∈ s2.equations, defKey e0 < s.vars.length := by
    rw [e2']; intro e0 he0; exact h.defKey_lt he0
  cases dir with
  | output =>
    obtain ⟨a, b, c⟩ := instOutput_spec i2 v s.vars.length (cfQ s v u cf) rfl (by omega) (by omega) hfresh
    refine ⟨rfl, ?_, ?_, c⟩
    · exact a.trans (by rw [e2']; rfl)
    · exact (congrArg List.length b).trans l2'
  | input =>
    obtain ⟨a, b, c⟩ := instInput_spec i2 v s.vars.length (cfQ s v u cf) rfl (by omega) (by omega) hfresh hv
    refine ⟨rfl, ?_, ?_, c⟩
    · exact a.trans (by rw [e2', vd2']; rfl)
    · exact b.trans l2'

end Model.CV
