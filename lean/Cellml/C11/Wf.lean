import Cellml.C11.Printer

/-! C11 — the printer's domain: well-sorted SymPy trees (numbers where numbers are expected, truth values where
    truth values are expected, argument lists that are lists), and the level invariants of the induction. -/
namespace C11

/-- A arithmetic, B boolean, P (value, condition) pair of a Piecewise -/
inductive Srt | A | B | P
deriving Repr, DecidableEq

def isList : E → Bool
  | .nil | .cons _ _ => true
  | _ => false

def toList : E → List E
  | .cons h t => h :: toList t
  | _ => []

/-- `And`/`Or` have at least two arguments -/
def twoPlus : E → Bool
  | .cons _ (.cons _ _) => true
  | _ => false

def wf : Srt → E → Bool
  | s, .sym n _ => s != .P && n != "True" && n != "False"
  | s, .int _ => s == .A
  | s, .rat _ q => s == .A && decide (q ≥ 2)
  | s, .flt t n => s == .A && fltOK t n
  | s, .pi | s, .e1 | s, .deriv _ _ => s == .A
  | s, .tt | s, .ff => s == .B
  | s, .add a | s, .mul a | s, .fn _ a => s == .A && isList a && wf .A a
  | s, .pow b x => s == .A && !isList b && !isList x && wf .A b && wf .A x
  | s, .rel r a b => s == .B && !isList a && !isList b && ((wf .A a && wf .A b) || ((r == .eq || r == .ne) && wf .B a && wf .B b))
  | s, .and a | s, .or a => s == .B && isList a && wf .B a && twoPlus a
  | s, .pw ps => s == .A && isList ps && wf .P ps
  | s, .pair v c => s == .P && !isList v && !isList c && wf .A v && wf .B c
  | _, .other _ => true
  | _, .nil => true
  | s, .cons h t => wf s h && !isList h && isList t && wf s t

/-- precedence as `_bracket` sees it -/
def precA (e : E) : Nat := if isRecip e then prec e - 1 else prec e

theorem bracket_eq (e : E) (d : Doc) (p : Nat) : bracket e d p = if precA e < p then .paren d else d := rfl

/-- what SymPy's precedence of an arithmetic term promises about the Python level of its printed form -/
def LvA (e : E) (d : Doc) : Prop :=
  40 ≤ level d ∧ (50 ≤ precA e → 50 ≤ level d) ∧ (60 ≤ precA e → 55 ≤ level d) ∧ (61 ≤ precA e → 100 ≤ level d)

def LvB (e : E) (d : Doc) : Prop :=
  20 ≤ level d ∧ (30 ≤ precA e → 30 ≤ level d) ∧ (31 ≤ precA e → 35 ≤ level d) ∧ (51 ≤ precA e → 100 ≤ level d)

def Lv : Srt → E → Doc → Prop
  | .A, e, d => LvA e d
  | .B, e, d => LvB e d
  | .P, _, _ => True

/-- the statement proved by induction for every node that is not an argument list -/
def Q (e : E) : Prop :=
  isList e = true ∨ ∀ s, wf s e = true → (pr e).st = .ok → PyOK (pr e).doc = true ∧ Lv s e (pr e).doc

/-- sub-terms whose printed form a grandparent uses: the factors of a product, the base of a power, both halves of a
    Piecewise pair -/
def kids : E → List E
  | .mul a => toList a
  | .pow b _ => [b]
  | .pair v c => [v, c]
  | _ => []

/-- the statement for a node, its kids and their kids (a product looks at the base of a power among the factors of a
    factor that is itself a product) -/
def Deep (e : E) : Prop := Q e ∧ ∀ c ∈ kids e, (Q c ∧ ∀ c' ∈ kids c, Q c')

def M (e : E) : Prop := Deep e ∧ ∀ h ∈ toList e, Deep h

/-- the Item a parent receives for the argument `h` -/
def mk (h : E) : Item := ⟨h, (pr h).st, (pr h).doc, (pr h).base, (pr h).items.map Item.one⟩

/-- a `cons`-chain ending in `nil` -/
def proper : E → Bool
  | .nil => true
  | .cons _ t => proper t
  | _ => false

theorem proper_of_wf (s : Srt) (l : E) (hl : isList l = true) (h : wf s l = true) : proper l = true := by
  induction l with
  | nil => rfl
  | cons a t _ iht =>
      simp only [wf, Bool.and_eq_true] at h
      simp only [proper]
      exact iht h.1.2 h.2
  | _ => simp [isList] at hl

theorem items_list (l : E) (hl : proper l = true) : (pr l).items = (toList l).map mk := by
  induction l with
  | nil => simp [pr, okDoc, toList]
  | cons h t _ iht =>
      simp only [proper] at hl
      simp only [pr, toList, List.map_cons, iht hl, mk]
  | _ => simp [proper] at hl

theorem st_list (l : E) (hl : proper l = true) (h : (pr l).st = .ok) : ∀ x ∈ toList l, (pr x).st = .ok := by
  induction l with
  | nil => simp [toList]
  | cons a t _ iht =>
      simp only [proper] at hl
      simp only [pr] at h
      have h2 : (pr a).st = .ok ∧ (pr t).st = .ok := by
        revert h; cases (pr a).st <;> cases (pr t).st <;> simp [Status.join]
      intro x hx
      simp only [toList, List.mem_cons] at hx
      rcases hx with rfl | hx
      · exact h2.1
      · exact iht hl h2.2 x hx
  | _ => simp [proper] at hl

theorem wf_list (s : Srt) (l : E) (h : wf s l = true) : ∀ x ∈ toList l, wf s x = true ∧ isList x = false := by
  induction l with
  | cons a t _ iht =>
      simp only [wf, Bool.and_eq_true, Bool.not_eq_true'] at h
      intro x hx
      simp only [toList, List.mem_cons] at hx
      rcases hx with rfl | hx
      · exact ⟨h.1.1.1, h.1.1.2⟩
      · exact iht h.2 x hx
  | _ => simp [toList]

theorem join_ok (a b : Status) : a.join b = .ok ↔ a = .ok ∧ b = .ok := by
  cases a <;> cases b <;> simp [Status.join]

end C11
