"""Code-translator spec (see harness/translate_code.py and harness/code_specs/__init__.py).

Parser._add_relationships / Parser._handle_component_ref (encapsulation groups -> parent of every component)
= Load.buildParents on the <component_ref> edges in document pre-order. Tie: lean/Cellml/Tie/LoaderRel.lean.

The recursion of _handle_component_ref is OPEN (`rec`): the tie shows that the hand model is a fixpoint of the
generated functional. The parser's state (`self.components[...]`: parent, encapsulated) is threaded as `st`."""

_REC = ('self._handle_component_ref(__A, __B)', 'st ← rec {A} {B} st')
_REFS = ('__A.findall(with_ns(XmlNs.CELLML, \'component_ref\'))', '({A}).refs')

GROUP = {'name': 'LoaderRel',
 'imports': ['Cellml.Tie.LoaderView'],
 'header': 'open Load',
 'functions': [{'file': 'cellmlmanip/parser.py',
                'func': 'Parser._handle_component_ref',
                'lean_name': 'handleComponentRef',
                'params': ['rec', 'self', 'parent_tag', 'parent_component', 'st'],
                'loop_state': ['st'],
                'mutable': ['siblings'],
                'signature': '(rec : Elem → Option String → RelState → Except PyErr RelState) (self : RelView) '
                             '(parent_tag : Elem) (parent_component : Option String) (st : RelState) : '
                             'Except PyErr RelState',
                'patterns': [_REFS,
                             ('__A.attrib.get(\'component\')', '({A}).component'),
                             ('itertools.product(__A, __B)', '(pyProduct {A} {B})'),
                             # `siblings = []`: a list of component names
                             ('[]', '([] : List String)')],
                'stmt_patterns': [_REC,
                                  ('siblings.append(__A)', 'siblings := siblings ++ [{A}]'),
                                  ('self.components[__A].add_encapsulated(__B)', 'st ← addEncapsulated self st {A} {B}'),
                                  ('self.components[__A].set_parent(__B)', 'st ← setParent self st {A} {B}'),
                                  ('self.components[__A].add_sibling(__B)', 'st := noteSibling st {A} {B}')]},
               {'file': 'cellmlmanip/parser.py',
                'func': 'Parser._add_relationships',
                'lean_name': 'addRelationships',
                'params': ['rec', 'self', 'model', 'st'],
                'loop_state': ['st'],
                'signature': '(rec : Elem → Option String → RelState → Except PyErr RelState) (self : RelView) '
                             '(model : ModelElem) (st : RelState) : Except PyErr RelState',
                'patterns': [('__A.findall(with_ns(XmlNs.CELLML, \'group\'))', '({A}).groups'),
                             ('__A.findall(with_ns(XmlNs.CELLML, \'relationship_ref\'))', '({A}).relationships'),
                             # guarded by `len(relationship_ref) != 1` just before: [0] cannot raise
                             ('__A[0].attrib.get(\'relationship\')', '(List.headD {A} none)')],
                'stmt_patterns': [_REC]}]}
