import Cellml.Props.C13
import Cellml.Tie.RdfQ

/-! # C13, stated about the GENERATED annotation / RDF queries (`Generated/Code/RdfQ.lean`)

    Corollaries of the ties of `Tie/RdfQ.lean` (and, for the consistency with `get_variable_by_ontology_term`, of
    `Tie/CmetaQ.lean`) and of the theorems of `Props/C13.lean` about the hand model. Every statement is about the
    definitions generated from the python source, for ALL states (satisfying the invariant where it is needed) and ALL
    arguments. -/

namespace Cellml.Props.C13GenQ
open Model Model.RdfQ
open Cellml.Tie (PyErr errClass)
open Cellml.Tie.PCmeta (RdfArg lErrCls)
open Cellml.Tie.PRdfQ
open Cellml.Gen

/-- `get_ontology_terms_by_variable(v, ns)` never raises, and lists exactly the local names of the objects of the
    triples whose subject is the id `v` carries now (its rdf identity `#id`), whose predicate is `bqbiol:is` and whose
    object starts with `ns` (when a namespace is given) -/
theorem gen_terms_exact (a : AState) (v : Nat) (ns : Option String) :
    ∃ l, Gen.RdfQ.getOntologyTermsByVariable a v ns = .ok l ∧
      ∀ x, x ∈ l ↔
        ∃ t ∈ a.rdf, cmetaOf a.m v = some t.subj ∧ t.pred = bqbiolIs ∧ nsOk ns t.obj = true ∧ localName t.obj.text = x :=
  ⟨termsOf a v ns, getOntologyTermsByVariable_tie a v ns, fun x => C13.annotations_reachable a v ns x⟩

/-- a variable without cmeta id has no terms -/
theorem gen_terms_no_id (a : AState) (v : Nat) (ns : Option String) (h : cmetaOf a.m v = none) :
    Gen.RdfQ.getOntologyTermsByVariable a v ns = .ok [] := by
  rw [getOntologyTermsByVariable_tie]
  simp [termsOf, annotationsOf, h]

/-- `has_ontology_annotation(v, ns)` never raises and is true exactly when `get_ontology_terms_by_variable(v, ns)` is
    not empty -/
theorem gen_has_iff (a : AState) (v : Nat) (ns : Option String) :
    ∃ b l, Gen.RdfQ.hasOntologyAnnotation a v ns = .ok b ∧ Gen.RdfQ.getOntologyTermsByVariable a v ns = .ok l ∧
      (b = true ↔ l ≠ []) := by
  refine ⟨_, _, hasOntologyAnnotation_tie a v ns, getOntologyTermsByVariable_tie a v ns, ?_⟩
  unfold hasAnnotation
  cases termsOf a v ns <;> simp

/-- … hence false for a variable without cmeta id -/
theorem gen_has_no_id (a : AState) (v : Nat) (ns : Option String) (h : cmetaOf a.m v = none) :
    Gen.RdfQ.hasOntologyAnnotation a v ns = .ok false := by
  rw [hasOntologyAnnotation_tie]
  simp [hasAnnotation, termsOf, annotationsOf, h]

/-- `create_rdf_node('#' + id)` is the URIRef, never a Literal (so `Variable._set_cmeta_id` gives every variable with
    an id a resource as rdf identity, which is what the subjects of the graph are compared with) -/
theorem gen_fragment_is_uri (c : String) :
    Gen.RdfQ.createRdfNode (.str ("#" ++ c)) = .ok (.node (.uri ("#" ++ c))) ∧
    ∀ x, Gen.RdfQ.createRdfNode (.str ("#" ++ c)) ≠ .ok (.node (.lit x)) := by
  refine ⟨createRdfNode_fragment c, fun x h => ?_⟩
  rw [createRdfNode_fragment] at h
  injection h with h
  injection h with h
  cases h

/-- `_set_cmeta_id` keeps `rdf_identity` in step with `_cmeta_id`: `None` with `None`, `URIRef('#' + c)` with `c` -/
theorem gen_identity_follows_id (o : VarObj) (c : Option String) :
    ∃ o', Gen.RdfQ.setCmetaId o c = .ok o' ∧ o'._cmeta_id = c ∧
      Gen.RdfQ.rdfIdentity o' = .ok (c.map (fun c => RNode.uri ("#" ++ c))) :=
  ⟨_, setCmetaId_tie o c, rfl, rfl⟩

/-- consistency of the two directions: when `get_variable_by_ontology_term(term)` (generated, CmetaQ) returns `v`, the
    local name of `term` is among `get_ontology_terms_by_variable(v)` (generated, RdfQ) -/
theorem gen_term_roundtrip (a : AState) (h : AInv a) (term : RNode) (v : Nat)
    (hv : CmetaQ.getVariableByOntologyTerm a (.node term) = .ok v) :
    ∃ l, Gen.RdfQ.getOntologyTermsByVariable a v none = .ok l ∧ localName term.text ∈ l := by
  refine ⟨termsOf a v none, getOntologyTermsByVariable_tie a v none, ?_⟩
  rw [Cellml.Tie.PCmeta.getVariableByOntologyTerm_tie] at hv
  apply (C13.lookup_term a h term).2.2 v
  cases hb : byTerm a term with
  | error e => rw [hb] at hv; cases hv
  | ok w =>
    rw [hb] at hv
    simp only [errClass] at hv
    injection hv with hv
    rw [hv]

/-- `get_rdf_value(s, p)` returns only the (stripped) text of a literal that is the object of the ONE triple matching
    `(s, p, None)`; in every other case it raises AssertionError -/
theorem gen_value_spec (a : AState) (s p : RdfArg) (x : String) (h : Gen.RdfQ.getRdfValue a s p = .ok x) :
    ∃ t y, Gen.RdfQ.getRdfAnnotations a s p .none = .ok [t] ∧ t.obj = .lit y ∧ x = strip y := by
  rw [getRdfValue_tie] at h
  rw [getRdfAnnotations_tie]
  have hn : patOf RdfArg.none = none := rfl
  rw [hn]
  unfold rdfValue at h
  match hm : annotations a (patOf s) (patOf p) none, h with
  | [], h => simp [errClass] at h
  | [t], h =>
    cases ho : t.obj with
    | uri u => simp [ho, errClass] at h
    | lit y =>
      simp only [ho, errClass] at h
      injection h with h
      exact ⟨t, y, rfl, ho, h.symm⟩
  | _ :: _ :: _, h => simp [errClass] at h

/-- `add_rdf` (generated) of a document that parses keeps the invariant of C13 (hence the bijection between ids and
    live variables), and leaves the variables alone -/
theorem gen_addRdf_inv (a : AState) (h : AInv a) (ts : List Triple) :
    ∃ a', Gen.RdfQ.addRdf ⟨some ts⟩ a = (.ok (), a') ∧ AInv a' ∧ a'.m = a.m := by
  refine ⟨addRdfDoc a ts, addRdf_tie a ts, ?_⟩
  unfold addRdfDoc
  induction ts generalizing a with
  | nil => exact ⟨h, rfl⟩
  | cons t r ih =>
    have h1 : AInv (Model.addRdf a t) := ainv_step h (.addRdf t)
    have h2 : (Model.addRdf a t).m = a.m := by unfold Model.addRdf; split <;> rfl
    obtain ⟨i1, i2⟩ := ih (Model.addRdf a t) h1
    exact ⟨i1, i2.trans h2⟩

end Cellml.Props.C13GenQ
