import Cellml.Basic.Sexp
/-! Channel C11 of the model driver (stub: not built yet). -/
namespace C11
def handle (_args : List Sexp) : Sexp := .atom "not-implemented"
end C11
