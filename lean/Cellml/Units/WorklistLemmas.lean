import Cellml.Units.Worklist

/-! Facts about the work list that do not look inside the registry:
    * the well-founded loop agrees with the fuel-bounded loop once the budget is `stepBound` (termination with a bound);
    * a successful run of the loop IS a sequential addition along some permutation of the deque in which every
      definition is ready when its turn comes (`loop_ok_seq`);
    * what a successful sequential addition implies about names (fresh, unique, never built-in), offsets, and the
      order (every reference is defined earlier) — from which the rejection theorems follow. -/

namespace Units

/-! ### termination with an explicit bound -/

theorem tri_double (n : Nat) : 2 * tri n = n * (n + 1) := by
  induction n with
  | zero => rfl
  | succ n ih =>
      simp only [tri]
      rw [Nat.mul_add, ih]
      simp only [Nat.mul_add, Nat.add_mul, Nat.mul_one, Nat.one_mul]
      omega

theorem loopFuel_eq_loop : ∀ (fuel : Nat) (reg : Registry) (st : Store) (dq : List UDef) (it : Nat)
    (hit : it ≤ dq.length), stepBound dq.length it ≤ fuel →
    loopFuel fuel reg st dq it = some (loop reg st dq it hit) := by
  intro fuel
  induction fuel with
  | zero => intro reg st dq it hit hf; simp [stepBound] at hf
  | succ fuel ih =>
      intro reg st dq it hit hf
      cases dq with
      | nil => rw [loop]; rfl
      | cons d rest =>
          rw [loop]
          simp only [loopFuel]
          by_cases hr : ready st d = true
          · simp only [hr, if_true]
            cases hn : addNow reg st d with
            | error e => rfl
            | ok p =>
                obtain ⟨reg', st'⟩ := p
                simp only
                apply ih
                simp only [stepBound, List.length_cons, tri] at hf hit ⊢
                omega
          · simp only [hr, Bool.false_eq_true, if_false]
            by_cases hgt : it + 1 > (rest ++ [d]).length
            · simp only [hgt, if_true, dite_true]
            · simp only [hgt, if_false, dite_false]
              apply ih
              simp only [stepBound, List.length_cons, List.length_append, List.length_nil, tri] at hf hgt hit ⊢
              omega

/-! ### a successful loop is a sequential addition along a permutation of the deque -/

/-- add the definitions one after the other, in the given order; each must be ready when its turn comes -/
def seqAdd (reg : Registry) (st : Store) : List UDef → Except AddErr (Registry × Store)
  | [] => .ok (reg, st)
  | d :: ds =>
      if ready st d then
        match addNow reg st d with
        | .ok (reg', st') => seqAdd reg' st' ds
        | .error e => .error e
      else .error stuck

theorem loop_ok_seq (reg : Registry) (st : Store) (dq : List UDef) (it : Nat) (hit : it ≤ dq.length) :
    ∀ (r : Registry × Store), loop reg st dq it hit = .ok r →
    ∃ ord, ord.Perm dq ∧ seqAdd reg st ord = .ok r := by
  fun_induction loop reg st dq it hit with
  | case1 reg st it hit _ =>
      intro r h
      refine ⟨[], List.Perm.refl _, ?_⟩
      simpa [seqAdd] using h
  | case2 reg st it d rest hit hr reg' st' hn _ ih =>
      intro r h
      obtain ⟨ord, hp, hs⟩ := ih r h
      refine ⟨d :: ord, List.Perm.cons d hp, ?_⟩
      simp only [seqAdd, hr, if_true, hn]
      exact hs
  | case3 reg st it d rest hit hr e hn _ => intro r h; cases h
  | case4 reg st it d rest hit hr hgt _ => intro r h; cases h
  | case5 reg st it d rest hit hr hgt _ ih =>
      intro r h
      obtain ⟨ord, hp, hs⟩ := ih r h
      exact ⟨ord, hp.trans (List.perm_append_singleton d rest), hs⟩

/-! ### `add_unit` / `add_now` succeed exactly under these conditions -/
open PMap

/-- a definition whose value exists has no refused offset (the offset test is part of `elemMeaning`) -/
theorem elemMeaning_ok_offset {id : Nat} {e : UnitElem} {r : Scale × Container × Bool}
    (h : elemMeaning id e = .ok r) : elemOffsetBad e = false := by
  unfold elemMeaning at h
  simp only [bind, Except.bind, pure, Except.pure, throw, throwThe, MonadExceptOf.throw] at h
  repeat' split at h
  all_goals cases h
  all_goals simp only [elemOffsetBad, Bool.not_eq_true, *] at *

theorem defMeaning_ok_offset {id : Nat} : ∀ {elems : List UnitElem} {r : Scale × Container × Bool},
    defMeaning id elems = .ok r → elems.any elemOffsetBad = false := by
  intro elems
  induction elems with
  | nil => intro r _; rfl
  | cons e es ih =>
      intro r h
      simp only [defMeaning, bind, Except.bind, pure, Except.pure] at h
      split at h
      · cases h
      · rename_i v hv
        split at h
        · cases h
        · rename_i v' hv'
          simp only [List.any_cons, elemMeaning_ok_offset hv, ih hv', Bool.or_self]

/-- `add_unit` on a name that passes the three name tests and an expression all of whose identifiers resolve -/
theorem addUnitWith_pass {m : Except DefErr (Scale × Container × Bool)} {reg : Registry} {st : Store} {name : String}
    (h1 : Cellml.Gen.cellmlUnits.contains name = false) (h2 : st.known.contains name = false)
    (h3 : Cellml.Gen.unsupportedUnits.contains name = false) :
    addUnitWith true m reg st name =
      match m with
      | .error .offset => .error (.valueError "offset")
      | .error (.badNumber w) => .error (.badDefinition w)
      | .error (.unsupported w) => .error (.unsupported w)
      | .ok (k, c, md) =>
        if norm c = [] then
          .ok ((prefixName st.id name, .derived (norm k) []) :: reg, { st with known := name :: st.known })
        else if md then .error (.unsupported "dimensionless mixed with dimensional units")
        else .ok ((prefixName st.id name, .derived (norm k) (norm c)) :: reg, { st with known := name :: st.known }) := by
  unfold addUnitWith
  simp only [h1, h2, h3, Bool.false_eq_true, if_false, Bool.not_true]
  rfl

theorem addUnitWith_ok {refs : Bool} {m : Except DefErr (Scale × Container × Bool)} {reg : Registry} {st : Store}
    {name : String} {r : Registry × Store} (h : addUnitWith refs m reg st name = .ok r) :
      ∃ k c md, m = .ok (k, c, md) ∧
        Cellml.Gen.cellmlUnits.contains name = false ∧ st.known.contains name = false ∧
        Cellml.Gen.unsupportedUnits.contains name = false ∧
        refs = true ∧ (md = true → norm c = []) ∧
        r = ((prefixName st.id name, .derived (norm k) (norm c)) :: reg, { st with known := name :: st.known }) := by
  unfold addUnitWith at h
  by_cases h1 : Cellml.Gen.cellmlUnits.contains name = true
  · rw [if_pos h1] at h; cases h
  rw [if_neg h1] at h
  by_cases h2 : st.known.contains name = true
  · rw [if_pos h2] at h; cases h
  rw [if_neg h2] at h
  by_cases h3 : Cellml.Gen.unsupportedUnits.contains name = true
  · rw [if_pos h3] at h; cases h
  rw [if_neg h3] at h
  by_cases h4 : (!refs) = true
  · rw [if_pos h4] at h; cases h
  rw [if_neg h4] at h
  simp only [Bool.not_eq_true, Bool.not_eq_eq_eq_not, Bool.not_true] at h1 h2 h3 h4
  have h4 : refs = true := by cases refs <;> simp_all
  cases m with
  | error e => cases e <;> cases h
  | ok p =>
    obtain ⟨k, c, md⟩ := p
    dsimp only at h
    refine ⟨k, c, md, rfl, h1, h2, h3, h4, ?_⟩
    by_cases h5 : norm c = []
    · rw [if_pos h5] at h
      simp only [Except.ok.injEq] at h
      refine ⟨fun _ => h5, ?_⟩
      rw [h5]; exact h.symm
    · rw [if_neg h5] at h
      by_cases h6 : md = true
      · rw [if_pos h6] at h; cases h
      rw [if_neg h6] at h
      simp only [Except.ok.injEq] at h
      exact ⟨fun hm => absurd hm h6, h.symm⟩

/-- `addUnit` past its offset test -/
theorem addUnit_noOffset {reg : Registry} {st : Store} {name : String} {elems : List UnitElem}
    (h : elems.any elemOffsetBad = false) :
    addUnit reg st name elems = addUnitWith (refsKnown reg st.id elems) (defMeaning st.id elems) reg st name := by
  unfold addUnit
  rw [if_neg (by rw [h]; exact Bool.false_ne_true)]

theorem addUnit_ok {reg : Registry} {st : Store} {name : String} {elems : List UnitElem} {r : Registry × Store}
    (h : addUnit reg st name elems = .ok r) :
      ∃ k c md, defMeaning st.id elems = .ok (k, c, md) ∧
        Cellml.Gen.cellmlUnits.contains name = false ∧ st.known.contains name = false ∧
        Cellml.Gen.unsupportedUnits.contains name = false ∧
        refsKnown reg st.id elems = true ∧ (md = true → norm c = []) ∧
        r = ((prefixName st.id name, .derived (norm k) (norm c)) :: reg, { st with known := name :: st.known }) := by
  unfold addUnit at h
  by_cases h0 : elems.any elemOffsetBad = true
  · rw [if_pos h0] at h; cases h
  rw [if_neg h0] at h
  exact addUnitWith_ok h

theorem addUnit_of {reg : Registry} {st : Store} {name : String} {elems : List UnitElem} {k : Scale} {c : Container}
    {md : Bool} (hd : defMeaning st.id elems = .ok (k, c, md))
    (h1 : Cellml.Gen.cellmlUnits.contains name = false) (h2 : st.known.contains name = false)
    (h3 : Cellml.Gen.unsupportedUnits.contains name = false) (h4 : refsKnown reg st.id elems = true)
    (h5 : md = true → norm c = []) :
    addUnit reg st name elems =
      .ok ((prefixName st.id name, .derived (norm k) (norm c)) :: reg, { st with known := name :: st.known }) := by
  rw [addUnit_noOffset (defMeaning_ok_offset hd), h4, addUnitWith_pass h1 h2 h3, hd]
  dsimp only
  by_cases h6 : norm c = []
  · simp [h6]
  · simp only [h6, if_false]
    cases md with
    | true => exact absurd (h5 rfl) h6
    | false => simp

theorem addNow_ok {reg : Registry} {st : Store} {d : UDef} {r : Registry × Store} (h : addNow reg st d = .ok r) :
    d.elems.any elemOffsetBad = false ∧ st.isDefined d.name = false ∧
      Cellml.Gen.unsupportedUnits.contains d.name = false ∧ refsResolve reg st d = true ∧
      addUnit reg st d.name d.elems = .ok r := by
  unfold addNow at h
  by_cases h1 : d.elems.any elemOffsetBad = true
  · rw [if_pos h1] at h; cases h
  rw [if_neg h1] at h
  by_cases h2 : st.isDefined d.name = true
  · rw [if_pos h2] at h; cases h
  rw [if_neg h2] at h
  simp only [Bool.not_eq_true] at h1 h2
  obtain ⟨_, _, _, _, _, _, h3, h4, _, _⟩ := addUnit_ok h
  exact ⟨h1, h2, h3, h4, h⟩

theorem addNow_of {reg : Registry} {st : Store} {d : UDef} (h1 : d.elems.any elemOffsetBad = false)
    (h2 : st.isDefined d.name = false) : addNow reg st d = addUnit reg st d.name d.elems := by
  unfold addNow
  rw [if_neg (by rw [h1]; exact Bool.false_ne_true), if_neg (by rw [h2]; exact Bool.false_ne_true)]

/-- what a successful `add_now` does to the state -/
theorem addNow_state {reg : Registry} {st : Store} {d : UDef} {reg' : Registry} {st' : Store}
    (h : addNow reg st d = .ok (reg', st')) :
    st' = { st with known := d.name :: st.known } ∧ st.isDefined d.name = false ∧
      ∃ K c, reg' = (prefixName st.id d.name, .derived K c) :: reg := by
  obtain ⟨_, h2, _, _, hu⟩ := addNow_ok h
  obtain ⟨k, c, md, _, _, _, _, _, _, hr⟩ := addUnit_ok hu
  simp only [Prod.mk.injEq] at hr
  exact ⟨hr.2, h2, _, _, hr.1⟩

theorem isDefined_cons {st : Store} {n m : String} :
    ({ st with known := m :: st.known } : Store).isDefined n = (st.isDefined n || n == m) := by
  simp only [Store.isDefined, List.contains_cons, Bool.or_assoc]
  cases Cellml.Gen.cellmlUnits.contains n <;> cases st.known.contains n <;> simp

/-! ### consequences of a successful sequential addition -/

/-- names only accumulate -/
theorem seqAdd_mono : ∀ (ord : List UDef) (reg : Registry) (st : Store) (reg' : Registry) (st' : Store),
    seqAdd reg st ord = .ok (reg', st') → ∀ n, st.isDefined n = true → st'.isDefined n = true := by
  intro ord
  induction ord with
  | nil => intro reg st reg' st' h n hn; simp only [seqAdd, Except.ok.injEq, Prod.mk.injEq] at h; rw [← h.2]; exact hn
  | cons d ds ih =>
      intro reg st reg' st' h n hn
      simp only [seqAdd] at h
      split at h
      · split at h
        · rename_i r1 s1 hadd
          refine ih _ _ _ _ h n ?_
          rw [(addNow_state hadd).1, isDefined_cons, hn]; rfl
        · cases h
      · cases h

/-- every definition of the order satisfies whatever a successful `add_now` guarantees -/
theorem seqAdd_forall (P : UDef → Prop) (hP : ∀ reg st d r, ready st d = true → addNow reg st d = .ok r → P d) :
    ∀ (ord : List UDef) (reg : Registry) (st : Store) (r : Registry × Store),
    seqAdd reg st ord = .ok r → ∀ d ∈ ord, P d := by
  intro ord
  induction ord with
  | nil => intro reg st r _ d hd; cases hd
  | cons d ds ih =>
      intro reg st r h x hx
      simp only [seqAdd] at h
      split at h
      · rename_i hr
        split at h
        · rename_i r1 s1 hadd
          rcases List.mem_cons.mp hx with rfl | hx
          · exact hP _ _ _ _ hr hadd
          · exact ih _ _ _ h x hx
        · cases h
      · cases h

/-- the final list of known names: the order's names, newest first, on top of the initial ones -/
theorem seqAdd_known : ∀ (ord : List UDef) (reg : Registry) (st : Store) (reg' : Registry) (st' : Store),
    seqAdd reg st ord = .ok (reg', st') →
      st'.known = (ord.map (·.name)).reverse ++ st.known ∧ st'.id = st.id := by
  intro ord
  induction ord with
  | nil => intro reg st reg' st' h; simp only [seqAdd, Except.ok.injEq, Prod.mk.injEq] at h; simp [h.2]
  | cons d ds ih =>
      intro reg st reg' st' h
      simp only [seqAdd] at h
      split at h
      · split at h
        · rename_i r1 s1 hadd
          have := ih _ _ _ _ h
          rw [(addNow_state hadd).1] at this
          simp only [List.map_cons, List.reverse_cons, List.append_assoc, List.singleton_append]
          exact this
        · cases h
      · cases h

/-- no definition of the order has a name that is defined before the run (built-in or earlier) -/
theorem seqAdd_fresh : ∀ (ord : List UDef) (reg : Registry) (st : Store) (r : Registry × Store),
    seqAdd reg st ord = .ok r → ∀ d ∈ ord, st.isDefined d.name = false := by
  intro ord
  induction ord with
  | nil => intro reg st r _ d hd; cases hd
  | cons d ds ih =>
      intro reg st r h x hx
      simp only [seqAdd] at h
      split at h
      · split at h
        · rename_i r1 s1 hadd
          rcases List.mem_cons.mp hx with rfl | hx
          · exact (addNow_state hadd).2.1
          · have h1 := ih _ _ _ h x hx
            rw [(addNow_state hadd).1, isDefined_cons] at h1
            cases hx' : st.isDefined x.name
            · rfl
            · rw [hx'] at h1; simp at h1
        · cases h
      · cases h

/-- the names of the order are pairwise different -/
theorem seqAdd_nodup : ∀ (ord : List UDef) (reg : Registry) (st : Store) (r : Registry × Store),
    seqAdd reg st ord = .ok r → (ord.map (·.name)).Nodup := by
  intro ord
  induction ord with
  | nil => intro reg st r _; exact List.nodup_nil
  | cons d ds ih =>
      intro reg st r h
      have hh := h
      simp only [seqAdd] at h
      split at h
      · split at h
        · rename_i r1 s1 hadd
          rw [List.map_cons, List.nodup_cons]
          refine ⟨?_, ih _ _ _ h⟩
          intro hmem
          obtain ⟨x, hx, hname⟩ := List.mem_map.mp hmem
          have hf := seqAdd_fresh ds _ _ _ h x hx
          rw [(addNow_state hadd).1, isDefined_cons, hname] at hf
          simp at hf
        · cases h
      · cases h

/-- the order is topological: every reference is defined before the run or by an earlier member of the order -/
theorem seqAdd_topo : ∀ (ord : List UDef) (reg : Registry) (st : Store) (r : Registry × Store),
    seqAdd reg st ord = .ok r → ∀ pre d post, ord = pre ++ d :: post →
      ∀ e ∈ d.elems, st.isDefined e.units = true ∨ e.units ∈ pre.map (·.name) := by
  intro ord
  induction ord with
  | nil => intro reg st r _ pre d post hsplit; simp at hsplit
  | cons d0 ds ih =>
      intro reg st r h pre d post hsplit e he
      simp only [seqAdd] at h
      split at h
      · rename_i hr
        split at h
        · rename_i r1 s1 hadd
          cases pre with
          | nil =>
              simp only [List.nil_append, List.cons.injEq] at hsplit
              left
              rw [← hsplit.1] at he
              exact (List.all_eq_true.mp hr) e he
          | cons p pre' =>
              simp only [List.cons_append, List.cons.injEq] at hsplit
              rcases ih _ _ _ h pre' d post hsplit.2 e he with h1 | h1
              · rw [(addNow_state hadd).1, isDefined_cons] at h1
                cases hx : st.isDefined e.units
                · rw [hx] at h1
                  right
                  simp only [Bool.false_or, beq_iff_eq] at h1
                  simp [h1, hsplit.1]
                · left; rfl
              · right; simp [h1]
        · cases h
      · cases h

/-! ### the first pass (base units) and the decomposition of a successful load -/

theorem addBaseUnit_ok {reg : Registry} {st : Store} {name : String} {r : Registry × Store}
    (h : addBaseUnit reg st name = .ok r) :
    st.isDefined name = false ∧
      r = ((prefixName st.id name, .base (some ("[" ++ prefixName st.id name ++ "]"))) :: reg,
           { st with known := name :: st.known }) := by
  unfold addBaseUnit at h
  by_cases h1 : Cellml.Gen.cellmlUnits.contains name = true
  · rw [if_pos h1] at h; cases h
  rw [if_neg h1] at h
  by_cases h2 : st.known.contains name = true
  · rw [if_pos h2] at h; cases h
  rw [if_neg h2] at h
  simp only [Except.ok.injEq] at h
  simp only [Bool.not_eq_true] at h1 h2
  exact ⟨by simp only [Store.isDefined, h1, h2, Bool.or_false], h.symm⟩

theorem addBaseUnit_of {reg : Registry} {st : Store} {name : String} (h : st.isDefined name = false) :
    addBaseUnit reg st name =
      .ok ((prefixName st.id name, .base (some ("[" ++ prefixName st.id name ++ "]"))) :: reg,
           { st with known := name :: st.known }) := by
  simp only [Store.isDefined, Bool.or_eq_false_iff] at h
  unfold addBaseUnit
  rw [if_neg (by rw [h.1]; exact Bool.false_ne_true), if_neg (by rw [h.2]; exact Bool.false_ne_true)]

/-- the base units of a document, in document order -/
def basesOf (defs : List UDef) : List UDef := defs.filter (·.base)

theorem addBases_known : ∀ (defs : List UDef) (reg : Registry) (st : Store) (reg' : Registry) (st' : Store),
    addBases reg st defs = .ok (reg', st') →
      st'.known = ((basesOf defs).map (·.name)).reverse ++ st.known ∧ st'.id = st.id := by
  intro defs
  induction defs with
  | nil => intro reg st reg' st' h; simp only [addBases, Except.ok.injEq, Prod.mk.injEq] at h; simp [basesOf, h.2]
  | cons d ds ih =>
      intro reg st reg' st' h
      simp only [addBases] at h
      split at h
      · rename_i hb
        split at h
        · rename_i r1 s1 hadd
          have h1 := (addBaseUnit_ok hadd).2
          simp only [Prod.mk.injEq] at h1
          have := ih _ _ _ _ h
          rw [h1.2] at this
          simp only [basesOf, List.filter_cons, hb, if_true, List.map_cons, List.reverse_cons, List.append_assoc,
            List.singleton_append]
          exact this
        · cases h
      · rename_i hb
        have := ih _ _ _ _ h
        simpa [basesOf, List.filter_cons, hb] using this

theorem addBases_mono : ∀ (defs : List UDef) (reg : Registry) (st : Store) (reg' : Registry) (st' : Store),
    addBases reg st defs = .ok (reg', st') → ∀ n, st.isDefined n = true → st'.isDefined n = true := by
  intro defs
  induction defs with
  | nil => intro reg st reg' st' h n hn; simp only [addBases, Except.ok.injEq, Prod.mk.injEq] at h; rw [← h.2]; exact hn
  | cons d ds ih =>
      intro reg st reg' st' h n hn
      simp only [addBases] at h
      split at h
      · split at h
        · rename_i r1 s1 hadd
          have h1 := (addBaseUnit_ok hadd).2
          simp only [Prod.mk.injEq] at h1
          refine ih _ _ _ _ h n ?_
          rw [h1.2, isDefined_cons, hn]; rfl
        · cases h
      · exact ih _ _ _ _ h n hn

theorem addBases_fresh : ∀ (defs : List UDef) (reg : Registry) (st : Store) (r : Registry × Store),
    addBases reg st defs = .ok r → ∀ d ∈ basesOf defs, st.isDefined d.name = false := by
  intro defs
  induction defs with
  | nil => intro reg st r _ d hd; simp [basesOf] at hd
  | cons d ds ih =>
      intro reg st r h x hx
      simp only [addBases] at h
      split at h
      · rename_i hb
        split at h
        · rename_i r1 s1 hadd
          simp only [basesOf, List.filter_cons, hb, if_true, List.mem_cons] at hx
          have h0 := addBaseUnit_ok hadd
          rcases hx with rfl | hx
          · exact h0.1
          · have h1 := ih _ _ _ h x hx
            have h2 := h0.2
            simp only [Prod.mk.injEq] at h2
            rw [h2.2, isDefined_cons] at h1
            cases hx' : st.isDefined x.name
            · rfl
            · rw [hx'] at h1; simp at h1
        · cases h
      · rename_i hb
        simp only [basesOf, List.filter_cons, hb] at hx
        exact ih _ _ _ h x hx

theorem addBases_nodup : ∀ (defs : List UDef) (reg : Registry) (st : Store) (r : Registry × Store),
    addBases reg st defs = .ok r → ((basesOf defs).map (·.name)).Nodup := by
  intro defs
  induction defs with
  | nil => intro reg st r _; simp [basesOf]
  | cons d ds ih =>
      intro reg st r h
      simp only [addBases] at h
      split at h
      · rename_i hb
        split at h
        · rename_i r1 s1 hadd
          simp only [basesOf, List.filter_cons, hb, if_true, List.map_cons, List.nodup_cons]
          refine ⟨?_, ih _ _ _ h⟩
          intro hmem
          obtain ⟨x, hx, hname⟩ := List.mem_map.mp hmem
          have hf := addBases_fresh ds _ _ _ h x hx
          have h2 := (addBaseUnit_ok hadd).2
          simp only [Prod.mk.injEq] at h2
          rw [h2.2, isDefined_cons, hname] at hf
          simp at hf
        · cases h
      · rename_i hb
        simpa [basesOf, List.filter_cons, hb] using ih _ _ _ h

/-- a successful load decomposes into the first pass and a sequential addition along a permutation of the deque -/
theorem addUnits_ok {id : Nat} {defs : List UDef} {r : Registry × Store} (h : addUnits id defs = .ok r) :
    ∃ reg0 st0 ord, addBases builtinRegistry { id := id, known := [] } defs = .ok (reg0, st0) ∧
      ord.Perm (queue defs) ∧ seqAdd reg0 st0 ord = .ok r := by
  unfold addUnits at h
  split at h
  · cases h
  · rename_i reg0 st0 hb
    obtain ⟨ord, hp, hs⟩ := loop_ok_seq _ _ _ _ _ _ h
    exact ⟨reg0, st0, ord, hb, hp, hs⟩

theorem mem_queue {defs : List UDef} {d : UDef} : d ∈ queue defs ↔ d ∈ defs ∧ d.base = false := by
  simp [queue]

theorem mem_basesOf {defs : List UDef} {d : UDef} : d ∈ basesOf defs ↔ d ∈ defs ∧ d.base = true := by
  simp [basesOf]

/-- bases and queue together are the document -/
theorem bases_queue_perm (defs : List UDef) : (basesOf defs ++ queue defs).Perm defs := by
  have h := List.filter_append_perm (fun d : UDef => d.base) defs
  refine List.Perm.trans ?_ h
  exact List.Perm.append_left _ (List.reverse_perm _)

end Units
