import Cellml.Basic.Sexp
import Cellml.Units.Define

/-! Wire format shared by the unit-related channels (C03, C07, C16, C19, and the unit families of C04/C05). -/

namespace Units.Wire
open Sexp

def ofPMapNat (m : PMap Nat) : Sexp :=
  .list (m.map (fun (k, e) => .list [ofNat k, ofRat e]))

def ofPMapStr (m : PMap String) : Sexp :=
  .list (m.map (fun (k, e) => .list [.str k, ofRat e]))

def ofScale (s : Scale) : Sexp := .list (.atom "scale" :: (PMap.norm s).map (fun (k, e) => .list [ofNat k, ofRat e]))
def ofContainer (tag : String) (c : Container) : Sexp :=
  .list (.atom tag :: (PMap.norm c).map (fun (k, e) => .list [.str k, ofRat e]))

/-- `(units-name :prefix p :exponent "e" :multiplier "m" :offset "o")` -/
def elem? : Sexp → Option UnitElem
  | .list (u :: rest) => do
      let name ← atomOf? u
      let f (k : String) : Option String := (kw? rest k).bind atomOf?
      some { units := name, pfx := f "prefix", exponent := f "exponent", multiplier := f "multiplier",
             offset := f "offset" }
  | _ => none

def elems? (e : Sexp) : Option (List UnitElem) := do
  let xs ← listOf? e
  xs.mapM elem?

/-- the state of a process: registries, and stores pointing at a registry -/
structure World where
  regs   : List Registry := []
  stores : List (Store × Nat) := []      -- store, index of its registry
deriving Repr

def World.regOf (w : World) (s : Nat) : Option (Store × Nat × Registry) := do
  let (st, ri) ← w.stores[s]?
  let reg ← w.regs[ri]?
  some (st, ri, reg)

def World.newStore (w : World) (share : Option Nat) : World :=
  let id := w.stores.length
  match share.bind (fun s => w.stores[s]?) with
  | some (_, ri) => { w with stores := w.stores ++ [({ id := id, known := [] }, ri)] }
  | none => { regs := w.regs ++ [builtinRegistry], stores := w.stores ++ [({ id := id, known := [] }, w.regs.length)] }

def World.update (w : World) (s : Nat) (ri : Nat) (reg : Registry) (st : Store) : World :=
  { regs := w.regs.set ri reg, stores := w.stores.set s (st, ri) }

def addErrSexp : AddErr → Sexp
  | .valueError _ => .list [.atom "err", .atom "ValueError"]
  | .undefinedUnit => .list [.atom "err", .atom "UndefinedUnitError"]
  | .badDefinition w => .list [.atom "err", .atom "BadDefinition", .str w]
  | .unsupported w => .list [.atom "unsupported", .str w]

/-- `(base s name)` or `(def s name (elems))`: apply to the world; reply `ok` or the error -/
def applyDef (w : World) : Sexp → World × Sexp
  | .list [.atom "base", s, n] =>
      match nat? s, atomOf? n with
      | some s, some name =>
          match w.regOf s with
          | some (st, ri, reg) =>
              match addBaseUnit reg st name with
              | .ok (reg', st') => (w.update s ri reg' st', .atom "ok")
              | .error e => (w, addErrSexp e)
          | none => (w, .atom "bad-store")
      | _, _ => (w, .atom "bad-def")
  | .list [.atom "def", s, n, es] =>
      match nat? s, atomOf? n, elems? es with
      | some s, some name, some elems =>
          match w.regOf s with
          | some (st, ri, reg) =>
              match addUnit reg st name elems with
              | .ok (reg', st') => (w.update s ri reg' st', .atom "ok")
              | .error e => (w, addErrSexp e)
          | none => (w, .atom "bad-store")
      | _, _, _ => (w, .atom "bad-def")
  | _ => (w, .atom "bad-def")

def applyDefs (w : World) : List Sexp → World × List Sexp
  | [] => (w, [])
  | d :: ds =>
      let (w', r) := applyDef w d
      let (w'', rs) := applyDefs w' ds
      (w'', r :: rs)

/-- `((s name exp) ...)`: product of named units of stores; all must live in one registry.
    Returns (registry index, container) -/
def unitExpr? (w : World) (e : Sexp) : Except String (Nat × Container) := do
  let xs ← match listOf? e with | some xs => pure xs | none => throw "bad-unit"
  let mut ri? : Option Nat := none
  let mut c : Container := []
  for x in xs do
    match x with
    | .list [s, n, ex] =>
        match nat? s, atomOf? n, rat? ex with
        | some s, some name, some q =>
            match w.regOf s with
            | some (st, ri, _) =>
                match ri? with
                | some r => if r != ri then throw "different-registries"
                | none => ri? := some ri
                match getUnit st name with
                | .ok u => c := PMap.add c (PMap.smul q u)
                | .error _ => throw "KeyError"
            | none => throw "bad-store"
        | _, _, _ => throw "bad-unit"
    | _ => throw "bad-unit"
  pure (ri?.getD 0, PMap.norm c)

def mkWorld (spec : List Sexp) : World :=
  spec.foldl (fun w s => match s with
    | .list [_, .atom "share", k] => w.newStore (nat? k)
    | _ => w.newStore none) {}

end Units.Wire
