import Cellml.Iso.Namespace
import Cellml.Units.Lemmas
import Cellml.Units.WorklistComplete

/-! Lemmas behind the C16 theorems (lean/Cellml/Props/C16.lean):
    * characters: `prefixName` is injective on (store id, user name); `_STORE_PREFIX` stripping undoes it;
    * registries: consing an entry whose key a container does not mention leaves its expansion unchanged
      (`expand_cons_unused`), also its dimensionality if no definition mentions the key;
    * process states: the invariant `Inv` (ids are unique, registry keys belong to exactly the stores that use the
      registry, definitions only mention keys of their registry) is kept by every operation, and implies the frame
      property. -/

namespace Iso
open Units Units.Wire PMap

/-! ### characters -/

theorem store_toList : "store".toList = ['s','t','o','r','e'] := by decide
theorem us_toList : "_".toList = ['_'] := by decide

theorem prefixName_toList (id : Nat) (n : String) (h : Cellml.Gen.cellmlUnits.contains n = false) :
    (prefixName id n).toList = ['s','t','o','r','e'] ++ (Nat.toDigits 10 id ++ '_' :: n.toList) := by
  simp only [prefixName, h, Bool.false_eq_true, if_false, String.toList_append, Nat.toString_eq_repr, Nat.toList_repr,
    store_toList, us_toList, List.append_assoc, List.singleton_append]

theorem append_sep_inj {α} (x : α) : ∀ (a b l₁ l₂ : List α), x ∉ a → x ∉ b → a ++ x :: l₁ = b ++ x :: l₂ → a = b ∧ l₁ = l₂ := by
  intro a
  induction a with
  | nil =>
      intro b l₁ l₂ _ hb h
      cases b with
      | nil => simpa using h
      | cons y b' =>
          simp only [List.nil_append, List.cons_append, List.cons.injEq] at h
          exact absurd (by simp [h.1]) hb
  | cons y a' ih =>
      intro b l₁ l₂ ha hb h
      cases b with
      | nil =>
          simp only [List.nil_append, List.cons_append, List.cons.injEq] at h
          exact absurd (by simp [h.1]) ha
      | cons z b' =>
          simp only [List.cons_append, List.cons.injEq] at h
          have := ih b' l₁ l₂ (by simp at ha; exact ha.2) (by simp at hb; exact hb.2) h.2
          exact ⟨by rw [h.1, this.1], this.2⟩

theorem toDigits_inj {i j : Nat} (h : Nat.toDigits 10 i = Nat.toDigits 10 j) : i = j := by
  have := congrArg (fun l => Nat.ofDigitChars 10 l 0) h
  simpa [Nat.ofDigitChars_ten_toDigits] using this

def startsStore (s : String) : Bool :=
  match s.toList with
  | 's' :: 't' :: 'o' :: 'r' :: 'e' :: _ => true
  | _ => false

theorem prefixName_startsStore (id : Nat) (n : String) (h : Cellml.Gen.cellmlUnits.contains n = false) :
    startsStore (prefixName id n) = true := by
  simp [startsStore, prefixName_toList id n h]

theorem builtin_not_startsStore : Cellml.Gen.cellmlUnits.all (fun n => !startsStore n) = true := by decide

theorem not_startsStore_of_builtin {n : String} (h : Cellml.Gen.cellmlUnits.contains n = true) : startsStore n = false := by
  have := List.all_eq_true.mp builtin_not_startsStore n (by simpa using h)
  simpa using this

theorem prefixName_eq (i j : Nat) (n₁ n₂ : String) (h₁ : Cellml.Gen.cellmlUnits.contains n₁ = false)
    (h : prefixName i n₁ = prefixName j n₂) : i = j ∧ n₁ = n₂ := by
  cases h₂ : Cellml.Gen.cellmlUnits.contains n₂ with
  | true =>
      have hs := prefixName_startsStore i n₁ h₁
      rw [h] at hs
      simp only [prefixName, h₂, if_true] at hs
      rw [not_startsStore_of_builtin h₂] at hs
      cases hs
  | false =>
      have := congrArg String.toList h
      rw [prefixName_toList i n₁ h₁, prefixName_toList j n₂ h₂] at this
      have := List.append_cancel_left this
      obtain ⟨hd, hn⟩ := append_sep_inj '_' _ _ _ _ Nat.underscore_not_in_toDigits Nat.underscore_not_in_toDigits this
      exact ⟨toDigits_inj hd, String.toList_inj.mp hn⟩

theorem stripGo_word : ∀ (fuel : Nat) (prev : Char) (cs : List Char), isWordChar prev = true →
    cs.all isWordChar = true → stripGo fuel prev cs = cs := by
  intro fuel
  induction fuel with
  | zero => intro prev cs _ _; rfl
  | succ f ih =>
      intro prev cs hp hcs
      cases cs with
      | nil => rfl
      | cons c r =>
          simp only [List.all_cons, Bool.and_eq_true] at hcs
          simp only [stripGo, hp, if_true, ih c r hcs.1 hcs.2]

theorem takeWhile_digits_sep (ds rest : List Char) (h : ∀ c ∈ ds, c.isDigit = true) :
    (ds ++ '_' :: rest).takeWhile Char.isDigit = ds ∧ (ds ++ '_' :: rest).dropWhile Char.isDigit = '_' :: rest := by
  induction ds with
  | nil => constructor <;> simp <;> decide
  | cons d ds ih =>
      have hd : d.isDigit = true := h d (by simp)
      have := ih (fun c hc => h c (by simp [hc]))
      simp [hd, this.1, this.2]

theorem matchStorePrefix_prefixed (ds rest : List Char) (hne : ds ≠ []) (h : ∀ c ∈ ds, c.isDigit = true) :
    matchStorePrefix ('s' :: 't' :: 'o' :: 'r' :: 'e' :: (ds ++ '_' :: rest)) = some rest := by
  obtain ⟨h1, h2⟩ := takeWhile_digits_sep ds rest h
  simp only [matchStorePrefix, h1, h2]
  cases ds with
  | nil => exact absurd rfl hne
  | cons d ds' => rfl

/-- user names: identifiers -/
def isIdent (n : String) : Bool := n.toList.all isWordChar

theorem strip_prefixName_user (id : Nat) (n : String) (hb : Cellml.Gen.cellmlUnits.contains n = false)
    (hn : isIdent n = true) : strip (prefixName id n) = n := by
  unfold strip
  rw [prefixName_toList id n hb]
  have hm := matchStorePrefix_prefixed (Nat.toDigits 10 id) n.toList Nat.toDigits_ne_nil
    (fun c hc => Nat.isDigit_of_mem_toDigits (by decide) (by decide) hc)
  simp only [List.cons_append, List.nil_append] at hm ⊢
  rw [stripGo]
  simp only [show isWordChar ' ' = false by decide, Bool.false_eq_true, if_false, hm]
  rw [stripGo_word _ '_' _ (by decide) hn, String.ofList_toList]

/-! ### registries -/
def keys (reg : Registry) : List String := reg.map Prod.fst

theorem mem_keys_of_lookup {reg : Registry} {n : String} (h : (reg.lookup n).isSome = true) : n ∈ keys reg := by
  induction reg with
  | nil => simp [List.lookup] at h
  | cons hd tl ih =>
      obtain ⟨k, d⟩ := hd
      by_cases hk : n = k
      · subst hk; simp [keys]
      · have : (n == k) = false := by simpa using hk
        simp only [List.lookup, this] at h
        have := ih h
        simp only [keys, List.map_cons, List.mem_cons] at this ⊢
        exact Or.inr this

theorem lookup_of_mem_keys {reg : Registry} {n : String} (h : n ∈ keys reg) : (reg.lookup n).isSome = true := by
  induction reg with
  | nil => simp [keys] at h
  | cons hd tl ih =>
      obtain ⟨k, d⟩ := hd
      by_cases hk : n = k
      · subst hk; simp [List.lookup]
      · have hb : (n == k) = false := by simpa using hk
        simp only [keys, List.map_cons, List.mem_cons, hk, false_or] at h
        simp only [List.lookup, hb]
        exact ih h

theorem keys_of_allKnown {reg : Registry} {c : Container} (h : allKnown reg c = true) : ∀ p ∈ c, p.1 ∈ keys reg := by
  intro p hp
  have := List.all_eq_true.mp h p hp
  exact mem_keys_of_lookup this



/-- no definition of the registry mentions the name `n` -/
def Unmentioned (reg : Registry) (n : String) : Prop :=
  ∀ m k c, (m, UnitDef.derived k c) ∈ reg → get c n = 0

theorem get_eq_zero_of_not_mem {κ} [DecidableEq κ] (m : PMap κ) (k : κ) (h : ∀ p ∈ m, p.1 ≠ k) : get m k = 0 := by
  induction m with
  | nil => rfl
  | cons hd tl ih =>
      obtain ⟨k', e⟩ := hd
      have h1 : k' ≠ k := h (k', e) (by simp)
      have := ih (fun p hp => h p (by simp [hp]))
      simp only [get_cons, h1, if_false, this]; grind

theorem expand_cons_unused (n : String) (d : UnitDef) (reg : Registry) (s : Scale) (c : Container)
    (h : get c n = 0) : expand ((n, d) :: reg) (s, c) ≃₂ expand reg (s, c) := by
  cases d with
  | base dim => simp only [expand]; exact Equiv₂.refl _
  | derived k c' =>
      simp only [expand]
      apply expand_congr
      refine ⟨?_, ?_⟩
      · intro p; simp only [get_add, get_smul, h]; grind
      · intro p; simp only [get_add, get_sub, get_smul, get_single, h]; grind

theorem expand_get_unmentioned (n : String) (reg : Registry) (hreg : Unmentioned reg n) :
    ∀ (s : Scale) (c : Container), get c n = 0 → get (expand reg (s, c)).2 n = 0 := by
  induction reg with
  | nil => intro s c h; simpa [expand] using h
  | cons hd tl ih =>
      intro s c h
      obtain ⟨m, d⟩ := hd
      have htl : Unmentioned tl n := fun m' k c' hm => hreg m' k c' (by simp [hm])
      cases d with
      | base dim => simp only [expand]; exact ih htl s c h
      | derived k c' =>
          simp only [expand]
          apply ih htl
          have hc' : get c' n = 0 := hreg m k c' (by simp)
          simp only [get_add, get_sub, get_smul, get_single, h, hc']
          by_cases hmn : m = n
          · subst hmn; simp only [h, if_true]; grind
          · simp only [hmn, if_false]; grind

theorem obsUnit_cons_unused (n : String) (d : UnitDef) (reg : Registry) (c : Container)
    (h : get c n = 0) (hreg : Unmentioned reg n) : obsUnit ((n, d) :: reg) c = obsUnit reg c := by
  have he := expand_cons_unused n d reg [] c h
  have hs : scaleOf ((n, d) :: reg) c = scaleOf reg c := norm_eq_of_equiv he.1
  have hr : norm (toRoot ((n, d) :: reg) c).2 = norm (toRoot reg c).2 := norm_eq_of_equiv he.2
  have hroot0 : get (norm (toRoot reg c).2) n = 0 := by
    rw [get_norm]; exact expand_get_unmentioned n reg hreg [] c h
  have hd : dimsOf ((n, d) :: reg) c = dimsOf reg c := by
    unfold dimsOf
    rw [hr]
    apply norm_eq_of_equiv
    cases d with
    | derived k c' => simp only [dimsOfRoot]; exact Equiv.refl _
    | base dim =>
        cases dim with
        | none => simp only [dimsOfRoot]; exact Equiv.refl _
        | some dn =>
            intro p
            simp only [dimsOfRoot, get_add, get_single, hroot0]; grind
  simp only [obsUnit_eq, hs, hd, rootOf, hr]




theorem builtinNames_not_startsStore :
    Cellml.Gen.builtinUnits.all (fun e => !startsStore e.1) = true := by decide +kernel

theorem canonName_cases (q : String) : canonName q = q ∨ ∃ e ∈ Cellml.Gen.builtinUnits, canonName q = e.1 := by
  unfold canonName
  split
  · rename_i name a d h
    right
    exact ⟨(name, a, d), List.mem_of_find?_eq_some h, rfl⟩
  · left; rfl

theorem canonName_ne (q n : String) (hq : q ≠ n) (hn : startsStore n = true) : canonName q ≠ n := by
  rcases canonName_cases q with h | ⟨e, he, h⟩
  · rw [h]; exact hq
  · rw [h]
    intro heq
    have := List.all_eq_true.mp builtinNames_not_startsStore e he
    rw [heq, hn] at this
    cases this

theorem nameContainer_get_zero (q n : String) (hq : q ≠ n) (hn : startsStore n = true) :
    get (nameContainer q) n = 0 := by
  unfold nameContainer
  split
  · rfl
  · simp only [get_cons, get_nil, canonName_ne q n hq hn, if_false]; grind

theorem getUnit_ok {st : Store} {x : String} {c : Container} (h : getUnit st x = .ok c) :
    c = nameContainer (prefixName st.id x) ∧ st.isDefined x = true := by
  unfold getUnit at h
  split at h
  · cases h
  · split at h
    · cases h
    · rename_i h2
      simp only [Except.ok.injEq] at h
      exact ⟨h.symm, by simpa using h2⟩

theorem regOf_eq_some {w : World} {s : Nat} {st : Store} {ri : Nat} {reg : Registry} :
    w.regOf s = some (st, ri, reg) ↔ w.stores[s]? = some (st, ri) ∧ w.regs[ri]? = some reg := by
  unfold World.regOf
  cases h1 : w.stores[s]? with
  | none => simp
  | some p =>
      obtain ⟨st', ri'⟩ := p
      cases h2 : w.regs[ri']? with
      | none => simp [h2]; intro _ h; subst h; simp [h2]
      | some r => 
        simp [h2]
        constructor
        · rintro ⟨rfl, rfl, rfl⟩; simp [h2]
        · rintro ⟨⟨rfl, rfl⟩, h⟩; rw [h2] at h; simp at h; simp [h]


/-- what a successful definition does to the registry and the store -/
structure Extends (reg : Registry) (st : Store) (name : String) (reg' : Registry) (st' : Store) : Prop where
  notBuiltin : Cellml.Gen.cellmlUnits.contains name = false
  fresh : st.known.contains name = false
  regEq : ∃ d, reg' = (prefixName st.id name, d) :: reg ∧ ∀ k c, d = UnitDef.derived k c → ∀ p ∈ c, p.1 ∈ keys reg
  stEq : st' = { st with known := name :: st.known }

theorem addBaseUnit_ok {reg : Registry} {st : Store} {name : String} {reg' : Registry} {st' : Store}
    (h : addBaseUnit reg st name = .ok (reg', st')) : Extends reg st name reg' st' := by
  unfold addBaseUnit at h
  split at h
  · cases h
  · split at h
    · cases h
    · rename_i h1 h2
      simp only [Except.ok.injEq, Prod.mk.injEq] at h
      exact ⟨by simpa using h1, by simpa using h2, ⟨_, h.1.symm, by intro k c hd; cases hd⟩, h.2.symm⟩

theorem addUnit_ok {reg : Registry} {st : Store} {name : String} {elems : List UnitElem} {reg' : Registry} {st' : Store}
    (h : addUnit reg st name elems = .ok (reg', st')) : Extends reg st name reg' st' := by
  obtain ⟨k, c, md, hdm, h1, h2, _, hrefs, _, hr⟩ := Units.addUnit_ok h
  simp only [Prod.mk.injEq] at hr
  refine ⟨h1, h2, ⟨_, hr.1, ?_⟩, hr.2⟩
  intro k' c' hd
  cases hd
  have hall : allKnown reg c = true :=
    Units.defMeaning_allKnown elems k c md hdm (fun e he => List.all_eq_true.mp hrefs e he)
  exact keys_of_allKnown (Units.allKnown_norm hall)


/-! ### process states -/

theorem getElem?_snoc {α} (l : List α) (x p : α) (s : Nat) :
    (l ++ [x])[s]? = some p ↔ l[s]? = some p ∨ (s = l.length ∧ p = x) := by
  grind

theorem getElem?_set' {α} (l : List α) (i j : Nat) (a p : α) :
    (l.set i a)[j]? = some p ↔ (i = j ∧ j < l.length ∧ p = a) ∨ (i ≠ j ∧ l[j]? = some p) := by
  grind

structure Inv (w : World) : Prop where
  ids : ∀ (s : Nat) (st : Store) (ri : Nat), w.stores[s]? = some (st, ri) → st.id = s
  regIdx : ∀ (s : Nat) (st : Store) (ri : Nat), w.stores[s]? = some (st, ri) → ri < w.regs.length
  keysOk : ∀ (ri : Nat) (reg : Registry), w.regs[ri]? = some reg → ∀ key ∈ keys reg,
      startsStore key = false ∨
      ∃ (s : Nat) (st : Store), w.stores[s]? = some (st, ri) ∧ ∃ x ∈ st.known, key = prefixName st.id x
  closed : ∀ (ri : Nat) (reg : Registry), w.regs[ri]? = some reg →
      ∀ m k c, (m, UnitDef.derived k c) ∈ reg → ∀ p ∈ c, p.1 ∈ keys reg
  knownOk : ∀ (s : Nat) (st : Store) (ri : Nat) (reg : Registry), w.stores[s]? = some (st, ri) →
      w.regs[ri]? = some reg → ∀ x ∈ st.known,
      Cellml.Gen.cellmlUnits.contains x = false ∧ prefixName st.id x ∈ keys reg
  builtins : ∀ (ri : Nat) (reg : Registry), w.regs[ri]? = some reg → ∀ k ∈ keys builtinRegistry, k ∈ keys reg

theorem inv_empty : Inv ({} : World) := by
  constructor <;> intros <;> simp_all

def freshStore (w : World) : Store := { id := w.stores.length, known := [] }

/-- the two shapes of `World.newStore` -/
theorem newStore_cases (w : World)
    (hidx : ∀ (s : Nat) (st : Store) (ri : Nat), w.stores[s]? = some (st, ri) → ri < w.regs.length)
    (share : Option Nat) :
    (∃ ri, ri < w.regs.length ∧
        w.newStore share = { regs := w.regs, stores := w.stores ++ [(freshStore w, ri)] }) ∨
    w.newStore share = { regs := w.regs ++ [builtinRegistry], stores := w.stores ++ [(freshStore w, w.regs.length)] } := by
  unfold World.newStore
  split
  · rename_i st ri h
    left
    refine ⟨ri, ?_, rfl⟩
    cases share with
    | none => simp at h
    | some k => exact hidx k st ri (by simpa using h)
  · right; rfl

theorem inv_newStore_share (w : World) (h : Inv w) (ri : Nat) (hri : ri < w.regs.length) :
    Inv { regs := w.regs, stores := w.stores ++ [(freshStore w, ri)] } := by
  constructor
  · intro s st ri' hs
    rcases (getElem?_snoc _ _ _ _).mp hs with hs | ⟨rfl, hp⟩
    · exact h.ids s st ri' hs
    · simp only [Prod.mk.injEq] at hp; rw [hp.1]; rfl
  · intro s st ri' hs
    rcases (getElem?_snoc _ _ _ _).mp hs with hs | ⟨rfl, hp⟩
    · exact h.regIdx s st ri' hs
    · simp only [Prod.mk.injEq] at hp; rw [hp.2]; exact hri
  · intro ri' reg hr key hk
    rcases h.keysOk ri' reg hr key hk with h1 | ⟨s, st, hs, hx⟩
    · exact Or.inl h1
    · exact Or.inr ⟨s, st, (getElem?_snoc _ _ _ _).mpr (Or.inl hs), hx⟩
  · exact h.closed
  · intro s st ri' reg hs hr x hx
    rcases (getElem?_snoc _ _ _ _).mp hs with hs | ⟨rfl, hp⟩
    · exact h.knownOk s st ri' reg hs hr x hx
    · simp only [Prod.mk.injEq] at hp; rw [hp.1] at hx; simp [freshStore] at hx
  · exact h.builtins

theorem builtin_keys_not_startsStore : (keys builtinRegistry).all (fun k => !startsStore k) = true := by
  decide +kernel

theorem builtin_closed : builtinRegistry.all (fun e => match e.2 with
    | .derived _ c => c.all (fun p => (keys builtinRegistry).contains p.1)
    | .base _ => true) = true := by decide +kernel

theorem inv_newStore_new (w : World) (h : Inv w) :
    Inv { regs := w.regs ++ [builtinRegistry], stores := w.stores ++ [(freshStore w, w.regs.length)] } := by
  constructor
  · intro s st ri' hs
    rcases (getElem?_snoc _ _ _ _).mp hs with hs | ⟨rfl, hp⟩
    · exact h.ids s st ri' hs
    · simp only [Prod.mk.injEq] at hp; rw [hp.1]; rfl
  · intro s st ri' hs
    simp only [List.length_append, List.length_cons, List.length_nil]
    rcases (getElem?_snoc _ _ _ _).mp hs with hs | ⟨rfl, hp⟩
    · have := h.regIdx s st ri' hs; omega
    · simp only [Prod.mk.injEq] at hp; rw [hp.2]; omega
  · intro ri' reg hr key hk
    rcases (getElem?_snoc _ _ _ _).mp hr with hr | ⟨hri, hreg⟩
    · rcases h.keysOk ri' reg hr key hk with h1 | ⟨s, st, hs, hx⟩
      · exact Or.inl h1
      · exact Or.inr ⟨s, st, (getElem?_snoc _ _ _ _).mpr (Or.inl hs), hx⟩
    · left
      rw [hreg] at hk
      have := List.all_eq_true.mp builtin_keys_not_startsStore key hk
      simpa using this
  · intro ri' reg hr m k c hm p hp
    rcases (getElem?_snoc _ _ _ _).mp hr with hr | ⟨hri, hreg⟩
    · exact h.closed ri' reg hr m k c hm p hp
    · rw [hreg] at hm ⊢
      have := List.all_eq_true.mp builtin_closed _ hm
      simp only at this
      have := List.all_eq_true.mp this p hp
      simpa using this
  · intro s st ri' reg hs hr x hx
    rcases (getElem?_snoc _ _ _ _).mp hs with hs | ⟨rfl, hp⟩
    · rcases (getElem?_snoc _ _ _ _).mp hr with hr | ⟨hri, hreg⟩
      · exact h.knownOk s st ri' reg hs hr x hx
      · have := h.regIdx s st _ hs; omega
    · simp only [Prod.mk.injEq] at hp; rw [hp.1] at hx; simp [freshStore] at hx
  · intro ri' reg hr k hk
    rcases (getElem?_snoc _ _ _ _).mp hr with hr | ⟨hri, hreg⟩
    · exact h.builtins ri' reg hr k hk
    · rw [hreg]; exact hk


theorem keys_cons (n : String) (d : UnitDef) (reg : Registry) : keys ((n, d) :: reg) = n :: keys reg := rfl

theorem inv_update (w : World) (h : Inv w) (s ri : Nat) (st st' : Store) (reg reg' : Registry) (name : String)
    (hs : w.stores[s]? = some (st, ri)) (hr : w.regs[ri]? = some reg) (ext : Extends reg st name reg' st') :
    Inv (w.update s ri reg' st') := by
  obtain ⟨hnb, hfresh, ⟨d, hreg', hd⟩, hst'⟩ := ext
  have hslt : s < w.stores.length := by
    have := List.getElem?_eq_some_iff.mp hs; exact this.1
  have hrlt : ri < w.regs.length := by
    have := List.getElem?_eq_some_iff.mp hr; exact this.1
  have hid : st'.id = st.id := by rw [hst']
  have hknown : st'.known = name :: st.known := by rw [hst']
  have hkeys : keys reg' = prefixName st.id name :: keys reg := by rw [hreg']; rfl
  unfold World.update
  constructor
  · intro s2 st2 r2 hs2
    rcases (getElem?_set' _ _ _ _ _).mp hs2 with ⟨rfl, _, hp⟩ | ⟨_, hs2⟩
    · simp only [Prod.mk.injEq] at hp; rw [hp.1, hid]; exact h.ids _ st ri hs
    · exact h.ids s2 st2 r2 hs2
  · intro s2 st2 r2 hs2
    simp only [List.length_set]
    rcases (getElem?_set' _ _ _ _ _).mp hs2 with ⟨rfl, _, hp⟩ | ⟨_, hs2⟩
    · simp only [Prod.mk.injEq] at hp; rw [hp.2]; exact hrlt
    · exact h.regIdx s2 st2 r2 hs2
  · intro r2 reg2 hr2 key hk
    rcases (getElem?_set' _ _ _ _ _).mp hr2 with ⟨rfl, _, hp⟩ | ⟨hne, hr2⟩
    · rw [hp, hkeys] at hk
      have hself : (w.stores.set s (st', ri))[s]? = some (st', ri) :=
        (getElem?_set' _ _ _ _ _).mpr (Or.inl ⟨rfl, hslt, rfl⟩)
      rcases List.mem_cons.mp hk with rfl | hk
      · exact Or.inr ⟨s, st', hself, name, by rw [hknown]; simp, by rw [hid]⟩
      · rcases h.keysOk ri reg hr key hk with h1 | ⟨s2, st2, hs2, x, hx, hkey⟩
        · exact Or.inl h1
        · by_cases hss : s = s2
          · subst hss
            rw [hs] at hs2
            simp only [Option.some.injEq, Prod.mk.injEq] at hs2
            refine Or.inr ⟨s, st', hself, x, ?_, ?_⟩
            · rw [hknown, hs2.1]; simp [hx]
            · rw [hid, hs2.1]; exact hkey
          · exact Or.inr ⟨s2, st2, (getElem?_set' _ _ _ _ _).mpr (Or.inr ⟨hss, hs2⟩), x, hx, hkey⟩
    · rcases h.keysOk r2 reg2 hr2 key hk with h1 | ⟨s2, st2, hs2, x, hx, hkey⟩
      · exact Or.inl h1
      · have hss : s ≠ s2 := by
          intro hss; subst hss; rw [hs] at hs2
          simp only [Option.some.injEq, Prod.mk.injEq] at hs2; exact hne hs2.2
        exact Or.inr ⟨s2, st2, (getElem?_set' _ _ _ _ _).mpr (Or.inr ⟨hss, hs2⟩), x, hx, hkey⟩
  · intro r2 reg2 hr2 m k c hm p hp
    rcases (getElem?_set' _ _ _ _ _).mp hr2 with ⟨rfl, _, hq⟩ | ⟨hne, hr2⟩
    · rw [hq, hkeys]
      rw [hq, hreg'] at hm
      rcases List.mem_cons.mp hm with hm | hm
      · simp only [Prod.mk.injEq] at hm
        exact List.mem_cons_of_mem _ (hd k c hm.2.symm p hp)
      · exact List.mem_cons_of_mem _ (h.closed ri reg hr m k c hm p hp)
    · exact h.closed r2 reg2 hr2 m k c hm p hp
  · intro s2 st2 r2 reg2 hs2 hr2 x hx
    rcases (getElem?_set' _ _ _ _ _).mp hs2 with ⟨rfl, _, hp⟩ | ⟨hss, hs2⟩
    · simp only [Prod.mk.injEq] at hp
      obtain ⟨rfl, rfl⟩ := hp
      rcases (getElem?_set' _ _ _ _ _).mp hr2 with ⟨_, _, hq⟩ | ⟨hne, _⟩
      · rw [hq, hkeys, hid]
        rw [hknown] at hx
        rcases List.mem_cons.mp hx with rfl | hx
        · exact ⟨hnb, by simp⟩
        · have := h.knownOk _ st _ reg hs hr x hx
          exact ⟨this.1, List.mem_cons_of_mem _ this.2⟩
      · exact absurd rfl hne
    · rcases (getElem?_set' _ _ _ _ _).mp hr2 with ⟨rfl, _, hq⟩ | ⟨hne, hr2⟩
      · have := h.knownOk s2 st2 _ reg hs2 hr x hx
        rw [hq, hkeys]
        exact ⟨this.1, List.mem_cons_of_mem _ this.2⟩
      · exact h.knownOk s2 st2 r2 reg2 hs2 hr2 x hx
  · intro r2 reg2 hr2 k hk
    rcases (getElem?_set' _ _ _ _ _).mp hr2 with ⟨rfl, _, hq⟩ | ⟨hne, hr2⟩
    · rw [hq, hkeys]; exact List.mem_cons_of_mem _ (h.builtins _ reg hr k hk)
    · exact h.builtins r2 reg2 hr2 k hk


theorem applyTo_cases (w : World) (s : Nat) (f : Registry → Store → Except AddErr (Registry × Store)) :
    applyTo w s f = w ∨
    ∃ (st : Store) (ri : Nat) (reg reg' : Registry) (st' : Store), w.stores[s]? = some (st, ri) ∧ w.regs[ri]? = some reg ∧
      f reg st = .ok (reg', st') ∧ applyTo w s f = w.update s ri reg' st' := by
  unfold applyTo
  split
  · rename_i st ri reg hro
    have := regOf_eq_some.mp hro
    split
    · rename_i reg' st' hf
      exact Or.inr ⟨st, ri, reg, reg', st', this.1, this.2, hf, rfl⟩
    · exact Or.inl rfl
  · exact Or.inl rfl

/-- every operation is: nothing, a new store, or a successful definition in one store -/
theorem step_cases (w : World) (op : Op) :
    step w op = w ∨ (∃ share, op = .newStore share ∧ step w op = w.newStore share) ∨
    ∃ (s : Nat) (name : String) (st : Store) (ri : Nat) (reg reg' : Registry) (st' : Store),
      op.actsOn s = true ∧ w.stores[s]? = some (st, ri) ∧ w.regs[ri]? = some reg ∧
      Extends reg st name reg' st' ∧ step w op = w.update s ri reg' st' := by
  cases op with
  | newStore share => exact Or.inr (Or.inl ⟨share, rfl, rfl⟩)
  | addUnit s name elems =>
      rcases applyTo_cases w s (fun reg st => addUnit reg st name elems) with h | ⟨st, ri, reg, reg', st', hs, hr, hf, hw⟩
      · exact Or.inl h
      · exact Or.inr (Or.inr ⟨s, name, st, ri, reg, reg', st', by simp [Op.actsOn], hs, hr, addUnit_ok hf, hw⟩)
  | addBase s name =>
      rcases applyTo_cases w s (fun reg st => addBaseUnit reg st name) with h | ⟨st, ri, reg, reg', st', hs, hr, hf, hw⟩
      · exact Or.inl h
      · exact Or.inr (Or.inr ⟨s, name, st, ri, reg, reg', st', by simp [Op.actsOn], hs, hr, addBaseUnit_ok hf, hw⟩)

theorem inv_step (w : World) (op : Op) (h : Inv w) : Inv (step w op) := by
  rcases step_cases w op with h0 | ⟨share, _, h1⟩ | ⟨s, name, st, ri, reg, reg', st', _, hs, hr, ext, h2⟩
  · rw [h0]; exact h
  · rw [h1]
    rcases newStore_cases w h.regIdx share with ⟨ri, hri, hw⟩ | hw
    · rw [hw]; exact inv_newStore_share w h ri hri
    · rw [hw]; exact inv_newStore_new w h
  · rw [h2]; exact inv_update w h s ri st st' reg reg' name hs hr ext

theorem inv_run (w : World) (ops : List Op) (h : Inv w) : Inv (run w ops) := by
  induction ops generalizing w with
  | nil => exact h
  | cons op ops ih => exact ih (step w op) (inv_step w op h)

/-- the key a successful definition adds is new to the registry -/
theorem key_fresh (w : World) (h : Inv w) (s ri : Nat) (st : Store) (reg : Registry) (name : String)
    (hs : w.stores[s]? = some (st, ri)) (hr : w.regs[ri]? = some reg)
    (hnb : Cellml.Gen.cellmlUnits.contains name = false) (hfresh : st.known.contains name = false) :
    prefixName st.id name ∉ keys reg := by
  intro hk
  rcases h.keysOk ri reg hr _ hk with h1 | ⟨s2, st2, hs2, x, hx, hkey⟩
  · rw [prefixName_startsStore _ _ hnb] at h1; cases h1
  · obtain ⟨hid, hname⟩ := prefixName_eq _ _ _ _ hnb hkey
    have e1 := h.ids s st ri hs
    have e2 := h.ids s2 st2 ri hs2
    have : s = s2 := by omega
    subst this
    rw [hs] at hs2
    simp only [Option.some.injEq, Prod.mk.injEq] at hs2
    rw [← hs2.1, ← hname] at hx
    have : st.known.contains name = true := by simpa using hx
    rw [hfresh] at this; cases this

theorem unmentioned_of_fresh (w : World) (h : Inv w) (ri : Nat) (reg : Registry) (hr : w.regs[ri]? = some reg)
    (key : String) (hk : key ∉ keys reg) : Unmentioned reg key := by
  intro m k c hm
  apply get_eq_zero_of_not_mem
  intro p hp heq
  exact hk (heq ▸ h.closed ri reg hr m k c hm p hp)

/-- through a store `j ≠ s` nothing changes when `s` extends the registry they share -/
theorem obsName_frame (w : World) (h : Inv w) (s j ri : Nat) (st st' stj : Store) (reg reg' : Registry)
    (name : String) (hs : w.stores[s]? = some (st, ri)) (hj : w.stores[j]? = some (stj, ri))
    (hr : w.regs[ri]? = some reg) (ext : Extends reg st name reg' st') (hne : j ≠ s) (n : String) :
    obsName reg' stj n = obsName reg stj n := by
  obtain ⟨hnb, hfresh, ⟨d, hreg', _⟩, _⟩ := ext
  unfold obsName
  cases hg : getUnit stj n with
  | error e => rfl
  | ok c =>
      simp only
      rw [hreg']
      congr 1
      apply obsUnit_cons_unused
      · rw [(getUnit_ok hg).1]
        apply nameContainer_get_zero _ _ _ (prefixName_startsStore _ _ hnb)
        intro heq
        obtain ⟨hid, _⟩ := prefixName_eq _ _ _ _ hnb heq.symm
        have e1 := h.ids s st ri hs
        have e2 := h.ids j stj ri hj
        omega
      · exact unmentioned_of_fresh w h ri reg hr _ (key_fresh w h s ri st reg name hs hr hnb hfresh)


/-- store `j` looks the same in `w'` as in `w`: same store record, same registry index, and a registry through which
    every name (known or not) has the same root form -/
def SameView (w w' : World) (j : Nat) : Prop :=
  ∃ (st : Store) (rj : Nat) (reg reg' : Registry), w.regOf j = some (st, rj, reg) ∧ w'.regOf j = some (st, rj, reg') ∧
    ∀ n, obsName reg' st n = obsName reg st n

theorem regOf_of_lt (w : World) (h : Inv w) (j : Nat) (hj : j < w.stores.length) :
    ∃ (st : Store) (rj : Nat) (reg : Registry), w.stores[j]? = some (st, rj) ∧ w.regs[rj]? = some reg := by
  obtain ⟨⟨st, rj⟩, hs⟩ : ∃ p, w.stores[j]? = some p := ⟨_, List.getElem?_eq_getElem hj⟩
  have hlt := h.regIdx j st rj hs
  exact ⟨st, rj, _, hs, List.getElem?_eq_getElem hlt⟩

theorem sameView_refl (w : World) (h : Inv w) (j : Nat) (hj : j < w.stores.length) : SameView w w j := by
  obtain ⟨st, rj, reg, hs, hr⟩ := regOf_of_lt w h j hj
  exact ⟨st, rj, reg, reg, regOf_eq_some.mpr ⟨hs, hr⟩, regOf_eq_some.mpr ⟨hs, hr⟩, fun _ => rfl⟩

theorem step_view (w : World) (h : Inv w) (op : Op) (j : Nat) (hj : j < w.stores.length)
    (hop : op.actsOn j = false) : SameView w (step w op) j := by
  obtain ⟨stj, rj, regj, hsj, hrj⟩ := regOf_of_lt w h j hj
  have hrjlt : rj < w.regs.length := h.regIdx j stj rj hsj
  rcases step_cases w op with h0 | ⟨share, _, h1⟩ | ⟨s, name, st, ri, reg, reg', st', hact, hs, hr, ext, h2⟩
  · rw [h0]; exact sameView_refl w h j hj
  · rw [h1]
    refine ⟨stj, rj, regj, regj, regOf_eq_some.mpr ⟨hsj, hrj⟩, regOf_eq_some.mpr ?_, fun _ => rfl⟩
    rcases newStore_cases w h.regIdx share with ⟨ri, hri, hw⟩ | hw
    · rw [hw]; exact ⟨(getElem?_snoc _ _ _ _).mpr (Or.inl hsj), hrj⟩
    · rw [hw]; exact ⟨(getElem?_snoc _ _ _ _).mpr (Or.inl hsj), (getElem?_snoc _ _ _ _).mpr (Or.inl hrj)⟩
  · have hne : s ≠ j := by
      intro heq; subst heq; rw [hact] at hop; cases hop
    rw [h2]
    have hsj' : (w.update s ri reg' st').stores[j]? = some (stj, rj) :=
      (getElem?_set' _ _ _ _ _).mpr (Or.inr ⟨hne, hsj⟩)
    by_cases hri : ri = rj
    · subst hri
      rw [hr] at hrj
      simp only [Option.some.injEq] at hrj
      subst hrj
      refine ⟨stj, ri, reg, reg', regOf_eq_some.mpr ⟨hsj, hr⟩, regOf_eq_some.mpr ⟨hsj', ?_⟩, ?_⟩
      · exact (getElem?_set' _ _ _ _ _).mpr (Or.inl ⟨rfl, hrjlt, rfl⟩)
      · exact obsName_frame w h s j ri st st' stj reg reg' name hs hsj hr ext (Ne.symm hne)
    · refine ⟨stj, rj, regj, regj, regOf_eq_some.mpr ⟨hsj, hrj⟩, regOf_eq_some.mpr ⟨hsj', ?_⟩, fun _ => rfl⟩
      exact (getElem?_set' _ _ _ _ _).mpr (Or.inr ⟨hri, hrj⟩)

theorem SameView.trans {w w' w'' : World} {j : Nat} (h₁ : SameView w w' j) (h₂ : SameView w' w'' j) :
    SameView w w'' j := by
  obtain ⟨st, rj, reg, reg', e1, e2, hn⟩ := h₁
  obtain ⟨st2, rj2, reg2, reg2', e3, e4, hn2⟩ := h₂
  rw [e2] at e3
  simp only [Option.some.injEq, Prod.mk.injEq] at e3
  obtain ⟨rfl, rfl, rfl⟩ := e3
  exact ⟨st, rj, reg, reg2', e1, e4, fun n => (hn2 n).trans (hn n)⟩

theorem SameView.obsStore {w w' : World} {j : Nat} (h : SameView w w' j) : obsStore w' j = obsStore w j := by
  obtain ⟨st, rj, reg, reg', e1, e2, hn⟩ := h
  simp only [Iso.obsStore, e1, e2, hn]

theorem SameView.probe {w w' : World} {j : Nat} (h : SameView w w' j) (n : String) : probe w' j n = probe w j n := by
  obtain ⟨st, rj, reg, reg', e1, e2, hn⟩ := h
  simp only [Iso.probe, e1, e2, hn]

theorem stores_length_step (w : World) (op : Op) (h : Inv w) : w.stores.length ≤ (step w op).stores.length := by
  rcases step_cases w op with h0 | ⟨share, _, h1⟩ | ⟨s, name, st, ri, reg, reg', st', _, hs, hr, ext, h2⟩
  · rw [h0]; exact Nat.le_refl _
  · rw [h1]
    rcases newStore_cases w h.regIdx share with ⟨ri, hri, hw⟩ | hw <;> rw [hw] <;> simp
  · rw [h2]; simp [World.update]

theorem run_view (w : World) (h : Inv w) (ops : List Op) (j : Nat) (hj : j < w.stores.length)
    (hops : ∀ op ∈ ops, op.actsOn j = false) : SameView w (run w ops) j := by
  induction ops generalizing w with
  | nil => exact sameView_refl w h j hj
  | cons op ops ih =>
      have h1 := step_view w h op j hj (hops op (by simp))
      have h2 := ih (step w op) (inv_step w op h) (Nat.lt_of_lt_of_le hj (stores_length_step w op h))
        (fun o ho => hops o (by simp [ho]))
      exact h1.trans h2


/-! ### the positive half: stores sharing a registry can convert into each other -/

theorem aliases_not_startsStore :
    Cellml.Gen.builtinUnits.all (fun e => e.2.1.all (fun a => !startsStore a)) = true := by decide +kernel

theorem canonName_of_startsStore (q : String) (h : startsStore q = true) : canonName q = q := by
  unfold canonName
  split
  · rename_i name a d hf
    have hmem := List.mem_of_find?_eq_some hf
    have hp := List.find?_some hf
    simp only at hp
    have h1 := List.all_eq_true.mp aliases_not_startsStore _ hmem
    have h2 := List.all_eq_true.mp h1 q (by simpa using hp)
    rw [h] at h2; cases h2
  · rfl

theorem builtin_containers_known : Cellml.Gen.cellmlUnits.all (fun x =>
    x == "dimensionless" || (keys builtinRegistry).contains (canonName x)) = true := by decide +kernel

theorem startsStore_ne_dimensionless (q : String) (h : startsStore q = true) : (q == "dimensionless") = false := by
  cases hq : q == "dimensionless" with
  | false => rfl
  | true =>
      have : q = "dimensionless" := by simpa using hq
      subst this
      revert h; decide

/-- every unit a store hands out is defined in the store's registry -/
theorem getUnit_allKnown (w : World) (h : Inv w) (s ri : Nat) (st : Store) (reg : Registry)
    (hs : w.stores[s]? = some (st, ri)) (hr : w.regs[ri]? = some reg) (x : String) (c : Container)
    (hg : getUnit st x = .ok c) : allKnown reg c = true := by
  obtain ⟨hc, hdef⟩ := getUnit_ok hg
  subst hc
  simp only [Store.isDefined, Bool.or_eq_true] at hdef
  cases hb : Cellml.Gen.cellmlUnits.contains x with
  | true =>
      have hx := List.all_eq_true.mp builtin_containers_known x (by simpa using hb)
      simp only [prefixName, hb, if_true, nameContainer]
      split
      · rfl
      · rename_i hnd
        simp only [Bool.or_eq_true] at hx
        rcases hx with hx | hx
        · exact absurd hx hnd
        · have := h.builtins ri reg hr _ (by simpa using hx)
          simp only [allKnown, List.all_cons, List.all_nil, Bool.and_true]
          exact lookup_of_mem_keys this
  | false =>
      rw [hb] at hdef
      simp only [Bool.false_eq_true, false_or] at hdef
      have hk := (h.knownOk s st ri reg hs hr x (by simpa using hdef)).2
      have hss := prefixName_startsStore st.id x hb
      simp only [nameContainer, startsStore_ne_dimensionless _ hss, Bool.false_eq_true, if_false,
        canonName_of_startsStore _ hss, allKnown, List.all_cons, List.all_nil, Bool.and_true]
      exact lookup_of_mem_keys hk

/-- the container of a user-defined name is the single registry key carrying the store's prefix -/
theorem getUnit_user (st : Store) (x : String) (c : Container) (hb : Cellml.Gen.cellmlUnits.contains x = false)
    (hg : getUnit st x = .ok c) : c = [(prefixName st.id x, 1)] := by
  have hss := prefixName_startsStore st.id x hb
  rw [(getUnit_ok hg).1]
  simp only [nameContainer, startsStore_ne_dimensionless _ hss, Bool.false_eq_true, if_false,
    canonName_of_startsStore _ hss]

theorem crossFactor_shared (w : World) (i j ri : Nat) (sti stj : Store) (reg : Registry) (x y : String) (a b : Container)
    (hi : w.stores[i]? = some (sti, ri)) (hj : w.stores[j]? = some (stj, ri)) (hr : w.regs[ri]? = some reg)
    (ha : getUnit sti x = .ok a) (hb : getUnit stj y = .ok b) :
    crossFactor w i x j y = match factor reg a b with | .ok f => .ok f | .error e => .error (.unit e) := by
  simp only [crossFactor, regOf_eq_some.mpr ⟨hi, hr⟩, regOf_eq_some.mpr ⟨hj, hr⟩, ha, hb, ne_eq, not_true_eq_false,
    if_false]
  cases factor reg a b <;> rfl

theorem crossFactor_separate (w : World) (i j ri rj : Nat) (sti stj : Store) (regi regj : Registry) (x y : String)
    (hi : w.stores[i]? = some (sti, ri)) (hj : w.stores[j]? = some (stj, rj))
    (hri : w.regs[ri]? = some regi) (hrj : w.regs[rj]? = some regj) (hne : ri ≠ rj) :
    ∃ e, crossFactor w i x j y = .error e ∧ (e = .crossRegistry ∨ e = .keyError) := by
  simp only [crossFactor, regOf_eq_some.mpr ⟨hi, hri⟩, regOf_eq_some.mpr ⟨hj, hrj⟩]
  cases getUnit sti x <;> cases getUnit stj y <;> simp [hne]

end Iso
