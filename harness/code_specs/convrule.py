"""Code-translator spec (see harness/translate_code.py and harness/code_specs/__init__.py): the rule-related rest of
cellmlmanip/units.py - `UnitStore.add_conversion_rule`, `UnitStore.evaluate_units` and the nested
`UnitCalculator._check_unit_of_quantities_equal._is_equal` - tied in lean/Cellml/Tie/ConvRule.lean to `Units.mkRule`
consed on the newest-first rule list that `Units.convertQ` / `conversionFactorR` read (Units/Rules.lean, C19), to
`Infer.traverse` (C04) and to `Infer.sameUnits`.  The view is lean/Cellml/Tie/ConvRuleView.lean.

Every pattern stands for a LEAF: a pint constructor / method (`pint.Context`, `Context.add_transformation`,
`registry.enable_contexts`, `registry.get_base_units`), `math.isclose`, `str`, a tuple subscript, or the call of another
translated method (`self._calculator.traverse`).  Which unit is passed as source and which as target, which context
object is enabled, the order of the three statements, `and` / `==` of `_is_equal` come from the source."""

_STORE = '(self : StoreObj)'

GROUP = {
    'name': 'ConvRule',
    'imports': ['Cellml.Tie.ConvRuleView'],
    'header': 'open Cellml.Tie.PUnits\nopen Cellml.Tie.PConvRule',
    'functions': [
        {'file': 'cellmlmanip/units.py', 'func': 'UnitStore.add_conversion_rule', 'lean_name': 'addConversionRule',
         'signature': _STORE + ' (from_unit to_unit : UnitObj) (rule : RuleFn) : Except PyErr StoreObj',
         'mutable_params': ['self'],
         'mutable': ['context'],
         'patterns': [
             ('pint.Context(__A)', '(pintContext {A})'),        # pint constructor; the argument is the name
             ('str(__A)', '(PyStr.str {A})')],
         'stmt_patterns': [
             # `Context.add_transformation` mutates the context object
             ('context.add_transformation(__A, __B, __C)', 'context := (context).addTransformation {A} {B} {C}'),
             # `enable_contexts` mutates the registry object of the store (and may raise)
             ('self._registry.enable_contexts(__A)',
              'let reg__ ← pintEnableContexts (self)._registry {A}\nself := { self with _registry := reg__ }')],
         # a python procedure: its effect is the mutated store
         'returns': 'self'},

        {'file': 'cellmlmanip/units.py', 'func': 'UnitStore.evaluate_units', 'lean_name': 'evaluateUnits',
         'signature': '(self : CalcStore) (expr : PInfer.Obj) : Except PyErr Container',
         'patterns': [
             # another translated method: UnitCalculator.traverse (group Infer), closed over its recursion
             ('self._calculator.traverse(__A)', '← (self).traverse {A}'),
             ('__A.units', '(qUnits {A})')]},

        {'file': 'cellmlmanip/units.py', 'func': 'UnitCalculator._check_unit_of_quantities_equal._is_equal',
         'lean_name': 'isEqual',
         'signature': '(self : CalcView) (quantity1 quantity2 : PInfer.Q) : Id Bool',
         'patterns': [
             ('self._registry.get_base_units(1 * __A)', '((self).baseUnits {A})'),
             ('__A.units', '(qUnits {A})'),
             ('__A[0]', '({A}).1'), ('__A[1]', '({A}).2'),
             ('math.isclose(__A, __B)', '(PInfer.Py.isclose {A} {B})')]},
    ],
}
