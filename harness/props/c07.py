"""C07 — conversion factors obey unit algebra for every pair of units."""
import re
from fractions import Fraction

import mpmath

import unitlib as U
from common import Str, sx

ID = 'C07'
LEAN_MODULES = ['Cellml.Props.C07', 'Cellml.Tie.Units', 'Cellml.Tie.UnitsLemmas', 'Cellml.Tie.GenBUnits', 'Cellml.Props.C07Gen']
N = {'quick': 60, 'thorough': 2000}
RULE = ('random unit families (8-12 units: products/quotients/rational powers/scalings of built-ins, earlier user '
        'units, new base units, scaled dimensionless units; 1-3 stores with shared or separate registries); every '
        'ordered pair of a sample of 9 units through get_conversion_factor / is_equivalent, plus convert with non-unit '
        'magnitudes and triples; non-trivial = the family defines at least one derived unit and one query needs a '
        'factor different from one; distinct = distinct family+query JSON')
TRUSTED = ['Lean 4.33 kernel', 'axioms: propext, Classical.choice, Quot.sound',
           'harness/translate_tables.py (tables)', 'correspondence harness harness/props/c07.py + unitlib.py',
           'pint 0.18 is modelled (mini-pint: Cellml/Units/Core.lean), not verified',
           'scale equality in the model is equality of prime-exponent vectors (= equality of the reals by unique '
           'factorisation, not proved)']
ASSUMPTIONS = ['floating-point rounding and the 1e-9 isclose tolerance are outside the exact model; generated scales '
               'are never closer than 1e-6 relative unless equal']
FINGERPRINT = {'cellmlmanip/units.py': ['UnitStore.add_unit', 'UnitStore.add_base_unit', 'UnitStore.is_equivalent',
                                       'UnitStore.get_conversion_factor', 'UnitStore.convert',
                                       'UnitStore._prefix_name', 'UnitStore.__init__', '_WORD', '_STORE_PREFIX'],
               'cellmlmanip/parser.py': ['Parser._make_pint_unit_definition', 'UNIT_PREFIXES']}
STRIP = re.compile(r'(?<![a-zA-Z0-9_])store[0-9]+_')


def gen(rng, n, tier):
    for _ in range(n):
        fam = U.gen_family(rng)
        yield make_case(rng, fam)


def make_case(rng, fam):
    units = []
    for d in fam['defs']:
        units.append([[d['store'], d['name'], '1']])
    for b in rng.sample(U.BUILTIN_POOL + ['dimensionless'], 4):
        units.append([[0, b, '1']])
    # composites within one store
    for _ in range(3):
        s = rng.randrange(len(fam['stores']))
        mine = [d['name'] for d in fam['defs'] if d['store'] == s] + rng.sample(U.BUILTIN_POOL, 2)
        a, b = rng.choice(mine), rng.choice(mine)
        units.append([[s, a, rng.choice(['1', '2', '-1'])], [s, b, rng.choice(['1', '-1', '1/2'])]])
    sample = rng.sample(units, min(9, len(units)))
    queries = []
    for a in sample:
        for b in sample:
            queries.append(['factor', a, b])
            if rng.random() < 0.35:
                queries.append(['equiv', a, b])
            if rng.random() < 0.2:
                queries.append(['convert', rng.choice(['2.5', '0.125', '-3', '1000', '7']), a, b])
    for a in sample:
        queries.append(['root', a])
    triples = [rng.sample(range(len(sample)), 3) for _ in range(6)] if len(sample) >= 3 else []
    return {'family': fam, 'queries': queries, 'sample': sample, 'triples': triples}


def corpus():
    fam = {'stores': [None], 'defs': [
        {'kind': 'def', 'store': 0, 'name': 'percent', 'elems': [{'units': 'dimensionless', 'multiplier': '0.01'}]},
        {'kind': 'def', 'store': 0, 'name': 'halves', 'elems': [{'units': 'dimensionless', 'multiplier': '0.5'}]},
        {'kind': 'def', 'store': 0, 'name': 'mV', 'elems': [{'units': 'volt', 'prefix': 'milli'}]},
        {'kind': 'def', 'store': 0, 'name': 'pct_mV', 'elems': [{'units': 'percent'}, {'units': 'mV'}]},
    ]}
    q = []
    names = ['percent', 'halves', 'dimensionless', 'mV', 'pct_mV', 'volt', 'radian']
    for a in names:
        for b in names:
            q.append(['factor', [[0, a, '1']], [[0, b, '1']]])
            q.append(['equiv', [[0, a, '1']], [[0, b, '1']]])
            q.append(['convert', '5', [[0, a, '1']], [[0, b, '1']]])
    cases = [{'family': fam, 'queries': q, 'sample': [[[0, n, '1']] for n in names], 'triples': [[0, 1, 2], [3, 4, 5]]}]
    # model = code on the inputs where the hand model of add_unit used to deviate (notes/reports/MODELFIX_Units.md):
    # pint evaluates EVERY identifier of the expression, so an unknown name is an UndefinedUnitError also where its
    # total exponent is zero, and the unit is NOT defined afterwards (get_unit: KeyError); a known name to the power
    # zero gives a dimensionless unit of scale one; the name is tested before the expression is evaluated.
    fam0 = {'stores': [None, 0], 'defs': [
        {'kind': 'def', 'store': 0, 'name': 'z_unknown', 'elems': [{'units': 'nosuch', 'exponent': '0'}]},
        {'kind': 'def', 'store': 0, 'name': 'z_known', 'elems': [{'units': 'metre', 'exponent': '0'}]},
        {'kind': 'def', 'store': 0, 'name': 'z_cancel', 'elems': [{'units': 'nosuch'}, {'units': 'nosuch', 'exponent': '-1'}]},
        {'kind': 'def', 'store': 0, 'name': 'z_mixed', 'elems': [{'units': 'volt', 'prefix': 'milli'},
                                                                  {'units': 'nosuch', 'exponent': '0.0'}]},
        {'kind': 'base', 'store': 1, 'name': 'widget'},
        {'kind': 'def', 'store': 1, 'name': 'z_widget', 'elems': [{'units': 'widget', 'exponent': '0'}]},   # known to store 1
        {'kind': 'def', 'store': 0, 'name': 'z_other', 'elems': [{'units': 'widget', 'exponent': '0'}]},    # not to store 0
        {'kind': 'def', 'store': 0, 'name': 'metre', 'elems': [{'units': 'second', 'exponent': 'x'}]},      # name first
        {'kind': 'def', 'store': 0, 'name': 'z_known', 'elems': [{'units': 'nosuch', 'exponent': '0'}]},    # name first
        {'kind': 'def', 'store': 0, 'name': 'z_mV', 'elems': [{'units': 'volt', 'prefix': 'milli'},
                                                               {'units': 'second', 'exponent': '0'}]},
    ]}
    q0 = []
    names0 = [(0, 'z_unknown'), (0, 'z_known'), (0, 'z_cancel'), (0, 'z_mixed'), (1, 'z_widget'), (0, 'z_other'),
              (0, 'z_mV'), (0, 'dimensionless'), (0, 'volt')]
    for sa, a in names0:
        q0.append(['root', [[sa, a, '1']]])
        for sb, b in names0:
            q0.append(['factor', [[sa, a, '1']], [[sb, b, '1']]])
            q0.append(['equiv', [[sa, a, '1']], [[sb, b, '1']]])
    cases.append({'family': fam0, 'queries': q0, 'sample': [[[s, n, '1']] for s, n in names0], 'triples': [[1, 4, 7]]})
    return cases


# ---------------------------------------------------------------------------------------------- implementation
def impl(case):
    stores, outcomes = U.build_impl(case['family'])
    res = []
    for q in case['queries']:
        try:
            if q[0] == 'factor':
                a, b = U.impl_unit(stores, q[1]), U.impl_unit(stores, q[2])
                cf = stores[q[1][0][0]].get_conversion_factor(a, b)
                res.append('one' if (isinstance(cf, int) and cf == 1) else ['f', repr(float(cf))])
            elif q[0] == 'equiv':
                a, b = U.impl_unit(stores, q[1]), U.impl_unit(stores, q[2])
                res.append(['b', bool(stores[q[1][0][0]].is_equivalent(a, b))])
            elif q[0] == 'convert':
                a, b = U.impl_unit(stores, q[2]), U.impl_unit(stores, q[3])
                st = stores[q[2][0][0]]
                out = st.convert(st.Quantity(float(Fraction(q[1])), a), b)
                mag = out.magnitude
                fb = st.format(out.units, base_units=True)
                res.append(['q', repr(float(mag)), fb, type(mag).__name__])
            elif q[0] == 'root':
                a = U.impl_unit(stores, q[1])
                res.append(['r', stores[q[1][0][0]].format(a, base_units=True)])
        except Exception as e:
            res.append('err:' + type(e).__name__)
    return {'defs': outcomes, 'queries': res}


# ---------------------------------------------------------------------------------------------- model
def requests(case, obs):
    stores, defs = U.family_sx(case['family'])
    qs = []
    for q in case['queries']:
        if q[0] == 'factor' or q[0] == 'equiv':
            qs.append([q[0], U.unit_sx(q[1]), U.unit_sx(q[2])])
        elif q[0] == 'convert':
            qs.append(['convert', Str(q[1]), U.unit_sx(q[2]), U.unit_sx(q[3])])
        else:
            qs.append(['root', U.unit_sx(q[1])])
    return [sx(['C07', stores, defs, ['queries'] + qs])]


def model_err(r):
    return isinstance(r, list) and r and r[0] == 'err'


def root_dict(sexp):
    out = {}
    for k, e in sexp[1:]:
        k = STRIP.sub('', str(k))
        out[k] = out.get(k, 0) + Fraction(e)
    return {k: v for k, v in out.items() if v != 0}


def compare(case, obs, replies):
    rep = replies[0]
    if not isinstance(rep, list) or len(rep) != 2:
        return 'model reply malformed: %r' % (rep,)
    mdefs, mqs = rep[0][1:], rep[1][1:]
    unsupported = False
    for d, o, m in zip(case['family']['defs'], obs['defs'], mdefs):
        if isinstance(m, list) and m[0] == 'unsupported':
            unsupported = True
            continue
        mo = 'ok' if m == 'ok' else 'err:' + m[1]
        if mo != o and not (mo.startswith('err') and o.startswith('err')):
            return 'definition %s: implementation %s, model %s' % (d['name'], o, mo)
    if unsupported:
        return None  # the family uses a construct outside the model (counted as trivial)
    for q, o, m in zip(case['queries'], obs['queries'], mqs):
        where = '%s %s' % (q[0], q[1:])
        if model_err(m):
            if not (isinstance(o, str) and o.startswith('err:')):
                return '%s: model %s, implementation %s' % (where, m, o)
            # error class: DimensionalityError must match exactly; others by class name
            if m[1] == 'CrossRegistry' and o[4:] in ('AssertionError', 'ValueError'):
                continue
            if m[1] != o[4:]:
                return '%s: model error %s, implementation %s' % (where, m[1], o)
            continue
        if isinstance(o, str) and o.startswith('err:'):
            return '%s: implementation %s, model %s' % (where, o, m)
        if q[0] == 'factor':
            if m[1] == 'one':
                if o != 'one':
                    return '%s: model one, implementation %s' % (where, o)
            else:
                if o == 'one' or not U.close(U.scale_value(m[1]), mpmath.mpf(o[1])):
                    return '%s: model %s, implementation %s' % (where, U.scale_value(m[1]), o)
        elif q[0] == 'equiv':
            if (m[1] == 'true') != o[1]:
                return '%s: model %s, implementation %s' % (where, m[1], o[1])
        elif q[0] == 'convert':
            want = mpmath.mpf(Fraction(q[1]).numerator) / Fraction(q[1]).denominator * U.scale_value(m[1])
            if not U.close(want, mpmath.mpf(o[1])):
                return '%s: model magnitude %s, implementation %s' % (where, want, o[1])
            f, d = U.parse_base_format(o[2])
            if not U.close(U.scale_value(m[2]), f) or not U.dims_close(root_dict(m[3]), d):
                return '%s: model result unit %s %s, implementation %s' % (where, m[2], m[3], o[2])
        elif q[0] == 'root':
            f, d = U.parse_base_format(o[1])
            if not U.close(U.scale_value(m[1]), f) or not U.dims_close(root_dict(m[2]), d):
                return '%s: model %s %s, implementation %s' % (where, m[1], m[2], o[1])
    return None


# ---------------------------------------------------------------------------------------------- property oracle
def oracle(case, obs):
    """The seven laws, stated on the implementation's own answers, against the exact meaning of each unit computed
    from its construction (CellML 1.1 section 5.2) — no reference to the Lean model."""
    fam = case['family']
    if any(o.startswith('err') for o in obs['defs']):
        return []   # families with rejected definitions are the business of C03
    sem = U.oracle_family(fam, obs['defs'])
    if sem is None:
        return []
    if any(e['units'] == 'dimensionless' for d in fam['defs'] if d['kind'] == 'def' for e in d['elems']
           if any(x['units'] != 'dimensionless' for x in d['elems'])):
        mixed = True
    else:
        mixed = False
    regroot = []
    for i, s in enumerate(fam['stores']):
        regroot.append(i if s is None else regroot[s])
    fails = []
    fac = {}
    for q, o in zip(case['queries'], obs['queries']):
        ua = q[2] if q[0] == 'convert' else q[1]
        ub = q[3] if q[0] == 'convert' else (q[2] if q[0] != 'root' else None)
        a = U.sem_of(sem, ua)
        same_reg = ub is None or len({regroot[s] for s, _, _ in ua + ub}) == 1
        if q[0] == 'root':
            if isinstance(o, str):
                fails.append({'key': 'root-error' + ('-mixed-dimensionless' if mixed else ''),
                              'detail': '%s: %s' % (ua, o)})
                continue
            f, d = U.parse_base_format(o[1])
            want = {U.PINT_BASE.get(k, k): v for k, v in a.dims.items()}
            got = {re.sub(r'^\[\d+:(.*)\]$', r'\1', k): v for k, v in d.items()}
            want = {re.sub(r'^\[\d+:(.*)\]$', r'\1', k): v for k, v in want.items()}
            if not U.close(f, a.scale) or not U.dims_close(got, want):
                fails.append({'key': 'si-meaning', 'detail': 'unit %s expands to %s, specification says %s %s'
                              % (ua, o[1], mpmath.nstr(a.scale, 15), want)})
            continue
        b = U.sem_of(sem, ub)
        if not same_reg:
            if not (isinstance(o, str) and o.startswith('err:')):
                fails.append({'key': 'cross-registry-accepted', 'detail': '%s -> %s gave %s' % (ua, ub, o)})
            continue
        compatible = U.physical_dims(a.dims) == U.physical_dims(b.dims)
        ratio = a.scale / b.scale
        if isinstance(o, str) and o.startswith('err:'):
            if compatible or o != 'err:DimensionalityError':
                fails.append({'key': 'error-on-compatible' if compatible else 'wrong-error-class',
                              'detail': '%s %s -> %s raised %s' % (q[0], ua, ub, o)})
            continue
        if not compatible and q[0] == 'equiv':
            if o[1]:
                fails.append({'key': 'equiv-across-dimensions', 'detail': 'is_equivalent(%s, %s) is True' % (ua, ub)})
            continue
        if not compatible:
            fails.append({'key': 'mismatch-not-reported', 'detail': '%s %s -> %s returned %s' % (q[0], ua, ub, o)})
            continue
        if q[0] == 'factor':
            val = mpmath.mpf(1) if o == 'one' else mpmath.mpf(o[1])
            fac[(sx(U.unit_sx(ua)), sx(U.unit_sx(ub)))] = val
            if not U.close(val, ratio):
                fails.append({'key': 'factor-not-ratio', 'detail': 'factor %s -> %s is %s, ratio of SI scales is %s'
                              % (ua, ub, o, mpmath.nstr(ratio, 15))})
            if ua == ub and o != 'one':
                fails.append({'key': 'factor-refl', 'detail': 'factor %s -> itself is %s' % (ua, o)})
        elif q[0] == 'equiv':
            should = U.close(ratio, 1)
            if o[1] != should:
                only_rad = a.dims.get('rad', 0) != b.dims.get('rad', 0)
                fails.append({'key': 'equiv-iff-factor-one' + (':radian' if only_rad else ''),
                              'detail': 'is_equivalent(%s, %s) = %s but factor is %s' % (ua, ub, o[1],
                                                                                     mpmath.nstr(ratio, 12))})
        elif q[0] == 'convert':
            qv = Fraction(q[1])
            want = mpmath.mpf(qv.numerator) / qv.denominator * ratio
            f, d = U.parse_base_format(o[2])
            wantd = {re.sub(r'^\[\d+:(.*)\]$', r'\1', U.PINT_BASE.get(k, k)): v for k, v in b.dims.items()}
            if o[3] not in ('float', 'int') or not U.close(want, mpmath.mpf(o[1])):
                fails.append({'key': 'convert-magnitude', 'detail': 'convert(%s %s, %s) = %s (%s), expected %s'
                              % (q[1], ua, ub, o[1], o[3], mpmath.nstr(want, 15))})
            elif not U.close(f, b.scale) or d != wantd:
                fails.append({'key': 'convert-unit', 'detail': 'convert(%s %s, %s) is in %s, expected unit %s'
                              % (q[1], ua, ub, o[2], ub)})
    # inverse and transitivity on the implementation's own factors
    keys = [sx(U.unit_sx(u)) for u in case['sample']]
    for i, a in enumerate(keys):
        for b in keys[i + 1:]:
            if (a, b) in fac and (b, a) in fac and not U.close(fac[(a, b)] * fac[(b, a)], 1):
                fails.append({'key': 'factor-inverse', 'detail': '%s <-> %s: %s * %s != 1' % (a, b, fac[(a, b)], fac[(b, a)])})
    for t in case['triples']:
        a, b, c = (keys[i] for i in t)
        if (a, b) in fac and (b, c) in fac and (a, c) in fac and not U.close(fac[(a, b)] * fac[(b, c)], fac[(a, c)]):
            fails.append({'key': 'factor-transitive', 'detail': '%s %s %s' % (a, b, c)})
    return fails[:8]


def nontrivial(case, obs):
    return any(d['kind'] == 'def' for d in case['family']['defs']) and \
        any(isinstance(o, list) and o[0] == 'f' for o in obs['queries'])


def tag(case, obs):
    n_err = sum(1 for o in obs['queries'] if isinstance(o, str) and o.startswith('err'))
    return 'stores=%d errs=%s' % (len(case['family']['stores']), 'some' if n_err else 'none')

MANIFEST = {
    'technique': 'Lean 4 theorems over a mini-pint model (prime-exponent scales) + differential correspondence',
    'text': ('Proved in Lean for every registry and every unit expression (lean/Cellml/Props/C07.lean, 22 theorems, '
             'standard axioms only): factor(a,a)=1, factor(a,b)·factor(b,a)=1, transitivity, factor = ratio of root '
             'scales, convert = magnitude·factor in the requested unit, is_equivalent is an equivalence relation and '
             'holds iff factor is one and root units coincide, dimension mismatch <=> DimensionalityError, closure '
             'under product / rational power (root expansion is a homomorphism), completeness of the executable '
             'equality test (canonical forms are unique). The model is tied to units.py by a seeded correspondence '
             'check: random unit families (clusters of equal dimension, 1-3 stores, shared registries) through '
             'get_conversion_factor / convert / is_equivalent / format, compared query by query with the compiled '
             'model; an independent exact oracle (CellML 1.1 table from the specification) searches for failing '
             'inputs. Known finding: radian is not is_equivalent to dimensionless (proved counterexample).'),
    'note': ('Trusted: Lean kernel; propext, Classical.choice, Quot.sound; the translator for UNIT_PREFIXES and '
             'cellml_units.txt; the correspondence harness. pint 0.18 is modelled, not verified. Floating-point '
             'rounding and the 1e-9 tolerance are outside the exact model.'),
}
