import Cellml.C15.Loaded
import Cellml.C15.Convs
import Cellml.Props.C01

/-! # C15 — the same document always yields the same model

    Model: `Cellml/C15/Model.lean` = the loader of C01 (`Load.load`) and the graph / `get_equations_for` of C09 with
    every Python `set` iteration that exists in the code (harness/setscan.py lists them from the source text) made an
    explicit ADVERSARIAL ORDER (`Adv`; `Adv.Fair`: the adversary permutes, nothing else).

    Part 1 (hash seeds).   `load_order_independent`, `queries_order_independent`, `graph_nodes_order_independent`:
      nothing the ordered API returns — nor the insertion order of `Model.graph` — depends on the adversary. The code
      BEFORE the two fixes is kept as `transformConstantsSet` / `loadSet` and `graphSet` / `graphNodesSet` with the
      proved counterexamples `transform_constants_set_order_dependent`, `graph_nodes_set_order_dependent`.
      `roles_equation_order_independent`, `derived_equation_order_independent` (after the third fix: the roles that
      come from the ODEs win): `Variable.type` and `get_derived_quantities` are functions of the SET of equations;
      the code before it is kept as `typesOld` / `getDerivedQuantitiesOld` with the proved counterexample
      `derived_depended_on_equation_order_before_fix`.
    Part 2 (sorting).      `sorted_queries_deterministic`, `order_added_distinct`, `lexTopo_insertion_independent`.
    Part 3 (permutations). `variables_follow_document`, `equations_follow_document` say exactly which orders follow
      the document; `element_perm_*` say what does not change when order-insensitive elements are permuted. -/

namespace Cellml.Props.C15
open Load _root_.C15

/-! ## Part 1 — iteration order of sets -/

/-- `transform_constants` after the fix is the `constsOf` of the loader model: the variable table in insertion order -/
theorem transformConstants_eq (states : List VRef) (vt : VarTable) :
    transformConstants states vt = constsOf states vt := by
  unfold transformConstants constsOf constOf
  rfl

/-- BEFORE the fix the equations appended by `transform_constants` were the same SET in an order chosen by the hash
    function … -/
theorem transformConstantsSet_perm (π : Adv) (hπ : π.Fair) (states : List VRef) (vt : VarTable) :
    (transformConstantsSet π states vt).Perm (transformConstants states vt) :=
  (hπ.consts vt).filterMap _

/-- … and the order did depend on it: two fair adversaries, two different equation lists (three constants). -/
theorem transform_constants_set_order_dependent :
    ∃ (π π' : Adv) (vt : VarTable), π.Fair ∧ π'.Fair ∧
      transformConstantsSet π [] vt ≠ transformConstantsSet π' [] vt := by
  refine ⟨Adv.ident, Adv.rev,
    [(("A", "a"), ⟨[], .none, .none, some 1, none, "dimensionless"⟩),
     (("A", "b"), ⟨[], .none, .none, some 2, none, "dimensionless"⟩),
     (("A", "c"), ⟨[], .none, .none, some 3, none, "dimensionless"⟩)], fair_ident, fair_rev, ?_⟩
  decide +kernel

/-- **After the fix loading does not consult any set iteration**: the whole flat model — `variables()` in order,
    `equations` in order, initial values, cmeta ids — is the same whatever order the runtime would choose. -/
theorem load_order_independent (π π' : Adv) (doc : Doc) : load π doc = load π' doc := rfl

/-- the same, spelled out for the two ordered attributes -/
theorem load_variables_equations_independent (π π' : Adv) (doc : Doc) (F F' : Flat)
    (h : load π doc = .ok F) (h' : load π' doc = .ok F') : variables F = variables F' ∧ F.eqs = F'.eqs := by
  have : (Except.ok F : Except Err Flat) = .ok F' := h.symm.trans ((load_order_independent π π' doc).trans h')
  cases this
  exact ⟨rfl, rfl⟩

/-- before the fix: same variables, same equation SET, order of the equations at the adversary's mercy -/
theorem loadSet_perm (π : Adv) (hπ : π.Fair) (doc : Doc) (F : Flat) (h : Load.load doc = .ok F) :
    ∃ F', loadSet π doc = .ok F' ∧ F'.vars = F.vars ∧ F'.eqs.Perm F.eqs := by
  unfold Load.load at h
  unfold loadSet
  split at h
  · cases h
  · rename_i L hL
    split at h
    · cases h
    · rename_i defined hdef
      split at h
      · cases h
      · rename_i hcon
        simp only [Except.ok.injEq] at h
        subst h
        simp only [hL, hdef, hcon]
        refine ⟨_, rfl, rfl, ?_⟩
        simp only [Loaded.flat]
        apply List.Perm.append_left
        rw [← transformConstants_eq]
        exact transformConstantsSet_perm π hπ _ _

/-- the answer of a query: a list, or a refusal (the class of the error is not compared) -/
abbrev Answer := Except C09.Err (List Node)

/-- **Every ordered query of the model is independent of the iteration order of the sets the code walks through.**
    For two fair adversaries `π`, `π'` at `find_variables_and_derivatives` (graph construction) and `nx.ancestors`:
    `get_state_variables`, `get_derivatives`, `get_derived_quantities` and `get_equations_for` (any request, both
    recursion modes, with and without number substitution) return the same list, or are both refused.
    Hypotheses — facts about the flat model, not about the adversary: every defined variable is declared
    (`Declared`), a state has one ODE (`OdeOnce`), `str` keys of graph nodes are pairwise distinct (`hkey`). -/
theorem queries_order_independent (cx : Ctx) (π π' : Adv) (hπ : π.Fair) (hπ' : π'.Fair)
    (obs : FlatEq → List (Lhs VRef)) (F : Flat) (hd : Declared cx F) (ho : OdeOnce cx F)
    (hkey : ∀ a b, (C09.hasEq (system cx π obs F) a = true ∨ C09.isStateOrFree (system cx π obs F) a = true) →
      (C09.hasEq (system cx π obs F) b = true ∨ C09.isStateOrFree (system cx π obs F) b = true) →
      cx.key a = cx.key b → a = b) :
    (getDerivatives cx π obs F).toOption = (getDerivatives cx π' obs F).toOption ∧
    (getDerivedQuantities cx π obs F).toOption = (getDerivedQuantities cx π' obs F).toOption ∧
    ∀ vars recurse strip, (getEquationsFor cx π obs F vars recurse strip).toOption =
      (getEquationsFor cx π' obs F vars recurse strip).toOption := by
  refine ⟨?_, ?_, ?_⟩
  · exact sorted_nodes_indep hπ hπ' (isDeriv cx F) (fun d => orderAdded cx F (stateOf cx F d))
      (fun g _ a _ b _ ha hb hk => stateOf_inj hd ho ha hb hk)
  · apply sorted_nodes_indep hπ hπ' (fun v => !isDeriv cx F v && types cx F.eqs v == some .computed) (orderAdded cx F)
    intro g _ a _ b _ ha hb hk
    simp only [Bool.and_eq_true, beq_iff_eq] at ha hb
    exact orderAdded_inj (computed_declared hd ha.2) (computed_declared hd hb.2) hk
  · intro vars recurse strip
    rw [getEquationsFor_eq hπ, getEquationsFor_eq hπ']
    have hs := system_same cx obs F hπ hπ'
    have hs' := system_same cx obs F hπ' hπ
    have hl := system_lhs cx π π' obs F
    cases h : C09.getEquationsFor cx.key (system cx π obs F) vars recurse strip with
    | ok res =>
        obtain ⟨res', h'⟩ := eqsfor_ok_transfer hl hs h
        rw [h']
        rw [Cellml.Props.C09.eqsfor_insertion_independent cx.key _ _ vars recurse strip res res' hs hkey h h']
    | error x =>
        cases h' : C09.getEquationsFor cx.key (system cx π' obs F) vars recurse strip with
        | error y => rfl
        | ok res' =>
            obtain ⟨res, hres⟩ := eqsfor_ok_transfer (system_lhs cx π' π obs F) hs' h'
            rw [h] at hres; cases hres

/-- **The graph itself is independent of the iteration order of the sets**: `Model.graph` sorts the references of
    every equation by `str` before it walks them (since the `fix:` commit "graph nodes in a reproducible order"), so
    for two fair adversaries at `find_variables_and_derivatives` the property returns the SAME graph — the same node
    list in the same (networkx insertion) order, the same edge list in the same order — or raises the same error.
    Hypothesis: `str` keys tell the references of any one equation apart (`RefKeys`; it follows from the `hkey` of
    `queries_order_independent` when the graph builds: `refKeys_of_graph`). -/
theorem graph_order_independent (cx : Ctx) (π π' : Adv) (hπ : π.Fair) (hπ' : π'.Fair)
    (obs : FlatEq → List (Lhs VRef)) (F : Flat) (hk : RefKeys cx F) :
    graph cx π obs F = graph cx π' obs F ∧ graphNodes cx π obs F = graphNodes cx π' obs F := by
  have h := _root_.C15.graph_order_independent (obs := obs) hπ hπ' hk
  exact ⟨h.symm, by simp only [graphNodes, h]⟩

/-- **`list(Model.graph.nodes)` is the same list for every iteration order** (or refused alike), under the very
    hypothesis of `queries_order_independent`: the node order is a function of `Model.equations` alone. -/
theorem graph_nodes_order_independent (cx : Ctx) (π π' : Adv) (hπ : π.Fair) (hπ' : π'.Fair)
    (obs : FlatEq → List (Lhs VRef)) (F : Flat)
    (hkey : ∀ a b, (C09.hasEq (system cx π obs F) a = true ∨ C09.isStateOrFree (system cx π obs F) a = true) →
      (C09.hasEq (system cx π obs F) b = true ∨ C09.isStateOrFree (system cx π obs F) b = true) →
      cx.key a = cx.key b → a = b) :
    (graphNodes cx π obs F).toOption = (graphNodes cx π' obs F).toOption :=
  graphNodes_order_independent hπ hπ' hkey

/-- **The same document yields the same model, whatever order the runtime gives its sets.** For a document that
    loads: the flat model (`variables()`, `equations`, initial values) is the same for every adversary, and so is the
    answer of every ordered query, and so is the node list of `Model.graph`. `Declared` and `OdeOnce` are no longer assumed: the loader guarantees them
    (`load_declared`, `load_odeOnce`: `_check_duplicate_definitions`, the symbol lookup of the transpiler). What is
    left as hypothesis is that the numbering of nodes tells declared variables apart and that `str` keys are pairwise
    distinct (variable names are unique, `Model.graph` asserts it for left-hand sides). -/
theorem same_document_same_model (doc : Doc) (π π' : Adv) (hπ : π.Fair) (hπ' : π'.Fair) (F : Flat)
    (h : load π doc = .ok F) (cx : Ctx) (obs : FlatEq → List (Lhs VRef))
    (hnum : ∀ a ∈ variables F, ∀ b ∈ variables F, cx.num (.var a) = cx.num (.var b) → a = b)
    (hkey : ∀ a b, (C09.hasEq (system cx π obs F) a = true ∨ C09.isStateOrFree (system cx π obs F) a = true) →
      (C09.hasEq (system cx π obs F) b = true ∨ C09.isStateOrFree (system cx π obs F) b = true) →
      cx.key a = cx.key b → a = b) :
    load π' doc = .ok F ∧
    (getDerivatives cx π obs F).toOption = (getDerivatives cx π' obs F).toOption ∧
    (getDerivedQuantities cx π obs F).toOption = (getDerivedQuantities cx π' obs F).toOption ∧
    (∀ vars recurse strip, (getEquationsFor cx π obs F vars recurse strip).toOption =
      (getEquationsFor cx π' obs F vars recurse strip).toOption) ∧
    (graphNodes cx π obs F).toOption = (graphNodes cx π' obs F).toOption :=
  have q := queries_order_independent cx π π' hπ hπ' obs F (load_declared cx h) (load_odeOnce cx h hnum) hkey
  ⟨h, q.1, q.2.1, q.2.2, graph_nodes_order_independent cx π π' hπ hπ' obs F hkey⟩

/-- `get_state_variables` does not go through the graph at all -/
theorem states_order_independent (cx : Ctx) (π π' : Adv) (doc : Doc) (F F' : Flat)
    (h : load π doc = .ok F) (h' : load π' doc = .ok F') : getStateVariables cx F = getStateVariables cx F' := by
  have : (Except.ok F : Except Err Flat) = .ok F' := h.symm.trans ((load_order_independent π π' doc).trans h')
  cases this; rfl

/-! ### The graph before its fix; the roles before and after theirs -/

/-- a small flat model: `dx/dt = x + y`, `dy/dt = a`, `z = a + a`, constant `a = 3` (what `load` gives for one
    component with variables t, x, y, z, a) -/
def demoF : Flat :=
  { reg := []
    vars := [⟨("c", "t"), [], none, none⟩, ⟨("c", "x"), [], some 1, none⟩, ⟨("c", "y"), [], some 2, none⟩,
             ⟨("c", "z"), [], none, none⟩, ⟨("c", "a"), [], none, none⟩]
    eqs := [⟨.diff ("c", "x") ("c", "t"), .add (.var ("c", "x")) (.var ("c", "y"))⟩,
            ⟨.diff ("c", "y") ("c", "t"), .var ("c", "a")⟩,
            ⟨.var ("c", "z"), .add (.var ("c", "a")) (.var ("c", "a"))⟩,
            ⟨.var ("c", "a"), .num 3 ([], [])⟩] }

def demoCx : Ctx := ctxOf demoF

/-- FIXED FINDING `hashseed:graph_nodes`, the code BEFORE the fix (`graphNodesSet`: the references walked in set
    order). The node LIST of `Model.graph` did depend on the iteration order of `find_variables_and_derivatives`: the
    states `x`, `y` (nodes 1, 2) referenced by `dx/dt = x + y` became nodes in the order the set handed them out.
    (Nodes: t x y z a = 0 1 2 3 4, dx/dt = 5, dy/dt = 6.) -/
theorem graph_nodes_set_order_dependent :
    Adv.ident.Fair ∧ Adv.rev.Fair ∧
    graphNodesSet demoCx Adv.ident obsAll demoF = .ok [5, 6, 3, 4, 1, 2, 0] ∧
    graphNodesSet demoCx Adv.rev obsAll demoF = .ok [5, 6, 3, 4, 2, 1, 0] := by
  refine ⟨⟨fun _ => .refl _, fun _ _ => .refl _, fun _ => .refl _⟩,
    ⟨fun l => l.reverse_perm, fun _ l => l.reverse_perm, fun l => l.reverse_perm⟩, ?_, ?_⟩ <;> decide +kernel

/-- AFTER the fix (`graphNodes`: `sorted(…, key=str)`): one list under every adversary — `c$x` before `c$y` — an
    instance of `graph_nodes_order_independent`, evaluated -/
example :
    graphNodes demoCx Adv.ident obsAll demoF = .ok [5, 6, 3, 4, 1, 2, 0] ∧
    graphNodes demoCx Adv.rev obsAll demoF = .ok [5, 6, 3, 4, 1, 2, 0] ∧
    graphNodes demoCx (Adv.rot 1) obsAll demoF = .ok [5, 6, 3, 4, 1, 2, 0] ∧
    graph demoCx Adv.rev obsAll demoF = graph demoCx Adv.ident obsAll demoF := by
  decide +kernel

/-- the hypothesis of `graph_order_independent` holds of it -/
example : RefKeys demoCx demoF := by
  intro e he
  simp only [demoF, List.mem_cons, List.not_mem_nil, or_false] at he
  rcases he with rfl | rfl | rfl | rfl <;> decide +kernel

/-- why the keys must be distinct: Python's `sorted` is stable, two references with the same `str` stay in the order
    the set gave them -/
example : C09.sortStr (fun _ => "k") [1, 2] = [1, 2] ∧ C09.sortStr (fun _ => "k") [2, 1] = [2, 1] := by decide

/-- every ordered query answers the same, too (instances of `queries_order_independent`, evaluated) -/
example :
    getDerivatives demoCx Adv.ident obsAll demoF = .ok [5, 6] ∧ getDerivatives demoCx Adv.rev obsAll demoF = .ok [5, 6] ∧
    getDerivedQuantities demoCx Adv.ident obsAll demoF = .ok [3] ∧
    getDerivedQuantities demoCx Adv.rev obsAll demoF = .ok [3] ∧
    getStateVariables demoCx demoF = [1, 2] ∧
    getEquationsFor demoCx Adv.ident obsAll demoF [5, 3] true true = .ok [4, 5, 3] ∧
    getEquationsFor demoCx (Adv.rot 1) obsAll demoF [5, 3] true true = .ok [4, 5, 3] := by
  decide +kernel

/-- the hypotheses of `queries_order_independent` hold of it -/
example : Declared demoCx demoF ∧ OdeOnce demoCx demoF := by
  constructor
  · intro e he
    simp only [demoF, List.mem_cons, List.not_mem_nil, or_false] at he
    rcases he with rfl | rfl | rfl | rfl <;> decide +kernel
  · intro e₁ h₁ e₂ h₂
    simp only [demoF, List.mem_cons, List.not_mem_nil, or_false] at h₁ h₂
    rcases h₁ with rfl | rfl | rfl | rfl <;> rcases h₂ with rfl | rfl | rfl | rfl <;> decide +kernel

/-- the same equations with `t = 2·s` added BEFORE resp. AFTER the ODE whose free variable `t` is -/
def freeEqFirst : Flat :=
  { reg := []
    vars := [⟨("A", "t"), [], none, none⟩, ⟨("A", "s"), [], none, none⟩, ⟨("B", "x"), [], some 1, none⟩]
    eqs := [⟨.var ("A", "t"), .mul (.num 2 ([], [])) (.var ("A", "s"))⟩,
            ⟨.diff ("B", "x") ("A", "t"), .num 1 ([], [])⟩,
            ⟨.var ("A", "s"), .num 1 ([], [])⟩] }

def freeEqLast : Flat :=
  { freeEqFirst with
    eqs := [⟨.diff ("B", "x") ("A", "t"), .num 1 ([], [])⟩,
            ⟨.var ("A", "t"), .mul (.num 2 ([], [])) (.var ("A", "s"))⟩,
            ⟨.var ("A", "s"), .num 1 ([], [])⟩] }

/-- **The roles are a function of the SET of equations** (FIXED FINDING
    `permutation:derived-free-variable-with-equation`). `Model.graph` types all left-hand sides first and assigns the
    roles that come from the ODEs afterwards — STATE, then FREE —, so for two equation lists that are permutations of
    one another (left-hand sides pairwise different: what `Model.graph` asserts) EVERY variable has the same
    `Variable.type`, wherever the ODEs stand. -/
theorem roles_equation_order_independent (cx : Ctx) (eqs eqs' : List FlatEq) (hp : eqs'.Perm eqs)
    (hnd : (eqs.map (fun e => cx.num e.lhs)).Nodup) : types cx eqs' = types cx eqs :=
  types_perm cx hp hnd

/-- **`get_derived_quantities()` is invariant under permuting `Model.equations`** — that is, under permuting the
    components, the `<math>` elements or the equations of the document, which permute `Model.equations`
    (`equations_follow_document`, `element_perm_equations`): two flat models with the same variables and the same
    equations in another order return the same list, or are both refused. Hypothesis as in
    `queries_order_independent`: every defined variable is declared (the loader guarantees it: `load_declared`). -/
theorem derived_equation_order_independent (cx : Ctx) (π : Adv) (obs : FlatEq → List (Lhs VRef)) (F F' : Flat)
    (hvars : F'.vars = F.vars) (hp : F'.eqs.Perm F.eqs) (hd : Declared cx F) :
    (getDerivedQuantities cx π obs F').toOption = (getDerivedQuantities cx π obs F).toOption :=
  derived_perm hvars hp hd

/-- the same for a document that loads (`Declared` proved from `Load.load doc = ok F`) -/
theorem derived_equation_order_independent_loaded (doc : Doc) (cx : Ctx) (π : Adv) (obs : FlatEq → List (Lhs VRef))
    (F F' : Flat) (h : load π doc = .ok F) (hvars : F'.vars = F.vars) (hp : F'.eqs.Perm F.eqs) :
    (getDerivedQuantities cx π obs F').toOption = (getDerivedQuantities cx π obs F).toOption :=
  derived_perm hvars hp (load_declared cx h)

/-- BEFORE the fix (`typesOld`: ONE loop, the LAST assignment to `Variable.type` stays; `getDerivedQuantitiesOld`).
    When the free variable of an ODE also has a defining equation, the SET `get_derived_quantities` returned depended
    on the order of `Model.equations`, i.e. on the order of the components in the document: the same three equations,
    `t` (node 0) is a derived quantity or not. -/
theorem derived_depended_on_equation_order_before_fix :
    freeEqLast.eqs.Perm freeEqFirst.eqs ∧
    getDerivedQuantitiesOld (ctxOf freeEqFirst) Adv.ident obsAll freeEqFirst = .ok [] ∧
    getDerivedQuantitiesOld (ctxOf freeEqLast) Adv.ident obsAll freeEqLast = .ok [0] := by
  refine ⟨?_, by decide +kernel, by decide +kernel⟩
  exact List.Perm.swap _ _ _

/-- AFTER the fix: `t` is FREE in both orders and is no derived quantity in either (an instance of
    `derived_equation_order_independent`, evaluated); a variable that is the state of one ODE and the free variable of
    another is FREE in both orders, too -/
example :
    getDerivedQuantities (ctxOf freeEqFirst) Adv.ident obsAll freeEqFirst = .ok [] ∧
    getDerivedQuantities (ctxOf freeEqLast) Adv.ident obsAll freeEqLast = .ok [] ∧
    types (ctxOf freeEqFirst) freeEqFirst.eqs 0 = some .free ∧
    types (ctxOf freeEqLast) freeEqLast.eqs 0 = some .free ∧
    typesOld (ctxOf freeEqFirst) freeEqFirst.eqs 0 = some .free ∧
    typesOld (ctxOf freeEqLast) freeEqLast.eqs 0 = some .computed := by
  decide +kernel

/-- the hypotheses of `derived_equation_order_independent` hold of the pair -/
example : freeEqLast.vars = freeEqFirst.vars ∧ Declared (ctxOf freeEqFirst) freeEqFirst := by
  refine ⟨rfl, ?_⟩
  intro e he
  simp only [freeEqFirst, List.mem_cons, List.not_mem_nil, or_false] at he
  rcases he with rfl | rfl | rfl <;> decide +kernel

/-! ## Part 2 — sorting -/

/-- **Sorted queries are deterministic**: `list.sort(key=order_added)` on pairwise distinct keys returns a list that
    depends only on the SET sorted — not on the order in which a dict, a graph or a set delivered the elements. -/
theorem sorted_queries_deterministic {α : Type} (k : α → Nat) (l₁ l₂ : List α) (hp : l₁.Perm l₂)
    (hinj : ∀ a ∈ l₁, ∀ b ∈ l₁, k a = k b → a = b) : sortBy k l₁ = sortBy k l₂ :=
  sortBy_eq_of_perm k hp hinj

/-- the result is the elements sorted: a permutation of the input, keys non-decreasing -/
theorem sortBy_spec {α : Type} (k : α → Nat) (l : List α) :
    (sortBy k l).Perm l ∧ (sortBy k l).Pairwise (fun a b => k a ≤ k b) := ⟨sortBy_perm k l, sortBy_sorted k l⟩

/-- equal keys ARE ordered by arrival (Python's sort is stable) — why distinct keys are needed -/
theorem sorted_ties_follow_insertion :
    sortBy (fun _ : Nat => 0) [1, 2] = [1, 2] ∧ sortBy (fun _ : Nat => 0) [2, 1] = [2, 1] := by decide

/-- **`order_added` keys are distinct**, after any history of `add_variable` / `remove_variable`: they come from the
    counter `_variables_added`, which only grows. `variables()` (dict order) is strictly increasing in `order_added`,
    hence already sorted by it. -/
theorem order_added_distinct (ops : List VarOp) :
    ((VarsState.run ops).live.map (·.2)).Pairwise (· < ·) ∧ ((VarsState.run ops).live.map (·.2)).Nodup := by
  have h := (VarsState.good_run ops).1
  exact ⟨h, h.imp (fun hab => Nat.ne_of_lt hab)⟩

/-- BEFORE the C08 fix (`order_added = len(self._name_to_variable)`) a key could be reused: add a, add b, remove a,
    add c gives b and c the same `order_added` -/
theorem order_added_reused_before_fix :
    (([VarOp.add "a", .add "b", .remove "a", .add "c"].foldl VarsState.stepOld ⟨[], 0⟩).live.map (·.2)) = [1, 1] ∧
    ((VarsState.run [VarOp.add "a", .add "b", .remove "a", .add "c"]).live.map (·.2)) = [1, 2] := by
  decide +kernel

/-- `get_equations_for`'s ordering (networkx' lexicographical topological sort by `str`) with pairwise distinct keys
    depends only on the SET of nodes and the SET of edges — re-exported from C09. -/
theorem lexTopo_insertion_independent (key : Node → String) (g g' : C09.Graph)
    (hnodes : g'.nodes.Perm g.nodes) (hedges : ∀ e, e ∈ g'.edges ↔ e ∈ g.edges) (hinj : C09.KeyInj key g.nodes) :
    C09.lexTopo key g' = C09.lexTopo key g :=
  Cellml.Props.C09.lexTopo_insertion_independent key g g' hnodes hedges hinj

/-- … so the node list of the graph could be in any order (as it was before the fix:
    `graph_nodes_set_order_dependent`) without consequence for `get_equations_for` -/
example : C09.lexTopo demoCx.key ⟨[5, 6, 3, 4, 1, 2, 0], [(1, 5), (2, 5), (4, 6), (4, 3)]⟩ =
    C09.lexTopo demoCx.key ⟨[5, 6, 3, 4, 2, 1, 0], [(2, 5), (1, 5), (4, 6), (4, 3)]⟩ := by decide +kernel

/-! ## Part 3 — permuting the elements of the document

    Which orders FOLLOW the document (and therefore change when the corresponding elements are permuted):
    * `variables()` / `order_added`: `<component>` order, then `<variable>` order (`variables_follow_document`);
    * `Model.equations`: conversion equations in the order the connection work list resolves them, then the maths
      of the components in `<component>` / `<math>` / equation order, then the initial-value constants in
      `variables()` order (`equations_follow_document`);
    * the sorted role queries: `variables()` order (definition of `orderAdded`); `get_equations_for`: none.
    Everything else is unchanged: `element_perm_*`. -/

/-- **`variables()` follows the document**: components in file order, in each the variables in file order. -/
theorem variables_follow_document (doc : Doc) (F : Flat) (h : Load.load doc = .ok F) :
    variables F = doc.comps.flatMap (fun c => c.vars.map (fun d => (c.name, d.name))) := by
  obtain ⟨L, hL, rfl⟩ := Cellml.Props.C01.load_flat h
  obtain ⟨_, _, hvt, _⟩ := prepare_parts hL
  simp only [variables, Loaded.flat, flatVars, hvt, varTable, List.map_map, List.map_flatMap]
  rfl

/-- **`Model.equations` follows the document** in exactly this way. -/
theorem equations_follow_document (doc : Doc) (F : Flat) (h : Load.load doc = .ok F) :
    ∃ L, prepare doc = .ok L ∧
      F.eqs = L.st.convs.map ConvEq.toEq
        ++ doc.comps.flatMap (fun c => c.eqs.map (transcribe L.ust L.st c.name))
        ++ (varTable L.ust doc.comps).filterMap (constOf (L.states doc)) := by
  obtain ⟨L, hL, rfl⟩ := Cellml.Props.C01.load_flat h
  obtain ⟨_, _, hvt, _⟩ := prepare_parts hL
  refine ⟨L, hL, ?_⟩
  simp only [Loaded.flat, Loaded.maths, mathsOf, ← hvt]
  rfl

/-- two connection lists with the same members get the same directed connections (as a set) -/
theorem directAll_mem_iff {comps : List String} {par : ParentMap} {vt : VarTable} {ks ks' : List Conn}
    {dl dl' : List (VRef × VRef)} (hk : ∀ k, k ∈ ks ↔ k ∈ ks') (h1 : directAll comps par vt ks = .ok dl)
    (h2 : directAll comps par vt ks' = .ok dl') : ∀ d, d ∈ dl ↔ d ∈ dl' := by
  obtain ⟨a1, b1⟩ := directAll_spec h1
  obtain ⟨a2, b2⟩ := directAll_spec h2
  intro d
  constructor
  · intro hd
    obtain ⟨k, hkm, hdk⟩ := b1 d hd
    obtain ⟨d', hd', hdk'⟩ := a2 k ((hk k).mp hkm)
    rw [hdk] at hdk'; simp only [Except.ok.injEq] at hdk'; rw [hdk']; exact hd'
  · intro hd
    obtain ⟨k, hkm, hdk⟩ := b2 d hd
    obtain ⟨d', hd', hdk'⟩ := a1 k ((hk k).mpr hkm)
    rw [hdk] at hdk'; simp only [Except.ok.injEq] at hdk'; rw [hdk']; exact hd'

/-- **Permuting `<connection>` / `<map_variables>` elements.** Two documents that differ only in the order of their
    connections (same members), both loaded: every variable stands for the same source (`rootOf`) and has the same
    `assigned_to`; the variables (name, units, initial value) are the same list; the component maths and the
    constants are the same LISTS; the conversion equations at the front of `Model.equations` are the same SET (in
    work-list order) — so `Model.equations` is the same set of equations. -/
theorem element_perm_connections (doc : Doc) (ks' : List Conn) (hk : ∀ k, k ∈ doc.conns ↔ k ∈ ks') (F F' : Flat)
    (h : Load.load doc = .ok F) (h' : Load.load { doc with conns := ks' } = .ok F') :
    ∃ L L', prepare doc = .ok L ∧ prepare { doc with conns := ks' } = .ok L' ∧
      (∀ v, rootOf L.st v = rootOf L'.st v) ∧ (∀ v, L.st.asg v = L'.st.asg v) ∧
      variables F' = variables F ∧ plainVars F' = plainVars F ∧
      (∃ maths consts, F.eqs = L.st.convs.map ConvEq.toEq ++ maths ++ consts ∧
        F'.eqs = L'.st.convs.map ConvEq.toEq ++ maths ++ consts) ∧
      (∀ e, e ∈ L.st.convs ↔ e ∈ L'.st.convs) ∧ (∀ e, e ∈ F.eqs ↔ e ∈ F'.eqs) := by
  obtain ⟨L, hL, rfl⟩ := Cellml.Props.C01.load_flat h
  obtain ⟨L', hL', rfl⟩ := Cellml.Props.C01.load_flat h'
  obtain ⟨hu, _, hvt, hp, hd, hc⟩ := prepare_parts hL
  obtain ⟨hu', _, hvt', hp', hd', hc'⟩ := prepare_parts hL'
  simp only at hu' hvt' hp' hd' hc'
  have e1 : (L.reg, L.ust) = (L'.reg, L'.ust) := Except.ok.inj (hu.symm.trans hu')
  have hreg : L'.reg = L.reg := (congrArg Prod.fst e1).symm
  have hust : L'.ust = L.ust := (congrArg Prod.snd e1).symm
  have hvt2 : L'.vt = L.vt := by rw [hvt', hvt, hust]
  have hpar : L'.par = L.par := (Except.ok.inj (hp.symm.trans hp')).symm
  rw [hvt2, hpar] at hd'
  rw [hreg, hvt2] at hc'
  have hroot := Cellml.Props.C01.conns_order_irrelevant hk hd hd' hc hc'
  obtain ⟨hasg, hconvs⟩ := connect_perm_convs (directAll_mem_iff hk hd hd') hc hc'
  have hm : L'.maths { doc with conns := ks' } = L.maths doc := by
    simp only [Loaded.maths, hust]
    exact (mathsOf_congr L.ust hroot doc.comps).symm
  have hs : L'.states { doc with conns := ks' } = L.states doc := by
    simp only [Loaded.states, hm]
  have hF' : (L'.flat { doc with conns := ks' }).eqs =
      L'.st.convs.map ConvEq.toEq ++ L.maths doc ++ constsOf (L.states doc) L.vt := by
    simp only [Loaded.flat, hm, hs, hvt2]
  refine ⟨L, L', hL, hL', hroot, hasg, ?_, ?_, ⟨L.maths doc, constsOf (L.states doc) L.vt, rfl, hF'⟩, hconvs, ?_⟩
  · simp only [variables, Loaded.flat, flatVars, List.map_map, hvt2]
    rfl
  · rw [plainVars_flat, plainVars_flat, hvt2, hs]
  · intro e
    rw [hF']
    simp only [Loaded.flat, List.mem_append, List.mem_map]
    constructor
    · rintro ((⟨c, hc1, rfl⟩ | h2) | h3)
      · exact Or.inl (Or.inl ⟨c, (hconvs c).mp hc1, rfl⟩)
      · exact Or.inl (Or.inr h2)
      · exact Or.inr h3
    · rintro ((⟨c, hc1, rfl⟩ | h2) | h3)
      · exact Or.inl (Or.inl ⟨c, (hconvs c).mpr hc1, rfl⟩)
      · exact Or.inl (Or.inr h2)
      · exact Or.inr h3

/-- **Swapping the two ends of connections** (`component_1` ↔ `component_2` with `variable_1` ↔ `variable_2`, for
    any subset `flip` of the connections) gives the very same flat model. -/
theorem element_perm_ends (doc : Doc) (flip : Conn → Bool) (F : Flat) (h : Load.load doc = .ok F)
    (hok : ∀ L, prepare doc = .ok L → ∀ k ∈ doc.conns, Cellml.Props.C01.SwapOK L.par L.vt k) :
    Load.load { doc with conns := doc.conns.map (fun k => if flip k then k.swap else k) } = .ok F := by
  obtain ⟨L, hL, rfl⟩ := Cellml.Props.C01.load_flat h
  obtain ⟨hu, ⟨chk, hchk⟩, hvt, hp, hd, hc⟩ := prepare_parts hL
  have hd' := Cellml.Props.C01.directAll_swap (doc.comps.map (·.name)) L.par L.vt flip doc.conns L.dl (hok L hL) hd
  have hprep : prepare { doc with conns := doc.conns.map (fun k => if flip k then k.swap else k) } = .ok L := by
    have := prepare_of_parts (doc := { doc with conns := doc.conns.map (fun k => if flip k then k.swap else k) })
      (reg := L.reg) (ust := L.ust) (chk := chk) (par := L.par) (dl := L.dl) (st := L.st)
      hu hchk hp (hvt ▸ hd') (hvt ▸ hc)
    rw [this]
    congr 1
    cases L
    simp only at hvt
    simp only [hvt]
  unfold Load.load at h ⊢
  rw [hprep]
  rw [hL] at h
  exact h

/-- **Permuting the equations inside `<math>` elements / the `<math>` elements of a component** (`σ c` = any
    permutation of the equations of component `c`): same variables (list, with initial values and cmeta ids), same
    conversion equations at the front and same constants at the end of `Model.equations` (lists), the component
    maths in between the same SET; the same set of states. -/
theorem element_perm_equations (doc : Doc) (σ : Comp → List (Eqn String String)) (hσ : ∀ c, (σ c).Perm c.eqs)
    (F F' : Flat) (h : Load.load doc = .ok F) (h' : Load.load { doc with comps := respell σ doc.comps } = .ok F') :
    F'.vars = F.vars ∧ F'.eqs.Perm F.eqs ∧
    ∃ convs maths maths' consts, F.eqs = convs ++ maths ++ consts ∧ F'.eqs = convs ++ maths' ++ consts ∧
      maths'.Perm maths ∧ (statesOf F'.eqs).Perm (statesOf F.eqs) := by
  obtain ⟨L, hL, rfl⟩ := Cellml.Props.C01.load_flat h
  obtain ⟨L', hL', rfl⟩ := Cellml.Props.C01.load_flat h'
  rw [respell_prepare, hL] at hL'
  cases hL'
  have hm : (L.maths { doc with comps := respell σ doc.comps }).Perm (L.maths doc) :=
    respell_maths_perm σ hσ L.ust L.st doc.comps
  have hs : ∀ v, v ∈ L.states { doc with comps := respell σ doc.comps } ↔ v ∈ L.states doc :=
    fun v => (statesOf_perm hm).mem_iff
  have hc := constsOf_congr hs L.vt
  have hv := flatVars_congr hs L.st L.vt
  have heqs : (L.flat { doc with comps := respell σ doc.comps }).eqs =
      L.st.convs.map ConvEq.toEq ++ L.maths { doc with comps := respell σ doc.comps } ++ constsOf (L.states doc) L.vt := by
    simp only [Loaded.flat, hc]
  have hperm : (L.flat { doc with comps := respell σ doc.comps }).eqs.Perm (L.flat doc).eqs := by
    rw [heqs]
    exact List.Perm.append_right _ (List.Perm.append_left _ hm)
  refine ⟨?_, hperm, L.st.convs.map ConvEq.toEq, L.maths doc, L.maths { doc with comps := respell σ doc.comps },
    constsOf (L.states doc) L.vt, rfl, heqs, hm, statesOf_perm hperm⟩
  simp only [Loaded.flat, hv]

/-- **Permuting `<component>` elements** permutes `variables()` accordingly (and with it `order_added`, hence the
    sorted role queries) — `variables()` of both documents are spelled out by `variables_follow_document`. -/
theorem element_perm_components (doc : Doc) (comps' : List Comp) (hp : comps'.Perm doc.comps) (F F' : Flat)
    (h : Load.load doc = .ok F) (h' : Load.load { doc with comps := comps' } = .ok F') :
    (variables F').Perm (variables F) := by
  rw [variables_follow_document _ _ h, variables_follow_document _ _ h']
  exact hp.flatMap_right _

/-! ### Non-vacuity: a component with two equations and two initial-value constants -/

def twoDoc : Doc :=
  { units := []
    comps := [⟨"A", [⟨"a", "volt", .none, .none, none, none⟩, ⟨"b", "volt", .none, .none, none, none⟩,
                     ⟨"k", "volt", .none, .none, some 5, none⟩, ⟨"j", "volt", .none, .none, some 7, none⟩],
                    [⟨.var "a", .num 1 "volt"⟩, ⟨.var "b", .add (.var "a") (.var "k")⟩]⟩]
    encaps := [], conns := [] }

def twoVt : VarTable := varTable { id := 0, known := [] } twoDoc.comps
def twoL : Loaded := ⟨Units.builtinRegistry, { id := 0, known := [] }, twoVt, [], [], initState twoVt⟩

theorem two_prepare (σ : Comp → List (Eqn String String)) :
    prepare { twoDoc with comps := respell σ twoDoc.comps } = .ok twoL := by
  rw [respell_prepare]
  exact prepare_of_parts (chk := ([("A", "j"), ("A", "k"), ("A", "b"), ("A", "a")], []))
    (by decide +kernel) (by decide +kernel) (by decide +kernel) (by decide +kernel)
    (connect_of_fuel 1 (by decide +kernel))

/-- the equations of a component written in the other order -/
def revEqs (c : Comp) : List (Eqn String String) := c.eqs.reverse

theorem two_load : Load.load twoDoc = .ok (twoL.flat twoDoc) :=
  load_of_parts (defined := [("A", "b"), ("A", "a")]) (two_prepare (fun c => c.eqs)) (by decide +kernel) (by decide +kernel)

theorem two_load_rev : Load.load { twoDoc with comps := respell revEqs twoDoc.comps } =
    .ok (twoL.flat { twoDoc with comps := respell revEqs twoDoc.comps }) :=
  load_of_parts (defined := [("A", "a"), ("A", "b")]) (two_prepare revEqs) (by decide +kernel) (by decide +kernel)

/-- `Model.equations` follows the order of the equations in the document (so the two lists differ) while
    `element_perm_equations` applies: same set, same constants at the end, same variables -/
example : (twoL.flat { twoDoc with comps := respell revEqs twoDoc.comps }).eqs ≠ (twoL.flat twoDoc).eqs ∧
    (twoL.flat { twoDoc with comps := respell revEqs twoDoc.comps }).eqs.Perm (twoL.flat twoDoc).eqs :=
  ⟨by decide +kernel,
   (element_perm_equations twoDoc revEqs (fun c => List.reverse_perm _) _ _ two_load two_load_rev).2.1⟩

/-- BEFORE the fix the two constants `k = 5`, `j = 7` of this document were appended in hash order: `loadSet` under
    two fair adversaries gives two different `Model.equations` -/
def twoFlatSet (π : Adv) : Flat :=
  { reg := twoL.reg
    vars := flatVars (twoL.states twoDoc) twoL.st twoL.vt
    eqs := twoL.st.convs.map ConvEq.toEq ++ twoL.maths twoDoc ++ transformConstantsSet π (twoL.states twoDoc) twoL.vt }

theorem loadSet_order_dependent :
    ∃ F F', loadSet Adv.ident twoDoc = .ok F ∧ loadSet Adv.rev twoDoc = .ok F' ∧ F.eqs ≠ F'.eqs := by
  have hp : prepare twoDoc = .ok twoL := two_prepare (fun c => c.eqs)
  have key : ∀ π : Adv, loadSet π twoDoc = .ok (twoFlatSet π) := by
    intro π
    have h2 : checkMaths twoL.ust twoL.vt twoL.st twoDoc.comps (twoL.st.convs.map (·.target)) =
        .ok [("A", "b"), ("A", "a")] := by decide +kernel
    have h3 : checkConstants (twoL.states twoDoc) [("A", "b"), ("A", "a")] twoL.vt = .ok () := by decide +kernel
    unfold loadSet
    rw [hp]; simp only
    rw [h2]; simp only
    rw [h3]
    rfl
  exact ⟨_, _, key Adv.ident, key Adv.rev, by decide +kernel⟩

/-! ### Non-vacuity: the relay document of C01 (membrane ⊃ channel ⊃ gate, two conversion equations) -/

open Cellml.Props.C01 in
def relayRevDoc : Doc := { relayDoc with conns := relayDoc.conns.reverse }

open Cellml.Props.C01 in
def relayRevSt : CState :=
  match connectLoopF relayUnits.1 relayVt 10 relayDl.reverse 0 (initState relayVt) with
  | some (.ok st) => st
  | _ => initState relayVt

open Cellml.Props.C01 in
theorem relayRev_connect : connect relayUnits.1 relayVt relayDl.reverse = .ok relayRevSt :=
  connect_of_fuel 10 (by decide +kernel)

open Cellml.Props.C01 in
/-- its connections in the other order resolve too (the work list then needs no rotation) … -/
theorem relay_reversed_loads : ∃ F', Load.load relayRevDoc = .ok F' := by
  have hprep : prepare relayRevDoc = .ok ⟨relayUnits.1, relayUnits.2, relayVt, relayPar, relayDl.reverse, relayRevSt⟩ :=
    prepare_of_parts (chk := ([("membrane", "V"), ("channel", "V"), ("gate", "y"), ("gate", "v")], []))
      (by decide +kernel) (by decide +kernel) (by decide +kernel) (by decide +kernel) relayRev_connect
  exact ⟨_, load_of_parts (defined := [("membrane", "V"), ("gate", "y"), ("channel", "V"), ("gate", "v")])
    hprep (by decide +kernel) (by decide +kernel)⟩

open Cellml.Props.C01 in
/-- … so `element_perm_connections` applies: same roots, same variables, same maths and constants -/
example : ∃ F', Load.load relayRevDoc = .ok F' ∧ variables F' = variables (relayL.flat relayDoc) := by
  obtain ⟨F', h'⟩ := relay_reversed_loads
  obtain ⟨_, _, _, _, _, _, hv, _⟩ := element_perm_connections relayDoc relayDoc.conns.reverse
    (fun k => List.mem_reverse.symm) _ F' relay_load h'
  exact ⟨F', h', hv⟩

open Cellml.Props.C01 in
/-- `element_perm_ends` applies to it: both connections written the other way round load to the same flat model -/
example : Load.load { relayDoc with conns := relayDoc.conns.map (fun k => if true then k.swap else k) } =
    .ok (relayL.flat relayDoc) := by
  apply element_perm_ends relayDoc (fun _ => true) _ relay_load
  intro L hL k hk
  rw [relay_prepare] at hL
  have hL' : relayL = L := Except.ok.inj hL
  subst hL'
  simp only [relayDoc, List.mem_cons, List.not_mem_nil, or_false] at hk
  rcases hk with rfl | rfl
  · exact ⟨⟨[("store0_mV", 1)], .inn, .none, none, none, "mV"⟩, ⟨[("volt", 1)], .inn, .out, none, none, "volt"⟩,
      by decide +kernel, by decide +kernel, by decide +kernel⟩
  · exact ⟨⟨[("volt", 1)], .inn, .out, none, none, "volt"⟩, ⟨[("store0_mV", 1)], .none, .out, none, none, "mV"⟩,
      by decide +kernel, by decide +kernel, by decide +kernel⟩

open Cellml.Props.C01 in
/-- the orders that follow the document, on the relay document -/
example : variables (relayL.flat relayDoc) = [("gate", "v"), ("gate", "y"), ("channel", "V"), ("membrane", "V")] := by
  rw [variables_follow_document _ _ relay_load]; rfl

end Cellml.Props.C15
