import Cellml.Tie.LoaderRel

/-! # Closed GENERATED stages of `Parser.parse`, part B: `_add_relationships` / `_handle_component_ref`

    `Tie/LoaderRel.lean` ties the two functions with OPEN recursion (`handleComponentRef_fix`: the hand model is a
    fixpoint of the generated functional). Here the recursion is closed:

    * `genHandleRef self n` — the generated `_handle_component_ref` calling ITSELF, `n` levels deep (python's recursion
      on a finite element tree; a deeper tree would end in the pseudo-exception `RecursionError`);
      `genHandleRef_eq`: for every tree of depth ≤ `n` it is `relModel` (= `Load.buildParents` on the edges below the
      element) — through `handleComponentRef_congr` (the generated body calls `rec` on the children only) and
      `handleComponentRef_fix`.
    * `genAddRelationships` — the generated `_add_relationships` over that closed callee, deep enough for the groups at
      hand; `genAddRelationships_eq`.
    * `genRelStage` — the stage of `Parser.parse`, on the `<group>` elements of the document. A `Load.Doc` keeps the
      groups FLATTENED (`Doc.encaps`: the `<component_ref>` edges in document pre-order); `groupsOf` writes an edge
      list back as XML, one `<group>` per edge (`<component_ref p><component_ref c/></component_ref>`), whose
      pre-order flattening is the edge list again up to top-level edges `(None, p)`, on which the code does nothing
      (`buildParents_groupsOf`); `genRelStage_eq`. -/

namespace Cellml.Tie.LoaderClose
open Load Cellml.Gen Cellml.Tie

/-! ## a `for` loop only looks at its body on the members of the list -/

theorem forIn_congr_mem {α σ : Type} (f g : α → σ → Except PyErr (ForInStep σ)) : ∀ (l : List α) (s : σ),
    (∀ x ∈ l, ∀ s, f x s = g x s) → forIn l s f = forIn l s g
  | [], s, _ => rfl
  | x :: l, s, h => by
    rw [List.forIn_cons, List.forIn_cons, h x List.mem_cons_self s]
    cases g x s with
    | error e => rfl
    | ok r =>
      cases r with
      | done s' => rfl
      | yield s' =>
        simp only [bind, Except.bind]
        exact forIn_congr_mem f g l s' (fun y hy => h y (List.mem_cons_of_mem _ hy))

/-! ## nesting depth of an element -/

mutual
def depth : Elem → Nat
  | .mk _ _ rs => depthList rs + 1
def depthList : List Elem → Nat
  | [] => 0
  | t :: ts => max (depth t) (depthList ts)
end

theorem depth_eq (t : Elem) : depth t = depthList t.refs + 1 := by
  cases t; simp [depth, Elem.refs]

theorem depth_le_of_mem : ∀ {ts : List Elem} {t : Elem}, t ∈ ts → depth t ≤ depthList ts
  | t' :: ts, t, h => by
    simp only [depthList]
    simp only [List.mem_cons] at h
    rcases h with rfl | h
    · exact Nat.le_max_left _ _
    · exact Nat.le_trans (depth_le_of_mem h) (Nat.le_max_right _ _)

/-! ## `_handle_component_ref`, recursion closed -/

/-- the generated body calls `rec` on the `<component_ref>` children of its element only -/
theorem handleComponentRef_congr (rec rec' : Elem → Option String → RelState → Except PyErr RelState) (self : RelView)
    (tag : Elem) (parent : Option String) (st : RelState) (h : ∀ t ∈ tag.refs, ∀ p s, rec t p s = rec' t p s) :
    LoaderRel.handleComponentRef rec self tag parent st = LoaderRel.handleComponentRef rec' self tag parent st := by
  unfold LoaderRel.handleComponentRef
  simp only []
  congr 1
  apply forIn_congr_mem
  intro x hx s
  simp only [h x hx]

/-- `Parser._handle_component_ref` calling itself, at most `n` levels deep -/
def genHandleRef (self : RelView) : Nat → Elem → Option String → RelState → Except PyErr RelState
  | 0 => fun _ _ _ => .error ⟨"RecursionError"⟩
  | n + 1 => LoaderRel.handleComponentRef (genHandleRef self n) self

/-- **the closed generated `_handle_component_ref` IS `relModel`** (`Load.buildParents` on the edges below the element,
    error classes included) on every element tree it is deep enough for -/
theorem genHandleRef_eq (comps : List String) : ∀ (n : Nat) (tag : Elem) (parent : Option String) (st : RelState),
    depth tag ≤ n → genHandleRef ⟨comps⟩ n tag parent st = relModel comps tag parent st
  | 0, tag, _, _, h => by rw [depth_eq] at h; omega
  | n + 1, tag, parent, st, h => by
    show LoaderRel.handleComponentRef (genHandleRef ⟨comps⟩ n) ⟨comps⟩ tag parent st = _
    rw [handleComponentRef_congr _ (relModel comps) _ _ _ _ (fun t ht p s =>
      genHandleRef_eq comps n t p s (by
        have := depth_le_of_mem ht
        rw [depth_eq] at h
        omega))]
    exact handleComponentRef_fix comps tag parent st

/-! ## `_add_relationships` over the closed callee -/

theorem addRelationships_congr (rec rec' : Elem → Option String → RelState → Except PyErr RelState) (self : RelView)
    (m : ModelElem) (st : RelState) (h : ∀ g ∈ m.groups, ∀ p s, rec g p s = rec' g p s) :
    LoaderRel.addRelationships rec self m st = LoaderRel.addRelationships rec' self m st := by
  unfold LoaderRel.addRelationships
  simp only []
  congr 1
  apply forIn_congr_mem
  intro x hx s
  simp only [h x hx]

/-- `Parser._add_relationships` with `self._handle_component_ref` the closed generated function -/
def genAddRelationships (comps : List String) (m : ModelElem) (st : RelState) : Except PyErr RelState :=
  LoaderRel.addRelationships (genHandleRef ⟨comps⟩ (depthList m.groups)) ⟨comps⟩ m st

theorem genAddRelationships_eq (comps : List String) (gs : List Elem) (st : RelState)
    (hrel : ∀ g ∈ gs, g.relationships.length = 1) :
    genAddRelationships comps ⟨gs⟩ st =
      match buildParents comps (encapsOf gs) st.par st.enc with
      | .error e => .error ⟨e.className⟩
      | .ok par => .ok ⟨par, encOf (encapsOf gs) ++ st.enc⟩ := by
  unfold genAddRelationships
  rw [addRelationships_congr _ (relModel comps) _ _ _ (fun g hg p s =>
    genHandleRef_eq comps _ g p s (depth_le_of_mem hg))]
  exact addRelationships_tie comps gs st hrel

/-! ## the `<group>` elements of a `Load.Doc` -/

/-- an edge list written back as XML: one encapsulation `<group>` per edge -/
def groupsOf : List (Option String × String) → List Elem
  | [] => []
  | (none, c) :: r => .mk "" [some "encapsulation"] [.mk c [] []] :: groupsOf r
  | (some p, c) :: r => .mk "" [some "encapsulation"] [.mk p [] [.mk c [] []]] :: groupsOf r

theorem groupsOf_rel : ∀ (l : List (Option String × String)), ∀ g ∈ groupsOf l, g.relationships.length = 1
  | [], g, h => by cases h
  | (none, c) :: r, g, h => by
    simp only [groupsOf, List.mem_cons] at h
    rcases h with rfl | h
    · rfl
    · exact groupsOf_rel r g h
  | (some p, c) :: r, g, h => by
    simp only [groupsOf, List.mem_cons] at h
    rcases h with rfl | h
    · rfl
    · exact groupsOf_rel r g h

theorem encapsOf_cons_enc (g : Elem) (gs : List Elem) (h : g.relationships = [some "encapsulation"]) :
    encapsOf (g :: gs) = flatRefs none g.refs ++ encapsOf gs := by
  simp [encapsOf, h]

/-- the flattening of `groupsOf l` differs from `l` by top-level edges only, which `buildParents` (like the code:
    `if parent_component:`) passes over -/
theorem buildParents_groupsOf (comps : List String) : ∀ (l : List (Option String × String)) (par : ParentMap)
    (enc : List (String × String)),
    buildParents comps (encapsOf (groupsOf l)) par enc = buildParents comps l par enc
  | [], par, enc => by simp [groupsOf, encapsOf]
  | (none, c) :: r, par, enc => by
    rw [groupsOf, encapsOf_cons_enc _ _ rfl]
    simp only [Elem.refs, flatRefs, Elem.flat, List.append_nil, List.cons_append, List.nil_append, buildParents]
    exact buildParents_groupsOf comps r par enc
  | (some p, c) :: r, par, enc => by
    rw [groupsOf, encapsOf_cons_enc _ _ rfl]
    simp only [Elem.refs, flatRefs, Elem.flat, List.append_nil, List.cons_append, List.nil_append, buildParents]
    split
    · rfl
    · split
      · rfl
      · split
        · rfl
        · split
          · rfl
          · exact buildParents_groupsOf comps r _ _

theorem buildParents_err_class (comps : List String) : ∀ (l : List (Option String × String)) (par : ParentMap)
    (enc : List (String × String)) (e : Err), buildParents comps l par enc = .error e → C17.className e = e.className
  | [], _, _, _, h => by cases h
  | (none, c) :: r, par, enc, e, h => by
    simp only [buildParents] at h
    exact buildParents_err_class comps r par enc e h
  | (some p, c) :: r, par, enc, e, h => by
    simp only [buildParents] at h
    split at h
    · cases h; rfl
    · split at h
      · cases h; rfl
      · split at h
        · cases h; rfl
        · split at h
          · cases h; rfl
          · exact buildParents_err_class comps r _ _ e h

/-- the stage `self._add_relationships(model_xml)`: the generated function, its callee the closed generated
    `_handle_component_ref`, on the `<group>` elements of the document and the component names registered by
    `_add_components`; no component has a parent yet -/
def genRelStage (d : C17.FaultDoc) (st : ParseState) : Except PyErr ParseState :=
  match genAddRelationships (d.doc.comps.map (·.name)) ⟨groupsOf d.doc.encaps⟩ ⟨[], []⟩ with
  | .error e => .error e
  | .ok rs => .ok { st with par := some rs.par }

theorem genRelStage_eq (fd : C17.FaultDoc) : genRelStage = (parseView fd).addRelationships := by
  funext d st
  simp only [genRelStage, parseView]
  rw [genAddRelationships_eq _ _ _ (groupsOf_rel _), buildParents_groupsOf]
  cases hb : buildParents (d.doc.comps.map (·.name)) d.doc.encaps [] [] with
  | error e => simp [stageErr, buildParents_err_class _ _ _ _ _ hb]
  | ok par => rfl

end Cellml.Tie.LoaderClose
