import Cellml.Model.Inv

/-! # Annotations: cmeta ids, the RDF graph, and the lookups that go through them
      (model.py 143-163, 182-245, 282-320, 562-633, 707-747, 1019-1033, Variable._set_cmeta_id; rdf.py; parser.py 489-492)

    Core Lean only. Built on the C08 state (`MState`: `live`, `heap[i].cmeta`, `cmetaMap`, `modelCmeta`, and the
    operations `addVariable`, `removeVariable`, `addCmetaId`, `transferCmetaId`), to which this file adds

    * `rdf`: the model's `rdflib.Graph` as a list of triples without repetition (a graph is a SET of triples). A subject
      is the local cmeta id it names (`URIRef('#' + id)`, which is what `Variable.rdf_identity` is); subjects that are
      not local resources make `get_variable_by_cmeta_id` raise before any lookup and are not modelled;
    * `removeVariableA`: `remove_variable` with its deletion of the triples about the variable;
    * `convertVariable`: what `convert_variable` does to variables and ids (new variable under a unique name, the
      mover of model.py 1030-1033, the `_orig_deriv` variables); its equations belong to C06;
    * `loaderMove`: the mover of connection resolution (parser.py 491-492, repaired: to `source.assigned_to`);
    * the lookups: by id, by predicate/object, by ontology term, the terms of a variable, the display name. -/

namespace Model

/-- an RDF object node: a resource (the text of its URI) or a literal (its text); `str(node)` is `text` -/
inductive RNode
  | uri (s : String)
  | lit (s : String)
deriving DecidableEq, Repr, Inhabited

def RNode.text : RNode → String
  | .uri s => s
  | .lit s => s

structure Triple where
  subj : String      -- the cmeta id the subject `#id` names
  pred : String      -- URI of the predicate
  obj  : RNode
deriving DecidableEq, Repr, Inhabited

structure AState where
  m   : MState := {}
  rdf : List Triple := []
deriving DecidableEq, Repr, Inhabited

def ainit (modelCmeta : Option String) : AState := { m := init modelCmeta }

/-- `http://biomodels.net/biology-qualifiers/is` -/
def bqbiolIs : String := "http://biomodels.net/biology-qualifiers/is"

-- ------------------------------------------------------------------------------------------------ lookups
inductive LErr | keyError | valueError
deriving DecidableEq, Repr, Inhabited

/-- the live variable whose `cmeta_id` is `c`, found by looking at every variable (no registry) -/
def carrierOf (s : MState) (c : String) : Option Nat := s.live.find? (fun i => cmetaOf s i == some c)

/-- `rdf.subjects(predicate, object_)`: the triples that match; `o = none` is the wildcard -/
def tripleMatches (p : String) (o : Option RNode) (t : Triple) : Bool :=
  t.pred == p && (match o with | none => true | some x => t.obj == x)

/-- `[self.get_variable_by_cmeta_id(result) for result in …]` with a given id lookup: `none` = KeyError -/
def carriers (look : String → Option Nat) : List Triple → Option (List Nat)
  | [] => some []
  | t :: r =>
    match look t.subj, carriers look r with
    | some v, some vs => some (v :: vs)
    | _, _ => none

/-- `get_variables_by_rdf(predicate, object_, sort=True)`: one entry per matching triple -/
def byRdf (a : AState) (p : String) (o : Option RNode) : Except LErr (List Nat) :=
  match carriers (getVariableByCmetaId a.m) (a.rdf.filter (tripleMatches p o)) with
  | some vs => .ok (sortByKey (orderOf a.m) vs)
  | none => .error .keyError

/-- the same lookup computed from the variables alone -/
def byRdfSpec (a : AState) (p : String) (o : Option RNode) : Except LErr (List Nat) :=
  match carriers (carrierOf a.m) (a.rdf.filter (tripleMatches p o)) with
  | some vs => .ok (sortByKey (orderOf a.m) vs)
  | none => .error .keyError

/-- `get_variable_by_ontology_term` -/
def byTerm (a : AState) (term : RNode) : Except LErr Nat :=
  match byRdf a bqbiolIs (some term) with
  | .error e => .error e
  | .ok [v] => .ok v
  | .ok [] => .error .keyError
  | .ok _ => .error .valueError

/-- `str(object).split('#')[-1]` on the characters -/
def afterHash : List Char → List Char → List Char
  | [], acc => acc
  | c :: r, acc => if c = '#' then afterHash r r else afterHash r acc

def localName (s : String) : String := String.ofList (afterHash s.toList s.toList)

/-- `namespace_uri is None or str(object).startswith(namespace_uri)` -/
def nsOk (ns : Option String) (o : RNode) : Bool :=
  match ns with
  | none => true
  | some n => n.isPrefixOf o.text

/-- the triples `rdf.objects(variable.rdf_identity, bqbiol:is)` runs over -/
def annotationsOf (a : AState) (v : Nat) : List Triple :=
  match cmetaOf a.m v with
  | none => []
  | some c => a.rdf.filter (fun t => t.subj == c && t.pred == bqbiolIs)

/-- `get_ontology_terms_by_variable` (in the order of the triple list; rdflib's order is unspecified) -/
def termsOf (a : AState) (v : Nat) (ns : Option String) : List String :=
  ((annotationsOf a v).filter (fun t => nsOk ns t.obj)).map (fun t => localName t.obj.text)

/-- `get_display_name(var, ontology)` without excluded terms: any of these (a term if there is one — which one
    depends on rdflib's order —, else the cmeta id, else the name with `$` replaced) -/
def displayNames (a : AState) (v : Nat) (ns : Option String) : List String :=
  match termsOf a v ns with
  | [] => [match cmetaOf a.m v with | some c => c | none => (nameOfVar a.m v).replace "$" "__"]
  | ts => ts

-- ------------------------------------------------------------------------------------------------ edits
/-- `model.rdf.add(triple)` / `add_rdf`: a graph is a set -/
def addRdf (a : AState) (t : Triple) : AState :=
  if a.rdf.contains t then a else { a with rdf := a.rdf ++ [t] }

/-- `for triple in self.rdf.triples((variable.rdf_identity, None, None)): self.rdf.remove(triple)` -/
def dropSubject (c : Option String) (rdf : List Triple) : List Triple :=
  match c with
  | some c => rdf.filter (fun t => t.subj != c)
  | none => rdf

/-- `remove_variable`: defining equation, then the annotations, then the name and the registry entry -/
def removeVariableA (a : AState) (v : Nat) : AState × Outcome :=
  if !isLive a.m v then (a, .raised .notInModel)
  else
    let r := match getDefinition a.m v with
      | some e => removeEquation a.m e
      | none => (a.m, .ok)
    match r with
    | (s1, .raised x) => ({ a with m := s1 }, .raised x)
    | (s1, .ok) =>
      let r2 := unregister s1 v
      ({ m := r2.1, rdf := dropSubject (cmetaOf s1 v) a.rdf }, r2.2)

def nameTaken (s : MState) (n : String) : Bool := s.live.any (fun i => nameOfVar s i == n)

/-- `get_unique_name`: `if name in self._name_to_variable: name = self.get_unique_name(name + '_a')`, on fuel -/
def uniqueName (s : MState) (n : String) : Nat → String
  | 0 => n
  | k + 1 => if nameTaken s n then uniqueName s (n ++ "_a") k else n

/-- `add_variable(name=get_unique_name(base), units=…)` as `convert_variable` and its helpers call it: no cmeta id -/
def addUnique (s : MState) (base : String) : MState := (addVariable s (uniqueName s base (s.live.length + 1)) none none).1

/-- what the unit layer and the equations decide about a call of `convert_variable` (inputs of this model):
    `same`: conversion factor 1 (the original variable is returned) or `DimensionalityError` — nothing is touched;
    `output`: `DataDirectionFlow.OUTPUT`; `input derivs`: `INPUT`, with the state variables whose ODE is rewritten and
    gets a `…_orig_deriv` variable, in the order the code visits them (the variable itself when it is a state; every
    state in `order_added` order when it is the free variable) -/
inductive ConvKind
  | same
  | output
  | input (derivs : List Nat)
deriving DecidableEq, Repr, Inhabited

def ConvKind.derivs : ConvKind → List Nat
  | .input ds => ds
  | _ => []

/-- model.py 1030-1033: `if original_variable._cmeta_id is not None and move_annotations: transfer_cmeta_id(…)` -/
def convertMover (s : MState) (v nv : Nat) (move : Bool) : MState :=
  if move && (cmetaOf s v).isSome then (transferCmetaId s v nv).1 else s

/-- `convert_variable`, as far as variables and ids go. The new variable is number `a.m.heap.length`. -/
def convertVariable (a : AState) (v : Nat) (move : Bool) (k : ConvKind) : AState × Outcome :=
  if !isLive a.m v then (a, .raised .notInModel)
  else match k with
    | .same => (a, .ok)
    | k =>
      let nv := a.m.heap.length
      let s1 := addUnique a.m (nameOfVar a.m v ++ "_converted")
      let s2 := convertMover s1 v nv move
      let s3 := k.derivs.foldl (fun s d => addUnique s (nameOfVar s d ++ "_orig_deriv")) s2
      ({ a with m := s3 }, .ok)

/-- connection resolution, factor 1 (parser.py 491-492): `if target.cmeta_id is not None:
    self.model.transfer_cmeta_id(source=target, target=dst)`; `dst` is `source.assigned_to` (before the repair: `source`) -/
def loaderMove (s : MState) (target dst : Nat) : MState × Outcome :=
  match cmetaOf s target with
  | none => (s, .ok)
  | some _ => transferCmetaId s target dst

inductive AOp
  | base (op : Op)                                   -- every call of C08; `removeVariable` also deletes triples
  | addRdf (t : Triple)
  | convert (v : Nat) (move : Bool) (k : ConvKind)
  | loaderMove (target dst : Nat)
deriving DecidableEq, Repr, Inhabited

/-- one call -/
def astep (a : AState) : AOp → AState × Outcome
  | .base (.removeVariable v) => removeVariableA a v
  | .base op => ({ a with m := (step a.m op).1 }, (step a.m op).2)
  | .addRdf t => (addRdf a t, .ok)
  | .convert v move k => convertVariable a v move k
  | .loaderMove t d => ({ a with m := (loaderMove a.m t d).1 }, (loaderMove a.m t d).2)

/-- a history of calls on a new model -/
def arun (modelCmeta : Option String) (ops : List AOp) : AState :=
  ops.foldl (fun a op => (astep a op).1) (ainit modelCmeta)

end Model
