#!/venv/bin/python
"""Record the AST fingerprints of the modelled functions (run after a model has been validated against /repo)."""
import importlib, json, os, sys
sys.path.insert(0, os.path.dirname(os.path.abspath(__file__)))
import common
path = os.path.join(common.HERE, 'fingerprints.json')
try:
    data = json.load(open(path))
except OSError:
    data = {}
for p in sys.argv[1:]:
    mod = importlib.import_module('props.' + p.lower())
    data[p.upper()] = common.ast_fingerprints(getattr(mod, 'FINGERPRINT', {}))
json.dump(data, open(path, 'w'), indent=1, sort_keys=True)
