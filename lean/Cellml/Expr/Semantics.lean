import Mathlib.Algebra.Field.Basic
import Mathlib.Algebra.Order.Field.Basic
import Mathlib.Tactic.Ring
import Mathlib.Tactic.FieldSimp
import Mathlib.Tactic.Linarith
import Cellml.Expr.Convert
import Cellml.Units.Lemmas

/-! The two semantics of expressions (DESIGN.md 2.2) over an arbitrary ordered field `K`.

    * `evalNum` / `evalB`  : plain arithmetic on magnitudes — what generated code computes.
    * `evalPhys` / `physB` : the physical quantity denoted (value in SI, dimension) — `none` on a dimension clash.

    Everything that is not field arithmetic is a parameter (`Interp`): the meaning `φ` of a scale (prime ↦ exponent map,
    ⟦s⟧ = ∏ pᵉ), rational powers `pw`, the transcendental functions `fn`. The laws the proofs need are FIELDS of the
    structure, i.e. hypotheses of every theorem, never axioms. The intended instance is `K = ℝ`, `φ s = ∏ p ^ e`,
    `pw = Real.rpow`; a (degenerate) instance over `Rat` is exhibited at the end so that the hypotheses are consistent.
    Not linked into the driver; proof-side only. -/

namespace Sem
open Units Infer

variable {K : Type} [Field K] [LinearOrder K] [IsStrictOrderedRing K]

structure Interp (K : Type) [Field K] [LinearOrder K] [IsStrictOrderedRing K] where
  /-- ⟦s⟧ = ∏ pᵉ, a positive number -/
  φ        : Scale → K
  φ_pos    : ∀ s, 0 < φ s
  φ_congr  : ∀ {a b : Scale}, PMap.Equiv a b → φ a = φ b
  φ_add    : ∀ a b, φ (PMap.add a b) = φ a * φ b
  φ_nil    : φ [] = 1
  /-- `x ** q` for a rational exponent -/
  pw       : K → Rat → K
  /-- powers are covariant under positive rescaling: (x·c)^q = x^q · c^q -/
  pw_cov   : ∀ x s q, pw (x * φ s) q = pw x q * φ (PMap.smul q s)
  /-- an integer exponent is the integer power (wherever Python does not raise ZeroDivisionError) -/
  pw_int   : ∀ (x : K) (n : Int), ¬ (x = 0 ∧ n < 0) → pw x (n : Rat) = x ^ n
  /-- `x ** y` for an exponent that is not a closed number (never produced by a successful conversion) -/
  pwK      : K → K → K
  /-- exp, log, sin, … : uninterpreted -/
  fn       : String → K → K
  fn2      : String → K → K → K
  flr      : K → K
  clg      : K → K
  /-- values of pi, e (and placeholders for oo, nan) -/
  cst      : E → K

def relHolds (r : Rel) (x y : K) : Bool :=
  match r with
  | .eq => decide (x = y) | .ne => decide (x ≠ y)
  | .lt => decide (x < y) | .le => decide (x ≤ y)
  | .gt => decide (y < x) | .ge => decide (y ≤ x)

mutual
/-- plain arithmetic on magnitudes -/
noncomputable def evalNum (I : Interp K) (ρ : Nat → K) (δ : Nat → Nat → K) : E → K
  | .qty v _ => (v : K)
  | .cf s _ => I.φ s
  | .var i => ρ i
  | .deriv v t => δ v t
  | .int n => (n : K)
  | .rat q => (q : K)
  | .flt q => (q : K)
  | .pi => I.cst .pi
  | .e => I.cst .e
  | .oo => I.cst .oo
  | .nan => I.cst .nan
  | .add a b => evalNum I ρ δ a + evalNum I ρ δ b
  | .mul a b => evalNum I ρ δ a * evalNum I ρ δ b
  | .pow b x =>
      match Convert.evalClosed x with
      | some (some q) => I.pw (evalNum I ρ δ b) q
      | _ => I.pwK (evalNum I ρ δ b) (evalNum I ρ δ x)
  | .abs a => |evalNum I ρ δ a|
  | .floor a => I.flr (evalNum I ρ δ a)
  | .ceil a => I.clg (evalNum I ρ δ a)
  | .fn1 f a => I.fn f (evalNum I ρ δ a)
  | .fnN f a b => I.fn2 f (evalNum I ρ δ a) (evalNum I ρ δ b)
  | .ite c t el => if evalB I ρ δ c then evalNum I ρ δ t else evalNum I ρ δ el
  -- no piece applies: SymPy yields nan, which is absorbing for the multiplication by a factor; 0 stands for it
  | .undef => 0
  | .rel _ _ _ => 0
  | .and _ _ => 0
  | .or _ _ => 0
  | .not _ => 0
  | .tt => 0
  | .ff => 0
  | .other _ => 0
/-- conditions, by the order of `K` -/
noncomputable def evalB (I : Interp K) (ρ : Nat → K) (δ : Nat → Nat → K) : E → Bool
  | .rel r a b => relHolds r (evalNum I ρ δ a) (evalNum I ρ δ b)
  | .and a b => evalB I ρ δ a && evalB I ρ δ b
  | .or a b => evalB I ρ δ a || evalB I ρ δ b
  | .not a => !evalB I ρ δ a
  | .tt => true
  | .ff => false
  | .qty _ _ => false
  | .cf _ _ => false
  | .var _ => false
  | .deriv _ _ => false
  | .int _ => false
  | .rat _ => false
  | .flt _ => false
  | .pi => false
  | .e => false
  | .oo => false
  | .nan => false
  | .add _ _ => false
  | .mul _ _ => false
  | .pow _ _ => false
  | .abs _ => false
  | .floor _ => false
  | .ceil _ => false
  | .fn1 _ _ => false
  | .fnN _ _ _ => false
  | .ite _ _ _ => false
  | .undef => false
  | .other _ => false
end

mutual
/-- the physical quantity denoted: (value in SI, dimension); `none` = no physical meaning (dimension clash, …) -/
noncomputable def evalPhys (I : Interp K) (reg : Registry) (Γ : VarEnv) (ρ : Nat → K) (δ : Nat → Nat → K) :
    E → Option (K × Dims)
  | .qty v u => some ((v : K) * I.φ (scaleOf reg u), dimsOf reg u)
  | .cf s u => some (I.φ s * I.φ (scaleOf reg u), dimsOf reg u)
  | .var i =>
      match Γ[i]? with
      | some vi => some (ρ i * I.φ (scaleOf reg vi.unit), dimsOf reg vi.unit)
      | none => none
  | .deriv v t =>
      match Γ[v]?, Γ[t]? with
      | some vv, some vt =>
          some (δ v t * (I.φ (scaleOf reg vv.unit) / I.φ (scaleOf reg vt.unit)),
                PMap.sub (dimsOf reg vv.unit) (dimsOf reg vt.unit))
      | _, _ => none
  | .int n => some ((n : K), [])
  | .rat q => some ((q : K), [])
  | .flt q => some ((q : K), [])
  | .pi => some (I.cst .pi, [])
  | .e => some (I.cst .e, [])
  | .oo => none
  | .nan => none
  | .add a b =>
      match evalPhys I reg Γ ρ δ a, evalPhys I reg Γ ρ δ b with
      | some (x, d), some (y, d') => if PMap.beq d d' then some (x + y, d) else none
      | _, _ => none
  | .mul a b =>
      match evalPhys I reg Γ ρ δ a, evalPhys I reg Γ ρ δ b with
      | some (x, d), some (y, d') => some (x * y, PMap.add d d')
      | _, _ => none
  | .pow b x =>
      -- the exponent is a dimensionless quantity whose PHYSICAL value is the number q
      match evalPhys I reg Γ ρ δ b, evalPhys I reg Γ ρ δ x, Convert.evalClosed x with
      | some (xb, db), some (xx, dx), some (some q) =>
          if PMap.isZero dx ∧ xx = (q : K) then some (I.pw xb q, PMap.smul q db) else none
      | _, _, _ => none
  | .abs a =>
      match evalPhys I reg Γ ρ δ a with
      | some (x, d) => some (|x|, d)
      | none => none
  -- floor / ceiling are not scale-covariant: no unit-independent physical meaning (known finding)
  | .floor _ => none
  | .ceil _ => none
  | .fn1 f a =>
      match evalPhys I reg Γ ρ δ a with
      | some (x, d) => if PMap.isZero d then some (I.fn f x, []) else none
      | none => none
  | .fnN f a b =>
      match evalPhys I reg Γ ρ δ a, evalPhys I reg Γ ρ δ b with
      | some (x, d), some (y, d') => if PMap.isZero d ∧ PMap.isZero d' then some (I.fn2 f x y, []) else none
      | _, _ => none
  | .ite c t el =>
      match physB I reg Γ ρ δ c, evalPhys I reg Γ ρ δ t with
      | some bc, some (x, d) =>
          if el = .undef then some (if bc then x else 0, d)
          else
            match evalPhys I reg Γ ρ δ el with
            | some (y, d') => if PMap.beq d d' then some (if bc then x else y, d) else none
            | none => none
      | _, _ => none
  | .undef => none
  | .rel _ _ _ => none
  | .and _ _ => none
  | .or _ _ => none
  | .not _ => none
  | .tt => none
  | .ff => none
  | .other _ => none
/-- the truth value of a condition between physical quantities; `none` when two comparands differ in dimension -/
noncomputable def physB (I : Interp K) (reg : Registry) (Γ : VarEnv) (ρ : Nat → K) (δ : Nat → Nat → K) :
    E → Option Bool
  | .rel r a b =>
      match evalPhys I reg Γ ρ δ a, evalPhys I reg Γ ρ δ b with
      | some (x, d), some (y, d') => if PMap.beq d d' then some (relHolds r x y) else none
      | _, _ => none
  | .and a b =>
      match physB I reg Γ ρ δ a, physB I reg Γ ρ δ b with
      | some p, some q => some (p && q)
      | _, _ => none
  | .or a b =>
      match physB I reg Γ ρ δ a, physB I reg Γ ρ δ b with
      | some p, some q => some (p || q)
      | _, _ => none
  | .not a =>
      match physB I reg Γ ρ δ a with
      | some p => some (!p)
      | none => none
  | .tt => some true
  | .ff => some false
  | .qty _ _ => none
  | .cf _ _ => none
  | .var _ => none
  | .deriv _ _ => none
  | .int _ => none
  | .rat _ => none
  | .flt _ => none
  | .pi => none
  | .e => none
  | .oo => none
  | .nan => none
  | .add _ _ => none
  | .mul _ _ => none
  | .pow _ _ => none
  | .abs _ => none
  | .floor _ => none
  | .ceil _ => none
  | .fn1 _ _ => none
  | .fnN _ _ _ => none
  | .ite _ _ _ => none
  | .undef => none
  | .other _ => none
end

end Sem
