import Cellml.Load.Loader
import Cellml.C09.Model

/-! # C15 — the loader and the ordered queries with every Python `set` iteration made an adversarial order

    The loader is `Load.load` (C01: parser.py 119-572), the dependency graph and `get_equations_for` are C09's
    (`C09.buildGraph`, `lexTopo`, `ancestors`: model.py 372-536). This file adds

    * `Adv`: for each place where cellmlmanip walks through a Python `set` (harness/setscan.py lists them from the
      source text) a function that re-orders the elements before the loop sees them. `Adv.Fair`: it only re-orders.
        - `consts`: `for var in set(self.model.variables())` in `Parser.transform_constants` — the code BEFORE the fix;
        - `refs`  : the set `self.find_variables_and_derivatives([equation.rhs])` in `Model.graph` — BEFORE the fix
          "graph nodes in a reproducible order" the loop `for rhs in …` walked it as it came (`graphSet`); since the fix
          it is `sorted(…, key=str)` first (`graph`, C09's `buildGraph`), the adversary only chooses the INPUT of the
          sort;
        - `anc`   : `required_variables.update(nx.ancestors(graph, output))` in `Model.get_equations_for`.
    * `transformConstantsSet` / `loadSet`: `transform_constants` and `parse` as they were (set iteration);
      `load`: as they are after the fix — the variable table is walked in insertion order, no set is iterated.
    * `graphSet` / `graphNodesSet`: `Model.graph` as it was (references walked in set order); `graph`: as it is.
    * the ordered queries of `Model`: `variables()`, `equations`, `get_state_variables`, `get_derivatives`,
      `get_derived_quantities` (`list.sort(key=order_added)` = `sortBy`, a stable insertion sort), `graph.nodes`,
      `get_equations_for`.
    Core Lean only; everything structurally recursive. -/

namespace C15
open Load

abbrev Node := C09.Node

/-- The order in which each iterated `set` hands out its elements. -/
structure Adv where
  /-- `set(self.model.variables())`: the Variable objects (name and attributes) in hash order -/
  consts : VarTable → VarTable
  /-- `find_variables_and_derivatives([equation.rhs])` for the equation with the given left-hand side -/
  refs   : Node → List Node → List Node
  /-- `nx.ancestors(graph, output)` / `graph.pred[output]` as consumed by `set.update` -/
  anc    : List Node → List Node

/-- the adversary only chooses an order: nothing is added, dropped or repeated -/
structure Adv.Fair (π : Adv) : Prop where
  consts : ∀ l, (π.consts l).Perm l
  refs   : ∀ v l, (π.refs v l).Perm l
  anc    : ∀ l, (π.anc l).Perm l

/-- insertion order everywhere -/
def Adv.ident : Adv := ⟨fun l => l, fun _ l => l, fun l => l⟩
/-- reversed everywhere -/
def Adv.rev : Adv := ⟨List.reverse, fun _ l => l.reverse, List.reverse⟩
/-- rotated by `k` everywhere -/
def Adv.rot (k : Nat) : Adv := ⟨fun l => l.rotateLeft k, fun _ l => l.rotateLeft k, fun l => l.rotateLeft k⟩

/-! ## `transform_constants` -/

/-- body of the loop for one variable: the equation `var = initial_value [units]` of a non-state variable that has an
    initial value -/
def constOf (states : List VRef) : VRef × VarInfo → Option FlatEq
  | (v, i) => if states.contains v then none else i.init.map (fun q => (⟨.var v, .num q ([], i.units)⟩ : FlatEq))

/-- BEFORE the fix: `for var in set(self.model.variables())` -/
def transformConstantsSet (π : Adv) (states : List VRef) (vt : VarTable) : List FlatEq :=
  (π.consts vt).filterMap (constOf states)

/-- AFTER the fix: `for var in list(self.model.variables())` — the dict view, insertion order. This is
    `Load.constsOf` (`transformConstants_eq`). -/
def transformConstants (states : List VRef) (vt : VarTable) : List FlatEq :=
  vt.filterMap (constOf states)

/-- `Parser.parse` before the fix -/
def loadSet (π : Adv) (doc : Doc) : Except Err Flat :=
  match prepare doc with
  | .error e => .error e
  | .ok L =>
    match checkMaths L.ust L.vt L.st doc.comps (L.st.convs.map (·.target)) with
    | .error e => .error e
    | .ok defined =>
      match checkConstants (L.states doc) defined L.vt with
      | .error e => .error e
      | .ok () => .ok { reg := L.reg, vars := flatVars (L.states doc) L.st L.vt,
                        eqs := L.st.convs.map ConvEq.toEq ++ L.maths doc ++
                               transformConstantsSet π (L.states doc) L.vt }

/-- `Parser.parse` after the fix: no `set` is iterated while loading, the adversary has no say -/
def load (_π : Adv) (doc : Doc) : Except Err Flat := Load.load doc

/-! ## Ordered queries -/

/-- how the harness / driver names graph nodes: a number for every variable and derivative, `str()` of it as key -/
structure Ctx where
  num : Lhs VRef → Node
  key : Node → String

/-- `Model.variables()`: the dict of names, insertion order -/
def variables (F : Flat) : List VRef := F.vars.map (·.ref)

/-- `Variable.order_added` of the variable with node `v`: its position in `variables()` (the counter of
    `Model.add_variable` during a load, where nothing is removed) -/
def orderAdded (cx : Ctx) (F : Flat) (v : Node) : Nat := ((variables F).map (fun x => cx.num (.var x))).idxOf v

/-- Python's stable `list.sort(key=k)`: insertion sort, an element goes before the first one whose key is not smaller -/
def insertBy {α : Type} (k : α → Nat) (x : α) : List α → List α
  | [] => [x]
  | y :: ys => if k x ≤ k y then x :: y :: ys else y :: insertBy k x ys

def sortBy {α : Type} (k : α → Nat) : List α → List α
  | [] => []
  | x :: xs => insertBy k x (sortBy k xs)

/-- the equation as `Model.graph` receives it: left-hand side, references in the order the set iteration gives them
    (before / after number substitution — `obs e` is what SymPy leaves after substitution, observed not modelled).
    `C09.Eqn.hasQ` stays at its default `true` ("`refsNum` counts"): every C15 theorem holds for ALL `obs`, and an
    equation without a `Quantity`, which `graph_with_sympy_numbers` skips, is the instance `obs e = e.rhs.leaves`. -/
def toEqn (cx : Ctx) (π : Adv) (obs : FlatEq → List (Lhs VRef)) (e : FlatEq) : C09.Eqn :=
  { lhs := cx.num e.lhs
    refs := π.refs (cx.num e.lhs) (e.rhs.leaves.map cx.num)
    refsNum := π.refs (cx.num e.lhs) ((obs e).map cx.num)
    ode := match e.lhs with
      | .diff x t => some (cx.num (.var x), cx.num (.var t))
      | .var _ => none }

def system (cx : Ctx) (π : Adv) (obs : FlatEq → List (Lhs VRef)) (F : Flat) : List C09.Eqn :=
  F.eqs.map (toEqn cx π obs)

/-- no simplification: the references after substitution are the references -/
def obsAll (e : FlatEq) : List (Lhs VRef) := e.rhs.leaves

/-- `Model.graph` (after the fix: C09's builder sorts the references of every equation by `str`) -/
def graph (cx : Ctx) (π : Adv) (obs : FlatEq → List (Lhs VRef)) (F : Flat) : Except C09.Err C09.Graph :=
  C09.buildGraph cx.key (system cx π obs F)

/-! ### `Model.graph` BEFORE the fix: `for rhs in self.find_variables_and_derivatives([equation.rhs])` -/

/-- second loop of `Model.graph` as it was: the references are walked in the order the set hands them out -/
def addEqsSet (sf : Node → Bool) : List C09.Eqn → C09.Graph → Except C09.Err C09.Graph
  | [], g => .ok g
  | e :: es, g =>
      match C09.addRefs sf e.lhs e.refs g with
      | .error x => .error x
      | .ok g1 => addEqsSet sf es (C09.addOde e.ode g1)

/-- `Model.graph` before the fix -/
def graphSet (cx : Ctx) (π : Adv) (obs : FlatEq → List (Lhs VRef)) (F : Flat) : Except C09.Err C09.Graph :=
  let eqs := system cx π obs F
  let lhss := eqs.map (·.lhs)
  if ¬ lhss.Nodup then .error .assertion
  else if ¬ (lhss.map cx.key).Nodup then .error .assertion
  else addEqsSet (C09.isStateOrFree eqs) eqs ⟨lhss, []⟩

/-- `list(Model.graph.nodes)` before the fix -/
def graphNodesSet (cx : Ctx) (π : Adv) (obs : FlatEq → List (Lhs VRef)) (F : Flat) : Except C09.Err (List Node) :=
  match graphSet cx π obs F with
  | .error x => .error x
  | .ok g => .ok g.nodes

inductive VType where
  | state | free | parameter | computed
deriving DecidableEq, Repr

def setType (ty : Node → Option VType) (v : Node) (t : VType) : Node → Option VType :=
  fun w => if w = v then some t else ty w

/-- first type-writing loop of `Model.graph`: the left-hand side of an ordinary equation is PARAMETER (a bare number
    on the right) or COMPUTED; an ODE writes nothing here -/
def lhsWrites (cx : Ctx) (e : FlatEq) : List (Node × VType) :=
  match e.lhs with
  | .var v => [(cx.num (.var v), match e.rhs with | .num _ _ => .parameter | _ => .computed)]
  | .diff _ _ => []

/-- second loop: the state variable of every ODE is STATE -/
def stateWrites (cx : Ctx) (e : FlatEq) : List (Node × VType) :=
  match e.lhs with
  | .diff x _ => [(cx.num (.var x), .state)]
  | .var _ => []

/-- third loop: the free variable of every ODE is FREE -/
def freeWrites (cx : Ctx) (e : FlatEq) : List (Node × VType) :=
  match e.lhs with
  | .diff _ t => [(cx.num (.var t), .free)]
  | .var _ => []

/-- assignments `v.type = t` carried out one after the other -/
def applyWrites (ty : Node → Option VType) (ws : List (Node × VType)) : Node → Option VType :=
  ws.foldl (fun ty p => setType ty p.1 p.2) ty

/-- `Variable.type` after the three type-writing loops of `Model.graph` (since the `fix:` commit "the roles that come
    from the ODEs win"): all left-hand sides, then all states, then all free variables. The roles are a function of the
    SET of equations (`types_perm`). -/
def types (cx : Ctx) (eqs : List FlatEq) : Node → Option VType :=
  applyWrites (applyWrites (applyWrites (fun _ => none) (eqs.flatMap (lhsWrites cx))) (eqs.flatMap (stateWrites cx)))
    (eqs.flatMap (freeWrites cx))

/-- BEFORE that fix: ONE loop, `Variable.type` assigned equation by equation, the LAST assignment stays -/
def typeStep (cx : Ctx) (ty : Node → Option VType) (e : FlatEq) : Node → Option VType :=
  match e.lhs with
  | .diff x t => setType (setType ty (cx.num (.var x)) .state) (cx.num (.var t)) .free
  | .var v => setType ty (cx.num (.var v)) (match e.rhs with | .num _ _ => .parameter | _ => .computed)

/-- `Variable.type` before the fix -/
def typesOld (cx : Ctx) (eqs : List FlatEq) : Node → Option VType :=
  eqs.foldl (typeStep cx) (fun _ => none)

/-- the node is a `Derivative` left-hand side -/
def isDeriv (cx : Ctx) (F : Flat) (v : Node) : Bool := F.eqs.any (fun e => e.lhs.isDiff && cx.num e.lhs == v)

/-- `deriv.args[0]` -/
def stateOf (cx : Ctx) (F : Flat) (d : Node) : Node :=
  match F.eqs.find? (fun e => e.lhs.isDiff && cx.num e.lhs == d) with
  | some e => cx.num (.var e.lhs.defines)
  | none => d

/-- `Model.get_state_variables()`: keys of `_ode_definition_map` (equation order), sorted by `order_added` -/
def getStateVariables (cx : Ctx) (F : Flat) : List Node :=
  sortBy (orderAdded cx F) ((statesOf F.eqs).map (fun x => cx.num (.var x)))

/-- `Model.get_derivatives()`: derivative nodes of the graph, sorted by the state's `order_added` -/
def getDerivatives (cx : Ctx) (π : Adv) (obs : FlatEq → List (Lhs VRef)) (F : Flat) : Except C09.Err (List Node) :=
  match graph cx π obs F with
  | .error x => .error x
  | .ok g => .ok (sortBy (fun d => orderAdded cx F (stateOf cx F d)) (g.nodes.filter (isDeriv cx F)))

/-- `Model.get_derived_quantities()`: graph nodes that are neither derivatives nor free / state / parameter -/
def getDerivedQuantities (cx : Ctx) (π : Adv) (obs : FlatEq → List (Lhs VRef)) (F : Flat) :
    Except C09.Err (List Node) :=
  match graph cx π obs F with
  | .error x => .error x
  | .ok g => .ok (sortBy (orderAdded cx F)
      (g.nodes.filter (fun v => !isDeriv cx F v && types cx F.eqs v == some .computed)))

/-- `Model.get_derived_quantities()` BEFORE the fix of the roles (`typesOld`) -/
def getDerivedQuantitiesOld (cx : Ctx) (π : Adv) (obs : FlatEq → List (Lhs VRef)) (F : Flat) :
    Except C09.Err (List Node) :=
  match graph cx π obs F with
  | .error x => .error x
  | .ok g => .ok (sortBy (orderAdded cx F)
      (g.nodes.filter (fun v => !isDeriv cx F v && typesOld cx F.eqs v == some .computed)))

/-- `list(Model.graph.nodes)` — insertion order of the DiGraph -/
def graphNodes (cx : Ctx) (π : Adv) (obs : FlatEq → List (Lhs VRef)) (F : Flat) : Except C09.Err (List Node) :=
  match graph cx π obs F with
  | .error x => .error x
  | .ok g => .ok g.nodes

/-- the set `required_variables`, its elements arriving in the adversary's order -/
def required (π : Adv) (g : C09.Graph) (vars : List Node) (recurse : Bool) : List Node :=
  vars ++ vars.flatMap (fun v => π.anc (if recurse then C09.ancestors g v else C09.preds g v))

/-- `Model.get_equations_for(vars, recurse, strip_units)` as left-hand-side nodes -/
def getEquationsFor (cx : Ctx) (π : Adv) (obs : FlatEq → List (Lhs VRef)) (F : Flat) (vars : List Node)
    (recurse strip : Bool) : Except C09.Err (List Node) :=
  let eqs := system cx π obs F
  match C09.buildGraph cx.key eqs with
  | .error x => .error x
  | .ok g0 =>
      let g := C09.graphFor eqs strip g0
      if ¬ vars.all (· ∈ g.nodes) then .error .notInGraph
      else match C09.lexTopo cx.key g with
        | .error x => .error x
        | .ok sorted => .ok (sorted.filter fun v => v ∈ required π g vars recurse && C09.hasEq eqs v)

/-! ## The naming of nodes used by the driver (and by the examples of Props/C15) -/

def flatName (v : VRef) : String := v.1 ++ "$" ++ v.2

/-- all nodes the queries can mention: the variables, then the derivative left-hand sides in equation order -/
def nodesOf (F : Flat) : List (Lhs VRef) :=
  (variables F).map Lhs.var ++ (F.eqs.filter (·.lhs.isDiff)).map (·.lhs)

def strKey : Lhs VRef → String
  | .var a => flatName a        -- `Variable.__str__` is the bare name; inside a Derivative SymPy prints `_name`
  | .diff x t => "Derivative(_" ++ flatName x ++ ", _" ++ flatName t ++ ")"

def ctxOf (F : Flat) : Ctx :=
  let U := nodesOf F
  { num := fun x => U.idxOf x
    key := fun n => match U[n]? with
      | some x => strKey x
      | none => "?" ++ toString n }

end C15
