"""C10 — variable roles and initial-state values follow from the equations alone."""
import logging
import math
import os
from fractions import Fraction

from common import Str, sx

ID = 'C10'
LEAN_MODULES = ['Cellml.Props.C10', 'Cellml.Tie.RolesQueries', 'Cellml.Tie.RolesValue', 'Cellml.Tie.RolesClosed', 'Cellml.Props.C10Gen']
N = {'quick': 2400, 'thorough': 40000}
RULE = ('systems of 3-12 variables built through Model/add_variable/create_quantity/add_equation: a free variable, '
        '0-4 states with dyadic initial values, constants, computed variables; right-hand sides are random trees '
        '(+ - * / integer powers, depth <= 3) over dyadic numbers, states, the free variable, earlier definitions and '
        'DERIVATIVES of states (also inside the right-hand side of another ODE: chains); variables introduced in an '
        'order unrelated to the dependency order. Kinds: api (plain build, equations in random order), history (the '
        'same content reached by a detour: equations removed and re-added, variables removed and re-introduced with '
        'every equation that mentions them rebuilt, definitions swapped for alternatives and back, a state turned '
        'into a computed variable and back, junk variables, rejected edits, graph reads at random points; checks '
        'also in the middle of the detour where the content is ill-formed), c08 (random histories of the C08 '
        'generator over its pool, a check after every call), doc (docgen.gen_valid_doc documents loaded with '
        'load_model), file (models of /repo/tests/cellml_files), illformed (undefined variable, undefined '
        'derivative, state without initial value, free variable with a definition, division by zero, cyclic '
        'definitions: outcome class only). At every check: get_state_variables (sorted / unsorted), '
        'get_free_variable, get_derivatives, get_derived_quantities, is_state / is_constant of every variable and '
        'get_value of EVERY variable. non-trivial = a check with >= 1 ODE and a value that needed >= 2 levels of '
        'recursion; distinct = distinct case JSON')
TRUSTED = ['Lean 4.33 kernel', 'axioms: propext, Classical.choice, Quot.sound',
           'correspondence harness harness/props/c10.py (object identity -> numbers; the SymPy tree of every '
           'right-hand side is read back into the model\'s expression type: Add/Mul left-nested in args order, '
           'Mul(-1, b) inside a sum as subtraction, Pow(b, -1) inside a product as division, Quantity/Integer/'
           'Rational/Float leaves as exact rationals, anything else an uninterpreted application: its printed form '
           '(term_id) as identity and its sorted reference set as argument places)',
           'SymPy (automatic canonicalisation when an equation is built, xreplace, float()) is used as it is: the '
           'model evaluates the tree SymPy holds exactly over the rationals, the implementation evaluates it in '
           'binary64/mpmath; values are compared with a first-order rounding bound (1e-12 x condition), not bit '
           'for bit']
ASSUMPTIONS = ['well-formed = each variable at most one definition, all ODEs share one bound variable which is neither '
               'a state nor defined by an equation, every reference is to a variable of the model that is a state, '
               'the free variable or defined, definitions acyclic, every state has an initial value',
               'binary64 rounding is outside the exact model (generated numbers are dyadic and small; values outside '
               '1e-9..1e12 and exact cancellations to zero are re-drawn)',
               'which of several errors an ill-formed model raises first depends on set iteration order: for '
               'ill-formed content only "raises" vs "returns" is compared',
               'functions other than + - * / and integer powers (exp, log, piecewise ... in loaded documents) are '
               'UNINTERPRETED applications in the model (Expr.opq id args; the theorems hold for every interpretation '
               'fn: the value of such a sub-term is a function of its printed form and of the values of the variables / '
               'derivatives it refers to). The compiled driver has no interpretation (Interp.none): it evaluates the '
               'references as the code does and answers unsupported where the value of an opaque sub-term is needed; '
               'there roles are compared, values only through the float reference evaluator']
FINGERPRINT = {'cellmlmanip/model.py': [
    'Model.get_free_variable', 'Model.get_state_variables', 'Model.get_derivatives', 'Model.get_derived_quantities',
    'Model.is_state', 'Model.is_constant', 'Model.get_value', 'Model._get_value', 'Model.graph']}

NAMES = ['a', 'b', 'c', 'k', 'g', 'V', 'm', 'h', 'n', 'i_Na', 'x', 'y', 'z', 'w', 'u', 'p', 'q', 'r', 'A', 'B',
         'membrane$V', 'alpha', 'beta', 'tau', 'E_K', 'Derivativf', 'D', '_a']
TIME_NAMES = ['t', 'time', 'T', 'environment$time']
VALUE_MAX = Fraction(10) ** 12
VALUE_MIN = Fraction(1, 10 ** 9)


# ---------------------------------------------------------------------------------------------- exact reference
class Undefined(Exception):
    """the definitions give this variable no value (what is missing is the message)"""


def dyadic(rng):
    k = rng.choice([1, 1, 2, 3, 3, 5, 7, 8, 9, 11, 12, 15, 16, 25])
    j = rng.choice([0, 0, 0, 1, 1, 2, 3])
    s = rng.choice([1, 1, 1, -1])
    return Fraction(s * k, 2 ** j)


def ipow(p, n):
    if n >= 0:
        return p ** n
    if p == 0:
        raise Undefined('zero to a negative power')
    return 1 / (p ** (-n))


class Ref:
    """Independent evaluator: the property's reading of "the number obtained by evaluating the definition recursively
    with states at their initial values and time at zero, a derivative standing for the right-hand side of its ODE".
    content: var id -> ('state', init) | ('free',) | ('def', expr); odes: state id -> expr.
    Every value comes with a first-order bound of the binary64 rounding error in units of 1e-16 (its 'condition')."""

    def __init__(self, states, free, defs, odes):
        self.states, self.free, self.defs, self.odes = states, free, defs, odes
        self.memo, self.busy, self.depth = {}, set(), {}

    def var(self, v):
        if v in self.memo:
            return self.memo[v]
        if v in self.states:
            if self.states[v] is None:
                raise Undefined('state %s has no initial value' % v)
            q = Fraction(self.states[v])
            out = (q, abs(q))
            self.depth[v] = 0
        elif v in self.defs:
            if v in self.busy:
                raise Undefined('cyclic definition of %s' % v)
            self.busy.add(v)
            try:
                out = self.expr(self.defs[v])
            finally:
                self.busy.discard(v)
            self.depth[v] = 1 + max([self.depth.get(d, 0) for d in self.deps(self.defs[v], set())] + [0])
        elif self.free is not None and v == self.free:
            out = (Fraction(0), Fraction(0))
            self.depth[v] = 0
        else:
            raise Undefined('no definition for %s' % v)
        self.memo[v] = out
        return out

    def deps(self, e, seen):
        if e[0] == 'v':
            return {e[1]}
        if e[0] == 'd':
            if e[1] in seen or e[1] not in self.odes:
                return set()
            return self.deps(self.odes[e[1]], seen | {e[1]})
        out = set()
        for a in e[1:]:
            if isinstance(a, list):
                out |= self.deps(a, seen)
        return out

    def deriv(self, s):
        if s not in self.odes:
            raise Undefined('no ODE for %s' % s)
        key = ('d', s)
        if key in self.busy:
            raise Undefined('cyclic definition of d%s/dt' % s)
        self.busy.add(key)
        try:
            return self.expr(self.odes[s])
        finally:
            self.busy.discard(key)

    def expr(self, e):
        op = e[0]
        if op == 'n':
            q = Fraction(e[1])
            return q, abs(q)
        if op == 'v':
            return self.var(e[1])
        if op == 'd':
            return self.deriv(e[1])
        if op == '^':
            p, ep = self.expr(e[1])
            n = int(e[2])
            r = ipow(p, n)
            if p == 0:
                # the base is exactly 0 only in exact arithmetic (e.g. -8 + 8): in floats it may be any residue within
                # its own rounding bound ep, so the power is within ep**n of 0 (n > 0; n <= 0 is undefined / 1)
                return r, (ep ** n if n > 0 else abs(r))
            return r, abs(r) * (1 + abs(n) * (ep / abs(p)))
        if op in ('fn', 'opq'):
            raise Undefined('not rational: %s' % (e[1],))
        (p, ep), (q, eq_) = self.expr(e[1]), self.expr(e[2])
        if op == '+':
            return p + q, ep + eq_ + abs(p + q)
        if op == '-':
            return p - q, ep + eq_ + abs(p - q)
        if op == '*':
            return p * q, ep * abs(q) + eq_ * abs(p) + abs(p * q)
        if op == '/':
            if q == 0:
                raise Undefined('division by zero')
            return p / q, (ep * abs(q) + eq_ * abs(p)) / (q * q) + abs(p / q)
        raise ValueError('unknown node %r' % (op,))


# ---------------------------------------------------------------------------------------------- generation
def gen_expr(rng, leaves, depth, must=None):
    """random tree over numbers and the given leaves; `must` (a leaf) is forced to occur"""
    if must is not None and (depth <= 0 or rng.random() < 0.3):
        return must
    if depth <= 0 or rng.random() < 0.22:
        if leaves and rng.random() < 0.7:
            return rng.choice(leaves)
        return ['n', str(dyadic(rng))]
    r = rng.random()
    if r < 0.12:
        base = gen_expr(rng, leaves, depth - 1, must)
        return ['^', base, rng.choice([2, 2, 3, -1, -1, -2])]
    op = '+' if r < 0.40 else '-' if r < 0.58 else '*' if r < 0.84 else '/'
    a = gen_expr(rng, leaves, depth - 1, must if rng.random() < 0.5 else None)
    b = gen_expr(rng, leaves, depth - 1, None)
    if a == b and op in '-/':
        b = ['n', str(dyadic(rng))]
    if must is not None and not mentions(a, must) and not mentions(b, must):
        a = [rng.choice(['+', '*']), a, must]
    return [op, a, b] if rng.random() < 0.5 or op in '-/' else [op, b, a]


def mentions(e, leaf):
    if e == leaf:
        return True
    return any(isinstance(a, list) and mentions(a, leaf) for a in e[1:])


def expr_vars(e, out=None):
    """every variable slot an expression mentions (inside derivatives too)"""
    out = set() if out is None else out
    if e[0] == 'v':
        out.add(e[1])
    elif e[0] == 'd':
        out.update((e[1], e[2]))
    else:
        for a in e[1:]:
            if isinstance(a, list):
                expr_vars(a, out)
    return out


def ok_value(q):
    return q == 0 or VALUE_MIN <= abs(q) <= VALUE_MAX


def gen_system(rng, n=None):
    """A well-formed system. Returns {'vars': [[name, init]], 'eqs': [[lhs, rhs]], 'base': [k...], 'alt': {k: k'}}.
    Slot order (= order of introduction) is unrelated to the dependency order."""
    n = n or rng.choice([3, 4, 4, 5, 5, 6, 6, 7, 8, 9, 10, 12])
    slots = list(range(n))
    rng.shuffle(slots)
    t = slots[-1]
    names = rng.sample(NAMES, n)
    names[t] = rng.choice(TIME_NAMES)
    rest = slots[:-1]
    n_states = rng.choice([0, 1, 1, 1, 2, 2, 3, 4])
    n_states = min(n_states, len(rest))
    states = rest[:n_states]
    others = rest[n_states:]
    n_const = rng.randint(0, max(0, len(others) // 2))
    consts, computed = others[:n_const], others[n_const:]
    vars_ = [[names[i], None] for i in range(n)]
    init = {}
    for s in states:
        init[s] = dyadic(rng) if rng.random() < 0.9 else Fraction(0)
        vars_[s][1] = str(init[s])
    for v in rest:                                 # initial values on non-states are legal and ignored by get_value
        if v not in states and rng.random() < 0.15:
            vars_[v][1] = str(dyadic(rng))
    items = [('v', c) for c in computed] + [('d', s) for s in states]
    rng.shuffle(items)
    eqs, defs, odes = [], {}, {}
    state_map = {s: str(init[s]) for s in states}
    for c in consts:
        rhs = ['n', str(dyadic(rng))] if rng.random() < 0.8 else ['*', ['n', str(dyadic(rng))], ['n', str(dyadic(rng))]]
        defs[c] = rhs
        eqs.append([['v', c], rhs])
    avail = [['v', s] for s in states] + ([['v', t]] if states else []) + [['v', c] for c in consts]
    prev_derivs = []
    for kind, v in items:
        for attempt in range(60):
            must = None
            if prev_derivs and rng.random() < 0.45:
                must = rng.choice(prev_derivs)         # a derivative on a right-hand side (chains when kind == 'd')
            elif avail and rng.random() < 0.8:
                must = rng.choice(avail)
            rhs = gen_expr(rng, avail + prev_derivs, rng.choice([1, 2, 2, 3]), must)
            trial_defs = dict(defs)
            trial_odes = dict(odes)
            (trial_defs if kind == 'v' else trial_odes)[v] = rhs
            ref = Ref(state_map, t if states else None, trial_defs, trial_odes)
            try:
                q, _ = ref.var(v) if kind == 'v' else ref.deriv(v)
            except Undefined:
                continue
            if not ok_value(q) or (q == 0 and expr_vars(rhs)):
                continue
            break
        else:
            rhs = ['n', '1']
        if kind == 'v':
            defs[v] = rhs
            eqs.append([['v', v], rhs])
            avail.append(['v', v])
        else:
            odes[v] = rhs
            eqs.append([['d', v, t], rhs])
            prev_derivs.append(['d', v, t])
    base = list(range(len(eqs)))
    # alternative definitions (same left-hand side, other right-hand side) for swaps and rejected edits
    alt = {}
    for k in base:
        if rng.random() < 0.4:
            lhs = eqs[k][0]
            leaves = [['v', s] for s in states] + [['v', c] for c in consts if ['v', c] != lhs]
            alt[k] = len(eqs)
            eqs.append([lhs, gen_expr(rng, leaves, 1)])
    return {'vars': vars_, 'eqs': eqs, 'base': base, 'alt': alt, 'time': t, 'states': states}


def eq_vars(eq):
    lhs, rhs = eq[0], eq[1]
    out = expr_vars(rhs)
    out.update(lhs[1:])
    return out


def api_ops(rng, sys_):
    ops = [['addVar', i] for i in range(len(sys_['vars']))]
    order = list(sys_['base'])
    rng.shuffle(order)
    for k in order:
        ops.append(['addEq', k])
        if rng.random() < 0.08:
            ops.append(['graph'])
    return ops


def detour(rng, sys_, ops):
    """Append a detour that ends in the content it started from (as a set of variables and equations)."""
    eqs, base, alt = sys_['eqs'], sys_['base'], sys_['alt']
    nv = len(sys_['vars'])

    def maybe():
        r = rng.random()
        if r < 0.25:
            ops.append(['check'])
        elif r < 0.45:
            ops.append(['graph'])
    kind = rng.choice(['readd-eq', 'readd-eq', 'readd-var', 'readd-var', 'readd-var', 'swap', 'rejected', 'junk',
                       'state-to-computed'])
    if kind == 'readd-eq':
        ks = rng.sample(base, min(len(base), rng.choice([1, 1, 2, 3])))
        for k in ks:
            ops.append(['rmEq', k])
            maybe()
        rng.shuffle(ks)
        for k in ks:
            ops.append(['addEq', k])
    elif kind == 'readd-var':
        v = rng.randrange(nv)
        ops.append(['rmVar', v])
        maybe()
        ops.append(['addVar', v])
        maybe()
        ks = [k for k in base if v in eq_vars(eqs[k])]
        rng.shuffle(ks)
        own = [k for k in ks if eqs[k][0][1] == v]          # removed together with the variable
        for k in ks:
            if k not in own:
                ops.append(['rmEq', k])
                maybe()
        rng.shuffle(ks)
        for k in ks:
            ops.append(['addEq', k])
    elif kind == 'swap' and alt:
        k = rng.choice(sorted(alt))
        ops.extend([['rmEq', k], ['addEq', alt[k]]])
        maybe()
        ops.extend([['rmEq', alt[k]], ['addEq', k]])
    elif kind == 'rejected':
        for _ in range(rng.randint(1, 3)):
            r = rng.random()
            if r < 0.4 and alt:
                ops.append(['addEq', alt[rng.choice(sorted(alt))]])      # second definition: ValueError
            elif r < 0.7:
                ops.append(['addVar', rng.randrange(nv)])                # name in use: ValueError
            elif alt:
                ops.append(['rmEq', alt[rng.choice(sorted(alt))]])       # not in the model: KeyError
            maybe()
    elif kind == 'junk':
        j = len(sys_['vars'])
        sys_['vars'].append(['junk%d' % j, None])
        leaves = [['v', s] for s in sys_['states']] + [['n', str(dyadic(rng))]]
        eqs.append([['v', j], gen_expr(rng, leaves, 1)])
        ops.extend([['addVar', j], ['addEq', len(eqs) - 1]])
        maybe()
        ops.append(['rmVar', j])
    elif kind == 'state-to-computed' and sys_['states']:
        s = rng.choice(sys_['states'])
        k = [k for k in base if eqs[k][0][0] == 'd' and eqs[k][0][1] == s][0]
        eqs.append([['v', s], ['n', str(dyadic(rng))]])
        ka = len(eqs) - 1
        ops.extend([['rmEq', k], ['addEq', ka]])
        maybe()
        ops.extend([['rmEq', ka], ['addEq', k]])


def convert_case(rng):
    """A system built through the API, then 1-2 unit conversions (convert_variable rewrites the equations through
    add_equation / remove_equation itself); after each, the edited model must answer as a fresh model with the same
    variables and equations. Oracle only (the Lean model of C10 has no conversion step; C06 models it)."""
    s = gen_system(rng)
    ops = api_ops(rng, s)
    nv = len(s['vars'])
    convs = []
    for _ in range(rng.choice([1, 1, 2])):
        slot = rng.choice(s['states']) if s['states'] and rng.random() < 0.6 else rng.randrange(nv)
        convs.append([slot, rng.choice(['in', 'in', 'out']), rng.choice(['c10_pct', 'c10_kilo'])])
    return {'kind': 'convert', 'vars': s['vars'], 'eqs': s['eqs'], 'ops': ops + [['check']], 'convert': convs}


def run_convert(m, latest, convs, rng):
    from cellmlmanip.model import DataDirectionFlow
    u = m.units
    if not u.is_defined('c10_pct'):
        u.add_unit('c10_pct', 'dimensionless / 100')
        u.add_unit('c10_kilo', 'dimensionless * 1000')
    recs = []
    for slot, direction, unit in convs:
        v = latest[slot]
        rec = {'slot': slot, 'dir': direction, 'unit': unit}
        if v is None or m._name_to_variable.get(v.name) is not v:
            continue
        try:
            m.convert_variable(v, u.get_unit(unit),
                               DataDirectionFlow.INPUT if direction == 'in' else DataDirectionFlow.OUTPUT)
            rec['out'] = 'ok'
        except Exception as e:
            rec['out'] = 'err:' + type(e).__name__
        ids2 = {w: i for i, w in enumerate(m.variables())}
        rec['names'] = [w.name for w in m.variables()]
        rec['obs'] = observe(m, ids2)
        try:
            f, mp = fresh_like(m, rng, shuffle=False)
            rec['fresh'] = observe(f, {nw: ids2[ow] for ow, nw in mp.items() if ow in ids2})
        except Exception as e:
            rec['fresh'] = 'err:' + type(e).__name__
        recs.append(rec)
    return recs


def c08_case(rng):
    """A random history of the C08 generator over (a translation of) its pool, a check after every call."""
    import props.c08 as c08
    vars_ = [[n, None if iv is None else str(Fraction(iv))] for n, _, iv in c08.VARS]
    a, b, x, y, t = (['v', i] for i in range(5))
    two, one, zero, three = (['n', s] for s in ('2', '1', '0', '3'))
    eqs = {0: [a, one], 1: [b, ['+', a, two]], 2: [['d', 2, 4], a], 3: [['d', 3, 4], ['+', x, two]],
           4: [b, ['*', x, t]], 5: [a, ['+', ['d', 2, 4], one]], 6: [x, three], 9: [y, ['+', ['*', a, zero], b]]}
    pool = [eqs.get(k, [a, one]) for k in range(10)]
    ops = []
    for op in c08.random_history(rng)['ops']:
        if op[0] in ('addVar', 'rmVar'):
            ops.append([op[0], op[1]])
        elif op[0] in ('addEq', 'rmEq') and op[1] in eqs:
            ops.append([op[0], op[1]])
        elif op[0] in ('graph', 'graphNum'):
            ops.append(['graph'])
        else:
            continue
        ops.append(['check'])
    return {'kind': 'c08', 'vars': vars_, 'eqs': pool, 'ops': ops}


def illformed_case(rng):
    n = lambda: ['n', str(dyadic(rng))]                                   # noqa: E731
    x0 = dyadic(rng)
    fam = rng.choice(['undef-var', 'undef-deriv', 'no-init', 'free-defined', 'div-zero', 'pow-zero', 'cycle',
                      'cycle-deriv', 'two-bvars', 'free-is-state', 'foreign-init'])
    V = [['x', str(x0)], ['t', None], ['y', None], ['u', None], ['z', '2'], ['s', None]]
    x, t, y, u, z, s = (['v', i] for i in range(6))
    dx, dz = ['d', 0, 1], ['d', 4, 1]
    E = {
        'undef-var': [[dx, n()], [y, ['+', u, n()]]],
        'undef-deriv': [[dx, n()], [y, ['+', dz, n()]]],
        'no-init': [[['d', 3, 1], n()], [dx, n()], [y, ['+', u, x]]],
        'free-defined': [[dx, t], [t, n()], [y, ['+', t, n()]]],
        'div-zero': [[dx, n()], [y, ['/', n(), ['-', x, ['n', str(x0)]]]]],
        'pow-zero': [[dx, n()], [y, ['^', ['-', x, ['n', str(x0)]], rng.choice([-1, -2])]]],
        'cycle': [[dx, n()], [y, ['+', u, n()]], [u, ['*', y, n()]]],
        'cycle-deriv': [[dx, ['+', dx, n()]], [y, ['*', dx, n()]]],
        'two-bvars': [[dx, n()], [['d', 4, 5], x], [y, ['+', ['d', 4, 5], dx]]],
        'free-is-state': [[dx, n()], [['d', 1, 5], n()], [y, ['+', t, x]]],
        'foreign-init': [[dx, x], [y, ['+', z, x]]],
    }[fam]
    ops = [['addVar', i] for i in range(6)] + [['addEq', k] for k in range(len(E))] + [['check']]
    return {'kind': 'illformed', 'family': fam, 'vars': V, 'eqs': E, 'ops': ops}


FILES = ['test_simple_odes.cellml', 'basic_ode.cellml', 'algebraic.cellml',
         'initial_value_constant.cellml', 'repeated_ode_for_conversion_tests.cellml', 'simple_model_units.cellml',
         'hodgkin_huxley_squid_axon_model_1952_modified.cellml', 'literals_for_conversion_tests.cellml',
         'silly_names.cellml', 'dimensionless_exp.cellml', 'beeler_reuter_model_1977.cellml',
         'repeated_ode_freevar_for_conversion_tests.cellml']


def gen(rng, n, tier):
    for i in range(n):
        r = i % 20
        if r < 7:
            s = gen_system(rng)
            yield {'kind': 'api', 'vars': s['vars'], 'eqs': s['eqs'], 'ops': api_ops(rng, s) + [['check']]}
        elif r < 14:
            s = gen_system(rng)
            ops = api_ops(rng, s)
            if rng.random() < 0.5:
                ops.append(['check'])
            for _ in range(rng.choice([1, 1, 2, 3, 4])):
                detour(rng, s, ops)
            yield {'kind': 'history', 'vars': s['vars'], 'eqs': s['eqs'], 'ops': ops + [['check']]}
        elif r < 15:
            yield c08_case(rng)
        elif r < 16:
            yield convert_case(rng)
        elif r < 18:
            import docgen
            yield {'kind': 'doc', 'doc': docgen.gen_valid_doc(rng)}
        elif r < 19:
            yield illformed_case(rng)
        else:
            yield {'kind': 'file', 'file': FILES[(i // 20) % len(FILES)]}


def corpus():
    V = [['x', '5/2'], ['z', '1'], ['t', None], ['a', None], ['y', None], ['w', None]]
    x, z, t, a, y, w = (['v', i] for i in range(6))
    dx, dz = ['d', 0, 2], ['d', 1, 2]
    E = [[a, ['n', '3']], [dx, ['+', ['*', a, x], t]], [dz, ['*', dx, ['n', '2']]], [y, ['+', dx, ['n', '1']]],
         [w, ['+', dz, y]]]
    build = [['addVar', i] for i in range(6)] + [['addEq', k] for k in range(5)]
    return [
        # get_value of a definition that mentions a derivative (also through an ODE whose rhs mentions a derivative)
        {'kind': 'api', 'vars': V, 'eqs': E, 'ops': build + [['check']]},
        # the same content after removing and re-introducing the state x
        {'kind': 'history', 'vars': V, 'eqs': E,
         'ops': build + [['graph'], ['rmVar', 0], ['check'], ['addVar', 0], ['addEq', 1], ['rmEq', 2], ['addEq', 2],
                         ['rmEq', 3], ['addEq', 3], ['check']]},
        {'kind': 'file', 'file': 'test_simple_odes.cellml'},
        {'kind': 'file', 'file': 'basic_ode.cellml'},
    ]


# ---------------------------------------------------------------------------------------------- implementation
_UNITS = []


def shared_units():
    if not _UNITS:
        from cellmlmanip.units import UnitStore
        _UNITS.append(UnitStore())
    return _UNITS[0]


def build_expr(e, V, m):
    """EXPR over slots -> SymPy over the current objects; every number is a fresh Quantity"""
    import sympy as sp
    op = e[0]
    if op == 'n':
        return m.create_quantity(float(Fraction(e[1])), 'dimensionless')
    if op == 'v':
        return V[e[1]]
    if op == 'd':
        return sp.Derivative(V[e[1]], V[e[2]], evaluate=False)
    if op == '^':
        return sp.Pow(build_expr(e[1], V, m), sp.Integer(e[2]))
    a, b = build_expr(e[1], V, m), build_expr(e[2], V, m)
    return {'+': lambda: a + b, '-': lambda: a - b, '*': lambda: a * b, '/': lambda: a / b}[op]()


def ser(x, ids):
    """Read a SymPy tree back: ['n', 'p/q'] | ['v', id] | ['d', s, t] | [+ - * /, a, b] | ['^', a, n] |
    ['fn', name, args...] (anything else; opaque to the model)."""
    import sympy as sp
    from cellmlmanip.model import Quantity, Variable
    if isinstance(x, Quantity):
        return ['n', str(Fraction(float(x)))]
    if isinstance(x, Variable):
        return ['v', ids.get(x, -1)]
    if isinstance(x, (sp.Integer, sp.Rational)):
        return ['n', str(Fraction(int(x.p), int(x.q)))]
    if isinstance(x, sp.Float):
        return ['n', str(Fraction(float(x)))]
    if isinstance(x, sp.Derivative):
        vc = x.variable_count
        if isinstance(x.args[0], Variable) and len(vc) == 1 and vc[0][1] == 1 and isinstance(vc[0][0], Variable):
            return ['d', ids.get(x.args[0], -1), ids.get(vc[0][0], -1)]
        return ['fn', 'Derivative'] + [ser(a, ids) for a in x.args if isinstance(a, sp.Basic) and not isinstance(a, sp.Tuple)]
    if isinstance(x, sp.Add):
        acc = None
        for a in x.args:
            neg = isinstance(a, sp.Mul) and a.args[0] == -1 and len(a.args) >= 2
            if acc is None:
                acc = ser(a, ids)
            elif neg:
                acc = ['-', acc, ser(sp.Mul(*a.args[1:], evaluate=False) if len(a.args) > 2 else a.args[1], ids)]
            else:
                acc = ['+', acc, ser(a, ids)]
        return acc
    if isinstance(x, sp.Mul):
        acc = None
        for a in x.args:
            inv = isinstance(a, sp.Pow) and a.args[1] == -1
            if acc is None:
                acc = ser(a, ids)
            elif inv:
                acc = ['/', acc, ser(a.args[0], ids)]
            else:
                acc = ['*', acc, ser(a, ids)]
        return acc
    if isinstance(x, sp.Pow):
        ex = x.args[1]
        n = None
        if isinstance(ex, sp.Integer):
            n = int(ex)
        elif isinstance(ex, Quantity) and float(ex) == int(float(ex)) and abs(float(ex)) < 64:
            n = int(float(ex))
        if n is not None:
            return ['^', ser(x.args[0], ids), n]
    return ['fn', type(x).__name__] + [ser(a, ids) for a in getattr(x, 'args', ())]


def ser_refs(e, out):
    """nodes referenced by a serialised tree (derivatives opaque)"""
    if e[0] == 'v':
        out.add(('v', e[1]))
    elif e[0] == 'd':
        out.add(('d', e[1], e[2]))
    else:
        for a in e[1:]:
            if isinstance(a, list):
                ser_refs(a, out)
    return out


def observe(m, ids):
    """all six role queries and get_value of every variable"""
    o = {}
    o['vars'] = [ids.get(v, -1) for v in m.variables()]
    o['states'] = [ids.get(v, -1) for v in m.get_state_variables()]
    o['states_unsorted'] = [ids.get(v, -1) for v in m.get_state_variables(sort=False)]
    try:
        o['free'] = ids.get(m.get_free_variable(), -1)
    except ValueError:
        o['free'] = 'err:ValueError'
    try:
        o['derivs'] = [[ids.get(d.args[0], -1), ids.get(d.args[1][0], -1)] for d in m.get_derivatives()]
    except Exception as e:
        o['derivs'] = 'err:' + type(e).__name__
    try:
        o['derived'] = [ids.get(v, -1) for v in m.get_derived_quantities()]
    except Exception as e:
        o['derived'] = 'err:' + type(e).__name__
    o['is_state'] = [ids.get(v, -1) for v in m.variables() if m.is_state(v)]
    o['is_const'] = [ids.get(v, -1) for v in m.variables() if m.is_constant(v)]
    vals = []
    for v in m.variables():
        try:
            x = m.get_value(v)
            vals.append([ids.get(v, -1), 'ok', repr(float(x))])
        except Exception as e:
            vals.append([ids.get(v, -1), 'err', type(e).__name__, str(e).strip()[:80]])
    o['values'] = vals
    return o


def fresh_like(m, rng, shuffle=True):
    """A fresh Model with the same variables (same order of introduction) and the same equations in ANOTHER order,
    built through the public API only."""
    import sympy as sp
    from cellmlmanip.model import Model, Variable
    f = Model('fresh', unit_store=m.units)
    mp = {}
    for v in m.variables():
        mp[v] = f.add_variable(v.name, v.units, initial_value=v.initial_value)
    scratch = None
    eqs = list(m.equations)
    if shuffle:
        rng.shuffle(eqs)
    for e in eqs:
        for v in e.atoms(Variable):
            if v not in mp:      # a variable that is no longer in the model: stand-in from another model
                if scratch is None:
                    scratch = Model('scratch', unit_store=m.units)
                mp[v] = scratch.add_variable('%s_%d' % (v.name, len(mp)), v.units, initial_value=v.initial_value)
                mp[v].name = v.name
        f.add_equation(sp.Eq(e.lhs.xreplace(mp), e.rhs.xreplace(mp), evaluate=False))
    return f, mp


def eq_record(eq, ids, tok):
    """what the model is told about an equation: token, left-hand side, right-hand side tree, isinstance(rhs, Quantity)"""
    from cellmlmanip.model import Quantity, Variable
    lhs = eq.lhs
    if isinstance(lhs, Variable):
        l = ['var', ids.get(lhs, -1)]
    elif lhs.is_Derivative and isinstance(lhs.args[0], Variable):
        order = sum(int(c) for _, c in lhs.variable_count)
        l = ['deriv', ids.get(lhs.args[0], -1), ids.get(lhs.variable_count[0][0], -1), order]
    else:
        l = ['other']
    return [tok, l, ser(eq.rhs, ids), isinstance(eq.rhs, Quantity)]


def run_ops(case, rng):
    import sympy as sp
    from cellmlmanip.model import Model
    m = Model('m', unit_store=shared_units())
    V = case['vars']
    latest = [None] * len(V)
    ids, objs = {}, []
    present = {}            # pool index -> equation object most recently added
    ntok = [0]
    toks = []               # (equation object, token)
    steps = []
    for op in case['ops']:
        kind = op[0]
        rec = {'op': None, 'out': 'ok'}
        call = None
        if kind == 'addVar':
            name, iv = V[op[1]]
            rec['op'] = ['addVar', op[1], name, iv]

            def call(op=op, name=name, iv=iv):
                v = m.add_variable(name, 'dimensionless', initial_value=None if iv is None else float(Fraction(iv)))
                ids[v] = len(objs)
                objs.append(v)
                latest[op[1]] = v
        elif kind == 'rmVar':
            v = latest[op[1]]
            if v is not None and m._name_to_variable.get(v.name) is v:
                rec['op'] = ['rmVar', ids[v]]

                def call(v=v):
                    m.remove_variable(v)
        elif kind == 'addEq':
            lhs, rhs = case['eqs'][op[1]][:2]
            need = eq_vars([lhs, rhs])
            lhs_live = all(latest[j] is not None and m._name_to_variable.get(latest[j].name) is latest[j]
                           for j in lhs[1:])
            if all(latest[j] is not None for j in need) and lhs_live:
                l = latest[lhs[1]] if lhs[0] == 'v' else sp.Derivative(latest[lhs[1]], latest[lhs[2]], evaluate=False)
                eq = sp.Eq(l, build_expr(rhs, latest, m), evaluate=False)
                # equations that are == share a token (list.remove takes the first equation that is ==)
                tok = next((t for e_, t in toks if e_ == eq), None)
                if tok is None:
                    tok = ntok[0]
                    ntok[0] += 1
                    toks.append((eq, tok))
                rec['op'] = ['addEq'] + eq_record(eq, ids, tok)
                rec['entered'] = [lhs[0]] + [ids[latest[j]] for j in lhs[1:]]
                rec['entered_rhs'] = rename(rhs, lambda j: ids[latest[j]])
                # SymPy canonicalises when the tree is built (x - x, q**1 ...): the roles are about the tree it holds
                rec['canon'] = (ser_refs(rec['entered_rhs'], set()) != ser_refs(rec['op'][3], set())
                                or (rhs[0] == 'n') != rec['op'][4])

                def call(eq=eq, k=op[1]):
                    m.add_equation(eq)
                    present[k] = (eq, rec['op'][1])
        elif kind == 'rmEq':
            if op[1] in present:
                eq, tok = present[op[1]]
                rec['op'] = ['rmEq', tok]

                def call(eq=eq):
                    m.remove_equation(eq)
        elif kind == 'graph':
            rec['op'] = ['graph']

            def call():
                m.graph_with_sympy_numbers
        elif kind == 'check':
            rec['op'] = ['check']
            rec['obs'] = observe(m, ids)
            steps.append(rec)
            # equations in another order only when the content is well-formed: with ODEs that differentiate by
            # different variables "the first ODE" is a matter of equation order, not of history
            wf = [reference(lv, es)['wf'] for _, lv, es in contents({'steps': steps})][-1]
            try:
                f, mp = fresh_like(m, rng, shuffle=wf)
                rec['fresh'] = observe(f, {nv: ids[ov] for ov, nv in mp.items()})
            except Exception as e:
                rec['fresh'] = 'err:' + type(e).__name__
            continue
        if call is None:
            rec['out'] = 'skip'
        else:
            try:
                call()
            except Exception as e:
                rec['out'] = 'err:' + type(e).__name__
        steps.append(rec)
    out = {'steps': steps}
    if case.get('convert'):
        out['conv'] = run_convert(m, latest, case['convert'], rng)
    return out


def rename(e, f):
    if e[0] == 'v':
        return ['v', f(e[1])]
    if e[0] == 'd':
        return ['d', f(e[1]), f(e[2])]
    return [e[0]] + [rename(a, f) if isinstance(a, list) else a for a in e[1:]]


def run_loaded(case, rng):
    """a document: load it, describe the loaded model as the history that builds it, check once"""
    import tempfile
    import cellmlmanip
    try:
        if case['kind'] == 'file':
            path = os.path.join(os.environ.get('CELLML_REPO', '/repo'), 'tests', 'cellml_files', case['file'])
            m = cellmlmanip.load_model(path)
        else:
            import docgen
            with tempfile.TemporaryDirectory(prefix='c10_') as tmp:
                path = os.path.join(tmp, 'doc.cellml')
                with open(path, 'w') as fh:
                    fh.write(docgen.to_xml(case['doc']))
                m = cellmlmanip.load_model(path)
    except Exception as e:          # loading is the business of C01 / C17: nothing to observe here
        return {'steps': [], 'load_error': '%s: %s' % (type(e).__name__, str(e)[:100])}
    ids = {v: i for i, v in enumerate(m.variables())}
    steps = []
    for v in m.variables():
        iv = None if v.initial_value is None else str(Fraction(v.initial_value))
        steps.append({'op': ['addVar', ids[v], v.name, iv], 'out': 'ok'})
    for k, eq in enumerate(m.equations):
        rec = eq_record(eq, ids, k)
        lhs = rec[1]
        steps.append({'op': ['addEq'] + rec, 'out': 'ok', 'entered': ['v', lhs[1]] if lhs[0] == 'var' else ['d', lhs[1], lhs[2]],
                      'entered_rhs': rec[2], 'canon': True})
    rec = {'op': ['check'], 'out': 'ok', 'obs': observe(m, ids)}
    try:
        f, mp = fresh_like(m, rng)
        rec['fresh'] = observe(f, {nv: ids[ov] for ov, nv in mp.items()})
    except Exception as e:
        rec['fresh'] = 'err:' + type(e).__name__
    steps.append(rec)
    return {'steps': steps}


def impl(case):
    import random
    import json
    logging.disable(logging.CRITICAL)
    rng = random.Random(json.dumps(case, sort_keys=True, default=str)[:2000])
    if case['kind'] in ('doc', 'file'):
        return run_loaded(case, rng)
    return run_ops(case, rng)


# ---------------------------------------------------------------------------------------------- reference (no model)
FLOAT_FNS = {'exp': math.exp, 'log': math.log, 'sin': math.sin, 'cos': math.cos, 'tan': math.tan, 'tanh': math.tanh,
             'sqrt': math.sqrt, 'Abs': abs, 'sinh': math.sinh, 'cosh': math.cosh, 'atan': math.atan}


class FloatRef(Ref):
    """the same evaluator with float fallbacks for the functions loaded documents use"""

    def expr(self, e):
        if e[0] == 'fn':
            try:
                if e[1] in FLOAT_FNS and len(e) == 3:
                    p, ep = self.expr(e[2])
                    r = Fraction(FLOAT_FNS[e[1]](float(p)))
                    return r, (abs(r) + ep) * 10 ** 4
                if e[1] == 'Pow' and len(e) == 4:
                    (p, ep), (q, eq_) = self.expr(e[2]), self.expr(e[3])
                    r = Fraction(float(p) ** float(q))
                    return r, (abs(r) + ep + eq_) * 10 ** 4
            except (ValueError, OverflowError, ZeroDivisionError, TypeError):
                raise Undefined('float function failed')
            raise Undefined('unsupported: %s' % e[1])
        return super().expr(e)


def contents(obs):
    """Replay the successful calls: at every check, what the model holds.
    Yields (step index, live: id -> (name, init, intro), eqs: tok -> (lhs, rhs) in insertion order)."""
    live, eqs, intro = {}, {}, 0
    nid = 0
    for i, st in enumerate(obs['steps']):
        op = st['op']
        if op is None or st['out'] != 'ok':
            continue
        if op[0] == 'addVar':
            live[nid] = (op[2], op[3], intro)
            nid += 1
            intro += 1
        elif op[0] == 'rmVar':
            live.pop(op[1], None)
            for tok in [t for t, e in eqs.items() if e[0][1] == op[1]]:
                del eqs[tok]
        elif op[0] == 'addEq':
            roles_rhs = op[3] if st.get('canon') else st['entered_rhs']
            eqs[op[1]] = (st['entered'], st['entered_rhs'], roles_rhs, op[4] if st.get('canon') else roles_rhs[0] == 'n')
        elif op[0] == 'rmEq':
            eqs.pop(op[1], None)
        elif op[0] == 'check':
            yield i, dict(live), dict(eqs)


def reference(live, eqs):
    """What the property says the answers are. Returns {'wf': bool, 'why': text, + expected answers when wf}."""
    odes = {lhs[1]: (lhs[2], rhs) for lhs, rhs, _, _ in eqs.values() if lhs[0] == 'd'}
    defs = {lhs[1]: rhs for lhs, rhs, _, _ in eqs.values() if lhs[0] == 'v'}
    role_defs = {lhs[1]: (rr, bare) for lhs, _, rr, bare in eqs.values() if lhs[0] == 'v'}
    out = {'wf': False, 'why': ''}
    lhs_vars = [e[0][1] for e in eqs.values()]
    if len(set(lhs_vars)) != len(lhs_vars):
        out['why'] = 'a variable has two definitions'
        return out
    bvars = {t for t, _ in odes.values()}
    if len(bvars) > 1:
        out['why'] = 'ODEs with different bound variables'
        return out
    free = next(iter(bvars)) if bvars else None
    if free is not None and (free in odes or free in defs or free not in live):
        out['why'] = 'the bound variable is a state, is defined by an equation or is not in the model'
        return out
    for v in lhs_vars:
        if v not in live:
            out['why'] = 'definition of a variable that is not in the model'
            return out
    for lhs, rhs, rr, _ in eqs.values():
        for r in ser_refs(rhs, set()) | ser_refs(rr, set()):
            if r[0] == 'v' and not (r[1] in live and (r[1] in odes or r[1] in defs or r[1] == free)):
                out['why'] = 'reference to variable %s without definition' % r[1]
                return out
            if r[0] == 'd' and not (r[1] in odes and odes[r[1]][0] == r[2]):
                out['why'] = 'reference to a derivative without ODE'
                return out
    for s in odes:
        if live[s][1] is None:
            out['why'] = 'state without initial value'
            return out
    ref = FloatRef({s: live[s][1] for s in odes}, free, defs, {s: r for s, (_, r) in odes.items()})
    vals = {}
    for v in live:
        try:
            vals[v] = ('ok',) + ref.var(v)
        except Undefined as e:
            if str(e).startswith('cyclic'):
                out['why'] = 'cyclic definitions'
                return out
            vals[v] = ('undef', str(e))
        except RecursionError:
            out['why'] = 'cyclic definitions'
            return out
    for s in odes:                  # a cycle through derivatives only
        try:
            ref.deriv(s)
        except Undefined as e:
            if str(e).startswith('cyclic'):
                out['why'] = 'cyclic definitions'
                return out
    by_intro = lambda xs: sorted(xs, key=lambda v: live[v][2])          # noqa: E731
    out.update({
        'wf': True, 'states': by_intro(odes), 'free': free if free is not None else 'err:ValueError',
        'derivs': [[s, odes[s][0]] for s in by_intro(odes)],
        'derived': by_intro([v for v, (r, bare) in role_defs.items() if not bare]),
        'is_state': by_intro(odes), 'is_const': by_intro([v for v, (r, _) in role_defs.items() if not expr_vars(r)]),
        'values': vals, 'depth': dict(ref.depth),
        'via_deriv': {v: v in defs and closure_has_deriv(defs[v], defs, set()) for v in live}})
    return out


def closure_has_deriv(e, defs, seen):
    if e[0] == 'd':
        return True
    if e[0] == 'v':
        if e[1] in seen or e[1] not in defs:
            return False
        seen.add(e[1])
        return closure_has_deriv(defs[e[1]], defs, seen)
    return any(isinstance(a, list) and closure_has_deriv(a, defs, seen) for a in e[1:])


_REF_CACHE = {}


def references(obs):
    key = id(obs)
    if key not in _REF_CACHE:
        if len(_REF_CACHE) > 64:
            _REF_CACHE.clear()
        _REF_CACHE[key] = (obs, {i: reference(live, eqs) for i, live, eqs in contents(obs)})
    return _REF_CACHE[key][1]


def close(x, q, cond):
    """float x against exact q with rounding bound cond (in units of one rounding)"""
    if x != x or x in (float('inf'), float('-inf')):
        return False
    return abs(Fraction(x) - q) <= Fraction(1, 10 ** 12) * max(cond, abs(q)) + Fraction(1, 10 ** 300)


# ---------------------------------------------------------------------------------------------- property oracle
def canon_err(x):
    return 'err' if isinstance(x, str) and x.startswith('err:') else x


def oracle_convert(obs):
    """history independence after convert_variable: the edited model answers as a fresh model with its content"""
    fails = []
    for k, rec in enumerate(obs.get('conv', [])):
        o, fr = rec['obs'], rec['fresh']
        where = 'after convert_variable #%d (%s, %s, slot %s -> %s)' % (k, rec['dir'], rec['unit'], rec['slot'], rec['out'])
        if isinstance(fr, str):
            fails.append({'key': 'history-dependence:fresh-build-rejected',
                          'detail': '%s: a fresh model refuses the content (%s)' % (where, fr)})
            continue
        for q in ('states', 'free', 'derivs', 'derived', 'is_state', 'is_const'):
            if o[q] != fr[q]:
                fails.append({'key': 'history-dependence:' + q,
                              'detail': '%s: %s edited model %s, fresh model %s (names %s)' % (where, q, o[q], fr[q], rec['names'])})
        for va, vb in zip(o['values'], fr['values']):
            same = va[:2] == vb[:2]
            if same and va[1] == 'ok':
                x, y = float(va[2]), float(vb[2])
                same = (repr(x) == repr(y)) or (math.isfinite(x) and math.isfinite(y) and
                                                abs(x - y) <= 1e-9 * max(1.0, abs(x), abs(y)))
            elif same:
                same = va[2] == vb[2]
            if not same:
                fails.append({'key': 'history-dependence:get_value',
                              'detail': '%s: variable %s edited model %s, fresh model %s' % (where, rec['names'][va[0]], va[1:], vb[1:])})
    return fails


def oracle(case, obs):
    fails = oracle_convert(obs)
    refs = references(obs)
    for i, st in enumerate(obs['steps']):
        if st['op'] is None or st['op'][0] != 'check':
            continue
        o, fr, ref = st['obs'], st['fresh'], refs[i]
        where = 'check at step %d' % i
        wf = ref['wf']
        # ---- history independence: the edited model answers as a fresh model with the same content
        if isinstance(fr, str):
            fails.append({'key': 'history-dependence:fresh-build-rejected',
                          'detail': '%s: a fresh model refuses the content (%s)' % (where, fr)})
        else:
            for q in ('states', 'free', 'derivs', 'derived', 'is_state', 'is_const'):
                a, b = (o[q], fr[q]) if wf else (canon_err(o[q]), canon_err(fr[q]))
                if a != b:
                    fails.append({'key': 'history-dependence:' + q,
                                  'detail': '%s: %s edited model %s, fresh model %s' % (where, q, o[q], fr[q])})
            if sorted(o['states_unsorted']) != sorted(fr['states_unsorted']):
                fails.append({'key': 'history-dependence:states', 'detail': '%s: unsorted states differ' % where})
            for va, vb in zip(o['values'], fr['values']):
                same = va[:2] == vb[:2]
                if same and va[1] == 'ok':
                    x, y = float(va[2]), float(vb[2])
                    if not (math.isfinite(x) and math.isfinite(y)):
                        if repr(x) != repr(y):
                            fails.append({'key': 'history-dependence:get_value',
                                          'detail': '%s: variable %s edited model %s, fresh model %s' % (where, va[0], x, y)})
                        continue
                    cond = ref['values'][va[0]][2] if wf and ref['values'].get(va[0], ('',))[0] == 'ok' else 0
                    same = close(x, Fraction(y), max(cond, 1000 * abs(Fraction(y)) + 1))
                elif same and wf:
                    same = va[2] == vb[2]
                if not same:
                    fails.append({'key': 'history-dependence:get_value',
                                  'detail': '%s: variable %s edited model %s, fresh model %s' % (where, va[0], va[1:], vb[1:])})
        if not wf:
            continue
        # ---- the roles, from the property text
        if sorted(o['states']) != sorted(ref['states']):
            fails.append({'key': 'states', 'detail': '%s: states %s, variables with an ODE %s' % (where, o['states'], ref['states'])})
        elif o['states'] != ref['states']:
            fails.append({'key': 'states-order', 'detail': '%s: states %s, in order of introduction %s' % (where, o['states'], ref['states'])})
        if sorted(o['states_unsorted']) != sorted(ref['states']):
            fails.append({'key': 'states', 'detail': '%s: unsorted states %s vs %s' % (where, o['states_unsorted'], ref['states'])})
        if o['free'] != ref['free']:
            fails.append({'key': 'free-variable', 'detail': '%s: free variable %s, all ODEs differentiate by %s' % (where, o['free'], ref['free'])})
        for q, key in (('derivs', 'derivatives'), ('derived', 'derived-quantities'), ('is_state', 'is-state'),
                       ('is_const', 'is-constant')):
            if o[q] != ref[q]:
                fails.append({'key': key, 'detail': '%s: %s = %s, the equations define %s' % (where, q, o[q], ref[q])})
        # ---- get_value of every variable
        for v, out, *rest in o['values']:
            want = ref['values'][v]
            tag_ = 'derivative' if ref['via_deriv'].get(v) else 'plain'
            if want[0] == 'ok':
                if out != 'ok':
                    fails.append({'key': 'get_value:' + tag_, 'detail': '%s: get_value(%s) raised %s %s, the definitions give %s'
                                  % (where, v, rest[0], rest[1:], float(want[1]))})
                elif not close(float(rest[0]), want[1], want[2]):
                    fails.append({'key': 'get_value:' + tag_ + ':value', 'detail': '%s: get_value(%s) = %s, the definitions give %s (%s)'
                                  % (where, v, rest[0], float(want[1]), want[1])})
            elif want[1].startswith(('unsupported', 'float function', 'division by zero', 'zero to a negative')):
                continue        # no exact reference / the definition has no value at the initial state: not constrained
            elif out == 'ok' and math.isfinite(float(rest[0])):
                fails.append({'key': 'get_value:undefined-but-returned', 'detail': '%s: get_value(%s) = %s although %s'
                              % (where, v, rest[0], want[1])})
            elif out == 'err' and want[1].startswith('no definition') and rest[0] != 'ValueError':
                fails.append({'key': 'get_value:no-definition-error-class', 'detail': '%s: get_value(%s) raised %s, not ValueError'
                              % (where, v, rest[0])})
    return fails[:6]


def nontrivial(case, obs):
    refs = references(obs)
    for r in refs.values():
        if r['wf'] and r['states'] and max(list(r['depth'].values()) + [0]) >= 2:
            return True
    return False


def tag(case, obs):
    refs = references(obs)
    wf = sum(1 for r in refs.values() if r['wf'])
    dv = any(r['wf'] and any(r['via_deriv'].values()) for r in refs.values())
    extra = ':' + case['family'] if case['kind'] == 'illformed' else ''
    return '%s%s checks=%d wf=%d%s' % (case['kind'], extra, min(len(refs), 9), min(wf, 9), ' deriv-on-rhs' if dv else '')


# ---------------------------------------------------------------------------------------------- model
def term_id(e):
    """the printed form of a serialised tree: the identity of an opaque sub-term on the wire (class names, structure,
    numbers, node numbers: two sub-terms with the same id are the same term as far as `ser` reads it)"""
    if not isinstance(e, list):
        return str(e)
    op = e[0]
    if op == 'n':
        return str(Fraction(e[1]))
    if op == 'v':
        return 'v%s' % (e[1],)
    if op == 'd':
        return 'd%s_%s' % (e[1], e[2])
    if op == 'fn':
        return '%s(%s)' % (e[1], ','.join(term_id(a) for a in e[2:]))
    if op == '^':
        return '(%s^%s)' % (term_id(e[1]), e[2])
    return '(%s%s%s)' % (term_id(e[1]), op, term_id(e[2]))


def wire_expr(e):
    if e[0] == 'fn':
        # an uninterpreted application for the model: its identity and its references (one argument place each)
        refs = sorted(ser_refs(e, set()))
        return ['opq', Str(term_id(e))] + [list(r) for r in refs]
    if e[0] in ('n',):
        return ['n', Fraction(e[1])]
    if e[0] in ('v', 'd'):
        return list(e)
    if e[0] == '^':
        return ['^', wire_expr(e[1]), int(e[2])]
    return [e[0], wire_expr(e[1]), wire_expr(e[2])]


def has_negative(x):
    if isinstance(x, list):
        return any(has_negative(y) for y in x)
    return isinstance(x, int) and not isinstance(x, bool) and x < 0


def requests(case, obs):
    if not obs['steps']:
        return []
    ops = []
    for st in obs['steps']:
        op = st['op']
        if st['out'] == 'skip' or op is None:
            ops.append(['skip'])
        elif op[0] == 'addVar':
            ops.append(['addVar', Str(op[2]), 'none' if op[3] is None else Fraction(op[3])])
        elif op[0] == 'addEq':
            if has_negative(op[2]) or has_negative([r for r in ser_refs(op[3], set())]):
                return []           # an object that is not a variable of this history: outside the model
            ops.append(['addEq', op[1], op[2], wire_expr(op[3]), bool(op[4])])
        else:
            ops.append(list(op))
    return [sx(['C10', ['ops'] + ops])]


MODEL_ERR = {'noDefinition': 'ValueError', 'fuel': 'RecursionError'}


def compare(case, obs, replies):
    rep = replies[0]
    if not isinstance(rep, list) or len(rep) != len(obs['steps']):
        return 'model reply malformed: %r' % (str(rep)[:200],)
    refs = references(obs)
    for i, (st, ms) in enumerate(zip(obs['steps'], rep)):
        where = 'step %d %s' % (i, st['op'])
        if st['out'] == 'skip':
            continue
        if st['op'][0] != 'check':
            want = 'ok' if ms == 'ok' else ('err:' + ms[1] if isinstance(ms, list) else ms)
            if st['op'][0] == 'graph':
                if (want == 'ok') != (st['out'] == 'ok'):
                    return '%s: outcome implementation %s model %s' % (where, st['out'], ms)
            elif want != st['out']:
                return '%s: outcome implementation %s model %s' % (where, st['out'], ms)
            continue
        o, ref = st['obs'], refs[i]
        md = {k: v for k, *v in ms}
        ints = lambda xs: [int(x) for x in xs]                                       # noqa: E731
        if o['vars'] != ints(md['vars']):
            return '%s: variables implementation %s model %s' % (where, o['vars'], md['vars'])
        if o['states'] != ints(md['states']):
            return '%s: states implementation %s model %s' % (where, o['states'], md['states'])
        if o['states_unsorted'] != ints(md['unsorted']):
            return '%s: states(sort=False) implementation %s model %s' % (where, o['states_unsorted'], md['unsorted'])
        mfree = md['free'][0]
        if o['free'] != ('err:ValueError' if mfree == 'none' else int(mfree)):
            return '%s: free variable implementation %s model %s' % (where, o['free'], mfree)
        for q in ('derivs', 'derived'):
            m_ = md[q]
            if m_[0] == 'err':
                if not (isinstance(o[q], str) and o[q].startswith('err:')):
                    return '%s: %s implementation %s model raises' % (where, q, o[q])
            else:
                mine = [ints(x) for x in m_[1:]] if q == 'derivs' else ints(m_[1:])
                if o[q] != mine:
                    return '%s: %s implementation %s model %s' % (where, q, o[q], mine)
        for q in ('is_state', 'is_const'):
            if o[q] != ints(md[q]):
                return '%s: %s implementation %s model %s' % (where, q, o[q], md[q])
        mv = {int(x[0]): x[1:] for x in md['values']}
        for v, out, *rest in o['values']:
            m_ = mv.get(v)
            if m_ is None:
                return '%s: model has no value entry for %s' % (where, v)
            if m_[0] == 'ok':
                q = Fraction(m_[1])
                cond = ref['values'][v][2] if ref['wf'] and ref['values'][v][0] == 'ok' else 1000 * abs(q) + 1
                if out != 'ok' or not close(float(rest[0]), q, cond):
                    return '%s: get_value(%s) implementation %s model %s' % (where, v, [out] + rest, m_)
            elif m_[1] in ('unsupported', 'arith'):
                continue            # outside the model's arithmetic / SymPy returns zoo, nan or garbage there
            elif out == 'ok' and not ref['wf'] and m_[1] in ('noDefinition', 'noInit'):
                continue            # ill-formed content: SymPy may cancel the undefined reference away (x**2 - x**2)
            elif out == 'ok':
                return '%s: get_value(%s) implementation %s model raises %s' % (where, v, rest[0], m_[1])
            elif (ref['wf'] or (m_[1] == 'fuel' and case['kind'] == 'illformed')) and m_[1] in MODEL_ERR \
                    and rest[0] != MODEL_ERR[m_[1]]:
                return '%s: get_value(%s) implementation raises %s model %s' % (where, v, rest[0], m_[1])
    return None


MANIFEST = {
    'technique': 'Lean 4 model of the six role queries and of the recursive evaluator _get_value (expansion of '
                 'derivatives, the evaluated memo, recursion on fuel) on top of the C08 state machine; the meaning of a '
                 'definition as an inductive relation (no fuel, no memo, no order); total-correctness theorem by '
                 'induction on fuel against a ranking of the definitions + differential correspondence over API '
                 'histories and loaded documents',
    'text': ('Proved in Lean (lean/Cellml/Props/C10.lean, standard axioms only) for ALL well-formed models — C08 '
             'invariant, every variable at most one definition, all ODEs share one bound variable that is neither a '
             'state nor defined, every reference defined and in the model, definitions acyclic (a ranking exists), '
             'states have initial values — of any size: states_iff_ode, states_in_order (get_state_variables = '
             'variables() filtered by is_state, order_added strictly increasing), is_state_iff_ode, free_is_bvar, '
             'free_none_iff, derivs_exact, derived_exact, graph_queries_return, constant_iff_no_var; getValue_fuel '
             '(|variables|+1 levels of recursion suffice, never RecursionError, more fuel changes nothing), '
             'getValue_denotes (get_value(v) = q IFF the definition closure of v denotes q at the initial state: '
             'states at initial values, free variable 0, a derivative = the right-hand side of its ODE, recursively, '
             'a function application other than + - * / ^int = an UNINTERPRETED application whose value is fn(printed '
             'term, values of its references) - every theorem is for EVERY interpretation fn, as C02 / C05 treat '
             'transcendental functions (opaque_value, opaque_no_value: b = exp(a) * 2); '
             'when the definitions give no number it raises), value_unique; roles_history_independent (ANY two '
             'histories of API calls reaching the same variables and equation list give the same seven answers; '
             'corollary of C08 inv_reachable), roles_as_fresh, roles_equation_order_independent (well-formed models '
             'with the same variables and the same SET of equations agree on everything). Proved counterexamples for '
             'the code before the two fix: commits (today_derivative_raises, today_alias_raises) and for a free '
             'variable with a definition (free_variable_with_definition: why well-formedness is needed). The model is '
             'tied to model.py by the correspondence check: per quick run 2400 cases (API builds, detour histories '
             'with mid-detour checks, C08-generator histories with a check after every call, docgen documents, 12 '
             'repository CellML files, 11 ill-formed families), every check compares all six role queries and '
             'get_value of every variable; the independent oracle evaluates the equations as entered with exact '
             'Fractions, takes the roles from the property text and rebuilds a fresh Model (equations shuffled) for '
             'history independence. Two defects found and fixed in /repo (findings/C10.json).'),
    'note': ('Trusted: Lean kernel; propext, Classical.choice, Quot.sound; the correspondence harness (object identity '
             '-> numbers, SymPy trees read back into the model\'s expression type). SymPy is used as it is: its '
             'canonicalisation when an equation is built decides which tree the model holds, and binary64 results are '
             'compared with a first-order rounding bound. Functions other than + - * / and integer powers are uninterpreted '
             'applications in the model (Expr.opq): the theorems (getValue_denotes, getValue_fuel, '
             'roles_history_independent ...) hold for EVERY interpretation fn of them, under the reading that the value '
             'of such a sub-term is a function of its printed form and of the values of its references; the compiled '
             'driver has no interpretation, so in the differential test roles are compared there and values via the '
             'float reference only. For ill-formed content (mid-history) '
             'only raises-vs-returns is compared. Division by zero at the initial state is outside the property.'),
}
