"""Code-translator spec (see harness/translate_code.py and notes/TIE_GUIDE.md): the remaining annotation / RDF functions
of cellmlmanip (rdf.py `create_rdf_node`; model.py `get_rdf_annotations`, `get_rdf_value`,
`get_ontology_terms_by_variable`, `has_ontology_annotation`, `add_rdf`, `Variable.rdf_identity`,
`Variable._set_cmeta_id`; parser.py `with_ns`, `Parser._add_rdf`). `self` of the Model methods is the annotated state of
the hand model (`Model.AState`); the reading functions are `Except PyErr`, the two that change the graph are `PyM AState`.
Accessors: lean/Cellml/Tie/RdfQView.lean; tie theorems: lean/Cellml/Tie/RdfQ.lean."""

# a call of the translated `create_rdf_node` of this group
CREATE = ('create_rdf_node(__A)', '(← createRdfNode {A})')

GROUP = {
    'name': 'RdfQ',
    'imports': ['Cellml.Tie.RdfQView'],
    'header': 'open Cellml.Tie.PCmeta\nopen Cellml.Tie.PRdfQ\nopen Model Model.RdfQ',
    'functions': [
        {'file': 'cellmlmanip/rdf.py',
         'func': 'create_rdf_node',
         'lean_name': 'createRdfNode',
         'signature': '(node_content : RdfArg) : Except PyErr RdfArg',
         'mutable': ['uri'],
         'fn_class': 'rdfq:RdfFn',
         'patterns': [
             # leaves: the dynamic type of the argument
             ('isinstance(__A, rdflib.term.Node)', '(isNode {A})'),
             ('isinstance(__A, tuple)', '(isTuple {A})'),
             ('isinstance(__A, str)', '(isStr {A})'),
             # leaves: builtin str methods (receiver and argument flow from the source)
             ('node_content.startswith(__C)', '(pyStartsWith (strText node_content) {C})'),
             ('__A.endswith(__C)', '(pyEndsWith {A} {C})'),
             # leaves: rdflib constructors
             ('rdflib.Namespace(__U)[__L]', '(namespaceTerm {U} {L})'),
             ('rdflib.URIRef(__A)', '(mkURIRef (strText {A}))'),
             ('rdflib.Literal(__A)', '(mkLiteral {A})'),
         ],
         'stmt_patterns': [
             # leaf: unpacking of a 2-tuple (`uri` is re-assigned below: declared mutable)
             ('uri, local_name = node_content',
              'let (uri0__, local_name) ← unpack2 node_content\nlet mut uri := uri0__'),
         ]},
        {'file': 'cellmlmanip/parser.py',
         'func': 'with_ns',
         'lean_name': 'withNs',
         'signature': '(ns_enum : XmlNsMember) (name : String) : Except PyErr String'},
        {'file': 'cellmlmanip/model.py',
         'func': 'Variable.rdf_identity',
         'lean_name': 'rdfIdentity',
         'signature': '(self : VarObj) : Except PyErr (Option RNode)'},
        {'file': 'cellmlmanip/model.py',
         'func': 'Variable._set_cmeta_id',
         'lean_name': 'setCmetaId',
         'signature': '(self : VarObj) (cmeta_id : Option String) : Except PyErr VarObj',
         'mutable_params': ['self'],
         'returns': 'self',
         'patterns': [
             # leaf: the attribute read where a `str` is needed (`'#' + …`): None there is a TypeError
             ('self._cmeta_id', '(← strOf (self)._cmeta_id)'),
             # call of a translated function of this group, with a python `str` as its argument
             ('create_rdf_node(__A)', '(← createRdfNode (RdfArg.str {A}))'),
         ],
         'stmt_patterns': [
             # leaves: attribute writes (the python object is threaded as `self`)
             ('self._cmeta_id = __A', 'self := { self with _cmeta_id := {A} }'),
             ('self._rdf_identity = None', 'self := { self with _rdf_identity := none }'),
             ('self._rdf_identity = __A', 'self := { self with _rdf_identity := nodeOf {A} }'),
         ]},
        {'file': 'cellmlmanip/model.py',
         'func': 'Model.get_rdf_annotations',
         'lean_name': 'getRdfAnnotations',
         'signature': '(self : AState) (subject predicate object_ : RdfArg) : Except PyErr (List Triple)',
         'emit_defaults': ['object_'],
         'patterns': [
             CREATE,
             # the python value None where an RdfArg is expected (the parameter defaults)
             ('None', 'RdfArg.none'),
             # leaf: rdflib pattern query
             ('self.rdf.triples((__S, __P, __O))', '(rdfTriples self {S} {P} {O})'),
         ]},
        {'file': 'cellmlmanip/model.py',
         'func': 'Model.get_rdf_value',
         'lean_name': 'getRdfValue',
         'signature': '(self : AState) (subject predicate : RdfArg) : Except PyErr String',
         'skip_isinstance_asserts': False,
         'patterns': [
             # call of a translated function of this group; `object_` is not passed: its default, emitted from the
             # callee's parameter list
             ('self.get_rdf_annotations(__S, __P)',
              '(← getRdfAnnotations self {S} {P} getRdfAnnotations_default_object_)'),
             # leaf: tuple(generator) is the list of what it yields
             ('tuple(__A)', '{A}'),
             # leaves: the third component of an rdflib triple is its object; list index (IndexError outside)
             ('__A[2]', '(tripleObj {A})'),
             ('__A[__I]', '(← listGet {A} {I})'),
             # leaves: rdflib class test, str(node), str.strip
             ('isinstance(__A, rdflib.Literal)', '(isLiteral {A})'),
             ('__A.strip()', '(pyStrip {A})'),
             ('str(__A)', '(nodeStr {A})'),
         ]},
        {'file': 'cellmlmanip/model.py',
         'func': 'Model.get_ontology_terms_by_variable',
         'lean_name': 'getOntologyTermsByVariable',
         'signature': '(self : AState) (variable_ : Nat) (namespace_uri : Option String) : '
                      'Except PyErr (List String)',
         'mutable': ['ontology_terms'],
         'var_types': {'ontology_terms': 'List String'},
         'patterns': [
             CREATE,
             # leaf: attribute of a Variable object
             ('__A.rdf_identity', '(rdfIdentityOf self {A})'),
             # leaf: rdflib pattern query
             ('self.rdf.objects(__S, __P)', '(rdfObjects self {S} {P})'),
             # leaves: str(node), str.startswith (its argument is not None right of `is None or`), str.split, l[-1]
             ('__A.startswith(namespace_uri)', '(pyStartsWith {A} (namespace_uri.getD ""))'),
             ('__A.split(__S)', '(pySplit {A} {S})'),
             ('__A[-1]', '(← listLast {A})'),
             ('str(__A)', '(nodeStr {A})'),
         ],
         'stmt_patterns': [
             ('ontology_terms.append(__A)', 'ontology_terms := ontology_terms ++ [{A}]'),
         ]},
        {'file': 'cellmlmanip/model.py',
         'func': 'Model.has_ontology_annotation',
         'lean_name': 'hasOntologyAnnotation',
         'signature': '(self : AState) (variable_ : Nat) (namespace_uri : Option String) : Except PyErr Bool',
         'patterns': [
             ('self.get_ontology_terms_by_variable(__V, __N)', '(← getOntologyTermsByVariable self {V} {N})'),
         ]},
        {'file': 'cellmlmanip/model.py',
         'func': 'Model.add_rdf',
         'lean_name': 'addRdf',
         'signature': '(rdf : RdfXml) : M Unit',
         'stmt_patterns': [
             # leaf: rdflib's RDF/XML parser reading a string into THIS graph
             ("self.rdf.parse(StringIO(__A), format='xml')", 'rdfParseXml {A}'),
         ]},
        {'file': 'cellmlmanip/parser.py',
         'func': 'Parser._add_rdf',
         'lean_name': 'parserAddRdf',
         'signature': '(element : Elem) : M Unit',
         'patterns': [
             # leaves: lxml traversal and serialisation, the enum member
             ('__E.iter(__T)', '(elemIter {E} {T})'),
             ('etree.tostring(__A, encoding=str)', '(etreeToString {A})'),
             ('XmlNs.RDF', 'xmlNsRDF'),
             # call of a translated function of this group
             ('with_ns(__N, __L)', '(← PyM.rdE (fun _ => withNs {N} {L}))'),
         ],
         'stmt_patterns': [
             # call of a translated function of this group on the parser's model
             ('self.model.add_rdf(__A)', 'addRdf {A}'),
         ]},
    ]}
