import Cellml.Props.C07
import Cellml.Tie.GenBUnits

/-! # C07 about the GENERATED code — the seven laws of `Props/C07.lean`, restated for the definitions that
    `harness/translate_code.py` writes from the source text of `cellmlmanip/units.py`
    (`Cellml.Gen.Units.convert`, `getConversionFactor`, `isEquivalent` in `Generated/Code/Units.lean`).

    Reading: `storeObj st reg []` is the python `UnitStore` object of ANY store `st` whose pint registry holds the
    definitions `reg` and has no conversion rule enabled (the setting of C07). `factor(a, b)` of the property statement
    is the magnitude of `store.convert(1 * a, b)` — the very call `get_conversion_factor` makes
    (`unitQuantity ⟨a⟩` is python's `1 * from_unit`). A number is a magnitude without symbols, `⟨f, []⟩`.

    Each theorem is a corollary of the theorem of the same name in `Props/C07.lean` through `convert_tie`,
    `getConversionFactor_tie`, `isEquivalent_tie` (`Tie/Units.lean`), which hold for ALL arguments: no tie hypothesis
    is added. The hypotheses `allKnown reg a` are those of the original theorems. -/

namespace Cellml.Props.C07Gen
open Units PMap Cellml.Gen Cellml.Tie Cellml.Tie.PUnits Cellml.Tie.PGenB

/-- `store.convert(1 * a, b)` computed by the GENERATED `UnitStore.convert` (no rule enabled) -/
abbrev conv1 (st : Store) (reg : Registry) (a b : Container) : Except PyErr QuantityObj :=
  Gen.Units.convert (storeObj st reg []) (unitQuantity ⟨a⟩) ⟨b⟩

/-- the quantity "number `f`, unit `b`" -/
abbrev num (f : Scale) (b : Container) : QuantityObj := ⟨⟨f, []⟩, ⟨b⟩⟩

/-- factor(a, a) = 1 -/
theorem factor_refl (st : Store) (reg : Registry) (a : Container) (h : allKnown reg a = true) :
    ∃ f, conv1 st reg a a = .ok (num f a) ∧ f ≃ [] := by
  obtain ⟨f, hf, he⟩ := C07.factor_refl reg a h
  exact ⟨f, (genConvert_plain_ok st reg a a f).mpr hf, he⟩

/-- … and `get_conversion_factor(a, a)` returns the int `1` -/
theorem factor_refl_api (st : Store) (reg : Registry) (a : Container) (h : allKnown reg a = true) :
    Gen.Units.getConversionFactor (storeObj st reg []) ⟨a⟩ ⟨a⟩ = .ok 1 := by
  obtain ⟨f, hf, he⟩ := C07.factor_refl reg a h
  obtain ⟨_, _, _, rfl⟩ := (C07.factor_ok_iff reg a a f).mp hf
  have hnil : norm (sub (toRoot reg a).1 (toRoot reg a).1) = [] :=
    norm_eq_nil_of_zero _ (fun p => by have := he p; simpa using this)
  rw [genFactor_plain, hf]
  simp [hnil]
  rfl

/-- the factor is the ratio of the units' SI scales (scales of the root expansion) -/
theorem factor_ratio (st : Store) (reg : Registry) (a b : Container) (f : Scale)
    (h : conv1 st reg a b = .ok (num f b)) : f ≃ sub (toRoot reg a).1 (toRoot reg b).1 :=
  C07.factor_ratio reg a b f ((genConvert_plain_ok st reg a b f).mp h)

/-- factor(a, b) · factor(b, a) = 1 -/
theorem factor_inv (st : Store) (reg : Registry) (a b : Container) (f : Scale)
    (h : conv1 st reg a b = .ok (num f b)) :
    ∃ g, conv1 st reg b a = .ok (num g a) ∧ add f g ≃ [] := by
  obtain ⟨g, hg, he⟩ := C07.factor_inv reg a b f ((genConvert_plain_ok st reg a b f).mp h)
  exact ⟨g, (genConvert_plain_ok st reg b a g).mpr hg, he⟩

/-- factor(a, c) = factor(a, b) · factor(b, c) -/
theorem factor_trans (st : Store) (reg : Registry) (a b c : Container) (f g : Scale)
    (h₁ : conv1 st reg a b = .ok (num f b)) (h₂ : conv1 st reg b c = .ok (num g c)) :
    ∃ k, conv1 st reg a c = .ok (num k c) ∧ k ≃ add f g := by
  obtain ⟨k, hk, he⟩ := C07.factor_trans reg a b c f g ((genConvert_plain_ok st reg a b f).mp h₁)
    ((genConvert_plain_ok st reg b c g).mp h₂)
  exact ⟨k, (genConvert_plain_ok st reg a c k).mpr hk, he⟩

/-- a dimension mismatch between known units is reported as `DimensionalityError`, never as a number — by `convert`
    for every magnitude, and by `get_conversion_factor` -/
theorem mismatch_is_error (st : Store) (reg : Registry) (m : MagObj) (a b : Container)
    (ha : allKnown reg a = true) (hb : allKnown reg b = true) (hd : beq (dimsOf reg a) (dimsOf reg b) = false) :
    Gen.Units.convert (storeObj st reg []) ⟨m, ⟨a⟩⟩ ⟨b⟩ = .error ⟨"DimensionalityError"⟩ ∧
    Gen.Units.getConversionFactor (storeObj st reg []) ⟨a⟩ ⟨b⟩ = .error ⟨"DimensionalityError"⟩ := by
  have h := C07.mismatch_is_error reg a b ha hb hd
  constructor
  · rw [genConvert_plain, h]; rfl
  · rw [genFactor_plain, h]; rfl

/-- convert(q·a, b) has magnitude q · factor(a, b), in unit b — for every magnitude `m` (number or symbolic) -/
theorem convert_magnitude (st : Store) (reg : Registry) (m : MagObj) (a b : Container) (q : QuantityObj)
    (h : Gen.Units.convert (storeObj st reg []) ⟨m, ⟨a⟩⟩ ⟨b⟩ = .ok q) :
    q.units = ⟨b⟩ ∧ ∃ f, conv1 st reg a b = .ok (num f b) ∧ q.magnitude = m * ⟨f, []⟩ := by
  rw [genConvert_plain] at h
  cases hf : factor reg a b with
  | error e => rw [hf] at h; cases h
  | ok f =>
    rw [hf] at h
    simp only [Except.ok.injEq] at h
    subst h
    exact ⟨rfl, f, (genConvert_plain_ok st reg a b f).mpr hf, rfl⟩

/-- the model-level statement `convert_magnitude` of `Props/C07.lean` in the same shape: what the generated `convert`
    returns determines the model's pair (factor, unit) -/
theorem convert_magnitude_model (st : Store) (reg : Registry) (a b : Container) (f : Scale) (u : Container)
    (h : conv1 st reg a b = .ok (num f u)) : u = b ∧ conv1 st reg a b = .ok (num f b) := by
  obtain ⟨f', _, hq⟩ := (genConvert_plain_ok_iff st reg a b _).mp h
  simp only [QuantityObj.mk.injEq, MagObj.mk.injEq, and_true, UnitObj.mk.injEq] at hq
  obtain ⟨_, rfl⟩ := hq
  exact ⟨rfl, h⟩

/-! ### `is_equivalent` is an equivalence relation, and holds exactly when the factor is one -/

/-- the GENERATED `UnitStore.is_equivalent` -/
abbrev isEq (st : Store) (reg : Registry) (rules : List Rule) (a b : Container) : Bool :=
  Id.run (Gen.Units.isEquivalent (storeObj st reg rules) ⟨a⟩ ⟨b⟩)

theorem equiv_refl (st : Store) (reg : Registry) (rules : List Rule) (a : Container) : isEq st reg rules a a = true := by
  show Id.run (Gen.Units.isEquivalent (storeObj st reg rules) ⟨a⟩ ⟨a⟩) = true
  rw [isEquivalent_tie]; exact C07.equiv_refl reg a

theorem equiv_symm (st : Store) (reg : Registry) (rules : List Rule) (a b : Container)
    (h : isEq st reg rules a b = true) : isEq st reg rules b a = true := by
  show Id.run (Gen.Units.isEquivalent (storeObj st reg rules) ⟨b⟩ ⟨a⟩) = true
  rw [isEquivalent_tie]
  exact C07.equiv_symm reg a b (by rw [← isEquivalent_tie st reg rules]; exact h)

theorem equiv_trans (st : Store) (reg : Registry) (rules : List Rule) (a b c : Container)
    (h₁ : isEq st reg rules a b = true) (h₂ : isEq st reg rules b c = true) : isEq st reg rules a c = true := by
  show Id.run (Gen.Units.isEquivalent (storeObj st reg rules) ⟨a⟩ ⟨c⟩) = true
  rw [isEquivalent_tie]
  exact C07.equiv_trans reg a b c (by rw [← isEquivalent_tie st reg rules]; exact h₁)
    (by rw [← isEquivalent_tie st reg rules]; exact h₂)

/-- `equiv_equivalence`: the three together -/
theorem equiv_equivalence (st : Store) (reg : Registry) (rules : List Rule) :
    (∀ a, isEq st reg rules a a = true) ∧
    (∀ a b, isEq st reg rules a b = true → isEq st reg rules b a = true) ∧
    (∀ a b c, isEq st reg rules a b = true → isEq st reg rules b c = true → isEq st reg rules a c = true) :=
  ⟨equiv_refl st reg rules, equiv_symm st reg rules, equiv_trans st reg rules⟩

/-- `is_equivalent` holds exactly when `convert(1 * a, b)` is the number one in `b` AND the two units expand to the
    same root units (what `radian` violates; `(toRoot reg ·).2` is the unit part of pint's `get_base_units`) -/
theorem equiv_iff_factor_one (st : Store) (reg : Registry) (a b : Container) (ha : allKnown reg a = true)
    (hb : allKnown reg b = true) :
    isEq st reg [] a b = true ↔ (conv1 st reg a b = .ok (num [] b) ∧ (toRoot reg a).2 ≃ (toRoot reg b).2) := by
  show Id.run (Gen.Units.isEquivalent (storeObj st reg []) ⟨a⟩ ⟨b⟩) = true ↔ _
  rw [isEquivalent_tie, C07.equiv_iff_factor_one reg a b ha hb, genConvert_plain_ok]

/-- … in terms of `get_conversion_factor`: equivalent ⇔ it returns the int `1` and the root units agree -/
theorem equiv_iff_factor_one_api (st : Store) (reg : Registry) (a b : Container) (ha : allKnown reg a = true)
    (hb : allKnown reg b = true) :
    isEq st reg [] a b = true ↔
      (Gen.Units.getConversionFactor (storeObj st reg []) ⟨a⟩ ⟨b⟩ = .ok 1 ∧ (toRoot reg a).2 ≃ (toRoot reg b).2) := by
  rw [equiv_iff_factor_one st reg a b ha hb, genConvert_plain_ok, genFactor_plain]
  cases hf : factor reg a b with
  | error e => simp
  | ok f =>
    by_cases h : f = []
    · subst h; simp; intro _; rfl
    · have : (CFObj.mag ⟨f, []⟩ = (1 : CFObj)) = False := by
        apply eq_false; intro hh; cases hh
      simp [h, this]

/-! ### non-vacuity: the generated code run on concrete units of the built-in registry -/

example : conv1 ⟨0, []⟩ builtinRegistry [("liter", 1)] [("meter", 3)] = .ok (num [(2, -3), (5, -3)] [("meter", 3)]) := by
  decide +kernel
example : Gen.Units.getConversionFactor (storeObj ⟨0, []⟩ builtinRegistry []) ⟨[("volt", 1)]⟩
    ⟨[("joule", 1), ("coulomb", -1)]⟩ = .ok 1 := by decide +kernel
example : conv1 ⟨0, []⟩ builtinRegistry [("volt", 1)] [("second", 1)] = .error ⟨"DimensionalityError"⟩ := by
  decide +kernel

end Cellml.Props.C07Gen
