import Cellml.C09.Eqsfor

/-! Evaluating a list of equations in order. `f v ρ` is the value of the right-hand side of `v`'s equation in the
    environment `ρ`; `run f l ρ` assigns the left-hand sides of `l` one after the other. -/

namespace C09

def upd {K : Type} (ρ : Node → K) (v : Node) (x : K) : Node → K := fun u => if u = v then x else ρ u

def run {K : Type} (f : Node → (Node → K) → K) : List Node → (Node → K) → (Node → K)
  | [], ρ => ρ
  | v :: l, ρ => run f l (upd ρ v (f v ρ))

theorem run_not_mem {K : Type} (f : Node → (Node → K) → K) : ∀ (l : List Node) (ρ : Node → K) (u : Node),
    u ∉ l → run f l ρ u = ρ u
  | [], _, _, _ => rfl
  | v :: l, ρ, u, h => by
      simp only [List.mem_cons, not_or] at h
      rw [run, run_not_mem f l _ u h.2]
      simp [upd, h.1]

/-- If every right-hand side reads only nodes that are never assigned (`W`) or are assigned earlier in the list,
    then after the run every equation of the list holds in the final environment. -/
theorem run_satisfies {K : Type} (f : Node → (Node → K) → K) (reads : Node → Node → Prop)
    (hloc : ∀ v ρ ρ', (∀ u, reads u v → ρ u = ρ' u) → f v ρ = f v ρ') :
    ∀ (l : List Node) (W : Node → Prop) (ρ : Node → K), l.Nodup → (∀ u, W u → u ∉ l) →
      (∀ (i : Nat) (v : Node), l[i]? = some v → ∀ u, reads u v → u ∈ l.take i ∨ W u) →
      ∀ x ∈ l, run f l ρ x = f x (run f l ρ)
  | [], _, _, _, _, _, x, hx => by simp at hx
  | v :: t, W, ρ, hnd, hW, hord, x, hx => by
      simp only [List.nodup_cons] at hnd
      simp only [run]
      rcases List.mem_cons.mp hx with rfl | hx
      · rw [run_not_mem f t _ x hnd.1]
        simp only [upd, if_true]
        apply hloc
        intro u hu
        rcases hord 0 x (by simp) u hu with h | h
        · simp at h
        · have hnot := hW u h
          simp only [List.mem_cons, not_or] at hnot
          rw [run_not_mem f t _ u hnot.2]
          simp [upd, hnot.1]
      · apply run_satisfies f reads hloc t (fun u => W u ∨ u = v) _ hnd.2
        · rintro u (h | rfl)
          · exact fun h' => hW u h (List.mem_cons_of_mem _ h')
          · exact hnd.1
        · intro i w hi u hu
          rcases hord (i + 1) w (by simpa using hi) u hu with h | h
          · simp only [List.take_succ_cons, List.mem_cons] at h
            rcases h with rfl | h
            · exact Or.inr (Or.inr rfl)
            · exact Or.inl h
          · exact Or.inr (Or.inl h)
        · exact hx

theorem exists_lt_of_mem_take {l : List Node} {i : Nat} {u : Node} (h : u ∈ l.take i) :
    ∃ j : Nat, j < i ∧ l[j]? = some u := by
  obtain ⟨j, hj⟩ := List.mem_iff_getElem?.mp h
  rw [List.getElem?_take] at hj
  split at hj
  · rename_i hlt; exact ⟨j, hlt, hj⟩
  · cases hj

end C09
