import Cellml.C06.Sem
import Cellml.C06.Spec3

/-! C06, semantic part: `_replace_references_to_derivatives`. -/

namespace Model.CV
open Model

variable {K : Type} [Field K]

/-- an equation that mentions no replaced derivative and does not define one reads the same before and after `pull` -/
theorem holds_pull_of_not_mentions (I : Interp K) (rep : Rep) (τ : Val K) (e : CEqn) (hm : mentions rep e = false)
    (hn : NoLhs rep e) : Holds I (pull rep τ) e ↔ Holds I τ e := by
  have h1 : ev I (pull rep τ) e.rhs = ev I τ e.rhs := by
    apply ev_congr
    · intro i _; rfl
    · intro p hp
      have := (List.any_eq_false.mp hm) p hp
      have hk : hasKey p rep = false := by simpa using this
      simp only [pull, lookup_none_of_hasKey_false _ _ hk]
  have h2 : lhsVal (pull rep τ) e.lhs = lhsVal τ e.lhs := by
    cases hl : e.lhs with
    | var v => rfl
    | deriv x t => simp only [lhsVal, pull, lookup_none_of_hasKey_false _ _ (hn x t hl)]
  unfold Holds; rw [h1, h2]

/-- when the replacement variables already carry the values of the derivatives they replace, `pull` changes nothing -/
theorem pull_eq_self (rep : Rep) (τ : Val K) (h : ∀ k w, rep.lookup k = some w → τ.v w = τ.d k.1 k.2) :
    pull rep τ = τ := by
  cases τ with
  | mk tv td =>
    simp only [pull, Val.mk.injEq, true_and]
    funext x t
    cases hl : rep.lookup (x, t) with
    | none => rfl
    | some w => exact h (x, t) w hl

/-- `_replace_references_to_derivatives`: invariant, and both directions of the correspondence of solutions -/
theorem replaceRefs_sem (I : Interp K) {s : CState} {rep : Rep} (h : Inv0 s) (hc : Cross s.equations)
    (hn : ∀ e ∈ s.equations, NoLhs rep e) (hr : ∀ p ∈ rep, p.2 < s.vars.length) :
    Inv0 (replaceRefs s rep) ∧ Cross (replaceRefs s rep).equations ∧ (replaceRefs s rep).vars = s.vars ∧
    (∀ e' ∈ (replaceRefs s rep).equations, ∃ e ∈ s.equations, e'.lhs = e.lhs) ∧
    (∀ τ : Val K, (∀ k w, rep.lookup k = some w → τ.v w = τ.d k.1 k.2) → SatL I τ s.equations →
        SatL I τ (replaceRefs s rep).equations) ∧
    (∀ τ : Val K, SatL I τ (replaceRefs s rep).equations → SatL I (pull rep τ) s.equations) := by
  rw [replaceRefs_eq]
  obtain ⟨a, b, c, _, i1, i2⟩ := replace_fold rep s.equations s h hc h.nodup (fun _ he => he) hn hr
  refine ⟨a, b, c, ?_, ?_, ?_⟩
  · intro e' he'
    rcases i1 e' he' with ⟨h1, _⟩ | ⟨e, _, h2, _, h4⟩
    · exact ⟨e', h1, rfl⟩
    · refine ⟨e, h2, ?_⟩
      rw [h4]; simp only [substEq, substLhs_of_noLhs (hn e h2)]
  · intro τ hτ hs e' he'
    rcases i1 e' he' with ⟨h1, _⟩ | ⟨e, _, h2, _, h4⟩
    · exact hs e' h1
    · rw [h4, holds_substEq, pull_eq_self rep τ hτ]; exact hs e h2
  · intro τ hs e he
    rcases i2 e he with ⟨h1, h2⟩ | ⟨_, _, h3⟩
    · exact (holds_pull_of_not_mentions I rep τ e (h2 he) (hn e he)).mpr (hs e h1)
    · exact (holds_substEq I rep τ e).mp (hs _ h3)

end Model.CV
