import Cellml.Model.ConvertVar

/-! # `Model.convert_variable` and its helpers, with the exception CLASS and the STATE AT THE RAISE

    `Model/ConvertVar.lean` (`Model.CV`) is a pure state transformer that never stops: a call that raises in Python sets
    the flag `CState.raised` and the model goes on, so it records neither WHICH exception escaped nor the state Python
    leaves behind when it escapes. This file adds (it replaces nothing: the theorems of `Props/C06.lean` and `C06/*.lean`
    stay about `Model.CV`) the stopping reading of the same functions:

    * `Raised` = the class of the first exception and the model state at that point - what the caller of
      `convert_variable` holds after the `except`;
    * every function answers `Except Raised …`; the edits themselves are the functions of `Model.CV` (so a call that
      returns has done exactly what the flag model does), the guards are the ones written in the Python methods.

    `Tie/ConvertVarERefine.lean` proves that this model refines the flag model (returns ⇒ the same state and variable, flag
    untouched; raises ⇒ the flag model's flag is up), `Tie/ConvertVarE.lean` that the code generated from model.py IS this
    model (equality of results, of exception classes and of the states left behind). Core Lean only. -/

namespace Model.CVE
open Model Model.CV

/-- an exception that escaped: its class, and the model state Python leaves behind (the state at the raise) -/
structure Raised where
  cls : String
  st : CState
deriving DecidableEq, Repr

-- ------------------------------------------------------------------------------------------------ the calls used
/-- `add_variable(name, units, initial_value)`: `ValueError` on a name clash, before anything is touched -/
def addVariable (s : CState) (name : String) (u : U) (init : Option Rat) : Except Raised (CState × Nat) :=
  if name ∈ CV.names s then .error ⟨"ValueError", s⟩ else .ok (CV.addVariable s name u init)

/-- `transfer_cmeta_id`: both `ValueError`s come before the first write -/
def transferCmeta (s : CState) (src dst : Nat) : Except Raised CState :=
  if (cmetaOfV s src).isNone then .error ⟨"ValueError", s⟩
  else if (cmetaOfV s dst).isSome then .error ⟨"ValueError", s⟩
  else .ok (CV.transferCmeta s src dst)

/-- the variable an equation defines (`lhs`, or `lhs.free_symbols.pop()` of a derivative) -/
def lhsVar : CLhs → Nat
  | .var v => v
  | .deriv x _ => x

/-- `add_equation(eq, check_duplicates=check)`: `_check_duplicate_definitions` raises `ValueError` before the dicts and
    the list are written -/
def addEq (s : CState) (e : CEqn) (check : Bool) : Except Raised CState :=
  if check && CV.isDefined s (lhsVar e.lhs) then .error ⟨"ValueError", s⟩ else .ok (CV.addEq s e check)

/-- is the left-hand side of `e` filed in the dict `remove_equation` deletes it from -/
def filed (s : CState) (e : CEqn) : Bool :=
  match e.lhs with
  | .deriv x _ => hasKey x s.odeDef
  | .var v => hasKey v s.varDef

/-- `remove_equation`: `KeyError('Equation not found …')` when the equation is not in the list (nothing touched);
    `KeyError` of `del d[lhs]` when it is in the list but not filed - the list has ALREADY lost it -/
def removeEq (s : CState) (e : CEqn) : Except Raised CState :=
  if e ∈ s.equations then
    if filed s e then .ok (CV.removeEq s e)
    else .error ⟨"KeyError", { s with equations := s.equations.erase e }⟩
  else .error ⟨"KeyError", s⟩

/-- insertion into a list of dict items sorted by `order_added` of the key (= the identity number), stable -/
def insertItem (x : Nat × CEqn) : List (Nat × CEqn) → List (Nat × CEqn)
  | [] => [x]
  | y :: ys => if x.1 ≤ y.1 then x :: y :: ys else y :: insertItem x ys

/-- `sorted(self._ode_definition_map.items(), key=lambda v_eq: v_eq[0].order_added)`, read for the equations -/
def sortedItems (s : CState) : List CEqn := (s.odeDef.foldr insertItem []).map (·.2)

-- ------------------------------------------------------------------------------------------------ the helpers
/-- `_remove_ode_and_assign_rhs_to_new_variable` -/
def removeOdeAssign (s : CState) (ode : CEqn) (x : Nat) : Except Raised (CState × Nat) := do
  let (s1, w) ← addVariable s (freshName s (nameOfV s x ++ "_orig_deriv")) (lhsUnit s ode.lhs) none
  let s2 ← removeEq s1 ode
  let s3 ← addEq s2 ⟨.var w, ode.rhs⟩ true
  return (s3, w)

/-- `_convert_free_variable_deriv`; `ode.lhs.args[0]` of a plain variable is an `IndexError` (`Variable.args == ()`) -/
def convertFreeDeriv (s : CState) (ode : CEqn) (newT : Nat) (cfq : X) : Except Raised (CState × Rep) :=
  match ode.lhs with
  | .deriv x t => do
      let (s1, w) ← removeOdeAssign s ode x
      let s2 ← addEq s1 ⟨.deriv x newT, .div (.var w) cfq⟩ true
      return (s2, [((x, t), w)])
  | .var _ => .error ⟨"IndexError", s⟩

/-- `_convert_state_variable_deriv`; `_ode_definition_map[v]` of a variable without ODE is a `KeyError` -/
def convertStateDeriv (s : CState) (v nv : Nat) (cfq : X) : Except Raised (CState × Rep) :=
  match s.odeDef.lookup v with
  | none => .error ⟨"KeyError", s⟩
  | some ode =>
    match ode.lhs with
    | .deriv x t => do
        let (s1, w) ← removeOdeAssign s ode v
        let s2 ← addEq s1 ⟨.deriv nv t, .mul (.var w) cfq⟩ true
        return (s2, [((x, t), w)])
    | .var _ => .error ⟨"IndexError", s⟩

/-- one turn of the loop of `_replace_references_to_derivatives` -/
def replaceStep (rep : Rep) (st : CState) (e : CEqn) : Except Raised CState :=
  if mentions rep e then do
    let s1 ← removeEq st e
    addEq s1 (substEq rep e) true
  else pure st

/-- `_replace_references_to_derivatives`: over a copy of the list, stopping at the first exception -/
def replaceRefs (s : CState) (rep : Rep) : Except Raised CState := s.equations.foldlM (replaceStep rep) s

/-- `_convert_variable_instance`, the INPUT branch after the new variable `nv` exists -/
def instInput (s2 : CState) (v nv : Nat) (cfq : X) : Except Raised CState := do
  let s3 ← match s2.varDef.lookup v with
    | some oe => do
        let a ← removeEq s2 oe
        addEq a ⟨.var nv, .mul oe.rhs cfq⟩ true
    | none => pure s2
  let s4 : CState := { s3 with vars := setV s3.vars v (fun x => { x with init := none }) }
  addEq s4 ⟨.var v, .div (.var nv) cfq⟩ (!hasKey v s4.odeDef)

/-- `_convert_variable_instance`, the OUTPUT branch -/
def instOutput (s2 : CState) (v nv : Nat) (cfq : X) : Except Raised CState :=
  addEq s2 ⟨.var nv, .mul (.var v) cfq⟩ true

/-- `_convert_variable_instance` -/
def convertInstance (s : CState) (v : Nat) (cf : Rat) (u : U) (dir : Dir) (move : Bool) :
    Except Raised (CState × Nat) := do
  let cfq : X := .lit cf (u.div (unitOfV s v))
  let (s1, nv) ← addVariable s (freshName s (nameOfV s v ++ "_converted")) u (newInit s v cf dir)
  let s2 ← if (cmetaOfV s1 v).isSome && move then transferCmeta s1 v nv else pure s1
  match dir with
  | .input => do
      let s3 ← instInput s2 v nv cfq
      return (s3, nv)
  | .output => do
      let s3 ← instOutput s2 v nv cfq
      return (s3, nv)

/-- one turn of the loop over the ODEs in `convert_variable`: the `assert` on the bound variable, then
    `_convert_free_variable_deriv` -/
def freeStep (v nv : Nat) (cfq : X) (acc : CState × Rep) (ode : CEqn) : Except Raised (CState × Rep) :=
  match ode.lhs with
  | .var _ => .error ⟨"IndexError", acc.1⟩
  | .deriv _ t =>
      if t = v then do
        let (st, r) ← convertFreeDeriv acc.1 ode nv cfq
        return (st, r.foldl (fun m p => insertKey p.1 p.2 m) acc.2)
      else .error ⟨"AssertionError", acc.1⟩

/-- `convert_variable(v, units, direction, move_annotations)`; `cfr` is what
    `units.get_conversion_factor(v.units, units)` does: a factor, or an exception class (`DimensionalityError`, …) that
    escapes with the model untouched. Answers the state and the variable returned. -/
def convertVariable (s : CState) (v : Nat) (u : U) (cfr : Except String Rat) (dir : Dir) (move : Bool) :
    Except Raised (CState × Nat) :=
  if nameOfV s v ∈ CV.names s then
    match cfr with
    | .error c => .error ⟨c, s⟩
    | .ok cf =>
      if cf = 1 then .ok (s, v)
      else do
        let cfq : X := .lit cf (u.div (unitOfV s v))
        let isState := hasKey v s.odeDef                 -- `original_variable in state_symbols`, read early
        let free := getFree s                            -- `ValueError` of `get_free_variable` is caught: `None`
        let (s1, nv) ← convertInstance s v cf u dir move
        match dir with
        | .output => return (s1, nv)
        | .input => do
            let a ← if isState then convertStateDeriv s1 v nv cfq else pure (s1, [])
            let b ← if free == some v then (sortedItems a.1).foldlM (freeStep v nv cfq) a else pure a
            let s' ← if b.2.isEmpty then pure b.1 else replaceRefs b.1 b.2
            return (s', nv)
  else .error ⟨"AssertionError", s⟩

end Model.CVE
