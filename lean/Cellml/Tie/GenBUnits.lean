import Cellml.Tie.Units

/-! # GenB: the generated `UnitStore.convert` / `get_conversion_factor` / `is_equivalent` / `get_unit` in the form the
    transferred property theorems (`Props/C07Gen.lean`, `C16Gen.lean`, `C19Gen.lean`) use.

    Everything here is a corollary of the tie theorems of `Tie/Units.lean` (`convert_tie`, `getConversionFactor_tie`,
    `isEquivalent_tie`, `getUnit_tie`, `prefixName_tie`); none of them carries a hypothesis, so the statements below hold
    for every store, registry, rule list, magnitude and unit. -/

set_option linter.unusedSimpArgs false

namespace Cellml.Tie.PGenB
open Units PMap Cellml.Gen Cellml.Tie.PUnits

/-- `m * 1·(f, y)`: multiplying the unit magnitude changes nothing (`PMap.add [] x` is `x`) -/
theorem one_mul_mag (f : Scale) (y : Syms) : (MagObj.one * ⟨f, y⟩ : MagObj) = ⟨f, y⟩ := rfl

/-- the generated `UnitStore.convert` IS pint's conversion with the enabled rules (C19's `convertWithRules`), for every
    quantity: `convert_tie` + `convertQ_eq` -/
theorem genConvert_rules (st : Store) (reg : Registry) (rules : List Rule) (m : MagObj) (a b : Container) :
    Gen.Units.convert (storeObj st reg rules) ⟨m, ⟨a⟩⟩ ⟨b⟩ =
      match convertWithRules reg rules a b with
      | .ok (f, y) => .ok ⟨m * ⟨f, y⟩, ⟨b⟩⟩
      | .error e => .error ⟨uErrClass e⟩ := by
  rw [convert_tie, convertQ_eq]
  cases convertWithRules reg rules a b with
  | error e => rfl
  | ok p => rfl

/-- … and with no rule enabled it is the ordinary factor (C07's `factor`) -/
theorem genConvert_plain (st : Store) (reg : Registry) (m : MagObj) (a b : Container) :
    Gen.Units.convert (storeObj st reg []) ⟨m, ⟨a⟩⟩ ⟨b⟩ =
      match factor reg a b with
      | .ok f => .ok ⟨m * ⟨f, []⟩, ⟨b⟩⟩
      | .error e => .error ⟨uErrClass e⟩ := by
  rw [genConvert_rules, Cellml.Props.C19.no_rules_plain]
  cases factor reg a b with
  | error e => rfl
  | ok f => rfl

/-- success of the generated `convert` on the unit quantity `1 * a`, read back as a statement about `factor` -/
theorem genConvert_plain_ok_iff (st : Store) (reg : Registry) (a b : Container) (q : QuantityObj) :
    Gen.Units.convert (storeObj st reg []) (unitQuantity ⟨a⟩) ⟨b⟩ = .ok q ↔
      ∃ f, factor reg a b = .ok f ∧ q = ⟨⟨f, []⟩, ⟨b⟩⟩ := by
  rw [show unitQuantity ⟨a⟩ = ⟨MagObj.one, ⟨a⟩⟩ from rfl, genConvert_plain]
  cases factor reg a b with
  | error e => simp
  | ok f =>
    simp only [one_mul_mag, Except.ok.injEq]
    constructor
    · intro h; exact ⟨f, rfl, h.symm⟩
    · rintro ⟨f', hf, rfl⟩; rw [hf]

theorem genConvert_plain_ok (st : Store) (reg : Registry) (a b : Container) (f : Scale) :
    Gen.Units.convert (storeObj st reg []) (unitQuantity ⟨a⟩) ⟨b⟩ = .ok ⟨⟨f, []⟩, ⟨b⟩⟩ ↔ factor reg a b = .ok f := by
  rw [genConvert_plain_ok_iff]
  constructor
  · rintro ⟨f', hf, h⟩
    simp only [QuantityObj.mk.injEq, MagObj.mk.injEq, and_true] at h
    rw [h]; exact hf
  · intro h; exact ⟨f, h, rfl⟩

/-- the same for rules -/
theorem genConvert_rules_ok (st : Store) (reg : Registry) (rules : List Rule) (a b : Container) (f : Scale) (y : Syms) :
    Gen.Units.convert (storeObj st reg rules) (unitQuantity ⟨a⟩) ⟨b⟩ = .ok ⟨⟨f, y⟩, ⟨b⟩⟩ ↔
      convertWithRules reg rules a b = .ok (f, y) := by
  rw [show unitQuantity ⟨a⟩ = ⟨MagObj.one, ⟨a⟩⟩ from rfl, genConvert_rules]
  cases convertWithRules reg rules a b with
  | error e => simp
  | ok p =>
    obtain ⟨f', y'⟩ := p
    simp only [one_mul_mag, Except.ok.injEq, QuantityObj.mk.injEq, MagObj.mk.injEq, and_true, Prod.mk.injEq]

theorem genConvert_rules_error (st : Store) (reg : Registry) (rules : List Rule) (m : MagObj) (a b : Container)
    (e : UErr) (h : convertWithRules reg rules a b = .error e) :
    Gen.Units.convert (storeObj st reg rules) ⟨m, ⟨a⟩⟩ ⟨b⟩ = .error ⟨uErrClass e⟩ := by
  rw [genConvert_rules, h]

/-- the scale a result of `get_conversion_factor` stands for (the int `1` is the empty prime-exponent map) -/
def cfScale : CFObj → Scale
  | .one => []
  | .mag m => m.scale

/-- the generated `get_conversion_factor` with no rule enabled: the int `1` when the factor is one, else the factor -/
theorem genFactor_plain (st : Store) (reg : Registry) (a b : Container) :
    Gen.Units.getConversionFactor (storeObj st reg []) ⟨a⟩ ⟨b⟩ =
      match factor reg a b with
      | .ok f => .ok (if f = [] then CFObj.one else CFObj.mag ⟨f, []⟩)
      | .error e => .error ⟨uErrClass e⟩ := by
  unfold Gen.Units.getConversionFactor
  rw [show unitQuantity ⟨a⟩ = ⟨MagObj.one, ⟨a⟩⟩ from rfl, genConvert_plain]
  cases factor reg a b with
  | error e => rfl
  | ok f =>
    by_cases hf : f = [] <;>
      simp [bind, Except.bind, pure, Except.pure, one_mul_mag, isNumber, pyFloat, isCloseOne, isSympyMul,
        hasFloatOneArg, dropFloatOneArgs, hf] <;> rfl

end Cellml.Tie.PGenB
