import Cellml.Units.Conv

/-! Custom conversion rules (units.py 267-335: `get_conversion_factor` with a symbolic magnitude, `convert`,
    `add_conversion_rule`) over the mini-pint, with pint 0.18's context machinery as the code uses it:

    * `add_conversion_rule(from_unit, to_unit, rule)` enables a pint `Context` holding one transformation. pint keys it
      by the pair (DIMENSIONALITY of `from_unit`, DIMENSIONALITY of `to_unit`) — the units themselves are forgotten
      (`enable_contexts` rewrites the key with `_get_dimensionality`). Newer contexts shadow older ones with the same
      key (`ContextChain` is a `ChainMap`, newest map first): `lookupRule` takes the first match of a newest-first list.
    * `ContextRegistry._convert`: when contexts are active, look for a shortest path from the source dimensionality to
      the target dimensionality in the graph of keys (`find_shortest_path`: depth-first over simple paths, shortest
      kept); apply the rule of every hop to the QUANTITY (which keeps whatever units it has); then convert the result to
      the requested unit by the ordinary factor — which raises `DimensionalityError` if the rules did not produce the
      target dimension, and is all that happens when there is no path.
    * A linear rule multiplies by a quantity κ: `lambda ureg, rhs: rhs * Cs / Cm`. Its magnitude is a positive number
      (a `Scale`) times opaque symbols with integer exponents (`Syms`, the same finite-map type: symbol ↦ exponent), its
      unit a container.

    Dimensionalities handled here are always the canonical forms produced by `dimsOf` (pint compares normalised
    `UnitsContainer`s), so keys are compared with `=`.   Core Lean only. -/

namespace Units

/-- symbolic part of a magnitude: symbol ↦ exponent (`Cs / Cm` is `[("Cs", 1), ("Cm", -1)]`) -/
abbrev Syms := PMap String

/-- an enabled transformation: key (source dimensionality, target dimensionality) and the quantity κ it multiplies by -/
structure Rule where
  src    : Dims
  dst    : Dims
  kscale : Scale
  ksyms  : Syms
  kunit  : Container
deriving Repr, DecidableEq

inductive Mag where
  | num (s : Scale)          -- a positive number, as its prime factorisation
  | sym (name : String)      -- an opaque symbol (sympy Symbol / cellmlmanip Variable / sympy function application)
deriving Repr, DecidableEq

/-- one factor of a linear rule body: `rhs * Q` (`inv = false`) or `rhs / Q` (`inv = true`), `Q = mag · unit` -/
structure RFactor where
  inv  : Bool
  mag  : Mag
  unit : Container
deriving Repr, DecidableEq

def RFactor.sign (f : RFactor) : Rat := if f.inv then -1 else 1

/-- κ of a rule body: (numeric magnitude, symbolic magnitude, unit) -/
def kappa : List RFactor → Scale × Syms × Container
  | [] => ([], [], [])
  | f :: fs =>
      match kappa fs with
      | (s, y, u) =>
        match f.mag with
        | .num m => (PMap.add (PMap.smul f.sign m) s, y, PMap.add (PMap.smul f.sign f.unit) u)
        | .sym n => (s, PMap.add (PMap.single n f.sign) y, PMap.add (PMap.smul f.sign f.unit) u)

/-- `add_conversion_rule(from_unit, to_unit, lambda ureg, rhs: rhs * … / …)`: only the DIMENSIONS of the two units are
    kept. -/
def mkRule (reg : Registry) (fromU toU : Container) (fs : List RFactor) : Rule :=
  match kappa fs with
  | (s, y, u) =>
    { src := dimsOf reg fromU, dst := dimsOf reg toU,
      kscale := PMap.norm s, ksyms := PMap.norm y, kunit := PMap.norm u }

/-- the transformation pint finds for the key (s, d): rules are kept newest first, the newest wins -/
def lookupRule (rules : List Rule) (s d : Dims) : Option Rule :=
  rules.find? (fun r => decide (r.src = s) && decide (r.dst = d))

/-- all walks of exactly `n` hops from `s` to `d` in the graph of keys, as the list of nodes after `s` -/
def walks (rules : List Rule) : Nat → Dims → Dims → List (List Dims)
  | 0, s, d => if s = d then [[]] else []
  | n + 1, s, d =>
      (rules.filter (fun r => decide (r.src = s))).flatMap (fun r => (walks rules n r.dst d).map (fun p => r.dst :: p))

/-- iterative deepening: the first walk of the smallest length that has one (a shortest walk is a simple path) -/
def search (rules : List Rule) (s d : Dims) : Nat → Nat → Option (List Dims)
  | 0, _ => none
  | fuel + 1, n =>
      match walks rules n s d with
      | p :: _ => some p
      | [] => search rules s d fuel (n + 1)

/-- `find_shortest_path(graph, s, d)`: a simple path uses every key at most once, so `length + 1` lengths suffice -/
def findPath (rules : List Rule) (s d : Dims) : Option (List Dims) :=
  search rules s d (rules.length + 1) 0

/-- number of distinct shortest paths (pint's choice among several depends on set iteration order) -/
def shortestCount (rules : List Rule) (s d : Dims) : Nat :=
  match findPath rules s d with
  | none => 0
  | some p => ((walks rules p.length s d).eraseDups).length

/-- the transformation applied on every hop of a path starting at `s` -/
def rulesAlong (rules : List Rule) : Dims → List Dims → List Rule
  | _, [] => []
  | s, d :: p =>
      match lookupRule rules s d with
      | some r => r :: rulesAlong rules d p
      | none => rulesAlong rules d p          -- unreachable for paths produced by `walks`

def pathScale : List Rule → Scale
  | [] => []
  | r :: rs => PMap.add r.kscale (pathScale rs)

def pathSyms : List Rule → Syms
  | [] => []
  | r :: rs => PMap.add r.ksyms (pathSyms rs)

def pathUnit : List Rule → Container
  | [] => []
  | r :: rs => PMap.add r.kunit (pathUnit rs)

/-- `Quantity(1, a).to(b)` with the enabled rules: magnitude multiplier as (number, symbols).
    Without a path pint falls through to the ordinary conversion (which fails when the dimensions differ). -/
def convertWithRules (reg : Registry) (rules : List Rule) (a b : Container) : Except UErr (Scale × Syms) :=
  if !(allKnown reg a && allKnown reg b) then .error .undefinedUnit
  else
    match findPath rules (dimsOf reg a) (dimsOf reg b) with
    | none =>
        match factor reg a b with
        | .ok f => .ok (f, [])
        | .error e => .error e
    | some path =>
        let rs := rulesAlong rules (dimsOf reg a) path
        match factor reg (PMap.add a (pathUnit rs)) b with
        | .ok f => .ok (PMap.norm (PMap.add f (pathScale rs)), PMap.norm (pathSyms rs))
        | .error e => .error e

/-- `UnitStore.convert(q·a, b)`: magnitude multiplier. After the repair of the defect recorded in findings/C19.json
    the inverse route of the special case is taken only when the target is dimensionless in dimension too — where no
    rule is ever consulted — so it cannot be observed (`Cellml.Props.C19.convert_special_case_invisible`). -/
def convertQ (reg : Registry) (rules : List Rule) (a b : Container) : Except UErr (Scale × Syms) :=
  if PMap.norm a = [] ∧ dimsOf reg b = [] then
    match convertWithRules reg rules b a with
    | .ok (f, y) => .ok (PMap.norm (PMap.neg f), PMap.norm (PMap.neg y))
    | .error e => .error e
  else convertWithRules reg rules a b

/-- `UnitStore.convert` as it was before that repair: converting FROM the unit `dimensionless` always went through the
    inverse of the conversion TO it. Kept for the proved counterexamples. -/
def convertQ_before (reg : Registry) (rules : List Rule) (a b : Container) : Except UErr (Scale × Syms) :=
  if PMap.norm a = [] then
    match convertWithRules reg rules b a with
    | .ok (f, y) => .ok (PMap.norm (PMap.neg f), PMap.norm (PMap.neg y))
    | .error e => .error e
  else convertWithRules reg rules a b

/-- `get_conversion_factor`: `none` is the int `1` returned for a number within 1e-9 of one (exactly one in the model);
    a symbolic factor is returned as it is (with a leading `1.0` removed). -/
def conversionFactorR (reg : Registry) (rules : List Rule) (a b : Container) :
    Except UErr (Option (Scale × Syms)) :=
  match convertQ reg rules a b with
  | .ok (f, y) => .ok (if f = [] ∧ y = [] then none else some (f, y))
  | .error e => .error e

/-! ### `Model.convert_variable` as far as the conversion factor is concerned (model.py 824-831, 1013-1014, 1025-1046,
    945-989) -/

inductive Dir where
  | input | output
deriving Repr, DecidableEq

/-- how the variable being converted is defined in the model -/
inductive VarKind where
  | plain      -- no defining equation (a constant given by its initial value, or nothing)
  | defined    -- `v = rhs`
  | state      -- `d v / d t = rhs`
  | free       -- the variable of integration of `nOdes` ODEs
deriving Repr, DecidableEq

/-- the equations `convert_variable` adds, by shape; the exponent says how the factor enters -/
inductive EqForm where
  | newFromOrig      -- new = orig · cf            (OUTPUT)
  | newFromRhs       -- new = rhs · cf             (INPUT, variable defined by an equation)
  | origFromNew      -- orig = new / cf            (INPUT)
  | odeOfNew         -- d new / d t = rhs_var · cf (INPUT, state variable)
  | odeWrtNew        -- d x / d new = rhs_var / cf (INPUT, free variable; one per ODE)
deriving Repr, DecidableEq

def EqForm.exponent : EqForm → Int
  | .newFromOrig => 1 | .newFromRhs => 1 | .origFromNew => -1 | .odeOfNew => 1 | .odeWrtNew => -1

inductive CVErr where
  | units (e : UErr)     -- from `get_conversion_factor`
  | typeError            -- `float(cf)` of a symbolic factor (line 1014)
deriving Repr, DecidableEq

inductive CVOutcome where
  | same                                                        -- `cf == 1`: the original variable is returned
  | converted (f : Scale × Syms) (initScaled : Bool) (eqs : List EqForm)
  | error (e : CVErr)
deriving Repr, DecidableEq

def cvEquations (dir : Dir) (kind : VarKind) (nOdes : Nat) : List EqForm :=
  match dir with
  | .output => [.newFromOrig]
  | .input =>
      (if kind = .defined then [.newFromRhs] else []) ++ [.origFromNew] ++
      (if kind = .state then [.odeOfNew] else []) ++
      (if kind = .free then List.replicate nOdes .odeWrtNew else [])

def convertVariable (reg : Registry) (rules : List Rule) (a b : Container) (dir : Dir) (kind : VarKind)
    (hasInit : Bool) (nOdes : Nat) : CVOutcome :=
  match conversionFactorR reg rules a b with
  | .error e => .error (.units e)
  | .ok none => .same
  | .ok (some (f, y)) =>
      if dir = .input ∧ hasInit = true ∧ y ≠ [] then .error .typeError
      else .converted (f, y) (decide (dir = .input) && hasInit) (cvEquations dir kind nOdes)

end Units
