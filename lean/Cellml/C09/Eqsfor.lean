import Cellml.C09.Build
import Cellml.C09.NoCycle

/-! Helper lemmas about `getEquationsFor` (anatomy of a successful call, what `required` contains, positions in a
    filtered list, equivalence of two spellings of one system). The property theorems are in `Cellml/Props/C09.lean`. -/

namespace C09

/-- what "the requests depend on" means: everything (`recurse`) or the direct references only -/
def Uses (eqs : List Eqn) (strip : Bool) : Bool → Node → Node → Prop
  | true => TC (DepOn eqs strip)
  | false => DepOn eqs strip

/-- `v` is needed for the requests `vars` -/
def Needed (eqs : List Eqn) (vars : List Node) (recurse strip : Bool) (v : Node) : Prop :=
  v ∈ vars ∨ ∃ r ∈ vars, Uses eqs strip recurse v r

/-- anatomy of a successful call -/
theorem eqsfor_ok {key : Node → String} {eqs : List Eqn} {vars : List Node} {recurse strip : Bool} {res : List Node}
    (h : getEquationsFor key eqs vars recurse strip = .ok res) :
    ∃ g0 sorted, buildGraph key eqs = .ok g0 ∧ (∀ v ∈ vars, v ∈ g0.nodes) ∧
      lexTopo key (graphFor eqs strip g0) = .ok sorted ∧
      res = sorted.filter fun v => v ∈ required (graphFor eqs strip g0) vars recurse && hasEq eqs v := by
  simp only [getEquationsFor] at h
  split at h
  · simp at h
  · rename_i g0 hg0
    split at h
    · simp at h
    · rename_i hall
      split at h
      · simp at h
      · rename_i sorted hs
        simp only [Except.ok.injEq] at h
        refine ⟨g0, sorted, hg0, ?_, hs, h.symm⟩
        have hall' := Classical.not_not.mp hall
        simp only [List.all_eq_true, decide_eq_true_eq, graphFor_nodes] at hall'
        exact hall'

theorem tc_edge_iff {eqs : List Eqn} {strip : Bool} {g : Graph} (hnd : (eqs.map (·.lhs)).Nodup)
    (hg : GraphSpec eqs g) (u v : Node) :
    TC (Edge' (graphFor eqs strip g)) u v ↔ TC (DepOn eqs strip) u v :=
  ⟨TC.mono fun a b h => (graphFor_edges hnd hg a b).mp h, TC.mono fun a b h => (graphFor_edges hnd hg a b).mpr h⟩

theorem mem_required {key : Node → String} {eqs : List Eqn} {g0 : Graph} {sorted : List Node} {strip : Bool}
    (hb : buildGraph key eqs = .ok g0) (hs : lexTopo key (graphFor eqs strip g0) = .ok sorted)
    (vars : List Node) (recurse : Bool) (v : Node) :
    v ∈ required (graphFor eqs strip g0) vars recurse ↔ Needed eqs vars recurse strip v := by
  obtain ⟨hvalid, hspec⟩ := buildGraph_valid hb
  have hwf : WF (graphFor eqs strip g0) := graphFor_wf hspec.wf
  simp only [required, List.mem_append, List.mem_flatMap, Needed]
  apply or_congr Iff.rfl
  apply exists_congr; intro r
  apply and_congr Iff.rfl
  cases recurse with
  | true =>
      simp only [if_true, Uses]
      rw [mem_ancestors hwf hs, tc_edge_iff hvalid.lhsNodup hspec]
  | false =>
      simp only [Bool.false_eq_true, if_false, Uses]
      rw [mem_preds, graphFor_edges hvalid.lhsNodup hspec]

theorem filter_getElem? {p : Node → Bool} : ∀ {l : List Node} {i : Nat} {v : Node}, (l.filter p)[i]? = some v →
    ∃ j : Nat, l[j]? = some v ∧ (l.take j).filter p = (l.filter p).take i
  | [], i, v, h => by simp at h
  | x :: xs, i, v, h => by
      by_cases hx : p x = true
      · rw [List.filter_cons_of_pos hx] at h ⊢
        cases i with
        | zero =>
            simp only [List.getElem?_cons_zero, Option.some.injEq] at h; subst h
            exact ⟨0, by simp, by simp⟩
        | succ i =>
            simp only [List.getElem?_cons_succ] at h
            obtain ⟨j, hj, ht⟩ := filter_getElem? h
            refine ⟨j + 1, by simpa using hj, ?_⟩
            simp only [List.take_succ_cons]
            rw [List.filter_cons_of_pos hx, ht]
      · rw [List.filter_cons_of_neg hx] at h ⊢
        obtain ⟨j, hj, ht⟩ := filter_getElem? h
        refine ⟨j + 1, by simpa using hj, ?_⟩
        simp only [List.take_succ_cons]
        rw [List.filter_cons_of_neg hx, ht]

/-- two equation lists describe the same system: same equations up to the order of the list and the order (and
    repetition) inside each reference set -/
def SameSystem (eqs eqs' : List Eqn) : Prop :=
  (∀ e ∈ eqs, ∃ e' ∈ eqs', e'.lhs = e.lhs ∧ e'.ode = e.ode ∧ (∀ u, u ∈ e'.refs ↔ u ∈ e.refs) ∧
      (∀ u, u ∈ e'.numRefs ↔ u ∈ e.numRefs)) ∧
  (∀ e' ∈ eqs', ∃ e ∈ eqs, e'.lhs = e.lhs ∧ e'.ode = e.ode ∧ (∀ u, u ∈ e'.refs ↔ u ∈ e.refs) ∧
      (∀ u, u ∈ e'.numRefs ↔ u ∈ e.numRefs))

theorem sameSystem_hasEq {eqs eqs' : List Eqn} (h : SameSystem eqs eqs') (v : Node) :
    hasEq eqs' v = hasEq eqs v := by
  rw [Bool.eq_iff_iff, hasEq_iff, hasEq_iff]
  simp only [List.mem_map]
  constructor
  · rintro ⟨e', he', rfl⟩
    obtain ⟨e, he, hl, _⟩ := h.2 e' he'
    exact ⟨e, he, hl.symm⟩
  · rintro ⟨e, he, rfl⟩
    obtain ⟨e', he', hl, _⟩ := h.1 e he
    exact ⟨e', he', hl⟩

theorem sameSystem_sf {eqs eqs' : List Eqn} (h : SameSystem eqs eqs') (v : Node) :
    isStateOrFree eqs' v = isStateOrFree eqs v := by
  rw [Bool.eq_iff_iff, isStateOrFree_iff, isStateOrFree_iff]
  constructor
  · rintro ⟨e', he', s, f, ho, hv⟩
    obtain ⟨e, he, _, hode, _⟩ := h.2 e' he'
    exact ⟨e, he, s, f, hode ▸ ho, hv⟩
  · rintro ⟨e, he, s, f, ho, hv⟩
    obtain ⟨e', he', _, hode, _⟩ := h.1 e he
    exact ⟨e', he', s, f, hode ▸ ho, hv⟩

theorem sameSystem_dep {eqs eqs' : List Eqn} (h : SameSystem eqs eqs') (strip : Bool) (u v : Node) :
    DepOn eqs' strip u v ↔ DepOn eqs strip u v := by
  constructor
  · rintro ⟨e', he', hl, hr, hn⟩
    obtain ⟨e, he, hl', _, hrefs, hnum⟩ := h.2 e' he'
    exact ⟨e, he, hl' ▸ hl, (hrefs u).mp hr, fun hs => (hnum u).mp (hn hs)⟩
  · rintro ⟨e, he, hl, hr, hn⟩
    obtain ⟨e', he', hl', _, hrefs, hnum⟩ := h.1 e he
    exact ⟨e', he', hl'.trans hl, (hrefs u).mpr hr, fun hs => (hnum u).mpr (hn hs)⟩

end C09
