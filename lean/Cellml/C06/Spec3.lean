import Cellml.C06.Spec2

/-! C06, structural part (core Lean only): `_replace_references_to_derivatives` on a state that satisfies the
    invariant — which equations the result consists of. -/

namespace Model.CV
open Model

section
variable {α β : Type} [BEq α] [LawfulBEq α] [DecidableEq α]

theorem lookup_isSome_iff_hasKey (k : α) (l : List (α × β)) : (l.lookup k).isSome = hasKey k l := by
  induction l with
  | nil => rfl
  | cons p l ih =>
    obtain ⟨k', v'⟩ := p
    by_cases hk : k = k'
    · subst hk; simp [hasKey]
    · have h1 : (k == k') = false := by simpa using hk
      have h2 : ¬ k' = k := fun h => hk h.symm
      simp only [List.lookup_cons, h1, ih, hasKey, List.any_cons, h2, decide_false, Bool.false_or]

theorem lookup_none_of_hasKey_false (k : α) (l : List (α × β)) (h : hasKey k l = false) : l.lookup k = none := by
  have := lookup_isSome_iff_hasKey k l
  rw [h] at this
  cases hl : l.lookup k with
  | none => rfl
  | some w => rw [hl] at this; cases this

theorem hasKey_false_of_lookup_none (k : α) (l : List (α × β)) (h : l.lookup k = none) : hasKey k l = false := by
  have := lookup_isSome_iff_hasKey k l
  rw [h] at this; exact this.symm

theorem mem_of_lookup' (l : List (α × β)) (k : α) (v : β) (h : l.lookup k = some v) : (k, v) ∈ l := by
  induction l with
  | nil => simp at h
  | cons p l ih =>
    obtain ⟨k', v'⟩ := p
    by_cases hk : k = k'
    · subst hk; simp at h; subst h; exact List.mem_cons_self ..
    · have : (k == k') = false := by simpa using hk
      simp only [List.lookup_cons, this] at h
      exact List.mem_cons_of_mem _ (ih h)
end

/-- the left-hand side is not one of the replaced derivatives -/
def NoLhs (rep : Rep) (e : CEqn) : Prop := ∀ x t, e.lhs = .deriv x t → hasKey (x, t) rep = false

theorem substLhs_of_noLhs {rep : Rep} {e : CEqn} (h : NoLhs rep e) : substLhs rep e.lhs = e.lhs := by
  cases hl : e.lhs with
  | var v => rfl
  | deriv x t =>
    have := lookup_none_of_hasKey_false _ _ (h x t hl)
    simp only [substLhs, this]

theorem keyKind_substEq {rep : Rep} {e : CEqn} (h : NoLhs rep e) : keyKind (substEq rep e) = keyKind e := by
  unfold keyKind substEq; simp only [substLhs_of_noLhs h]

/-- after the rewriting, no replaced derivative is left -/
theorem derivs_subst (rep : Rep) (e : X) : ∀ p ∈ (e.subst rep).derivs, hasKey p rep = false := by
  induction e with
  | var v => simp [X.subst, X.derivs]
  | deriv x t =>
    intro p hp
    simp only [X.subst] at hp
    cases hl : rep.lookup (x, t) with
    | some w => rw [hl] at hp; simp [X.derivs] at hp
    | none =>
      rw [hl] at hp; simp only [X.derivs, List.mem_cons, List.not_mem_nil, or_false] at hp
      rw [hp]
      exact hasKey_false_of_lookup_none _ _ hl
  | lit q u => simp [X.subst, X.derivs]
  | add a b iha ihb | sub a b iha ihb | mul a b iha ihb | div a b iha ihb | fn2 f a b iha ihb =>
    intro p hp
    simp only [X.subst, X.derivs, List.mem_append] at hp
    exact hp.elim (iha p) (ihb p)
  | fn1 f a iha => simpa [X.subst, X.derivs] using iha

theorem not_mentions_substEq (rep : Rep) (e : CEqn) : mentions rep (substEq rep e) = false := by
  unfold mentions substEq
  rw [List.any_eq_false]
  intro p hp
  simp only [derivs_subst rep e.rhs p hp]
  decide

/-- the rewritten expression mentions variables of the original and replacement variables only -/
theorem vars_subst (rep : Rep) (e : X) : ∀ i ∈ (e.subst rep).vars, i ∈ e.vars ∨ ∃ p ∈ rep, p.2 = i := by
  induction e with
  | var v => intro i hi; exact Or.inl hi
  | deriv x t =>
    intro i hi
    simp only [X.subst] at hi
    cases hl : rep.lookup (x, t) with
    | some w =>
      rw [hl] at hi; simp only [X.vars, List.mem_cons, List.not_mem_nil, or_false] at hi
      exact Or.inr ⟨((x, t), w), mem_of_lookup' _ _ _ hl, hi.symm⟩
    | none => rw [hl] at hi; exact Or.inl hi
  | lit q u => intro i hi; exact Or.inl hi
  | add a b iha ihb | sub a b iha ihb | mul a b iha ihb | div a b iha ihb | fn2 f a b iha ihb =>
    intro i hi
    simp only [X.subst, X.vars, List.mem_append] at hi ⊢
    rcases hi with hi | hi
    · exact (iha i hi).elim (fun h => Or.inl (Or.inl h)) Or.inr
    · exact (ihb i hi).elim (fun h => Or.inl (Or.inr h)) Or.inr
  | fn1 f a iha => simpa [X.subst, X.vars] using iha

theorem eqScoped_substEq {n : Nat} {rep : Rep} {e : CEqn} (hs : EqScoped n e) (hn : NoLhs rep e)
    (hr : ∀ p ∈ rep, p.2 < n) : EqScoped n (substEq rep e) := by
  rw [eqScoped_iff] at hs ⊢
  refine ⟨by simpa only [substEq, substLhs_of_noLhs hn] using hs.1, ?_⟩
  intro i hi
  rcases vars_subst rep e.rhs i hi with h | ⟨p, hp, rfl⟩
  · exact hs.2 i h
  · exact hr p hp

/-- one turn of `_replace_references_to_derivatives` -/
def replaceStep (rep : Rep) (st : CState) (e : CEqn) : CState :=
  if mentions rep e then addEq (removeEq st e) (substEq rep e) true else st

theorem replaceRefs_eq (s : CState) (rep : Rep) : replaceRefs s rep = s.equations.foldl (replaceStep rep) s := rfl

theorem cross_replace {E : List CEqn} (hc : Cross E) (e e' : CEqn) (hl : e'.lhs = e.lhs) (he : e ∈ E) :
    Cross (E.erase e ++ [e']) := by
  have hm : ∀ a ∈ E.erase e ++ [e'], ∃ b ∈ E, a.lhs = b.lhs := by
    intro a ha
    rcases List.mem_append.mp ha with ha | ha
    · exact ⟨a, List.mem_of_mem_erase ha, rfl⟩
    · simp only [List.mem_cons, List.not_mem_nil, or_false] at ha
      exact ⟨e, he, by rw [ha, hl]⟩
  intro e₁ h₁ e₂ h₂ v x t hv hx
  obtain ⟨b₁, hb₁, hl₁⟩ := hm e₁ h₁
  obtain ⟨b₂, hb₂, hl₂⟩ := hm e₂ h₂
  exact hc b₁ hb₁ b₂ hb₂ v x t (hl₁ ▸ hv) (hl₂ ▸ hx)

/-- one turn on an equation of the list that mentions a replaced derivative -/
theorem replaceStep_spec {st : CState} {rep : Rep} (h : Inv0 st) (hc : Cross st.equations) (e : CEqn)
    (he : e ∈ st.equations) (hm : mentions rep e = true) (hn : NoLhs rep e) (hr : ∀ p ∈ rep, p.2 < st.vars.length) :
    (replaceStep rep st e).equations = st.equations.erase e ++ [substEq rep e] ∧
    (replaceStep rep st e).vars = st.vars ∧ Inv0 (replaceStep rep st e) ∧ Cross (replaceStep rep st e).equations := by
  unfold replaceStep; rw [if_pos hm]
  obtain ⟨r1, r2, _, r4⟩ := removeEq_ok h e he
  have hkk : keyKind (substEq rep e) = keyKind e := keyKind_substEq hn
  have hsc : EqScoped (removeEq st e).vars.length (substEq rep e) := by
    rw [r2]; exact eqScoped_substEq (h.scopedE e he) hn hr
  have hk : ∀ e0 ∈ (removeEq st e).equations, keyKind e0 ≠ keyKind (substEq rep e) := by
    rw [r1, hkk]; exact key_absent_after_erase h e he
  have hd : ∀ e0 ∈ (removeEq st e).equations, defKey e0 ≠ defKey (substEq rep e) := by
    rw [r1]; intro e0 he0
    have := defKey_absent_after_erase h hc e he e0 he0
    unfold defKey at this ⊢; rwa [hkk]
  obtain ⟨a1, a2, _, a4⟩ := addEq_ok r4 _ true hsc hk (fun _ => hd)
  refine ⟨by rw [a1, r1], by rw [a2, r2], a4, ?_⟩
  rw [a1, r1]
  exact cross_replace hc e (substEq rep e) (by simp only [substEq, substLhs_of_noLhs hn]) he

theorem noLhs_substEq {rep : Rep} {e : CEqn} (hn : NoLhs rep e) : NoLhs rep (substEq rep e) := by
  intro x t hl
  have : (substEq rep e).lhs = e.lhs := by simp only [substEq, substLhs_of_noLhs hn]
  exact hn x t (this ▸ hl)

/-- `_replace_references_to_derivatives` over (the rest of) the copied list: the invariant is kept, no variable is
    added, and the resulting equations are the untouched ones that mention no replaced derivative plus the rewritten
    forms of those that do -/
theorem replace_fold (rep : Rep) : ∀ (L : List CEqn) (st : CState), Inv0 st → Cross st.equations → L.Nodup →
    (∀ e ∈ L, e ∈ st.equations) → (∀ e ∈ st.equations, NoLhs rep e) → (∀ p ∈ rep, p.2 < st.vars.length) →
    Inv0 (L.foldl (replaceStep rep) st) ∧ Cross (L.foldl (replaceStep rep) st).equations ∧
    (L.foldl (replaceStep rep) st).vars = st.vars ∧
    (∀ e ∈ (L.foldl (replaceStep rep) st).equations, NoLhs rep e) ∧
    (∀ e' ∈ (L.foldl (replaceStep rep) st).equations,
        (e' ∈ st.equations ∧ (e' ∈ L → mentions rep e' = false)) ∨
        ∃ e ∈ L, e ∈ st.equations ∧ mentions rep e = true ∧ e' = substEq rep e) ∧
    (∀ e ∈ st.equations,
        (e ∈ (L.foldl (replaceStep rep) st).equations ∧ (e ∈ L → mentions rep e = false)) ∨
        (e ∈ L ∧ mentions rep e = true ∧ substEq rep e ∈ (L.foldl (replaceStep rep) st).equations)) := by
  intro L
  induction L with
  | nil =>
    intro st h hc _ _ hn _
    exact ⟨h, hc, rfl, hn, fun e' he' => Or.inl ⟨he', fun hh => by cases hh⟩,
           fun e he => Or.inl ⟨he, fun hh => by cases hh⟩⟩
  | cons e L ih =>
    intro st h hc hnd hsub hn hr
    have hndL : L.Nodup := (List.nodup_cons.mp hnd).2
    have heL : e ∉ L := (List.nodup_cons.mp hnd).1
    have he : e ∈ st.equations := hsub e (List.mem_cons_self ..)
    simp only [List.foldl_cons]
    cases hm : mentions rep e with
    | false =>
      have hst : replaceStep rep st e = st := by unfold replaceStep; rw [hm]; rfl
      rw [hst]
      obtain ⟨a, b, c, d, i1, i2⟩ := ih st h hc hndL (fun e2 h2 => hsub e2 (List.mem_cons_of_mem _ h2)) hn hr
      refine ⟨a, b, c, d, ?_, ?_⟩
      · intro e' he'
        rcases i1 e' he' with ⟨h1, h2⟩ | ⟨e2, h2, h3, h4, h5⟩
        · refine Or.inl ⟨h1, fun hin => ?_⟩
          rcases List.mem_cons.mp hin with hin | hin
          · rw [hin]; exact hm
          · exact h2 hin
        · exact Or.inr ⟨e2, List.mem_cons_of_mem _ h2, h3, h4, h5⟩
      · intro e0 he0
        rcases i2 e0 he0 with ⟨h1, h2⟩ | ⟨h1, h2, h3⟩
        · refine Or.inl ⟨h1, fun hin => ?_⟩
          rcases List.mem_cons.mp hin with hin | hin
          · rw [hin]; exact hm
          · exact h2 hin
        · exact Or.inr ⟨List.mem_cons_of_mem _ h1, h2, h3⟩
    | true =>
      obtain ⟨r1, r2, r3, r4⟩ := replaceStep_spec h hc e he hm (hn e he) hr
      have hsub1 : ∀ e2 ∈ L, e2 ∈ (replaceStep rep st e).equations := by
        intro e2 h2; rw [r1]; apply List.mem_append_left
        have hne : e2 ≠ e := fun hh => heL (hh ▸ h2)
        exact (List.mem_erase_of_ne hne).mpr (hsub e2 (List.mem_cons_of_mem _ h2))
      have hn1 : ∀ e2 ∈ (replaceStep rep st e).equations, NoLhs rep e2 := by
        rw [r1]; intro e2 h2
        rcases List.mem_append.mp h2 with h2 | h2
        · exact hn e2 (List.mem_of_mem_erase h2)
        · simp only [List.mem_cons, List.not_mem_nil, or_false] at h2
          rw [h2]; exact noLhs_substEq (hn e he)
      obtain ⟨a, b, c, d, i1, i2⟩ := ih (replaceStep rep st e) r3 r4 hndL hsub1 hn1 (by rw [r2]; exact hr)
      refine ⟨a, b, c.trans r2, d, ?_, ?_⟩
      · intro e' he'
        rcases i1 e' he' with ⟨h1, h2⟩ | ⟨e2, h2, h3, h4, h5⟩
        · rw [r1] at h1
          rcases List.mem_append.mp h1 with h1 | h1
          · have hne := (h.nodup.mem_erase_iff.mp h1).1
            refine Or.inl ⟨List.mem_of_mem_erase h1, fun hin => ?_⟩
            rcases List.mem_cons.mp hin with hin | hin
            · exact absurd hin hne
            · exact h2 hin
          · simp only [List.mem_cons, List.not_mem_nil, or_false] at h1
            exact Or.inr ⟨e, List.mem_cons_self .., he, hm, h1⟩
        · exact Or.inr ⟨e2, List.mem_cons_of_mem _ h2, hsub e2 (List.mem_cons_of_mem _ h2), h4, h5⟩
      · intro e0 he0
        by_cases hee : e0 = e
        · subst hee
          have hin : substEq rep e0 ∈ (replaceStep rep st e0).equations := by rw [r1]; simp
          rcases i2 _ hin with ⟨h1, _⟩ | ⟨_, h2, _⟩
          · exact Or.inr ⟨List.mem_cons_self .., hm, h1⟩
          · rw [not_mentions_substEq] at h2; cases h2
        · have hin : e0 ∈ (replaceStep rep st e).equations := by
            rw [r1]; exact List.mem_append_left _ ((List.mem_erase_of_ne hee).mpr he0)
          rcases i2 e0 hin with ⟨h1, h2⟩ | ⟨h1, h2, h3⟩
          · refine Or.inl ⟨h1, fun hin' => ?_⟩
            rcases List.mem_cons.mp hin' with hin' | hin'
            · exact absurd hin' hee
            · exact h2 hin'
          · exact Or.inr ⟨List.mem_cons_of_mem _ h1, h2, h3⟩

end Model.CV
