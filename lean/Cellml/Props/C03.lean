/-! Property theorems for C03 (not built yet). -/
