import Cellml.Generated.Code.ConvertVar
import Cellml.C06.Lemmas
import Mathlib.Tactic.SplitIfs

/-! # Tie: `Model.convert_variable` and its helpers (generated from model.py) = the hand model `Model.CV.*` -/

namespace Cellml.Tie.CV
open Model Model.CV Cellml.Gen Cellml.Tie

-- ================================================================================================ get_unique_name
theorem uniqueName_stable (names : List String) : ∀ (k : Nat) (x : String),
    uniqueName names k x ∉ names → uniqueName names (k + 1) x = uniqueName names k x := by
  intro k
  induction k with
  | zero => intro x h; simp only [uniqueName] at h ⊢; simp [h]
  | succ k ih =>
    intro x h
    rw [uniqueName]
    by_cases hx : x ∈ names
    · rw [if_pos hx]
      have h' : uniqueName names k (x ++ "_a") ∉ names := by
        rw [uniqueName, if_pos hx] at h; exact h
      rw [ih _ h', uniqueName, if_pos hx]
    · rw [if_neg hx, uniqueName, if_neg hx]

/-- one unfolding: the generated body over the model with `fuel` tries is the model with `fuel + 1` tries -/
theorem getUniqueName_unfold (s : CState) (fuel : Nat) (b : String) :
    ConvertVar.getUniqueName (uniqueName (names s) fuel) s b = .ok (uniqueName (names s) (fuel + 1) b) := by
  unfold ConvertVar.getUniqueName
  simp only [uniqueName, Py.isIn, pure, Except.pure]
  by_cases h : b ∈ names s <;> simp [h]

/-- `get_unique_name` (generated, open recursion) has the hand model `freshName` as a fixpoint -/
theorem getUniqueName_tie (s : CState) (b : String) :
    ConvertVar.getUniqueName (freshName s) s b = .ok (freshName s b) := by
  have h := getUniqueName_unfold s (names s).length b
  have hs : uniqueName (names s) ((names s).length + 1) b = uniqueName (names s) (names s).length b :=
    uniqueName_stable _ _ _ (freshName_fresh s b)
  rw [hs] at h
  exact h

-- ================================================================================================ the relation
/-- the exception classes the `convert_variable` family raises by itself: `ValueError` (`add_variable`,
    `add_equation`, `transfer_cmeta_id`), `KeyError` (`remove_equation`, `_ode_definition_map[v]`), `AssertionError`
    (the `assert` on the free variable) -/
def OkCls (e : PyErr) : Prop := e.cls = "ValueError" ∨ e.cls = "KeyError" ∨ e.cls = "AssertionError"

instance (e : PyErr) : Decidable (OkCls e) := by unfold OkCls; exact inferInstance

/-- The generated code `g` (python: returns or raises) agrees with the hand model's result `m`, which carries the flag
    `raised` (read by `rd`): if python returns, it returns exactly the model's result and the model's flag is down; if
    python raises, the model's flag is up (and the exception is of one of the classes `OkCls`). The hand model does not
    record WHICH call raised, so the class is not compared with the model. -/
def TiedG {β : Type} (rd : β → Bool) (g : Except PyErr β) (m : β) : Prop :=
  match g with
  | .ok r => r = m ∧ rd m = false
  | .error e => rd m = true ∧ OkCls e

/-- a function that answers a value (and has changed the model) -/
abbrev Tied {α : Type} (g : Except PyErr (CState × α)) (m : CState × α) : Prop := TiedG (fun r => r.1.raised) g m
/-- a function that answers nothing -/
abbrev TiedS (g : Except PyErr CState) (m : CState) : Prop := TiedG (fun r => r.raised) g m

@[simp] theorem tiedG_ok {β : Type} (rd : β → Bool) (r m : β) : TiedG rd (.ok r) m ↔ (r = m ∧ rd m = false) := Iff.rfl
@[simp] theorem tiedG_error {β : Type} (rd : β → Bool) (e : PyErr) (m : β) :
    TiedG rd (.error e) m ↔ (rd m = true ∧ OkCls e) := Iff.rfl
@[simp] theorem tiedG_pure {β : Type} (rd : β → Bool) (r m : β) :
    TiedG rd (pure r : Except PyErr β) m ↔ (r = m ∧ rd m = false) := Iff.rfl

/-- sequencing: python runs `g` and then `k` on what `g` returned; the model computes `m'` and goes on whatever the
    flag says, so the rest of the model must keep a flag that is up (`hr`) -/
theorem TiedG.bind {β γ : Type} {rb : β → Bool} {rc : γ → Bool} {g : Except PyErr β} {m' : β}
    {k : β → Except PyErr γ} {M : γ} (hg : TiedG rb g m') (hr : rb m' = true → rc M = true)
    (hk : rb m' = false → TiedG rc (k m') M) : TiedG rc (g >>= k) M := by
  cases g with
  | error e => exact ⟨hr hg.1, hg.2⟩
  | ok r =>
    obtain ⟨rfl, h⟩ := hg
    exact hk h

theorem tiedS_guard (c : String) (m : CState) (hc : OkCls ⟨c⟩) : TiedS (guardRaised c m) m := by
  unfold guardRaised; cases h : m.raised <;> simp [TiedS, h, hc]

theorem tied_addVariableM (s : CState) (n : String) (u : U) (i : Option Rat) :
    Tied (addVariableM s n u i) (CV.addVariable s n u i) := by
  unfold addVariableM; cases h : (CV.addVariable s n u i).1.raised <;> simp [Tied, h, OkCls]

-- ================================================================================================ the flag is sticky
theorem addVariable_sticky (s : CState) (n : String) (u : U) (i : Option Rat) (h : s.raised = true) :
    (addVariable s n u i).1.raised = true := by
  unfold CV.addVariable; split <;> simp [h]

theorem transferCmeta_sticky (s : CState) (a b : Nat) (h : s.raised = true) : (transferCmeta s a b).raised = true := by
  unfold CV.transferCmeta; split
  · simp
  · split <;> simp [h]

theorem addEq_sticky (s : CState) (e : CEqn) (c : Bool) (h : s.raised = true) : (addEq s e c).raised = true := by
  unfold addEq; split <;> split <;> simp [h]

theorem removeEq_sticky (s : CState) (e : CEqn) (h : s.raised = true) : (removeEq s e).raised = true := by
  unfold removeEq; split
  · split <;> split <;> simp [h]
  · simp

theorem removeOdeAssign_sticky (s : CState) (ode : CEqn) (x : Nat) (h : s.raised = true) :
    (removeOdeAssign s ode x).1.raised = true := by
  unfold removeOdeAssign
  exact addEq_sticky _ _ _ (removeEq_sticky _ _ (addVariable_sticky _ _ _ _ h))

-- ================================================================================================ _remove_ode_and_assign_rhs_to_new_variable
theorem removeOdeAssign_tie (s : CState) (ode : CEqn) (x : Nat) :
    Tied (ConvertVar.removeOdeAndAssignRhsToNewVariable s ode x) (removeOdeAssign s ode x) := by
  unfold ConvertVar.removeOdeAndAssignRhsToNewVariable removeOdeAssign
  dsimp only [removeEqM, addEqM]
  refine TiedG.bind (tied_addVariableM _ _ _ _) (fun h => addEq_sticky _ _ _ (removeEq_sticky _ _ h)) fun _ => ?_
  refine TiedG.bind (tiedS_guard _ _ (by decide)) (fun h => addEq_sticky _ _ _ h) fun _ => ?_
  refine TiedG.bind (tiedS_guard _ _ (by decide)) (fun h => h) fun h => ?_
  exact ⟨rfl, h⟩

-- ================================================================================================ _convert_free_variable_deriv
theorem convertFreeDeriv_sticky (s : CState) (ode : CEqn) (nt : Nat) (cfq : X) (h : s.raised = true) :
    (convertFreeDeriv s ode nt cfq).1.raised = true := by
  unfold convertFreeDeriv
  split
  · exact addEq_sticky _ _ _ (removeOdeAssign_sticky _ _ _ h)
  · exact h

/-- Domain: the left-hand side of `original_ode` is a derivative (the caller takes it from `_ode_definition_map`).
    On a plain-variable left-hand side python raises `IndexError` (`Variable.args` is empty) while the hand model
    answers the unchanged state and no replacement. -/
theorem convertFreeDeriv_tie (s : CState) (ode : CEqn) (nt : Nat) (cfq : X) (x t : Nat) (hl : ode.lhs = .deriv x t) :
    Tied (ConvertVar.convertFreeVariableDeriv s ode nt cfq) (convertFreeDeriv s ode nt cfq) := by
  unfold ConvertVar.convertFreeVariableDeriv convertFreeDeriv
  simp only [hl, derivArg0, addEqM]
  refine TiedG.bind (g := Except.ok x) (m' := x) (rb := fun _ => false) ⟨rfl, rfl⟩ (fun h => by cases h) fun _ => ?_
  refine TiedG.bind (removeOdeAssign_tie _ _ _) (fun h => addEq_sticky _ _ _ h) fun _ => ?_
  refine TiedG.bind (tiedS_guard _ _ (by decide)) (fun h => h) fun h => ?_
  exact ⟨rfl, h⟩

-- ================================================================================================ _convert_state_variable_deriv
theorem convertStateDeriv_sticky (s : CState) (v nv : Nat) (cfq : X) (h : s.raised = true) :
    (convertStateDeriv s v nv cfq).1.raised = true := by
  unfold convertStateDeriv
  split
  · split
    · exact addEq_sticky _ _ _ (removeOdeAssign_sticky _ _ _ h)
    · exact h
  · rfl

/-- Domain: the entries of `_ode_definition_map` have a derivative on the left (`hd`); a missing entry is python's
    `KeyError` and the model's flag. -/
theorem convertStateDeriv_tie (s : CState) (v nv : Nat) (cfq : X)
    (hd : ∀ e, s.odeDef.lookup v = some e → ∃ x t, e.lhs = .deriv x t) :
    Tied (ConvertVar.convertStateVariableDeriv s v nv cfq) (convertStateDeriv s v nv cfq) := by
  unfold ConvertVar.convertStateVariableDeriv convertStateDeriv
  cases ho : s.odeDef.lookup v with
  | none => simp [odeLookupM, ho, bind, Except.bind, OkCls]
  | some ode =>
    obtain ⟨x, t, hl⟩ := hd ode ho
    simp only [odeLookupM, ho, hl, derivArg1, addEqM]
    refine TiedG.bind (g := Except.ok ode) (m' := ode) (rb := fun _ => false) ⟨rfl, rfl⟩ (fun h => by cases h) fun _ => ?_
    simp only [hl]
    refine TiedG.bind (g := Except.ok t) (m' := t) (rb := fun _ => false) ⟨rfl, rfl⟩ (fun h => by cases h) fun _ => ?_
    refine TiedG.bind (removeOdeAssign_tie _ _ _) (fun h => addEq_sticky _ _ _ h) fun _ => ?_
    refine TiedG.bind (tiedS_guard _ _ (by decide)) (fun h => h) fun h => ?_
    exact ⟨rfl, h⟩

-- ================================================================================================ loops
theorem foldl_sticky {σ α : Type} (rd : σ → Bool) (step : σ → α → σ) (hst : ∀ s a, rd s = true → rd (step s a) = true) :
    ∀ (l : List α) (s : σ), rd s = true → rd (l.foldl step s) = true
  | [], _, h => h
  | a :: l, s, h => foldl_sticky rd step hst l (step s a) (hst s a h)

/-- a python `for` whose body is tied to one step of the model's `foldl` is tied to the `foldl` -/
theorem tiedG_forIn {σ α : Type} (rd : σ → Bool) (step : σ → α → σ) (body : α → σ → Except PyErr (ForInStep σ))
    (hst : ∀ s a, rd s = true → rd (step s a) = true)
    (hbody : ∀ a s, rd s = false → TiedG (fun r : ForInStep σ => rd r.value) (body a s) (.yield (step s a))) :
    ∀ (l : List α) (s : σ), rd s = false → TiedG rd (forIn l s body) (l.foldl step s)
  | [], s, h => ⟨rfl, h⟩
  | a :: l, s, h => by
    rw [List.forIn_cons, List.foldl_cons]
    refine TiedG.bind (hbody a s h) (fun h' => foldl_sticky rd step hst l _ h') fun h' => ?_
    exact tiedG_forIn rd step body hst hbody l _ h'

-- ================================================================================================ _replace_references_to_derivatives
theorem contains_keys_eq_hasKey {α β : Type} [DecidableEq α] [BEq α] [LawfulBEq α] (d : α) (l : List (α × β)) :
    (l.map (·.1)).contains d = hasKey d l := by
  induction l with
  | nil => rfl
  | cons p l ih =>
    have e : hasKey d (p :: l) = (decide (p.1 = d) || hasKey d l) := rfl
    rw [List.map_cons, List.contains_cons, ih, e]
    by_cases h : p.1 = d
    · subst h; simp
    · have : (d == p.1) = false := beq_eq_false_iff_ne.mpr (Ne.symm h)
      simp [this, h]

/-- python's test `not keys.isdisjoint(rhs.atoms(Derivative))` is the hand model's `mentions` -/
theorem not_isDisjoint_eq_mentions (rep : Rep) (e : CEqn) :
    (!Py.truthy (isDisjoint (dictKeys rep) e.rhs.derivs)) = mentions rep e := by
  simp only [isDisjoint, dictKeys, mentions, Py.truthy_bool, Bool.not_not]
  congr 1
  funext d
  exact contains_keys_eq_hasKey d rep

theorem replaceRefs_sticky (s : CState) (rep : Rep) (h : s.raised = true) : (replaceRefs s rep).raised = true := by
  unfold replaceRefs
  refine foldl_sticky (fun s : CState => s.raised) _ (fun s e h => ?_) _ _ h
  show (if _ then _ else _ : CState).raised = true
  split
  · exact addEq_sticky _ _ _ (removeEq_sticky _ _ h)
  · exact h

/-- the loop runs over the equations the model had when the function was entered (python: `self.equations.copy()`) -/
theorem replaceRefs_tie (s : CState) (rep : Rep) (hs : s.raised = false) :
    TiedS (ConvertVar.replaceReferencesToDerivatives s rep) (replaceRefs s rep) := by
  unfold ConvertVar.replaceReferencesToDerivatives replaceRefs
  dsimp only [removeEqM, addEqM]
  refine TiedG.bind (rb := fun s : CState => s.raised) (m' := List.foldl _ s s.equations) ?_ (fun h => h)
    fun h => ⟨rfl, h⟩
  refine tiedG_forIn (fun s : CState => s.raised) _ _ (fun s e h => ?_) (fun e st hst => ?_) _ _ hs
  · show (if _ then _ else _ : CState).raised = true
    split
    · exact addEq_sticky _ _ _ (removeEq_sticky _ _ h)
    · exact h
  · rw [not_isDisjoint_eq_mentions]
    by_cases hm : mentions rep e = true
    · simp only [hm, if_true]
      refine TiedG.bind (tiedS_guard _ _ (by decide)) (fun h => addEq_sticky _ _ _ h) fun _ => ?_
      refine TiedG.bind (tiedS_guard _ _ (by decide)) (fun h => h) fun h => ?_
      exact ⟨rfl, h⟩
    · simp only [hm]
      exact ⟨rfl, hst⟩

-- ================================================================================================ _convert_variable_instance
/-- `if c: g` followed by the rest `K` of the function, against a model that computes `if c then m' else s1` and goes on
    with `F` -/
theorem tied_optional {γ : Type} {rc : γ → Bool} (c : Bool) (g : Except PyErr CState) (m' s1 : CState)
    (K : CState → Except PyErr γ) (F : CState → γ) (hg : TiedS g m')
    (hF : ∀ s2 : CState, s2.raised = true → rc (F s2) = true)
    (hK : ∀ s2 : CState, s2.raised = false → TiedG rc (K s2) (F s2)) (hs1 : s1.raised = false) :
    TiedG rc (if c = true then g >>= K else K s1) (F (if c = true then m' else s1)) := by
  cases c with
  | false => simpa using hK s1 hs1
  | true =>
    simp only [if_true]
    exact TiedG.bind hg (hF _) (hK _)

theorem instOutput_sticky (s : CState) (v nv : Nat) (cfq : X) (h : s.raised = true) :
    (instOutput s v nv cfq).raised = true := addEq_sticky _ _ _ h

theorem instInput_sticky (s : CState) (v nv : Nat) (cfq : X) (h : s.raised = true) :
    (instInput s v nv cfq).raised = true := by
  unfold instInput
  refine addEq_sticky _ _ _ ?_
  show (match s.varDef.lookup v with | some oe => _ | none => s : CState).raised = true
  split
  · exact addEq_sticky _ _ _ (removeEq_sticky _ _ h)
  · exact h

theorem convertInstance_sticky (s : CState) (v : Nat) (cf : Rat) (u : U) (dir : Dir) (move : Bool)
    (h : s.raised = true) : (convertInstance s v cf u dir move).1.raised = true := by
  unfold convertInstance
  have h1 := addVariable_sticky s (freshName s (nameOfV s v ++ "_converted")) u (newInit s v cf dir) h
  have h2 : (if ((cmetaOfV (CV.addVariable s (freshName s (nameOfV s v ++ "_converted")) u (newInit s v cf dir)).1 v).isSome
      && move) = true then transferCmeta (CV.addVariable s (freshName s (nameOfV s v ++ "_converted")) u (newInit s v cf dir)).1 v
        (CV.addVariable s (freshName s (nameOfV s v ++ "_converted")) u (newInit s v cf dir)).2
      else (CV.addVariable s (freshName s (nameOfV s v ++ "_converted")) u (newInit s v cf dir)).1).raised = true := by
    split
    · exact transferCmeta_sticky _ _ _ h1
    · exact h1
  cases dir with
  | input => exact instInput_sticky _ _ _ _ h2
  | output => exact instOutput_sticky _ _ _ _ h2

theorem not_isIn_odeKeys (v : Nat) (s : CState) : (!Py.isIn v (odeKeys s)) = !hasKey v s.odeDef := by
  unfold Py.isIn odeKeys
  rw [contains_keys_eq_hasKey]

/-- the INPUT branch of `_convert_variable_instance` after the annotations have been moved -/
theorem instInput_tie (s2 : CState) (v nv : Nat) (cfq : X) :
    Tied (if (s2.varDef.lookup v).isSome = true then do
          let st_1 ← removeEqM s2 (s2.varDef.lookup v)
          let st ← addEqM st_1 (mkEq nv (eqArg1 (s2.varDef.lookup v) * cfq)) true
          let st ← addEqM (setInitialValue st v none) (mkEq v (nv / cfq))
            (!Py.isIn v (odeKeys (setInitialValue st v none)))
          pure (st, nv)
        else do
          let st ← addEqM (setInitialValue s2 v none) (mkEq v (nv / cfq))
            (!Py.isIn v (odeKeys (setInitialValue s2 v none)))
          pure (st, nv))
      (instInput s2 v nv cfq, nv) := by
  unfold instInput
  cases ho : s2.varDef.lookup v with
  | none =>
    simp only [Option.isSome_none, Bool.false_eq_true, if_false, addEqM]
    rw [not_isIn_odeKeys]
    refine TiedG.bind (tiedS_guard _ _ (by decide)) (fun h => h) fun h => ?_
    exact ⟨rfl, h⟩
  | some oe =>
    simp only [Option.isSome_some, if_true, removeEqM, addEqM]
    refine TiedG.bind (tiedS_guard _ _ (by decide)) (fun h => addEq_sticky _ _ _ (addEq_sticky _ _ _ h)) fun _ => ?_
    refine TiedG.bind (tiedS_guard _ _ (by decide)) (fun h => addEq_sticky _ _ _ h) fun _ => ?_
    rw [not_isIn_odeKeys]
    refine TiedG.bind (tiedS_guard _ _ (by decide)) (fun h => h) fun h => ?_
    exact ⟨rfl, h⟩

theorem convertInstance_tie (s : CState) (v : Nat) (cf : Rat) (u : U) (dir : Dir) (move : Bool) :
    Tied (ConvertVar.convertVariableInstance s v (.lit cf (u.div (unitOfV s v))) u dir move)
      (convertInstance s v cf u dir move) := by
  unfold ConvertVar.convertVariableInstance convertInstance
  cases dir with
  | output =>
    simp only [show (Dir.output == Dir.input) = false from rfl, Bool.false_and, Bool.false_eq_true, if_false]
    refine TiedG.bind (tied_addVariableM _ _ _ _) (fun h => ?_) fun h1 => ?_
    · refine instOutput_sticky _ _ _ _ ?_
      split
      · exact transferCmeta_sticky _ _ _ h
      · exact h
    · refine tied_optional _ _ _ _ _ (fun s2 => (instOutput s2 v _ _, _)) (tiedS_guard _ _ (by decide))
        (fun s2 h => instOutput_sticky _ _ _ _ h) (fun s2 h2 => ?_) h1
      refine TiedG.bind (tiedS_guard _ _ (by decide)) (fun h => h) fun h => ?_
      exact ⟨rfl, h⟩
  | input =>
    have hrest : ∀ niv : Option Rat, niv = newInit s v cf .input →
        Tied (do
          let __x ← addVariableM s (freshName s (nameOfV s v + "_converted")) u niv
          if ((cmetaOfV __x.fst v).isSome && Py.truthy move) = true then do
            let st ← transferCmetaM __x.fst v __x.snd
            if (st.varDef.lookup v).isSome = true then do
              let st_1 ← removeEqM st (st.varDef.lookup v)
              let st ← addEqM st_1 (mkEq __x.snd (eqArg1 (st.varDef.lookup v) * X.lit cf (u.div (unitOfV s v)))) true
              let st ← addEqM (setInitialValue st v none) (mkEq v (__x.snd / X.lit cf (u.div (unitOfV s v))))
                (!Py.isIn v (odeKeys (setInitialValue st v none)))
              pure (st, __x.snd)
            else do
              let st ← addEqM (setInitialValue st v none) (mkEq v (__x.snd / X.lit cf (u.div (unitOfV s v))))
                (!Py.isIn v (odeKeys (setInitialValue st v none)))
              pure (st, __x.snd)
          else
            if (__x.fst.varDef.lookup v).isSome = true then do
              let st_1 ← removeEqM __x.fst (__x.fst.varDef.lookup v)
              let st ← addEqM st_1 (mkEq __x.snd (eqArg1 (__x.fst.varDef.lookup v) * X.lit cf (u.div (unitOfV s v)))) true
              let st ← addEqM (setInitialValue st v none) (mkEq v (__x.snd / X.lit cf (u.div (unitOfV s v))))
                (!Py.isIn v (odeKeys (setInitialValue st v none)))
              pure (st, __x.snd)
            else do
              let st ← addEqM (setInitialValue __x.fst v none) (mkEq v (__x.snd / X.lit cf (u.div (unitOfV s v))))
                (!Py.isIn v (odeKeys (setInitialValue __x.fst v none)))
              pure (st, __x.snd))
          (convertInstance s v cf u .input move) := by
      rintro niv rfl
      unfold convertInstance
      refine TiedG.bind (tied_addVariableM _ _ _ _) (fun h => ?_) fun h1 => ?_
      · refine instInput_sticky _ _ _ _ ?_
        split
        · exact transferCmeta_sticky _ _ _ h
        · exact h
      · exact tied_optional _ _ _ _ _ (fun s2 => (instInput s2 v _ _, _)) (tiedS_guard _ _ (by decide))
          (fun s2 h => instInput_sticky _ _ _ _ h) (fun s2 _ => instInput_tie s2 v _ _) h1
    have hc := hrest
    unfold convertInstance at hc
    cases hi : initOfV s v with
    | none =>
      simp only [show (Dir.input == Dir.input) = true from rfl, Bool.true_and, hi, Option.isSome_none,
        Bool.false_eq_true, if_false, if_true]
      exact hc none (by simp [newInit, hi])
    | some q =>
      simp only [show (Dir.input == Dir.input) = true from rfl, Bool.true_and, hi, Option.isSome_some,
        if_true, pyFloat]
      exact hc (some q * cf) (by simp [newInit, hi]; rfl)

end Cellml.Tie.CV
