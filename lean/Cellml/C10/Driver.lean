import Cellml.Basic.Sexp
import Cellml.Model.Roles

/-! Channel C10: one history per request.
    `(C10 (ops op…))` with `op` = `(addVar "name" init|none)`, `(rmVar id)`, `(addEq tok lhs rhs bare)`, `(rmEq tok)`,
    `(graph)`, `(check)`, `(skip)`; `lhs` = `(var i)` | `(deriv s t order)` | `(other)`; `rhs` = `(n p/q)` | `(v i)` |
    `(d s t)` | `(+ a b)` | `(- a b)` | `(* a b)` | `(/ a b)` | `(^ a n)` | `(opq "id" node…)` (an uninterpreted
    application: `id` is the printed term, the nodes are its references; `Expr.ofWire`).
    Reply: one entry per op: `ok` / `(err Class)` for a call, and for `(check)` all role queries and `get_value` of every
    variable of the model. A check reads the graph (as `get_derivatives` does), so the state goes on with the cache
    filled and the `type` fields written. The driver knows no interpretation of the opaque terms (`Interp.none`): where
    the value of one is needed it answers `unsupported` (its references are evaluated first, as the code does). -/
namespace C10
open Sexp Model

def node? : Sexp → Option Node
  | .list [.atom "v", i] => do some (.var (← nat? i))
  | .list [.atom "d", s, t] => do some (.deriv (← nat? s) (← nat? t))
  | _ => none

def binOp? : String → Option BinOp
  | "+" => some .add | "-" => some .sub | "*" => some .mul | "/" => some .div | _ => none

partial def expr? : Sexp → Option Expr
  | .list [.atom "n", q] => do some (.num (← rat? q))
  | .list [.atom "v", i] => do some (.var (← nat? i))
  | .list [.atom "d", s, t] => do some (.deriv (← nat? s) (← nat? t))
  | .list [.atom "^", a, n] => do some (.pow (← expr? a) (← int? n))
  | .list (.atom "opq" :: .str id :: rs) => do some (Expr.ofWire id (← rs.mapM node?))
  | .list [.atom o, a, b] => do some (.bin (← binOp? o) (← expr? a) (← expr? b))
  | _ => none

def lhs? : Sexp → Option Lhs
  | .list [.atom "var", i] => do some (.var (← nat? i))
  | .list [.atom "deriv", s, t, o] => do some (.deriv (← nat? s) (← nat? t) (← nat? o))
  | .list [.atom "other"] => some .other
  | _ => none

def optRat? : Sexp → Option (Option Rat)
  | .atom "none" => some none
  | e => (rat? e).map some

/-- the equations seen so far in this history: token ↦ equation and right-hand side -/
abbrev Table := List (Nat × Eqn × Expr)

def rhsOf (tbl : Table) (tok : Nat) : Expr :=
  match tbl.lookup tok with
  | some (_, r) => r
  | none => .opq "" []

inductive Cmd | op (o : Op) | check | skip

def cmd? (tbl : Table) : Sexp → Option (Cmd × Table)
  | .list [.atom "addVar", .str n, i] => do some (.op (.addVariable n none (← optRat? i)), tbl)
  | .list [.atom "rmVar", v] => do some (.op (.removeVariable (← nat? v)), tbl)
  | .list [.atom "addEq", t, l, r, b] => do
      let rhs ← expr? r
      let refs := rhs.nodes.eraseDups
      let e : Eqn := ⟨← nat? t, ← lhs? l, refs, refs, b == .atom "true"⟩
      some (.op (.addEquation e), (e.tok, e, rhs) :: tbl)
  | .list [.atom "rmEq", t] => do
      let k ← nat? t
      some (.op (.removeEquation (((tbl.lookup k).map (·.1)).getD ⟨k, .other, [], [], false⟩)), tbl)
  | .list [.atom "graph"] => some (.op .qGraphNum, tbl)
  | .list [.atom "check"] => some (.check, tbl)
  | .list [.atom "skip"] => some (.skip, tbl)
  | _ => none

def ofOutcome : Outcome → Sexp
  | .ok => .atom "ok"
  | .raised .valueError => .list [.atom "err", .atom "ValueError"]
  | .raised .keyError => .list [.atom "err", .atom "KeyError"]
  | .raised (.graphError _) => .list [.atom "err", .atom "GraphError"]
  | .raised .notInModel => .list [.atom "err", .atom "NotInModel"]
  | .raised .cmetaFuel => .list [.atom "err", .atom "CmetaFuel"]

def ofVErr : VErr → Sexp
  | .noDefinition => .atom "noDefinition"
  | .noInit => .atom "noInit"
  | .fuel => .atom "fuel"
  | .arith => .atom "arith"
  | .unsupported => .atom "unsupported"
  | .derivativeWrtNumber => .atom "derivativeWrtNumber"
  | .floatHasNoAtoms => .atom "floatHasNoAtoms"

def ofOpt {α} (f : α → Sexp) : Option α → Sexp
  | some x => f x
  | none => .atom "none"

def snapshot (M : RModel) : Sexp :=
  let s := M.st
  .list [
    .list (.atom "vars" :: s.live.map ofNat),
    .list (.atom "states" :: (stateVars M).map ofNat),
    .list (.atom "unsorted" :: (stateKeys s).map ofNat),
    .list [.atom "free", ofOpt ofNat (freeVar M)],
    (match derivatives M with
     | .ok l => .list (.atom "derivs" :: .atom "ok" :: l.map fun (a, b) => .list [ofNat a, ofNat b])
     | .error _ => .list [.atom "derivs", .atom "err"]),
    (match derivedQuantities M with
     | .ok l => .list (.atom "derived" :: .atom "ok" :: l.map ofNat)
     | .error _ => .list [.atom "derived", .atom "err"]),
    .list (.atom "is_state" :: (s.live.filter (isState M)).map ofNat),
    .list (.atom "is_const" :: (s.live.filter (isConstant M)).map ofNat),
    .list (.atom "values" :: s.live.map fun v =>
      match getValue Interp.none M v with
      | .ok q => .list [ofNat v, .atom "ok", ofRat q]
      | .error e => .list [ofNat v, .atom "err", ofVErr e])]

def runOps : MState → Table → List Sexp → List Sexp → List Sexp
  | _, _, [], acc => acc.reverse
  | s, tbl, o :: os, acc =>
    match cmd? tbl o with
    | none => runOps s tbl os (.atom "bad-op" :: acc)
    | some (.skip, _) => runOps s tbl os (.atom "skip" :: acc)
    | some (.check, _) => runOps (queryGraph s).1 tbl os (snapshot ⟨s, rhsOf tbl⟩ :: acc)
    | some (.op op, tbl') =>
      let (s1, out) := step s op
      runOps s1 tbl' os (ofOutcome out :: acc)

def handle (args : List Sexp) : Sexp :=
  match args with
  | [.list (.atom "ops" :: ops)] => .list (runOps (init none) [] ops [])
  | _ => .atom "bad-request"

end C10
