import Cellml.Tie.Prelude
import Cellml.Units.Rules
import Cellml.Iso.Namespace

/-! # What the translated methods of `cellmlmanip.units.UnitStore` see of the store, of pint and of sympy

    The generated code (`Cellml/Generated/Code/Units.lean`, `UnitsInit.lean`) refers to python attribute paths and to
    calls into pint (`self._registry.define(..)`, `quantity.to(unit)`, `self._registry.get_base_units(u)` …). The pattern
    tables of `harness/code_specs/units.py` / `unitsinit.py` bind each of those LEAVES to one of the accessors below,
    which are written in terms of the hand-written mini-pint (`Units.Core`, `Units.Define`, `Units.Rules`) and of
    `Iso.strip`. Everything the python methods themselves decide (guards, their order, comparisons, constants, which
    argument goes where, which branch defines what) is not here: it comes from the source text. Core Lean only. -/

namespace Cellml.Tie.PUnits
open Units

/-- python `str + str` is concatenation (the generic rule of the translator writes `+`) -/
instance : Add String := ⟨fun a b => a ++ b⟩
@[simp] theorem str_add (a b : String) : a + b = a ++ b := rfl

/-- python `str(x)` -/
class PyStr (α : Type) where
  str : α → String

instance : PyStr Nat := ⟨toString⟩
instance : PyStr String := ⟨id⟩

/-! ### pint objects -/

/-- a pint `Unit`: its `UnitsContainer`. pint keeps containers normalised, so `==` on units is semantic equality of
    the name ↦ exponent maps (`PMap.beq`), not equality of association lists. -/
structure UnitObj where
  c : Container
deriving Repr, DecidableEq

instance : BEq UnitObj := ⟨fun a b => PMap.beq a.c b.c⟩
theorem unitObj_beq (a b : UnitObj) : (a == b) = PMap.beq a.c b.c := rfl

/-- a magnitude: a positive number (prime-exponent map) times opaque symbols with exponents. A python float and a
    `sympy.Number` are both (scale, no symbols): the exact model does not distinguish them. -/
structure MagObj where
  scale : Scale
  syms  : Syms
deriving Repr, DecidableEq

/-- the number one -/
def MagObj.one : MagObj := ⟨[], []⟩
/-- `m * n` on magnitudes -/
instance : Mul MagObj := ⟨fun a b => ⟨PMap.add a.scale b.scale, PMap.add a.syms b.syms⟩⟩
/-- `1 / m` -/
def magInv (m : MagObj) : MagObj := ⟨PMap.norm (PMap.neg m.scale), PMap.norm (PMap.neg m.syms)⟩

/-- a pint `Quantity` -/
structure QuantityObj where
  magnitude : MagObj
  units     : UnitObj
deriving Repr, DecidableEq

/-- `1 * unit` -/
def unitQuantity (u : UnitObj) : QuantityObj := ⟨MagObj.one, u⟩

/-- the pint `UnitRegistry` object of a store: the definitions, and the transformations of the enabled contexts -/
structure RegObj where
  defs  : Registry
  rules : List Rule
deriving Repr, DecidableEq

/-- `registry.dimensionless` -/
def RegObj.dimensionless (_ : RegObj) : UnitObj := ⟨[]⟩

/-- `registry.Unit(name)`: pint resolves an alias to its canonical name; `dimensionless` is the empty container.
    (pint raises for a name that is not in the registry; the callers only pass names of `_known_units`.) -/
def pintUnit (_ : RegObj) (q : String) : UnitObj := ⟨nameContainer q⟩

/-- `registry.get_base_units(unit)` : (factor, root units) -/
def pintBaseUnits (r : RegObj) (u : UnitObj) : Scale × UnitObj :=
  ((toRoot r.defs u.c).1, ⟨(toRoot r.defs u.c).2⟩)

/-- `unit.dimensionality` (canonical form: pint compares normalised containers) -/
def pintDims (r : RegObj) (u : UnitObj) : Dims := dimsOf r.defs u.c

/-- the class of a pint failure -/
def uErrClass : UErr → String
  | .dimensionality => "DimensionalityError"
  | .undefinedUnit => "UndefinedUnitError"
  | .valueError => "ValueError"
  | .other _ => "Exception"

/-- `quantity.to(unit)` with the contexts enabled in the registry -/
def pintTo (r : RegObj) (q : QuantityObj) (u : UnitObj) : Except PyErr QuantityObj :=
  match convertWithRules r.defs r.rules q.units.c u.c with
  | .ok (f, y) => .ok ⟨q.magnitude * ⟨f, y⟩, u⟩
  | .error e => .error ⟨uErrClass e⟩

/-- `math.isclose(x, y)` on two positive numbers (exact model: equal) -/
def scaleClose (a b : Scale) : Bool := PMap.beq a b

/-! ### `get_conversion_factor`: what python asks about the magnitude -/

/-- `isinstance(cf, sympy.Number)` / `isinstance(cf, numbers.Number)`: no symbols left -/
def isNumber (m : MagObj) : Bool := decide (m.syms = [])
/-- `float(cf)` of a number: the same number -/
def pyFloat (m : MagObj) : MagObj := m
/-- `math.isclose(cf, 1.0)` for a number (exact model: is one; a scale is a prime-exponent map, one is the empty map) -/
def isCloseOne (m : MagObj) : Bool := decide (m.scale = [])
/-- `isinstance(cf, sympy.Mul)`: a product with symbols -/
def isSympyMul (m : MagObj) : Bool := !decide (m.syms = [])
/-- `1.0 in cf.args`: the numeric coefficient of the product is the float one -/
def hasFloatOneArg (m : MagObj) : Bool := decide (m.scale = [])
/-- `sympy.Mul(*[a for a in cf.args if a != 1.0])`: the same value without the factor `1.0` -/
def dropFloatOneArgs (m : MagObj) : MagObj := m

/-- what `get_conversion_factor` returns: the int `1`, or a magnitude -/
inductive CFObj where
  | one
  | mag (m : MagObj)
deriving Repr, DecidableEq

instance : OfNat CFObj 1 := ⟨.one⟩
instance : Coe MagObj CFObj := ⟨.mag⟩

/-- the hand model's encoding (`none` = the int `1`) -/
def CFObj.toModel : CFObj → Option (Scale × Syms)
  | .one => none
  | .mag m => some (m.scale, m.syms)

/-! ### unit definitions -/

/-- The definition string that `Parser._make_pint_unit_definition` builds, seen as its abstract syntax (a product of
    `<unit>` elements; the hand model `Units.addUnit` takes the same), together with the substitution `_WORD.sub` has
    applied to the unit names in it. -/
structure PExpr where
  elems : List UnitElem
  sub   : String → String := id

/-- `_WORD.sub(f, expression)`: every word of the text is replaced by `f word` (`Units.wordSubst` is the scan) -/
def wordSub (f : String → String) (e : PExpr) : PExpr := { e with sub := fun n => wordSubst f (e.sub n) }

/-- `Units.elemMeaning` / `Units.defMeaning` with the name substitution as a parameter -/
def elemMeaningG (g : String → String) (e : UnitElem) : Except DefErr (Scale × Container × Bool) := do
  let c0 := nameContainer (g e.units)
  let s0 : Scale ← match e.pfx with
    | none => pure []
    | some p => match prefixPower p with
        | some k => pure (pow10 k)
        | none => throw (.badNumber ("prefix " ++ p))
  let ex : Rat ← match e.exponent with
    | none => pure 1
    | some t => match Decimal.parse t with
        | some q => pure q
        | none => throw (.badNumber ("exponent " ++ t))
  let m : Scale ← match e.multiplier with
    | none => pure []
    | some t => match Decimal.parse t with
        | some q => match Factor.rat q with
            | some s => pure s
            | none => throw (.unsupported ("multiplier " ++ t))
        | none => throw (.badNumber ("multiplier " ++ t))
  match e.offset with
  | some o => if offsetRejected o then throw .offset
  | none => pure ()
  pure (PMap.add m (PMap.smul ex s0), PMap.smul ex c0, e.units == "dimensionless")

def defMeaningG (g : String → String) : List UnitElem → Except DefErr (Scale × Container × Bool)
  | [] => pure ([], [], false)
  | e :: es => do
      let (s, c, d) ← elemMeaningG g e
      let (s', c', d') ← defMeaningG g es
      pure (PMap.add s s', PMap.add c c', d || d')

/-- `registry.parse_expression(text)`: the quantity the text denotes (number, normalised units). pint evaluates EVERY
    name of the text, so it raises `UndefinedUnitError` for a name that is not in the registry even where the name
    ends up with exponent zero (`c` is the un-normalised product: every name mentioned, `dimensionless` excepted). -/
def pintParse (r : RegObj) (e : PExpr) : Except PyErr QuantityObj :=
  match defMeaningG e.sub e.elems with
  | .error _ => .error ⟨"DefinitionSyntaxError"⟩
  | .ok (k, c, _) =>
    if !allKnown r.defs c then .error ⟨"UndefinedUnitError"⟩
    else .ok ⟨⟨PMap.norm k, []⟩, ⟨PMap.norm c⟩⟩

/-- what `registry.define` accepts -/
inductive PDefinition where
  /-- `UnitDefinition(name, '', (), ScaleConverter(m))`: a scaled dimensionless unit -/
  | scaled (name : String) (m : MagObj)
  /-- the string `name + '=' + expression` -/
  | eqn (name : String) (e : PExpr)
  /-- the string `name + '=[' + dim + ']'`: a new base unit with its own dimension -/
  | base (name : String) (dim : String)

/-- `registry.define(definition)`: the new definition goes in front (newest first) -/
def pintDefine (r : RegObj) : PDefinition → Except PyErr RegObj
  | .scaled q m => .ok { r with defs := (q, .derived m.scale []) :: r.defs }
  | .eqn q e =>
    match defMeaningG e.sub e.elems with
    | .error _ => .error ⟨"DefinitionSyntaxError"⟩
    | .ok (k, c, _) => .ok { r with defs := (q, .derived (PMap.norm k) (PMap.norm c)) :: r.defs }
  | .base q d => .ok { r with defs := (q, .base (some ("[" ++ d ++ "]"))) :: r.defs }

/-- the exception class behind the hand model's `AddErr` (as `Units.Wire.addErrSexp` prints it) -/
def addErrClass : AddErr → String
  | .valueError _ => "ValueError"
  | .undefinedUnit => "UndefinedUnitError"
  | .badDefinition _ => "BadDefinition"
  | .unsupported _ => "unsupported"

/-- `set.add(x)` on a set kept as a list, newest first -/
def setAdd (s : List String) (x : String) : List String := x :: s

/-! ### text of units (`format`) -/

/-- `str(unit)`: the key of a single named unit, `dimensionless` for the empty container -/
instance : PyStr UnitObj := ⟨fun u =>
  match u.c with
  | [] => "dimensionless"
  | [(k, _)] => k
  | (k, _) :: rest => String.intercalate " * " (k :: rest.map (·.1))⟩
/-- `str(number)`; the digits python prints are outside the model -/
instance : PyStr Scale := ⟨fun s => reprStr s⟩

/-! ### the `UnitStore` object -/

/-- a `UnitStore` as its methods see it -/
structure StoreObj where
  /-- `self._id` -/
  _id : Nat
  /-- `self._prefix` -/
  _prefix : String
  /-- `self._known_units`: a set, kept as a list with the newest name first -/
  _known_units : List String
  /-- `self._registry` (the registry object it points to) -/
  _registry : RegObj

/-- the object of the hand model's store `st` whose registry currently holds `reg` with the transformations `rules` -/
def storeObj (st : Store) (reg : Registry) (rules : List Rule := []) : StoreObj where
  _id := st.id
  _prefix := "store" ++ toString st.id ++ "_"
  _known_units := st.known ++ Cellml.Gen.cellmlUnits
  _registry := ⟨reg, rules⟩

/-! ### the process as `UnitStore.__init__` sees it -/

/-- a `UnitStore` whose registry is a REFERENCE (index into the list of registries of the process):
    `__init__` either creates a registry or shares the one of another store -/
structure StoreRef where
  _id : Nat
  _prefix : String
  _known_units : List String
  /-- index of the registry object -/
  _registry : Nat
deriving Repr, DecidableEq

/-- the store `st` of the process pointing at registry number `ri` -/
def storeRef (p : Store × Nat) : StoreRef where
  _id := p.1.id
  _prefix := "store" ++ toString p.1.id ++ "_"
  _known_units := p.1.known ++ Cellml.Gen.cellmlUnits
  _registry := p.2

/-- `pint.UnitRegistry('…/data/cellml_units.txt')`: a new registry object holding the built-in definitions
    (`Units.builtinRegistry` is computed from the translated table of that file); returns the new heap and the reference -/
def newRegistry (regs : List Registry) : List Registry × Nat := (regs ++ [builtinRegistry], regs.length)

/-- attribute access on the argument `store` (python raises AttributeError on `None`) -/
def derefStore : Option StoreRef → Except PyErr StoreRef
  | some s => .ok s
  | none => .error ⟨"AttributeError"⟩

/-- `set(xs)` of a list of distinct names -/
def pySet (xs : List String) : List String := xs

end Cellml.Tie.PUnits
