import Cellml.Units.Define

/-! The offset test of `_make_pint_unit_definition` (`not offset.strip().isnumeric() or int(offset) != 0`) against the
    number the attribute denotes: whatever passes the test denotes zero, so every non-zero offset is rejected.
    (The converse fails: `0.0` denotes zero and is rejected — known finding.) -/

namespace Units

theorem span_loop_all {p : Char → Bool} : ∀ (l acc : List Char), (∀ x ∈ l, p x = true) →
    List.span.loop p l acc = (acc.reverse ++ l, []) := by
  intro l
  induction l with
  | nil => intro acc _; simp [List.span.loop]
  | cons a l ih =>
      intro acc h
      have ha : p a = true := h a List.mem_cons_self
      simp only [List.span.loop, ha]
      rw [ih (a :: acc) (fun x hx => h x (List.mem_cons_of_mem _ hx))]
      simp

theorem span_all {p : Char → Bool} (l : List Char) (h : ∀ x ∈ l, p x = true) : l.span p = (l, []) := by
  unfold List.span
  rw [span_loop_all l [] h]; rfl

theorem digit_ne {c : Char} (h : c.isDigit = true) : c ≠ '-' ∧ c ≠ '+' ∧ c ≠ 'e' ∧ c ≠ 'E' ∧ c ≠ '.' := by
  refine ⟨?_, ?_, ?_, ?_, ?_⟩ <;> (intro heq; rw [heq] at h; revert h; decide)

/-- an offset that passes the test of `_make_pint_unit_definition` is zero: so every non-zero offset is rejected -/
theorem parse_of_offset_accepted (o : String) (h : offsetRejected o = false) : Decimal.parse o = some 0 := by
  unfold offsetRejected at h
  simp only at h
  generalize ht : Decimal.trimList o.toList = t at h
  split at h
  · cases h
  · rename_i hcond
    simp only [Bool.or_eq_true, Bool.not_eq_true', not_or, Bool.not_eq_true, Bool.not_eq_false] at hcond
    obtain ⟨hne, hall⟩ := hcond
    split at h
    · rename_i n hn
      have hn0 : n = 0 := by simpa using h
      subst hn0
      have halld : ∀ x ∈ t, x.isDigit = true := List.all_eq_true.mp hall
      cases t with
      | nil => simp at hne
      | cons c r =>
          have hc := digit_ne (halld c List.mem_cons_self)
          have hspan1 : (c :: r).span (fun c => c != 'e' && c != 'E') = (c :: r, []) := by
            apply span_all
            intro x hx
            have := digit_ne (halld x hx)
            simp [this.2.2.1, this.2.2.2.1]
          have hspan2 : (c :: r).span (fun x => x != '.') = (c :: r, []) := by
            apply span_all
            intro x hx
            have := digit_ne (halld x hx)
            simp [this.2.2.2.2]
          unfold Decimal.parse
          simp only [ht]
          simp [hc.1, hc.2.1, hspan1, hspan2, hn, hall, Decimal.pow10Rat]
    · cases h

theorem nonzero_offset_rejected (o : String) (q : Rat) (hq : Decimal.parse o = some q) (hne : q ≠ 0) :
    offsetRejected o = true := by
  cases h : offsetRejected o
  · rw [parse_of_offset_accepted o h] at hq; simp only [Option.some.injEq] at hq; exact absurd hq.symm hne
  · rfl
end Units
