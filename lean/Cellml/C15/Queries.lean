import Cellml.C15.Graph

/-! # The sorted role queries: their sort keys are injective on what they sort -/

namespace C15
open Load

variable {cx : Ctx} {F : Flat}

/-- nodes of the declared variables, in `variables()` order -/
def varNodes (cx : Ctx) (F : Flat) : List Node := (variables F).map (fun x => cx.num (.var x))

theorem orderAdded_eq (cx : Ctx) (F : Flat) (v : Node) : orderAdded cx F v = (varNodes cx F).idxOf v := rfl

/-- `order_added` tells declared variables apart -/
theorem orderAdded_inj {a b : Node} (ha : a ∈ varNodes cx F) (hb : b ∈ varNodes cx F)
    (h : orderAdded cx F a = orderAdded cx F b) : a = b := by
  rw [orderAdded_eq, orderAdded_eq] at h
  have ha' := List.idxOf_lt_length_iff.mpr ha
  have hb' := List.idxOf_lt_length_iff.mpr hb
  have e1 := List.getElem_idxOf ha'
  have e2 := List.getElem_idxOf hb'
  rw [← e1, ← e2]
  simp only [h]

/-- every variable that an equation defines (as `x = …` or as `dx/dt = …`) is a declared variable -/
def Declared (cx : Ctx) (F : Flat) : Prop :=
  ∀ e ∈ F.eqs, cx.num (.var e.lhs.defines) ∈ varNodes cx F

/-- a state has one ODE: two derivative left-hand sides of the same state are the same node -/
def OdeOnce (cx : Ctx) (F : Flat) : Prop :=
  ∀ e₁ ∈ F.eqs, ∀ e₂ ∈ F.eqs, e₁.lhs.isDiff = true → e₂.lhs.isDiff = true →
    cx.num (.var e₁.lhs.defines) = cx.num (.var e₂.lhs.defines) → cx.num e₁.lhs = cx.num e₂.lhs

/-- a role found after a run of assignments was assigned in the run, or was there before -/
theorem applyWrites_some : ∀ (ws : List (Node × VType)) (ty : Node → Option VType) (v : Node) (t : VType),
    applyWrites ty ws v = some t → (v, t) ∈ ws ∨ ty v = some t
  | [], _, _, _, h => Or.inr h
  | (k, t0) :: ws, ty, v, t, h => by
      have h' : applyWrites (setType ty k t0) ws v = some t := h
      rcases applyWrites_some ws _ v t h' with h1 | h1
      · exact Or.inl (List.mem_cons_of_mem _ h1)
      · unfold setType at h1
        split at h1
        · rename_i hv
          simp only [Option.some.injEq] at h1
          rw [hv, ← h1]
          exact Or.inl List.mem_cons_self
        · exact Or.inr h1

/-- a run of assignments that agree on the role of `v`: `v` has that role if it was assigned at all -/
theorem applyWrites_spec (v : Node) (t0 : VType) : ∀ (ws : List (Node × VType)) (ty : Node → Option VType),
    (∀ p ∈ ws, p.1 = v → p.2 = t0) →
    applyWrites ty ws v = if ws.any (fun p => p.1 == v) then some t0 else ty v
  | [], _, _ => rfl
  | (k, t) :: ws, ty, h => by
      have e : applyWrites ty ((k, t) :: ws) v = applyWrites (setType ty k t) ws v := rfl
      rw [e, applyWrites_spec v t0 ws _ (fun p hp => h p (List.mem_cons_of_mem _ hp))]
      by_cases hw : ws.any (fun p => p.1 == v) = true
      · simp [hw]
      · by_cases hk : k = v
        · have ht : t = t0 := h (k, t) List.mem_cons_self hk
          simp [hw, hk, ht, setType]
        · have hk' : ¬ v = k := fun hh => hk hh.symm
          simp [hw, hk, hk', setType]

/-- the order of a run of assignments does not matter when assignments to the same variable assign the same role -/
theorem applyWrites_perm {ws ws' : List (Node × VType)} (hp : ws'.Perm ws)
    (hfun : ∀ p ∈ ws, ∀ q ∈ ws, p.1 = q.1 → p.2 = q.2) {ty ty' : Node → Option VType} (v : Node)
    (hty : ty' v = ty v) : applyWrites ty' ws' v = applyWrites ty ws v := by
  by_cases h : ∃ p ∈ ws, p.1 = v
  · obtain ⟨p, hpm, hpv⟩ := h
    rw [applyWrites_spec v p.2 ws ty (fun q hq hqv => hfun q hq p hpm (hqv.trans hpv.symm)),
      applyWrites_spec v p.2 ws' ty' (fun q hq hqv => hfun q (hp.mem_iff.mp hq) p hpm (hqv.trans hpv.symm)),
      hp.any_eq, hty]
  · rw [applyWrites_spec v .state ws ty (fun q hq hqv => absurd ⟨q, hq, hqv⟩ h),
      applyWrites_spec v .state ws' ty' (fun q hq hqv => absurd ⟨q, hp.mem_iff.mp hq, hqv⟩ h),
      hp.any_eq, hty]

theorem eq_of_nodup_map {α β : Type} (f : α → β) : ∀ (l : List α), (l.map f).Nodup →
    ∀ x ∈ l, ∀ y ∈ l, f x = f y → x = y
  | [], _, _, hx, _, _, _ => by cases hx
  | a :: l, hnd, x, hx, y, hy, hxy => by
      rw [List.map_cons, List.nodup_cons] at hnd
      rcases List.mem_cons.mp hx with hxa | hxl
      · rcases List.mem_cons.mp hy with hya | hyl
        · rw [hxa, hya]
        · exact absurd (by rw [← hxa, hxy]; exact List.mem_map_of_mem hyl) hnd.1
      · rcases List.mem_cons.mp hy with hya | hyl
        · exact absurd (by rw [← hya, ← hxy]; exact List.mem_map_of_mem hxl) hnd.1
        · exact eq_of_nodup_map f l hnd.2 x hxl y hyl hxy

theorem mem_lhsWrites {e : FlatEq} {p : Node × VType} (h : p ∈ lhsWrites cx e) :
    ∃ x, e.lhs = .var x ∧ p.1 = cx.num e.lhs ∧
      p.2 = (match e.rhs with | .num _ _ => VType.parameter | _ => VType.computed) := by
  unfold lhsWrites at h
  cases hl : e.lhs with
  | var x =>
      rw [hl] at h
      simp only [List.mem_singleton] at h
      subst h
      exact ⟨x, rfl, rfl, rfl⟩
  | diff x t => rw [hl] at h; cases h

theorem mem_stateWrites {e : FlatEq} {p : Node × VType} (h : p ∈ stateWrites cx e) : p.2 = .state := by
  unfold stateWrites at h
  cases hl : e.lhs with
  | var x => rw [hl] at h; cases h
  | diff x t => rw [hl] at h; simp only [List.mem_singleton] at h; rw [h]

theorem mem_freeWrites {e : FlatEq} {p : Node × VType} (h : p ∈ freeWrites cx e) : p.2 = .free := by
  unfold freeWrites at h
  cases hl : e.lhs with
  | var x => rw [hl] at h; cases h
  | diff x t => rw [hl] at h; simp only [List.mem_singleton] at h; rw [h]

/-- **The roles are a function of the SET of equations** (since the `fix:` commit "the roles that come from the ODEs
    win"): for equation lists that are permutations of one another — with pairwise different left-hand sides, which is
    what `Model.graph` asserts — every variable has the same `Variable.type`. -/
theorem types_perm (cx : Ctx) {eqs eqs' : List FlatEq} (hp : eqs'.Perm eqs)
    (hnd : (eqs.map (fun e => cx.num e.lhs)).Nodup) : types cx eqs' = types cx eqs := by
  funext v
  unfold types
  apply applyWrites_perm (hp.flatMap_right _)
  · intro p hp' q hq _
    obtain ⟨_, _, h1⟩ := List.mem_flatMap.mp hp'
    obtain ⟨_, _, h2⟩ := List.mem_flatMap.mp hq
    rw [mem_freeWrites h1, mem_freeWrites h2]
  apply applyWrites_perm (hp.flatMap_right _)
  · intro p hp' q hq _
    obtain ⟨_, _, h1⟩ := List.mem_flatMap.mp hp'
    obtain ⟨_, _, h2⟩ := List.mem_flatMap.mp hq
    rw [mem_stateWrites h1, mem_stateWrites h2]
  apply applyWrites_perm (hp.flatMap_right _)
  · intro p hp' q hq hpq
    obtain ⟨e₁, he₁, h1⟩ := List.mem_flatMap.mp hp'
    obtain ⟨e₂, he₂, h2⟩ := List.mem_flatMap.mp hq
    obtain ⟨_, _, hk₁, ht₁⟩ := mem_lhsWrites h1
    obtain ⟨_, _, hk₂, ht₂⟩ := mem_lhsWrites h2
    have : e₁ = e₂ := eq_of_nodup_map _ eqs hnd e₁ he₁ e₂ he₂ (by rw [← hk₁, ← hk₂, hpq])
    rw [ht₁, ht₂, this]
  · rfl

/-- only an equation `x = …` makes `x` COMPUTED -/
theorem types_computed (cx : Ctx) (eqs : List FlatEq) (v : Node) (h : types cx eqs v = some .computed) :
    ∃ e ∈ eqs, ∃ x, e.lhs = .var x ∧ cx.num (.var x) = v := by
  unfold types at h
  rcases applyWrites_some _ _ v _ h with h | h
  · obtain ⟨_, _, h1⟩ := List.mem_flatMap.mp h
    cases mem_freeWrites h1
  · rcases applyWrites_some _ _ v _ h with h | h
    · obtain ⟨_, _, h1⟩ := List.mem_flatMap.mp h
      cases mem_stateWrites h1
    · rcases applyWrites_some _ _ v _ h with h | h
      · obtain ⟨e, he, h1⟩ := List.mem_flatMap.mp h
        obtain ⟨x, hx, hk, _⟩ := mem_lhsWrites h1
        exact ⟨e, he, x, hx, by rw [← hx]; exact hk.symm⟩
      · cases h

theorem computed_declared (hd : Declared cx F) {v : Node} (h : types cx F.eqs v = some .computed) :
    v ∈ varNodes cx F := by
  obtain ⟨e, he, x, hx, hv⟩ := types_computed cx F.eqs v h
  have := hd e he
  rw [hx] at this
  simp only [Lhs.defines] at this
  exact hv ▸ this

/-- a derivative node is the left-hand side of an ODE; `stateOf` is that ODE's state -/
theorem isDeriv_spec {d : Node} (h : isDeriv cx F d = true) :
    ∃ e ∈ F.eqs, e.lhs.isDiff = true ∧ cx.num e.lhs = d ∧ stateOf cx F d = cx.num (.var e.lhs.defines) := by
  unfold isDeriv at h
  rw [List.any_eq_true] at h
  obtain ⟨e0, he0, hp0⟩ := h
  unfold stateOf
  cases hf : F.eqs.find? (fun e => e.lhs.isDiff && cx.num e.lhs == d) with
  | none =>
      have := List.find?_eq_none.mp hf e0 he0
      exact absurd hp0 this
  | some e =>
      have hp := List.find?_some hf
      have hm := List.mem_of_find?_eq_some hf
      simp only [Bool.and_eq_true, beq_iff_eq] at hp
      exact ⟨e, hm, hp.1, hp.2, rfl⟩

theorem stateOf_inj (hd : Declared cx F) (ho : OdeOnce cx F) {a b : Node} (ha : isDeriv cx F a = true)
    (hb : isDeriv cx F b = true)
    (h : orderAdded cx F (stateOf cx F a) = orderAdded cx F (stateOf cx F b)) : a = b := by
  obtain ⟨e₁, he₁, hd₁, hn₁, hs₁⟩ := isDeriv_spec ha
  obtain ⟨e₂, he₂, hd₂, hn₂, hs₂⟩ := isDeriv_spec hb
  rw [hs₁, hs₂] at h
  have := orderAdded_inj (hd e₁ he₁) (hd e₂ he₂) h
  rw [← hn₁, ← hn₂]
  exact ho e₁ he₁ e₂ he₂ hd₁ hd₂ this

/-! ## Permuting `Model.equations` (what a permutation of components / `<math>` elements / equations does) -/

variable {π : Adv} {obs : FlatEq → List (Lhs VRef)}

/-- validity of the input of `Model.graph` does not look at the order of the equations -/
theorem valid_of_perm {key : Node → String} {eqs eqs' : List C09.Eqn} (hp : eqs'.Perm eqs) (hv : C09.Valid key eqs) :
    C09.Valid key eqs' where
  lhsNodup := (hp.map _).nodup_iff.mpr hv.lhsNodup
  keyNodup := ((hp.map _).map _).nodup_iff.mpr hv.keyNodup
  refsOk := by
    intro e he r hr
    have := hv.refsOk e (hp.mem_iff.mp he) r hr
    unfold C09.hasEq C09.isStateOrFree at this ⊢
    rw [hp.any_eq, hp.any_eq]
    exact this

/-- `Model.graph` of the same equations in another order: it builds as well, with the same node SET -/
theorem graph_perm {F F' : Flat} (hp : F'.eqs.Perm F.eqs) {g : C09.Graph} (h : graph cx π obs F = .ok g) :
    ∃ g', graph cx π obs F' = .ok g' ∧ g'.nodes.Perm g.nodes := by
  unfold graph at h ⊢
  have hsys : (system cx π obs F').Perm (system cx π obs F) := hp.map _
  obtain ⟨hvalid, hspec⟩ := C09.buildGraph_valid h
  obtain ⟨g', hg'⟩ := C09.buildGraph_ok (valid_of_perm hsys hvalid)
  obtain ⟨_, hspec'⟩ := C09.buildGraph_valid hg'
  refine ⟨g', hg', ?_⟩
  rw [List.perm_ext_iff_of_nodup hspec'.wf.nodup hspec.wf.nodup]
  intro a
  rw [hspec'.nodes, hspec.nodes]
  unfold C09.hasEq C09.isStateOrFree
  rw [hsys.any_eq, hsys.any_eq]

theorem isDeriv_perm {F F' : Flat} (hp : F'.eqs.Perm F.eqs) : isDeriv cx F' = isDeriv cx F := by
  funext v
  unfold isDeriv
  exact hp.any_eq

theorem orderAdded_vars {F F' : Flat} (hv : F'.vars = F.vars) : orderAdded cx F' = orderAdded cx F := by
  funext v
  unfold orderAdded variables
  rw [hv]

/-- the left-hand sides `Model.graph` asserts to be pairwise different are those of the flat equations -/
theorem system_lhs_eq (cx : Ctx) (π : Adv) (obs : FlatEq → List (Lhs VRef)) (F : Flat) :
    (system cx π obs F).map (·.lhs) = F.eqs.map (fun e => cx.num e.lhs) := by
  simp only [system, List.map_map]
  rfl

/-- **`get_derived_quantities()` does not depend on the order of `Model.equations`** (since the `fix:` commit "the
    roles that come from the ODEs win"): two flat models with the same variables and the same equations in another
    order answer with the same list, or are both refused. -/
theorem derived_perm {F F' : Flat} (hvars : F'.vars = F.vars) (hp : F'.eqs.Perm F.eqs) (hd : Declared cx F) :
    (getDerivedQuantities cx π obs F').toOption = (getDerivedQuantities cx π obs F).toOption := by
  unfold getDerivedQuantities
  cases h : graph cx π obs F with
  | error x =>
      cases h' : graph cx π obs F' with
      | error y => rfl
      | ok g' =>
          obtain ⟨g, hg, _⟩ := graph_perm hp.symm h'
          rw [h] at hg; cases hg
  | ok g =>
      obtain ⟨g', hg', hperm⟩ := graph_perm hp h
      rw [hg']
      have hnd : (F.eqs.map (fun e => cx.num e.lhs)).Nodup := by
        rw [← system_lhs_eq cx π obs F]
        exact (C09.buildGraph_valid h).1.lhsNodup
      simp only [Except.toOption]
      rw [types_perm cx hp hnd, orderAdded_vars hvars, isDeriv_perm hp]
      congr 1
      apply sortBy_eq_of_perm _ (hperm.filter _)
      intro a ha b hb hk
      have ha' := (List.mem_filter.mp ha).2
      have hb' := (List.mem_filter.mp hb).2
      simp only [Bool.and_eq_true, beq_iff_eq] at ha' hb'
      exact orderAdded_inj (computed_declared hd ha'.2) (computed_declared hd hb'.2) hk

end C15
