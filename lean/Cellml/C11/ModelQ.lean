import Mathlib.Algebra.Field.Rat
import Mathlib.Tactic.NormNum
import Cellml.C11.SemMain3

/-! C11 — a model of the semantic laws over ℚ (tokens read as decimal integers, `v**1 = v`, `v**-1 = 1/v`, every
    function constant): the hypotheses `Laws` of `print_means` are satisfiable, the theorem is not vacuous. -/
namespace C11

/-- value of a token: digits → number, leading '-' negates, True/False are 1/0 -/
def aN : List Char → ℚ
  | '-' :: cs => - aN cs
  | cs => if cs = "True".toList then 1 else if cs = "False".toList then 0 else (Nat.ofDigitChars 10 cs 0 : ℚ)

def powQ (v y : ℚ) : ℚ := if y = 1 then v else if y = -1 then v⁻¹ else 1

def SQ : Sem ℚ where
  atomNum s := aN s.toList
  atomBool s := s == "True"
  powK := powQ
  pyFn _ _ := 1
  symFn _ _ := 1
  cmpK _ _ _ := true

theorem aN_digits (n : Nat) : aN (Nat.toDigits 10 n) = n := by
  have hne := Nat.toDigits_ne_nil (n := n) (b := 10)
  have hd : ∀ c ∈ Nat.toDigits 10 n, c.isDigit = true := fun c hc => Nat.isDigit_of_mem_toDigits (by decide) (by decide) hc
  cases h : Nat.toDigits 10 n with
  | nil => exact absurd h hne
  | cons c cs =>
      rw [h] at hd
      have hc := hd c (by simp)
      have hcm : c ≠ '-' := by intro e; subst e; simp at hc
      have hT : c ≠ 'T' := by intro e; subst e; simp at hc
      have hF : c ≠ 'F' := by intro e; subst e; simp at hc
      rw [aN]
      · have h1 : ¬ (c :: cs = "True".toList) := by simp [hT]
        have h2 : ¬ (c :: cs = "False".toList) := by simp [hF]
        simp only [h1, h2, if_false]
        rw [← h, Nat.ofDigitChars_ten_toDigits]
      · intro cs' e; simp at e; exact hcm e.1

theorem lawsQ : Laws SQ where
  atom_nat n := by
    show aN (toString n).toList = n
    simp only [Nat.toString_eq_repr, Nat.toList_repr]; exact aN_digits n
  atom_neg t h := by
    show aN t.toList = - aN (tailStr t).toList
    unfold headMinus at h
    cases ht : t.toList with
    | nil => rw [ht] at h; simp at h
    | cons c cs =>
        rw [ht] at h
        have hc : c = '-' := by
          by_cases e : c = '-'
          · exact e
          · exfalso; revert h; split <;> simp_all
        subst hc
        simp [tailStr, ht, aN]
  true_num := by show aN "True".toList = 1; simp [aN]
  false_num := by show aN "False".toList = 0; simp [aN]
  true_bool := by decide
  false_bool := by decide
  pow_neg v y := by
    show powQ v (-y) = (powQ v y)⁻¹
    unfold powQ
    by_cases h1 : y = 1
    · subst h1; norm_num
    · by_cases h2 : y = -1
      · subst h2; norm_num
      · have h3 : ¬ (-y = 1) := by intro h; apply h2; rw [← h]; ring
        have h4 : ¬ (-y = -1) := by intro h; apply h1; have := neg_inj.mp h; exact this
        simp [h1, h2, h3, h4]
  pow_one v := by show powQ v 1 = v; simp [powQ]
  sqrt_def v := by
    show (1 : ℚ) = powQ v (1 / 2)
    unfold powQ; norm_num
  fn_table _ _ _ := rfl

end C11
