import Cellml.Tie.ConvertVar

/-! # Closing the ties of the `convert_variable` family for the transfer of the C06 property theorems

    * `get_unique_name` is translated with OPEN recursion (`Gen.ConvertVar.getUniqueName rec st name`). Here the closed
      function `genUniqueName` is defined over the generated body — the recursion unrolled `len(names)` times, the hand
      model's termination measure (each call appends `_a`, so more than `len(names)` clashes are impossible) — and proved
      equal to the hand model `freshName`, and to satisfy python's recursion equation.
    * `convertVariable_noop_gen`: the early `return original_variable` of the generated `convert_variable`, proved
      directly (no invariant of the model needed, only that the variable is in the model).
    * `gen_returns`: what `Tied` gives when python returned. -/

namespace Cellml.Tie.GenD
open Model Model.CV Cellml.Gen Cellml.Tie Cellml.Tie.CV

-- ================================================================================================ get_unique_name
/-- the generated body of `get_unique_name`, its recursive call unrolled `n` times (the innermost call answers its
    argument). The generated body cannot raise; `.error` is mapped to the argument to stay total. -/
def getUniqueNameIter (s : CState) : Nat → String → String
  | 0, b => b
  | n + 1, b =>
      match ConvertVar.getUniqueName (getUniqueNameIter s n) s b with
      | .ok r => r
      | .error _ => b

/-- **`get_unique_name`, closed**: the generated body iterated with the hand model's termination measure -/
def genUniqueName (s : CState) (name : String) : String := getUniqueNameIter s (names s).length name

theorem getUniqueNameIter_eq (s : CState) : ∀ (n : Nat) (b : String),
    getUniqueNameIter s n b = uniqueName (names s) n b
  | 0, b => rfl
  | n + 1, b => by
    have hrec : getUniqueNameIter s n = uniqueName (names s) n := funext (getUniqueNameIter_eq s n)
    simp only [getUniqueNameIter]
    rw [hrec, getUniqueName_unfold]

/-- the closed generated function IS the hand model's `freshName` -/
theorem genUniqueName_eq (s : CState) (b : String) : genUniqueName s b = freshName s b :=
  getUniqueNameIter_eq s _ b

theorem genUniqueName_eq' (s : CState) : genUniqueName s = freshName s := funext (genUniqueName_eq s)

/-- python's recursion equation: one more call of the generated body on the closed function changes nothing, i.e. the
    measure was large enough -/
theorem genUniqueName_fix (s : CState) (b : String) :
    ConvertVar.getUniqueName (genUniqueName s) s b = .ok (genUniqueName s b) := by
  rw [genUniqueName_eq']
  exact getUniqueName_tie s b

/-- the name answered is not in use (`freshName_fresh` of C06, for the generated function) -/
theorem genUniqueName_fresh (s : CState) (b : String) : genUniqueName s b ∉ names s := by
  rw [genUniqueName_eq]; exact freshName_fresh s b

-- ================================================================================================ convert_variable
/-- the early return of `convert_variable`: a factor equal to 1 ⇒ the model object is returned untouched, with the
    original variable — for ANY state of the model (no invariant), provided the variable is in the model -/
theorem convertVariable_noop_gen (view : CVView) (s : CState) (v : Nat) (u : U) (dir : Dir) (move : Bool)
    (hv : v < s.vars.length) (hcf : view.getConversionFactor (unitOfV s v) u = .ok 1) :
    ConvertVar.convertVariable view s v u dir move = .ok (s, v) := by
  unfold ConvertVar.convertVariable
  have hin : Py.isIn (nameOfV s v) (CV.names s) = true := by
    simpa [Py.isIn] using nameOfV_mem s v hv
  have hget : view.getCf (unitOfV s v) u = .ok (.num 1) := by simp [CVView.getCf, hcf]
  simp only [hin, hget, Bool.not_true, Bool.false_eq_true, if_false, ok_bind, num_beq_one, decide_true, if_true]
  rfl

/-- python returned ⇒ it returned the hand model's state and variable, and the hand model's flag is down -/
theorem gen_returns {g : Except PyErr (CState × Nat)} {m : CState × Nat} (h : Tied g m) {r : CState × Nat}
    (hg : g = .ok r) : r = m ∧ m.1.raised = false := by
  subst hg; exact h

/-- python raised ⇒ the hand model's flag is up -/
theorem gen_raises {g : Except PyErr (CState × Nat)} {m : CState × Nat} (h : Tied g m) {e : PyErr}
    (hg : g = .error e) : m.1.raised = true ∧ OkCls e := by
  subst hg; exact h

end Cellml.Tie.GenD
