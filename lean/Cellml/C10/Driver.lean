import Cellml.Basic.Sexp
/-! Channel C10 of the model driver (stub: not built yet). -/
namespace C10
def handle (_args : List Sexp) : Sexp := .atom "not-implemented"
end C10
