import Cellml.Basic.Sexp
import Cellml.C09.Model

/-! Channel C09:
    `(C09 (keys "k0" "k1" …) (eqs (lhs (r…) (r'…) q) (lhs (r…) (r'…) q state free) …) (queries ((v…) recurse strip) …))`
    → `((ok v…) | (err name) …)` — one reply item per query. Nodes are numbered by position in `keys`; `q` (`true` /
    `false`) says whether the right-hand side holds a `Quantity` (`Eqn.hasQ`; when `false` the list `r'` is not looked
    at, the harness sends it empty). -/
namespace C09
open Sexp

def nats? (e : Sexp) : Option (List Nat) := do
  let xs ← listOf? e
  xs.mapM nat?

def bool? : Sexp → Option Bool
  | .atom "true" => some true
  | .atom "false" => some false
  | _ => none

def eqn? : Sexp → Option Eqn
  | .list [l, r, r', q] => do
      pure { lhs := ← nat? l, refs := ← nats? r, refsNum := ← nats? r', hasQ := ← bool? q }
  | .list [l, r, r', q, s, f] => do
      pure { lhs := ← nat? l, refs := ← nats? r, refsNum := ← nats? r', hasQ := ← bool? q,
             ode := some (← nat? s, ← nat? f) }
  | _ => none

def errName : Err → String
  | .assertion => "assertion"
  | .badRef => "badRef"
  | .notInGraph => "notInGraph"
  | .unfeasible => "unfeasible"

def query (key : Node → String) (eqs : List Eqn) : Sexp → Sexp
  | .list [vs, r, s] =>
      match nats? vs, bool? r, bool? s with
      | some vars, some recurse, some strip =>
          match getEquationsFor key eqs vars recurse strip with
          | .ok l => .list (.atom "ok" :: l.map ofNat)
          | .error x => .list [.atom "err", .atom (errName x)]
      | _, _, _ => .atom "bad-query"
  | _ => .atom "bad-query"

def handle (args : List Sexp) : Sexp :=
  match args with
  | [.list (.atom "keys" :: ks), .list (.atom "eqs" :: es), .list (.atom "queries" :: qs)] =>
      match ks.mapM atomOf?, es.mapM eqn? with
      | some keys, some eqs =>
          let karr := keys.toArray
          let key : Node → String := fun v => karr.getD v ""
          .list (qs.map (query key eqs))
      | _, _ => .atom "bad-request"
  | _ => .atom "bad-request"

end C09
