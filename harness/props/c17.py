"""C17 — broken or unsupported documents are refused, never half-loaded (fault injection, load_model in a subprocess)."""
import json
import os
import re
import select
import shutil
import subprocess
import sys
import tempfile
import time

import docgen as D
import unitlib as U
from common import Str, sx

ID = 'C17'
LEAN_MODULES = ['Cellml.Props.C17', 'Cellml.Tie.ConnDir', 'Cellml.Tie.ConnLoop', 'Cellml.Tie.LoaderRel', 'Cellml.Tie.LoaderComps', 'Cellml.Tie.LoaderParse', 'Cellml.Tie.UnitDefs', 'Cellml.Tie.ModelState', 'Cellml.Tie.ConnLoopClosed', 'Cellml.Tie.LoaderConsts', 'Cellml.Tie.LoaderSym', 'Cellml.Tie.LoaderUnitsOrder', 'Cellml.Tie.GenBWhile', 'Cellml.Tie.GenBUnitDefs', 'Cellml.Tie.LoaderStagesA', 'Cellml.Tie.LoaderStagesB', 'Cellml.Tie.LoaderStagesC', 'Cellml.Tie.LoaderStagesD', 'Cellml.Tie.MathsWalk', 'Cellml.Tie.LoaderGen', 'Cellml.Props.C17Gen', 'Cellml.Tie.AddVars', 'Cellml.Tie.AddVarRef']
N = {'quick': 600, 'thorough': 15000}
LIMIT = 20.0            # wall seconds allowed to one load_model call
RULE = ('valid documents from harness/docgen.py (as C01: forests of 1-7 components, depth <= 4, relay chains up to 5 '
        'hops, states, constants, unit changes); every fault class of docgen.fault_sites injected at its first / middle / '
        'last / a random applicable site, singly (~65%%) and in pairs (~23%%), classes taken round-robin so that each is '
        'hit equally; ~12%% schema faults at text level (unknown element, missing attribute, wrong namespace, bad value, '
        'empty connection, malformed XML); plus ~10%% valid controls (unmutated and neutrally mutated) that must load. '
        'Every injection is validated before use: the document differs from the valid one exactly at the declared site '
        '(docgen.diff_regions) and the reference validator docgen.spec_violations (written from the CellML 1.0 '
        'specification, not from parser.py) finds the injected class in the mutated document and nothing in the valid '
        'one. load_model runs in a worker subprocess with a %d s wall limit (killed on expiry). non-trivial = a faulty '
        'document that passes RELAX NG validation (refused by the loader itself) or a control that loads; distinct = '
        'distinct document JSON' % LIMIT)
TRUSTED = ['Lean 4.33 kernel', 'axioms: propext, Classical.choice, Quot.sound',
           'correspondence harness harness/props/c17.py + docgen.py (generator, injectors, XML writer, reference validator)',
           'lxml / RELAX NG validation and the MathML transpiler are exercised, not modelled (two schema facts about '
           'variables are modelled: never both interfaces `in`; no initial_value on a variable with an `in` interface)',
           'pint 0.18 is modelled (mini-pint), not verified']
ASSUMPTIONS = ['`python -O` removes the assert that bounds the connection work list: out of scope',
               'a derivative of order 0 (<degree>0</degree>) is not generated (SymPy evaluates it away)']
FINGERPRINT = {'cellmlmanip/parser.py': ['Parser.parse', 'Parser._validate', 'Parser._add_units',
                                        'Parser._make_pint_unit_definition', 'Parser._add_components',
                                        'Parser._add_variables', 'Parser._add_relationships',
                                        'Parser._handle_component_ref', 'Parser._add_connections',
                                        'Parser._determine_connection_direction', 'Parser._add_maths',
                                        'Parser.transform_constants', '_Component'],
               'cellmlmanip/model.py': ['Model.add_equation', 'Model._check_duplicate_definitions', 'Model.add_variable',
                                       'Variable.__init__'],
               'cellmlmanip/units.py': ['UnitStore.get_unit', 'UnitStore.add_unit', 'UnitStore.add_base_unit',
                                       'UnitStore.is_defined']}
HERE = os.path.dirname(os.path.abspath(__file__))
KINDS = D.PROPERTY_CLASSES[:-1] + ['duplicate-variable', 'two-parents', 'unfed-relay']


# ---------------------------------------------------------------------------------------------- cases
def _valid_doc(rng):
    r = rng.random()
    if r < 0.15:
        parent, far = D.far_forest(rng)
        return D.gen_valid_doc(rng, parent=parent, far=far, n_signals=rng.randint(1, 4), p_cmeta=0.0)
    if r < 0.6:
        return D.gen_valid_doc(rng, k=rng.choice([3, 4, 5, 6, 7]), n_signals=rng.randint(2, 6), p_cmeta=0.05)
    return D.gen_valid_doc(rng, p_cmeta=0.05)


def _pick(lst, how, rng):
    return lst[{'first': 0, 'middle': len(lst) // 2, 'last': len(lst) - 1}.get(how, rng.randrange(len(lst)))]


def make_fault_case(doc, picks, rng):
    """inject the (kind, site) picks one after the other, validating each injection"""
    cur, problems = doc, []
    done = []
    for kind, site in picks:
        r = D.inject(cur, kind, site, rng)
        if r is None:
            continue
        nxt, touched = r
        got = D.diff_regions(cur, nxt)
        if got != touched:
            problems.append('%s at %s changed %s, declared %s' % (kind, site, sorted(got), sorted(touched)))
        found = D.spec_violations(nxt)
        if cur is not doc and not found:
            continue       # the second fault cancels the first (e.g. it removes the other source of a doubly fed target)
        if cur is doc and kind not in found:
            # (a SECOND fault may be hidden from the validator by the first, e.g. a variable of a missing component)
            problems.append('%s at %s: the reference validator does not find the fault' % (kind, site))
        cur = nxt
        done.append([kind, site])
    case = {'doc': cur, 'kind': 'fault' if len(done) == 1 else 'pair', 'faults': done}
    if not done:
        case['kind'] = 'control'
        case['what'] = 'none'
    if problems:
        case['injector_error'] = problems
    return case


def gen(rng, n, tier):
    per_doc = 10 if tier == 'quick' else 40
    hows = ['first', 'middle', 'last', 'random']
    made, ki, hi, xi = 0, 0, 0, 0
    while made < n:
        doc = _valid_doc(rng)
        if D.spec_violations(doc):
            yield {'doc': doc, 'kind': 'control', 'what': 'none', 'injector_error': ['generator produced an invalid document']}
            continue
        vtext = D.to_xml_x(doc)
        by = {}
        for kind, site in D.fault_sites(doc):
            by.setdefault(kind, []).append(site)
        # ~10% controls: the valid document itself and neutral mutations of it
        yield {'doc': D.neutral(doc, _pick(D.NEUTRAL, 'random', rng), rng), 'kind': 'control', 'what': 'neutral'} \
            if rng.random() < 0.7 else {'doc': doc, 'kind': 'control', 'what': 'none'}
        for _ in range(per_doc):
            if made >= n:
                break
            r = rng.random()
            if r < 0.12:
                xs = D.xml_fault_sites(doc)
                xkinds = sorted({f_['kind'] for f_ in xs})
                xk = xkinds[xi % len(xkinds)]
                xi += 1
                f = _pick([f_ for f_ in xs if f_['kind'] == xk], 'random', rng)
                d = dict(doc, xml_faults=[f])
                case = {'doc': d, 'kind': 'schema', 'faults': [['schema', [f['kind'], str(f.get('what')), f.get('n', 0)]]]}
                err = D.xml_fault_check(vtext, D.to_xml_x(d), f)
                if err:
                    case['injector_error'] = ['schema fault %s: %s' % (f, err)]
                made += 1
                yield case
                continue
            for _try in range(len(KINDS)):
                kind = KINDS[ki % len(KINDS)]
                ki += 1
                if kind in by:
                    break
            else:
                break
            how = hows[hi % len(hows)]
            hi += 1
            picks = [(kind, _pick(by[kind], how, rng))]
            if r < 0.35:
                k2 = rng.choice([k for k in by if k != kind] or [kind])
                picks.append((k2, _pick(by[k2], 'random', rng)))
                if rng.random() < 0.5:
                    picks.reverse()
            made += 1
            yield make_fault_case(doc, picks, rng)


def _v(name, pub=None, priv=None, init=None, units='volt'):
    return {'name': name, 'units': units, 'pub': pub, 'priv': priv, 'init': init, 'cmeta': None}


def _mini(comps, conns, groups=()):
    return {'name': 'w', 'cmeta': None, 'units': [], 'groups': list(groups), 'order': None,
            'components': [{'name': n, 'variables': vs, 'maths': ms} for n, vs, ms in comps],
            'connections': [{'c1': a, 'c2': b, 'vars': [[x, y]]} for a, x, b, y in conns], 'meta': {}}


def witnesses():
    """hand-made minimal documents for the interface classes: both attribute orders of each"""
    eq1 = [[{'lhs': ['var', 'x'], 'rhs': ['num', '1', 'volt']}]]
    yx = [[{'lhs': ['var', 'y'], 'rhs': ['var', 'x']}]]
    A = ('A', [_v('x', pub='out')], eq1)
    out = {}
    for o, (c1, c2) in enumerate([('C', 'B'), ('B', 'C')]):
        out['both-receivers-%d' % o] = _mini([A, ('B', [_v('x', pub='in')], []), ('C', [_v('x', pub='in'), _v('y')], yx)],
                                             [('A', 'x', 'B', 'x'), (c1, 'x', c2, 'x')])
    for o, (c1, c2) in enumerate([('A', 'B'), ('B', 'A')]):
        out['both-sources-%d' % o] = _mini([A, ('B', [_v('x', pub='out', priv='in')], [])], [(c1, 'x', c2, 'x')])
        out['no-direction-%d' % o] = _mini([('A', [_v('x')], eq1), ('B', [_v('x', pub='none', priv='in')], [])],
                                           [(c2, 'x', c1, 'x')])
    grp = [{'relationship': 'encapsulation', 'name': None, 'refs': [
        {'component': 'G', 'children': [{'component': 'P', 'children': [{'component': 'Ch', 'children': []}]}]}]}]
    for o, (c1, c2) in enumerate([('Ch', 'G'), ('G', 'Ch')]):
        out['non-adjacent-%d' % o] = _mini([('G', [_v('x', priv='out')], eq1), ('P', [], []),
                                            ('Ch', [_v('x', pub='in'), _v('y')], yx)], [(c1, 'x', c2, 'x')], grp)
    return out


def corpus():
    out = [{'kind': 'selftest', 'sleep': 3.0, 'limit': 1.0, 'doc': _mini([('A', [_v('x')], [])], [])}]
    for name, doc in sorted(witnesses().items()):
        out.append({'doc': doc, 'kind': 'fault', 'faults': [[name.rsplit('-', 1)[0], ['witness', name]]]})
    return out


# ---------------------------------------------------------------------------------------------- implementation
# load_model runs in a child process that this (pool worker) process owns: one request line in, one reply line out.
# A reply that does not arrive within the limit means the child is killed and the outcome is `timeout`.
_LOADER = None


def loader_main():
    """the child: `python props/c17.py --loader`"""
    import logging
    import shutil
    import tempfile
    logging.disable(logging.CRITICAL)
    sys.path.insert(0, os.path.dirname(HERE))
    import cellmlmanip
    from props import c01
    out = os.fdopen(os.dup(1), 'w')
    sys.stdout = sys.stderr            # nothing but replies on the pipe
    out.write('ready\n')
    out.flush()
    tmp = os.environ.get('C17_TMPDIR') or tempfile.mkdtemp(prefix='c17_')   # owned by the parent, which removes it
    for line in sys.stdin:                                                   # also when it has to kill this process
        req = json.loads(line)
        if req.get('sleep'):
            time.sleep(req['sleep'])
        rep = {}
        t0 = time.time()
        try:
            path = os.path.join(tmp, 'doc.cellml')
            with open(path, 'w') as f:
                f.write(req['xml'])
            try:
                cellmlmanip.load_model(path)
                rep['outcome'] = 'ok'
            except BaseException as e:      # noqa: B902  anything that is raised counts as a refusal
                rep['outcome'] = 'err:' + type(e).__name__
                rep['msg'] = str(e)[:200]
            rep['secs'] = round(time.time() - t0, 3)
            if rep['outcome'] == 'ok' and req.get('doc') is not None:
                try:
                    o = c01.impl({'doc': req['doc']})
                    rep['phys'] = [f['key'] + ': ' + f['detail'][:120] for f in c01.physical_check(req['doc'], o)][:4]
                except Exception as e:
                    rep['phys'] = ['check-crashed: %s: %s' % (type(e).__name__, e)]
        finally:
            try:
                os.remove(os.path.join(tmp, 'doc.cellml'))
            except OSError:
                pass
        out.write(json.dumps(rep) + '\n')
        out.flush()
    shutil.rmtree(tmp, ignore_errors=True)


if __name__ == '__main__' and sys.argv[1:] == ['--loader']:
    loader_main()
    sys.exit(0)


def _readline(p, limit):
    """one line from the child's stdout within `limit` seconds, else None"""
    buf = getattr(p, '_buf', b'')
    end = time.time() + limit
    while b'\n' not in buf:
        left = end - time.time()
        if left <= 0:
            return None
        r, _, _ = select.select([p.stdout], [], [], left)
        if not r:
            return None
        chunk = os.read(p.stdout.fileno(), 65536)
        if not chunk:
            return b''
        buf += chunk
    line, _, rest = buf.partition(b'\n')
    p._buf = rest
    return line


def _kill():
    global _LOADER
    if _LOADER is not None:
        try:
            _LOADER.kill()
            _LOADER.wait(timeout=5)
        except Exception:
            pass
        shutil.rmtree(getattr(_LOADER, '_tmp', '') or '/nonexistent', ignore_errors=True)
    _LOADER = None


def _loader():
    global _LOADER
    if _LOADER is None or _LOADER.poll() is not None:
        tmpd = tempfile.mkdtemp(prefix='c17_')
        env = dict(os.environ, PYTHONPATH=os.path.dirname(HERE) + os.pathsep + os.environ.get('PYTHONPATH', ''),
                   C17_TMPDIR=tmpd)
        _LOADER = subprocess.Popen([sys.executable, os.path.abspath(__file__), '--loader'], stdin=subprocess.PIPE,
                                   stdout=subprocess.PIPE, stderr=subprocess.DEVNULL, env=env, bufsize=0)
        _LOADER._buf = b''
        _LOADER._tmp = tmpd
        if _readline(_LOADER, 180) != b'ready':
            _kill()
            raise RuntimeError('loader subprocess did not start')
    return _LOADER


def plain(doc):
    """no extended fields: the document is in docgen's base format (C01's evaluator applies)"""
    return not doc.get('xml_faults') and not any(c.get('xunits') or c.get('reactions') or c.get('badeqs')
                                                 for c in doc['components']) and \
        not any(e.get('offset') is not None for u in doc['units'] for e in u.get('elems') or [])


def impl(case):
    doc = case['doc']
    req = {'xml': D.to_xml_x(doc), 'doc': doc if plain(doc) else None, 'sleep': case.get('sleep')}
    limit = case.get('limit', LIMIT)
    for attempt in (0, 1):
        p = _loader()
        try:
            p.stdin.write((json.dumps(req) + '\n').encode())
            p.stdin.flush()
        except (BrokenPipeError, OSError):
            _kill()
            continue
        t0 = time.time()
        line = _readline(p, limit)
        if line is None:
            _kill()
            return {'outcome': 'timeout', 'secs': round(time.time() - t0, 2)}
        if line == b'':
            rc = p.poll()
            _kill()
            return {'outcome': 'crash', 'msg': 'loader process died (exit code %s)' % rc}
        return json.loads(line)
    return {'outcome': 'crash', 'msg': 'loader process could not be started'}


# ---------------------------------------------------------------------------------------------- property oracle
def must_raise(doc):
    """fault classes of the property the document has, by the reference validator (independent of model and code)"""
    v = D.spec_violations(doc)
    return sorted(v & set(D.PROPERTY_CLASSES)), sorted(v - set(D.PROPERTY_CLASSES))


def oracle(case, obs):
    fails = []
    if case.get('kind') == 'selftest':
        if obs.get('outcome') != 'timeout':
            fails.append({'key': 'selftest:timeout-not-detected', 'detail': 'a loader that sleeps past the limit was not '
                          'killed and reported: %r' % (obs,)})
        return fails
    for p in case.get('injector_error') or []:
        fails.append({'key': 'injector-invalid', 'detail': p})
    doc = case['doc']
    prop, extra = must_raise(doc)
    label = ':'.join(prop or extra or ['valid'])
    out = obs.get('outcome')
    if out == 'timeout':
        fails.append({'key': 'hang:' + label, 'detail': 'load_model did not return within %s s' % case.get('limit', LIMIT)})
    elif out == 'crash':
        fails.append({'key': 'crash:' + label, 'detail': obs.get('msg', '')})
    elif out == 'ok':
        if prop:
            fails.append({'key': 'accepted:' + label, 'detail': 'load_model returned a model for a document with fault(s) '
                          '%s (injected: %s)' % (prop, case.get('faults'))})
        elif obs.get('phys'):
            fails.append({'key': 'misread:' + label, 'detail': 'the loaded model does not mean what the document says: %s'
                          % obs['phys'][:2]})
    elif not prop and not extra:
        fails.append({'key': 'rejected-valid:' + out[4:], 'detail': 'load_model raised %s (%s) on a valid document (%s)'
                      % (out, obs.get('msg'), case.get('what'))})
    return fails[:4]


def shrink(violation):
    case = violation['case']
    keys = {f['key'] for f in violation['failures']}
    if case.get('kind') == 'selftest' or case['doc'].get('xml_faults'):
        return violation

    def still(doc):
        c = dict(case, doc=doc)
        c.pop('injector_error', None)
        return bool(keys & {f['key'] for f in oracle(c, impl(c))})
    small = D.shrink(case['doc'], still, budget=120)
    c2 = dict(case, doc=small)
    o2 = impl(c2)
    f2 = oracle(c2, o2)
    return {'case': c2, 'failures': f2, 'obs': o2} if f2 else violation


# ---------------------------------------------------------------------------------------------- model
def _file_index(doc):
    order = doc.get('order') or [['component', i] for i in range(len(doc['components']))]
    comps = [i for k, i in order if k == 'component']
    return {ci: r for r, ci in enumerate(comps)}


def fault_doc_sx(doc):
    from props import c01
    base = c01.doc_sx(doc)
    order = doc.get('order') or [['units', i] for i in range(len(doc['units']))]
    udefs = []
    for k, i in order:
        if k == 'units':
            u = doc['units'][i]
            udefs.append(['base', 0, Str(u['name'])] if u.get('base') else
                         ['def', 0, Str(u['name']), [U.elem_sx(e) for e in u['elems']]])
    fi = _file_index(doc)
    cu = sorted(fi[i] for i, c in enumerate(doc['components']) if c.get('xunits'))
    rx = sorted(fi[i] for i, c in enumerate(doc['components']) if c.get('reactions'))
    bad = []
    for i, c in enumerate(doc['components']):
        for j, b in enumerate(c.get('badeqs') or []):
            at = min(b['at'], len(c['maths']))
            pos = sum(len(m) for m in c['maths'][:at])
            lhs = ['higher', Str(b['lhs'][1]), Str(b['lhs'][2]),
                   b['lhs'][3] if isinstance(b['lhs'][3], int) else 2] if b['lhs'][0] == 'diffn' else \
                ['nonvar', c01.expr_sx(b['lhs'][1] if b['lhs'][0] == 'diffx' else b['lhs'])]
            bad.append(((fi[i], at, j), [fi[i], pos, lhs, c01.expr_sx(b['rhs'])]))
    bad = [b for _, b in sorted(bad, key=lambda x: x[0])]
    return base + [['udefs'] + udefs, ['compunits'] + cu, ['reactions'] + rx, ['badeqs'] + bad]


def requests(case, obs):
    if case.get('kind') == 'selftest' or case['doc'].get('xml_faults'):
        return []          # RELAX NG validation and XML parsing are lxml's: not modelled
    return [sx(['C17', 'load'] + fault_doc_sx(case['doc']))]


STAGES = [('schema', r'Invalid or unsupported CellML file'), ('compunits', r'Defining units inside components'),
          ('u-offset', r'Offsets in units|units: offset'), ('u-dup', r'Duplicate unit definition|units: duplicate'),
          ('u-redef', r'Cannot redefine|units: redefine'), ('u-stuck', r'Cannot create units|units: Cycles'),
          ('dupcomp', r'Duplicate component name'), ('reaction', r'Reactions are not supported'),
          ('dupvar', r'Variable .*already exists'), ('cmeta', r'cmeta id'), ('parents', r'multiple parents'),
          ('encap', r'Encapsulated component'), ('misscomp', r'Cannot connect components that do not exist'),
          ('direction', r'Cannot determine the source'), ('assigned', r'Target already assigned'),
          ('stuck', r'Unable to add connections'), ('ident', r'not found in symbol dict'), ('twice', r'defined twice'),
          ('higher', r'Only first order derivatives'), ('nonvar', r'Equation LHS should be'),
          ('noinit', r'no initial_value'), ('unit', r'Unknown unit|undefined unit')]


def stage(text):
    for name, pat in STAGES:
        if re.search(pat, text or ''):
            return name
    return None


def compare(case, obs, replies):
    rep = replies[0]
    out = obs.get('outcome')
    if out in ('timeout', 'crash'):
        return 'implementation %s; the model is a total function (%r)' % (out, rep)
    if rep == ['ok']:
        return None if out == 'ok' else 'model loads the document, implementation raises %s (%s)' % (out, obs.get('msg'))
    if not isinstance(rep, list) or not rep or rep[0] != 'err':
        return 'model reply malformed: %r' % (rep,)
    if out == 'ok':
        return 'model refuses the document (%s), implementation loads it' % (rep[1:],)
    if rep[1] == 'Unsupported':
        return None        # a construct outside the modelled fragment of pint: only raises / returns is compared
    if out != 'err:' + rep[1]:
        return 'model raises %s (%s), implementation %s (%s)' % (rep[1], rep[2:], out, obs.get('msg'))
    sm, si = stage(str(rep[2])), stage(obs.get('msg'))
    if sm and si and sm != si:
        return 'model stops at stage %s (%s), implementation at %s (%s)' % (sm, rep[2], si, obs.get('msg'))
    return None


def nontrivial(case, obs):
    if case.get('kind') == 'control':
        return obs.get('outcome') == 'ok'
    return case.get('kind') in ('fault', 'pair') and stage(obs.get('msg')) != 'schema' and \
        str(obs.get('outcome')).startswith('err:')


def tag(case, obs):
    k = case.get('kind')
    out = obs.get('outcome')
    if k in ('fault', 'pair') and case.get('faults'):
        return '%s %s %s' % (k, case['faults'][0][0], out)
    if k == 'schema':
        return 'schema %s %s' % (case['faults'][0][1][0], out)
    return '%s %s %s' % (k, case.get('what', ''), out)


MANIFEST = {
    'technique': 'Lean 4 theorems over a total model of Parser.parse (schema facts on variables, component units, the unit '
                 'work list of C03, reactions, components, encapsulation, connection direction and work list of C01, maths '
                 'incl. left-hand sides add_equation refuses, transform_constants) + fault injection with load_model in a '
                 'subprocess under a wall limit + a reference validator written from the CellML 1.0 specification',
    'text': ('Proved in Lean for every document of any size (lean/Cellml/Props/C17.lean; standard axioms only): load_total '
             '(loadFull is a total function without fuel: both work lists are well-founded recursions; '
             'connect_within_budget / connect_budget: the connection loop returns within n(n+1)/2+n+2 iterations for n '
             'map_variables; units_worklist_terminates restated from C03). One theorem per fault class, each class an '
             'EXISTENTIAL predicate over the sites of the document with the rest arbitrary (so: at any site, alone or '
             'with any other fault), each in two versions (Load.load of C01, and loadFull = all of Parser.parse): '
             'fault_rejected_missing_component, _missing_variable, _both_sources, _both_receivers, _no_direction, '
             '_non_adjacent (facing interfaces other than out/in - after two fix: commits, see findings), '
             '_incompatible_units, _two_sources (also the same map_variables twice), _unfed_relay, '
             '_defined_twice_direct, _defined_twice_connected, _undefined_identifier, _undefined_unit, '
             '_duplicate_component; full loader only: _nonvariable_lhs, _higher_order_lhs, _component_units, _reaction, '
             '_schema_variable, _units_duplicate, _units_builtin_override, _units_offset, _units_dangling, _units_cycle '
             '(the five unit classes through C03\'s reject_* theorems). PARTIAL: fault_rejected_init_and_equation_partial '
             '(initial_value + equation) only for documents without ODEs. Non-vacuity: the valid relay document is '
             'loaded by loadFull to the same flat model as by Load.load (relay_loadFull); one concrete faulty document '
             'per class. Tie: ~670 (quick) / ~16500 (thorough) documents per seed: faults injected at first / middle / '
             'last / random sites, singly and in pairs, schema faults at text level, valid controls; compared with the '
             'compiled model: raises / returns, exception class, and the stage at which loading stops (message family). '
             'Oracle, independent of the model: docgen.spec_violations decides from the document alone whether it has a '
             'fault class of the property; any returned model (accepted:<class>), any time-out (hang:<class>, the loader '
             'subprocess is killed after 20 s) or interpreter crash is a violation; a valid control that raises is one '
             'too; documents with only non-listed faults may load but then must evaluate to what the document says.'),
    'note': ('Trusted: Lean kernel; propext, Classical.choice, Quot.sound; the harness and docgen.py. RELAX NG validation, '
             'XML parsing and the MathML transpiler are lxml\'s / exercised, not modelled: schema-invalid and malformed '
             'documents are covered by the fault stream only. `python -O` (assert removed) is out of scope. Two genuine '
             'defects were repaired in /repo (sibling interfaces, non-adjacent components); C01\'s model of '
             '_determine_connection_direction follows the repaired code.'),
}
