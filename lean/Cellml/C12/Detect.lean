import Cellml.C12.Expr
import Cellml.C12.Window

/-! # C12 — `_get_singularity` on the affine fragment (core Lean only).

    `_get_singularity(check_U_expr, V, U_offset, exp)` receives a product in which every `Quantity` has been replaced by
    its float, so SymPy has re-canonicalised it: numeric factors are folded into one coefficient, equal bases are merged
    (exponents added, a zero exponent disappears), `exp(c + k·V)` has been split into `exp(c)·exp(k·V)`. The function
    then looks, among the factors with a negative exponent ("denominator") and the others ("numerator"), for a part
    `Z·exp(U) − 1` or `1 − Z·exp(U)` on one side and a non-zero multiple of `U`, a multiple of `V − sp`, or
    `exp(multiple of (V − sp))` on the other side.

    SymPy's `match` and `solveset` are modelled semantically on the fragment where `U = k·V + c` with rational `k ≠ 0`,
    `c` (so that `sp`, `Vmin`, `Vmax` are rational): every factor is classified by what it denotes. Anything else
    (other variables inside `U`, `Z ≠ 1` written explicitly, `exp` of a constant) is reported as outside the fragment. -/

namespace C12
open Expr

def npow (q : Rat) : Nat → Rat
  | 0 => 1
  | n + 1 => npow q n * q

def zpow (q : Rat) (n : Int) : Rat :=
  if n < 0 then 1 / npow q (-n).toNat else npow q n.toNat

mutual
/-- `some (k, c)`: the expression denotes `k·V + c` -/
def aff? : Expr → Option (Rat × Rat)
  | num q => some (0, q)
  | volt => some (1, 0)
  | var _ => none
  | add as => affSum as
  | mul as => affProd as
  | pow b n =>
      match aff? b with
      | some (k, c) =>
          if k == 0 then (if c == 0 && n < 0 then none else some (0, zpow c n))
          else if n == 1 then some (k, c) else if n == 0 then some (0, 1) else none
      | none => none
  | exp _ => none
  | pw _ _ _ => none
  | fn _ _ => none
def affSum : List Expr → Option (Rat × Rat)
  | [] => some (0, 0)
  | a :: as =>
      match aff? a, affSum as with
      | some (k₁, c₁), some (k₂, c₂) => some (k₁ + k₂, c₁ + c₂)
      | _, _ => none
def affProd : List Expr → Option (Rat × Rat)
  | [] => some (0, 1)
  | a :: as =>
      match aff? a, affProd as with
      | some (k₁, c₁), some (k₂, c₂) => if k₁ != 0 && k₂ != 0 then none else some (k₁ * c₂ + k₂ * c₁, c₁ * c₂)
      | _, _ => none
end

/-- what a factor of the product denotes -/
inductive Base where
  | const (q : Rat)                 -- a number
  | aff (k c : Rat)                 -- `k·V + c`, `k ≠ 0`
  | em (k c : Rat) (pos : Bool)     -- `exp(k·V + c) − 1` (`pos`) or `1 − exp(k·V + c)`
  | ex (k : Rat)                    -- `exp(k·V)` (the constant part of the argument went into the coefficient)
  | opq (id : Nat) (hasExp : Bool)  -- anything else (never matches a pattern)
  | unsup                           -- outside the modelled fragment
deriving Repr, BEq, Inhabited

/-- the coefficient `z` and the exponent argument of a term `z·exp(A)` -/
def expTerm? : Expr → Option (Rat × Expr)
  | exp a => some (1, a)
  | mul as =>
      match as.filter (fun x => (aff? x).isNone) with
      | [exp a] =>
          match affProd (as.filter (fun x => (aff? x).isSome)) with
          | some (k, z) => if k == 0 then some (z, a) else none
          | none => none
      | _ => none
  | _ => none

/-- classify a sum as `Z·exp(U) − 1` / `1 − Z·exp(U)`:
    `fp2.match(exp(U)*-Z + 1.0)` or `fp2.match(exp(U)*Z − 1.0)` with `Z > 0`, `u = U + log Z` -/
def classifySum (id : Nat) (as : List Expr) : Base :=
  let consts := as.filter (fun x => match aff? x with | some (k, _) => k == 0 | none => false)
  let others := as.filter (fun x => match aff? x with | some (k, _) => k != 0 | none => true)
  match affSum consts, others with
  | some (_, s), [t] =>
      match expTerm? t with
      | some (z, a) =>
          match aff? a with
          | some (k, c) =>
              if k == 0 then .unsup
              else if s == -1 && z > 0 then (if z == 1 then .em k c true else .unsup)
              else if s == 1 && z < 0 then (if z == -1 then .em k c false else .unsup)
              else .opq id true
          | none => .unsup
      | none => .opq id (anyExp as)
  | _, _ => .opq id (anyExp as)

def classifyBase (id : Nat) (e : Expr) : Base :=
  match aff? e with
  | some (k, c) => if k == 0 then .const c else .aff k c
  | none =>
      match e with
      | add as => classifySum id as
      | exp a =>
          match aff? a with
          | some (k, _) => if k == 0 then .unsup else .ex k
          | none => .unsup
      | e => .opq id e.hasExp

/-- the factors `base ^ n` an argument of the product contributes; `exp(k·V)^n` is `exp(n·k·V)`; a multiple `k·V`
    of the voltage (an offset of zero) is not a sum but a product, so it contributes the number `k` and the base `V` -/
def classifyFactor (id : Nat) (e : Expr) : List (Base × Int) :=
  let split (b : Base) (n : Int) : List (Base × Int) :=
    match b with
    | .const q => if q == 0 && n < 0 then [(.unsup, 1)] else [(.const (zpow q n), 1)]
    | .ex k => [(.ex (k * n), 1)]
    | .aff k c => if c == 0 && k != 1 then [(.const (zpow k n), 1), (.aff 1 0, n)] else [(.aff k c, n)]
    | b' => [(b', n)]
  match e with
  | pow b n => split (classifyBase id b) n
  | e => split (classifyBase id e) 1

def classifyAll : Nat → List Expr → List (Base × Int)
  | _, [] => []
  | i, e :: es => classifyFactor i e ++ classifyAll (i + 1) es

def sameBase : Base → Base → Bool
  | .const _, .const _ => true
  | .aff k c, .aff k' c' => k == k' && c == c'
  | .em k c p, .em k' c' p' => k == k' && c == c' && p == p'
  | .ex _, .ex _ => true
  | .opq i _, .opq j _ => i == j
  | _, _ => false

/-- `Mul.flatten`: fold the numbers, add the exponents of equal bases -/
def insertFactor (f : Base × Int) : List (Base × Int) → List (Base × Int)
  | [] => [f]
  | g :: gs =>
      if sameBase f.1 g.1 then
        (match f.1, g.1 with
         | .const a, .const b => (.const (a * b), 1)
         | .ex a, .ex b => (.ex (a + b), 1)
         | _, _ => (g.1, g.2 + f.2)) :: gs
      else g :: insertFactor f gs

def normalise (fs : List (Base × Int)) : List (Base × Int) :=
  (fs.foldl (fun acc f => insertFactor f acc) []).filter
    (fun f => match f.1 with
              | .ex k => k != 0
              | .const _ => true
              | _ => f.2 != 0)

def baseHasExp : Base → Bool
  | .em _ _ _ | .ex _ => true
  | .opq _ h => h
  | _ => false

/-- does a part of the other side vanish like `U` at `sp`?  `fp1.match(P*u)`, `fp1.match(P*V − P*SP)` with
    `SP ≈ sp`, `fp1.match(exp(P*V − P*SP))` — the last one sees `exp(k·V)`, i.e. `SP = 0` -/
def onTop (sp : Rat) (f : Base × Int) : Bool :=
  f.2 == 1 &&
  match f.1 with
  | .aff k c => -c / k == sp
  | .ex _ => sp == 0
  | _ => false

/-- record a found range: the same one again is ignored, one with the same `sp` is merged (sequential min/max),
    otherwise it is appended -/
def record (w : Win Rat) : List (Win Rat) → List (Win Rat)
  | [] => [w]
  | s :: ss =>
      if s.sp == w.sp then
        (if w.vmin == s.vmin && w.vmax == s.vmax then s :: ss else mergeSeq s w.vmin w.vmax :: ss)
      else s :: record w ss

/-- one direction: `part2` is searched for `±(exp(U) − 1)`, `part1` for the matching multiple of `U` -/
def pass (δ : Rat) (part1 part2 : List (Base × Int)) (found : List (Win Rat)) : List (Win Rat) :=
  part2.foldl (fun acc f =>
    match f with
    | (.em k c _, 1) =>
        let w := window k c δ
        if part1.any (onTop w.sp) then record w acc else acc
    | _ => acc) found

def absInt (n : Int) : Int := if n < 0 then -n else n

/-- `_get_singularity` on the arguments of a product. `none`: outside the modelled fragment.
    `rev`: the order in which SymPy holds the factors after the quantities have become floats is not known to the
    model (it is the canonical order of `Mul.flatten`); it only matters for the order in which ranges with the same
    singular point are merged (`mergeSeq` is not symmetric), so the driver offers both orders. -/
def detect? (δ : Rat) (rev : Bool) (args : List Expr) : Option (List (Win Rat)) :=
  let fs := normalise (classifyAll 0 (if rev then args.reverse else args))
  if fs.any (fun f => f.1 == .unsup) then none
  else
    let numerator := fs.filter (fun f => f.2 > 0)
    let denominator := (fs.filter (fun f => f.2 < 0)).map (fun f => (f.1, absInt f.2))
    if denominator.isEmpty || numerator.isEmpty || !(fs.any (fun f => baseHasExp f.1)) then some []
    else some (pass δ denominator numerator (pass δ numerator denominator []))

def detect (δ : Rat) (rev : Bool) (args : List Expr) : List (Win Rat) := (detect? δ rev args).getD []

end C12
