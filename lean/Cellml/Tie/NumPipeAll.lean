import Cellml.Tie.NumPipe

set_option linter.unusedSimpArgs false
set_option linter.unusedVariables false

/-! # Tie: `Model.graph_with_sympy_numbers` on ARBITRARY graphs (property C14)

    `Tie/NumPipe.lean` (`graphNum_single`) runs the generated `graphWithSympyNumbers` on the graph of ONE equation
    `x = q`. Here: every graph — any number of nodes, with or without an equation, every right-hand side any expression
    with any number of Quantity atoms, any edges.

    * `strippedNum q`     — the number `q.evalf(FLOAT_PRECISION)` (generated `_eval_evalf` inside sympy's `evalf`, at the
                            generated constant); `strippedNum_spec`: for a Quantity holding the double `b` the generated
                            code returns exactly it, and its `float()` is `C14.strippedValue (C14.quantityValue b)`;
    * `substGraph g`      — `g` with EVERY Quantity leaf `q` of EVERY equation replaced by `strippedNum q`; the node list,
                            the left-hand sides, the shapes, every other leaf and the edges as they are;
    * `graphNum_all`      — the generated function returns `substGraph g` and caches it;
    * `graphNum_all_twice`— the second call returns the cached graph (nothing is recomputed: the model's `graph` leaf is
                            not even read — the statement holds for every model handed to the second call);
    * `graphNum_all_leaf` — read off per leaf: position `i` of the right-hand side of the equation of a node.

    Hypotheses (all three are facts about what `Model.graph` returns; see `notes/reports/TIE6_GraphAll.md`):
    `UniqueIds` (a node has one attribute dict — networkx keeps nodes as dict keys), `EdgesOK` (an edge into the
    left-hand side of an equation comes from a variable of its right-hand side — how `Model.graph` makes the edges),
    `FloatAtoms` (every Quantity holds a python float — what `_cn_handler` / `transform_constants` store). -/

namespace Cellml.Tie.PNumPipe
open C14 Cellml.Gen Cellml.Gen.NumPipe

/-! ## the result -/

/-- `q.evalf(FLOAT_PRECISION)` by the generated code (`Zero` where that raises: never for a Quantity holding a float) -/
def strippedNum (q : QObj) : SNum :=
  match sympyEvalf (quantityEvalEvalf q) Cellml.Gen.floatPrecision with
  | .ok s => s
  | .error _ => .zero

/-- for a Quantity holding the double `b`: the generated stripping stage answers `strippedNum q`, whose `float()` has
    exactly the bits the C14 pipeline predicts -/
theorem strippedNum_spec (q : QObj) (b : Nat) (h : q._value = some (.flt b)) :
    sympyEvalf (quantityEvalEvalf q) Cellml.Gen.floatPrecision = .ok (strippedNum q) ∧
      floatOfSNum (strippedNum q) = strippedValue (quantityValue b) := by
  obtain ⟨s, hs, hfl⟩ := stripped_tie q b h
  unfold strippedNum
  rw [hs]
  exact ⟨rfl, hfl⟩

def substLeaf : NLeaf → NLeaf
  | .qty q => .num (strippedNum q)
  | l => l

def substExpr (e : NExpr) : NExpr := { e with leaves := e.leaves.map substLeaf }
def substEq (eq : NEq) : NEq := ⟨eq.lhs, substExpr eq.rhs⟩
def substNode (p : Nat × Option NEq) : Nat × Option NEq := (p.1, p.2.map substEq)

/-- the graph with every Quantity of every equation replaced by its stripped number; nothing else changes -/
def substGraph (g : NGraph) : NGraph := { g with nodes := g.nodes.map substNode }

/-! ## the hypotheses -/

/-- a node id has one attribute dict (networkx: `graph.nodes` is a dict) -/
def UniqueIds (g : NGraph) : Prop := ∀ p ∈ g.nodes, ∀ p' ∈ g.nodes, p.1 = p'.1 → p = p'

/-- every edge into the left-hand side of an equation starts at a variable / derivative of its right-hand side
    (`Model.graph`: `for ref in refs: graph.add_edge(ref, lhs)`) -/
def EdgesOK (g : NGraph) : Prop :=
  ∀ ed ∈ g.edges, ∀ p ∈ g.nodes, ∀ eq, p.2 = some eq → eq.lhs = ed.2 → ed.1 ∈ varRefs eq.rhs

/-- every Quantity of every equation holds a python float -/
def FloatAtoms (g : NGraph) : Prop :=
  ∀ p ∈ g.nodes, ∀ eq, p.2 = some eq → ∀ q, NLeaf.qty q ∈ eq.rhs.leaves → ∃ b, q._value = some (.flt b)

theorem uniqueIds_of_nodup : ∀ (l : List (Nat × Option NEq)), (l.map (·.1)).Nodup →
    ∀ p ∈ l, ∀ p' ∈ l, p.1 = p'.1 → p = p'
  | [], _ => by intro p hp; cases hp
  | a :: l, h => by
    rw [List.map_cons, List.nodup_cons] at h
    intro p hp p' hp' e
    rw [List.mem_cons] at hp hp'
    cases hp with
    | inl hp =>
      cases hp' with
      | inl hp' => rw [hp, hp']
      | inr hp' =>
        exfalso; apply h.1; rw [← hp, e]; exact List.mem_map_of_mem hp'
    | inr hp =>
      cases hp' with
      | inl hp' =>
        exfalso; apply h.1; rw [← hp', ← e]; exact List.mem_map_of_mem hp
      | inr hp' => exact uniqueIds_of_nodup l h.2 p hp p' hp' e

/-- `graph.nodes` without a repeated node ⇒ `UniqueIds` -/
theorem UniqueIds.of_nodup (g : NGraph) (h : g.nodeIds.Nodup) : UniqueIds g := uniqueIds_of_nodup g.nodes h

/-! ## the view functions on arbitrary lists -/

theorem mem_dedup {α} [DecidableEq α] (a : α) : ∀ l : List α, a ∈ dedup l ↔ a ∈ l
  | [] => Iff.rfl
  | x :: l => by
    have ih := mem_dedup a l
    unfold dedup
    by_cases hx : x ∈ dedup l
    · simp only [hx, if_true, List.mem_cons]
      constructor
      · intro h; exact Or.inr (ih.1 h)
      · intro h
        cases h with
        | inl h => rw [h]; exact hx
        | inr h => exact ih.2 h
    · simp only [hx, if_false, List.mem_cons, ih]

theorem mem_quantityAtoms (e : NExpr) (q : QObj) : q ∈ quantityAtoms e ↔ NLeaf.qty q ∈ e.leaves := by
  unfold quantityAtoms
  rw [mem_dedup, List.mem_filterMap]
  constructor
  · intro ⟨l, hl, h⟩
    cases l with
    | qty q' => simp only [Option.some.injEq] at h; rw [← h]; exact hl
    | num s => cases h
    | var v => cases h
    | deriv v => cases h
  · intro h; exact ⟨_, h, rfl⟩

theorem bind_ok {ε α β} (a : α) (f : α → Except ε β) : (Except.ok a : Except ε α).bind f = f a := rfl

theorem mapM_evalf : ∀ (l : List QObj), (∀ q ∈ l, ∃ b, q._value = some (.flt b)) →
    List.mapM (fun d => (sympyEvalf (quantityEvalEvalf d) Cellml.Gen.floatPrecision).bind fun v =>
        (Except.ok (d, v) : Except PyErr (QObj × SNum))) l
      = Except.ok (l.map fun d => (d, strippedNum d))
  | [], _ => rfl
  | a :: l, h => by
    obtain ⟨b, hb⟩ := h a (List.mem_cons_self)
    have ih := mapM_evalf l (fun q hq => h q (List.mem_cons_of_mem _ hq))
    simp only [List.mapM_cons, bind, pure, Except.pure, (strippedNum_spec a b hb).1, bind_ok, ih, List.map_cons]

theorem lookupQ_cons (k : QObj) (v : SNum) (d : List (QObj × SNum)) (q : QObj) :
    lookupQ ((k, v) :: d) q = if k = q then some v else lookupQ d q := by
  unfold lookupQ
  rw [List.find?_cons]
  by_cases h : k = q
  · simp [h]
  · have hb : (k == q) = false := beq_eq_false_iff_ne.2 h
    simp [h, hb]

theorem lookupQ_setAssoc (k : QObj) (v : SNum) (q : QObj) :
    ∀ d : List (QObj × SNum), lookupQ (Py.setAssoc k v d) q = if k = q then some v else lookupQ d q
  | [] => by
    unfold Py.setAssoc
    rw [lookupQ_cons]
  | (k', v') :: rest => by
    have ih := lookupQ_setAssoc k v q rest
    unfold Py.setAssoc
    by_cases h : k' = k
    · simp only [h, if_true, lookupQ_cons]
      by_cases h2 : k = q
      · simp [h2]
      · simp [h2]
    · simp only [h, if_false, lookupQ_cons, ih]
      by_cases h2 : k = q
      · have : ¬ k' = q := by rw [← h2]; exact h
        simp [h2, this]
      · simp [h2]

theorem lookupQ_foldl (f : QObj → SNum) (q : QObj) : ∀ (l : List QObj) (d0 : List (QObj × SNum)),
    lookupQ ((l.map fun d => (d, f d)).foldl (fun d p => Py.setAssoc p.1 p.2 d) d0) q
      = if q ∈ l then some (f q) else lookupQ d0 q
  | [], d0 => by simp
  | a :: l, d0 => by
    rw [List.map_cons, List.foldl_cons, lookupQ_foldl f q l, lookupQ_setAssoc]
    by_cases h1 : q ∈ l
    · simp [h1]
    · by_cases h2 : a = q
      · simp [h1, h2]
      · have : ¬ q = a := fun e => h2 e.symm
        simp [h1, h2, this]

theorem lookupQ_dictOf (f : QObj → SNum) (l : List QObj) (q : QObj) (h : q ∈ l) :
    lookupQ (Py.dictOf (l.map fun d => (d, f d))) q = some (f q) := by
  unfold Py.dictOf
  rw [lookupQ_foldl, if_pos h]

theorem setAssoc_ne_nil {κ ν} [DecidableEq κ] (k : κ) (v : ν) : ∀ d : List (κ × ν), Py.setAssoc k v d ≠ []
  | [] => by unfold Py.setAssoc; exact List.cons_ne_nil _ _
  | (k', v') :: rest => by
    unfold Py.setAssoc
    by_cases h : k' = k
    · simp only [h, if_true]; exact List.cons_ne_nil _ _
    · simp only [h, if_false]; exact List.cons_ne_nil _ _

theorem foldl_setAssoc_ne_nil {κ ν} [DecidableEq κ] : ∀ (l : List (κ × ν)) (d0 : List (κ × ν)), d0 ≠ [] →
    l.foldl (fun d p => Py.setAssoc p.1 p.2 d) d0 ≠ []
  | [], d0, h => h
  | p :: l, d0, h => by
    rw [List.foldl_cons]
    exact foldl_setAssoc_ne_nil l _ (setAssoc_ne_nil _ _ _)

/-- `{…}` is empty exactly when it was made of nothing -/
theorem dictOf_truthy {κ ν} [DecidableEq κ] (l : List (κ × ν)) : Py.truthy (Py.dictOf l) = !l.isEmpty := by
  cases l with
  | nil => rfl
  | cons p l =>
    have := foldl_setAssoc_ne_nil l (Py.setAssoc p.1 p.2 []) (setAssoc_ne_nil _ _ _)
    unfold Py.dictOf
    rw [List.foldl_cons, Py.truthy_list]
    cases hd : List.foldl (fun d p => Py.setAssoc p.1 p.2 d) (Py.setAssoc p.1 p.2 []) l with
    | nil => exact absurd hd this
    | cons _ _ => rfl

theorem substExpr_noq (e : NExpr) (h : quantityAtoms e = []) : substExpr e = e := by
  have hn : ∀ q, NLeaf.qty q ∉ e.leaves := by
    intro q hq
    have := (mem_quantityAtoms e q).2 hq
    rw [h] at this; cases this
  have : e.leaves.map substLeaf = e.leaves.map id := by
    apply List.map_congr_left
    intro l hl
    cases l with
    | qty q => exact absurd hl (hn q)
    | num s => rfl
    | var v => rfl
    | deriv v => rfl
  unfold substExpr
  rw [this, List.map_id]

theorem xreplaceQ_eq (e : NExpr) :
    xreplaceQ e (Py.dictOf ((quantityAtoms e).map fun d => (d, strippedNum d))) = substExpr e := by
  unfold xreplaceQ substExpr
  congr 1
  apply List.map_congr_left
  intro l hl
  cases l with
  | qty q =>
    have := lookupQ_dictOf strippedNum (quantityAtoms e) q ((mem_quantityAtoms e q).2 hl)
    simp only [this]; rfl
  | num s => rfl
  | var v => rfl
  | deriv v => rfl

theorem varRefs_subst (e : NExpr) : varRefs (substExpr e) = varRefs e := by
  unfold varRefs substExpr
  rw [List.filterMap_map]
  congr 1
  funext l
  cases l <;> rfl

theorem not_qty_mem_subst (e : NExpr) (q : QObj) : NLeaf.qty q ∉ (substExpr e).leaves := by
  unfold substExpr
  intro h
  rw [List.mem_map] at h
  obtain ⟨l, _, hl⟩ := h
  cases l <;> cases hl

theorem substExpr_idem (e : NExpr) : substExpr (substExpr e) = substExpr e := by
  apply substExpr_noq
  cases h : quantityAtoms (substExpr e) with
  | nil => rfl
  | cons q l =>
    have : q ∈ quantityAtoms (substExpr e) := by rw [h]; exact List.mem_cons_self
    exact absurd ((mem_quantityAtoms _ q).1 this) (not_qty_mem_subst e q)

theorem substNode_idem (p : Nat × Option NEq) : substNode (substNode p) = substNode p := by
  obtain ⟨n, eq⟩ := p
  cases eq with
  | none => rfl
  | some eq => simp only [substNode, Option.map_some, substEq, substExpr_idem]

theorem forIn_noop {α σ} (f : α → σ → Except PyErr (ForInStep σ)) (s : σ) :
    ∀ (l : List α), (∀ a ∈ l, f a s = .ok (.yield s)) → forIn l s f = .ok s
  | [], _ => rfl
  | a :: l, h => by
    rw [List.forIn_cons, h a List.mem_cons_self]
    simp only [bind, Except.bind]
    exact forIn_noop f s l (fun a ha => h a (List.mem_cons_of_mem _ ha))

/-! ## one round of the loop -/

/-- the body of the `for node in graph.nodes` loop of the generated function, as the `do` block elaborates it -/
def gnBody (node : Nat) (s : NGraph) : Except PyErr (ForInStep NGraph) :=
  (nodeEquation s node).bind fun v =>
    if v.isNone = true then Except.ok (ForInStep.yield s)
    else
      (List.mapM (fun d => (sympyEvalf (quantityEvalEvalf d) Cellml.Gen.floatPrecision).bind fun v => Except.ok (d, v))
          (quantityAtoms (theEq v).rhs)).bind fun v_1 =>
        if Py.truthy (Py.dictOf v_1) = true then
          (forIn (inEdges s (theEq v).lhs) s fun edge __s =>
              if (!Py.isIn edge.fst (varRefs (xreplaceQ (theEq v).rhs (Py.dictOf v_1)))) = true then
                Except.ok (ForInStep.yield (removeEdge __s edge.fst (theEq v).lhs))
              else Except.ok (ForInStep.yield __s)).bind fun v_2 =>
            Except.ok
              (ForInStep.yield
                (setEquation v_2 node { lhs := (theEq v).lhs, rhs := xreplaceQ (theEq v).rhs (Py.dictOf v_1) }))
        else Except.ok (ForInStep.yield s)

/-- **the generated function is the loop of `gnBody`, then the cache** -/
theorem graphNum_unfold (m : NModel) (g : NGraph) (hg : m.graph = .ok g) :
    graphWithSympyNumbers m none = (forIn g.nodeIds g gnBody).bind fun r => .ok (r, some r) := by
  unfold graphWithSympyNumbers
  simp only [hg, bind, pure, Except.pure, Option.isSome_none, Bool.false_eq_true, if_false]
  rfl

/-- what one round does: the Quantities of the equation of node `n` are replaced -/
def step (s : NGraph) (n : Nat) : NGraph :=
  { s with nodes := s.nodes.map fun p => if p.1 == n then substNode p else p }

theorem step_of_fixed (s : NGraph) (n : Nat) (h : ∀ p ∈ s.nodes, p.1 = n → substNode p = p) : step s n = s := by
  unfold step
  have : (s.nodes.map fun p => if p.1 == n then substNode p else p) = s.nodes.map id := by
    apply List.map_congr_left
    intro p hp
    by_cases e : p.1 = n
    · simp [e, h p hp e]
    · simp [e]
  rw [this, List.map_id]

structure Good (s : NGraph) : Prop where
  uniq : UniqueIds s
  edges : EdgesOK s
  floats : FloatAtoms s

theorem mem_step (s : NGraph) (n : Nat) (p' : Nat × Option NEq) (h : p' ∈ (step s n).nodes) :
    ∃ p ∈ s.nodes, p' = (if p.1 == n then substNode p else p) := by
  unfold step at h
  simp only [List.mem_map] at h
  obtain ⟨p, hp, e⟩ := h
  exact ⟨p, hp, e.symm⟩

theorem step_fst (n : Nat) (p : Nat × Option NEq) : (if p.1 == n then substNode p else p).1 = p.1 := by
  by_cases e : (p.1 == n) = true
  · simp only [e, if_true, substNode]
  · simp only [e, if_false]; rfl

theorem step_snd (n : Nat) (p : Nat × Option NEq) (eq' : NEq)
    (h : (if p.1 == n then substNode p else p).2 = some eq') :
    ∃ eq, p.2 = some eq ∧ (eq' = eq ∨ eq' = substEq eq) := by
  by_cases e : (p.1 == n) = true
  · simp only [e, if_true, substNode] at h
    cases hp : p.2 with
    | none => rw [hp] at h; cases h
    | some eq =>
      rw [hp] at h
      simp only [Option.map_some, Option.some.injEq] at h
      exact ⟨eq, rfl, Or.inr h.symm⟩
  · simp only [e, if_false] at h
    exact ⟨eq', h, Or.inl rfl⟩

theorem step_good (s : NGraph) (n : Nat) (h : Good s) : Good (step s n) := by
  refine ⟨?_, ?_, ?_⟩
  · intro p1 h1 p2 h2 e
    obtain ⟨q1, hq1, rfl⟩ := mem_step s n p1 h1
    obtain ⟨q2, hq2, rfl⟩ := mem_step s n p2 h2
    rw [step_fst, step_fst] at e
    rw [h.uniq q1 hq1 q2 hq2 e]
  · intro ed hed p' hp' eq' heq' hl
    obtain ⟨p, hp, rfl⟩ := mem_step s n p' hp'
    obtain ⟨eq, hpe, hor⟩ := step_snd n p eq' heq'
    cases hor with
    | inl e => rw [e]; rw [e] at hl; exact h.edges ed hed p hp eq hpe hl
    | inr e =>
      rw [e, substEq, varRefs_subst]
      rw [e] at hl
      exact h.edges ed hed p hp eq hpe hl
  · intro p' hp' eq' heq' q hq
    obtain ⟨p, hp, rfl⟩ := mem_step s n p' hp'
    obtain ⟨eq, hpe, hor⟩ := step_snd n p eq' heq'
    cases hor with
    | inl e => rw [e] at hq; exact h.floats p hp eq hpe q hq
    | inr e => rw [e] at hq; exact absurd hq (not_qty_mem_subst eq.rhs q)

theorem step_nodeIds (s : NGraph) (n : Nat) : (step s n).nodeIds = s.nodeIds := by
  unfold step NGraph.nodeIds
  simp only [List.map_map]
  apply List.map_congr_left
  intro p _
  exact step_fst n p

theorem step_edges (s : NGraph) (n : Nat) : (step s n).edges = s.edges := rfl

/-- **one round of the generated loop** on a good graph: `step` -/
theorem gnBody_eq (s : NGraph) (n : Nat) (h : Good s) (hn : n ∈ s.nodeIds) :
    gnBody n s = .ok (.yield (step s n)) := by
  -- the node with that id
  obtain ⟨p0, hp0, e0⟩ := List.mem_map.1 hn
  have hfind : s.nodes.find? (fun p => p.1 == n) = some p0 := by
    cases hf : s.nodes.find? (fun p => p.1 == n) with
    | none =>
      have := List.find?_eq_none.1 hf p0 hp0
      simp [e0] at this
    | some p1 =>
      have h1 := List.mem_of_find?_eq_some hf
      have h2 := List.find?_some hf
      have : p1.1 = n := by simpa using h2
      rw [h.uniq p1 h1 p0 hp0 (by rw [this, e0])]
  have hall : ∀ p ∈ s.nodes, p.1 = n → p = p0 := fun p hp e => h.uniq p hp p0 hp0 (by rw [e, e0])
  unfold gnBody nodeEquation
  rw [hfind]
  simp only [bind_ok]
  cases hp2 : p0.2 with
  | none =>
    simp only [Option.isNone_none, if_true]
    rw [step_of_fixed]
    intro p hp e
    rw [hall p hp e]
    obtain ⟨a, b⟩ := p0
    simp only at hp2
    rw [hp2]; rfl
  | some eq =>
    have hth : theEq (some eq) = eq := rfl
    rw [hth]
    simp only [Option.isNone_some, Bool.false_eq_true, if_false]
    have hfl : ∀ q ∈ quantityAtoms eq.rhs, ∃ b, q._value = some (.flt b) :=
      fun q hq => h.floats p0 hp0 eq hp2 q ((mem_quantityAtoms _ q).1 hq)
    rw [mapM_evalf _ hfl]
    simp only [bind_ok, dictOf_truthy, List.isEmpty_map]
    by_cases hat : quantityAtoms eq.rhs = []
    · simp only [hat, List.isEmpty_nil, Bool.not_true, Bool.false_eq_true, if_false]
      rw [step_of_fixed]
      intro p hp e
      rw [hall p hp e]
      obtain ⟨a, b⟩ := p0
      simp only at hp2
      rw [hp2]
      simp only [substNode, Option.map_some, substEq, substExpr_noq eq.rhs hat]
    · have hne : (quantityAtoms eq.rhs).isEmpty = false := by
        cases hc : quantityAtoms eq.rhs with
        | nil => exact absurd hc hat
        | cons _ _ => rfl
      simp only [hne, Bool.not_false, if_true, xreplaceQ_eq, varRefs_subst]
      rw [forIn_noop]
      · simp only [bind_ok]
        congr 2
        unfold setEquation step
        congr 1
        apply List.map_congr_left
        intro p hp
        by_cases e : p.1 = n
        · have := hall p hp e
          subst this
          simp only [e, beq_self_eq_true, if_true, substNode, hp2, Option.map_some, substEq]
        · simp [e]
      · intro ed hed
        unfold inEdges at hed
        rw [List.mem_filter] at hed
        have hl : eq.lhs = ed.2 := by
          have := hed.2
          simp only [beq_iff_eq] at this
          exact this.symm
        have := h.edges ed hed.1 p0 hp0 eq hp2 hl
        have hin : Py.isIn ed.1 (varRefs eq.rhs) = true := by
          unfold Py.isIn
          exact List.contains_iff_mem.2 this
        simp only [hin, Bool.not_true, Bool.false_eq_true, if_false]

/-- the whole loop -/
theorem loop_eq : ∀ (l : List Nat) (s : NGraph), Good s → (∀ n ∈ l, n ∈ s.nodeIds) →
    forIn l s gnBody = .ok (l.foldl step s)
  | [], s, _, _ => rfl
  | n :: l, s, h, hl => by
    rw [List.forIn_cons, gnBody_eq s n h (hl n List.mem_cons_self)]
    simp only [bind, Except.bind, List.foldl_cons]
    exact loop_eq l (step s n) (step_good s n h)
      (fun k hk => by rw [step_nodeIds]; exact hl k (List.mem_cons_of_mem _ hk))

theorem foldl_step_nodes : ∀ (l : List Nat) (s : NGraph),
    (l.foldl step s).nodes = s.nodes.map (fun p => if l.contains p.1 then substNode p else p) ∧
    (l.foldl step s).edges = s.edges
  | [], s => by simp
  | n :: l, s => by
    rw [List.foldl_cons]
    obtain ⟨h1, h2⟩ := foldl_step_nodes l (step s n)
    refine ⟨?_, by rw [h2]; rfl⟩
    rw [h1]
    unfold step
    simp only [List.map_map]
    apply List.map_congr_left
    intro p hp
    simp only [Function.comp]
    rw [step_fst]
    by_cases e : p.1 = n
    · subst e
      by_cases e2 : p.1 ∈ l
      · simp [e2, substNode_idem]
      · simp [e2]
    · have e' : ¬ n = p.1 := fun x => e x.symm
      by_cases e2 : p.1 ∈ l
      · simp [e, e', e2]
      · simp [e, e', e2]

theorem foldl_step_all (g : NGraph) : g.nodeIds.foldl step g = substGraph g := by
  obtain ⟨h1, h2⟩ := foldl_step_nodes g.nodeIds g
  have : (g.nodeIds.foldl step g).nodes = g.nodes.map substNode := by
    rw [h1]
    apply List.map_congr_left
    intro p hp
    have : p.1 ∈ g.nodeIds := List.mem_map_of_mem hp
    simp [this]
  cases hr : g.nodeIds.foldl step g with
  | mk ns es =>
    rw [hr] at this h2
    simp only at this h2
    unfold substGraph
    rw [this, h2]

/-! ## the theorem -/

/-- **`Model.graph_with_sympy_numbers` on ANY graph.** For every model whose `graph` leaf answers `g` (nodes with one
    attribute dict each, edges made from the right-hand sides, Quantities holding floats) the generated function returns
    `substGraph g` — EVERY Quantity `q` of EVERY equation replaced by `strippedNum q`, the number the generated
    `_eval_evalf` gives inside sympy's `evalf` at the generated `FLOAT_PRECISION`; node list, left-hand sides, shapes,
    other leaves, edges unchanged — and caches it. -/
theorem graphNum_all (m : NModel) (g : NGraph) (hg : m.graph = .ok g) (hu : UniqueIds g) (he : EdgesOK g)
    (hf : FloatAtoms g) : graphWithSympyNumbers m none = .ok (substGraph g, some (substGraph g)) := by
  rw [graphNum_unfold m g hg, loop_eq g.nodeIds g ⟨hu, he, hf⟩ (fun n hn => hn), foldl_step_all]
  rfl

/-- **cached**: the second call — with the cache the first one returned, on ANY model (its `graph` is not read, so
    nothing is recomputed) — returns the same graph -/
theorem graphNum_all_twice (m m' : NModel) (g : NGraph) (hg : m.graph = .ok g) (hu : UniqueIds g) (he : EdgesOK g)
    (hf : FloatAtoms g) :
    ∃ r c, graphWithSympyNumbers m none = .ok (r, c) ∧ r = substGraph g ∧
      graphWithSympyNumbers m' c = .ok (r, c) := by
  refine ⟨_, _, graphNum_all m g hg hu he hf, rfl, graphNum_cached m' _⟩

/-! ## read off per equation and per leaf -/

/-- what happened to one leaf -/
def LeafStripped (l l' : NLeaf) : Prop :=
  match l with
  | .qty q => ∃ b s, q._value = some (.flt b) ∧ l' = .num s ∧
      sympyEvalf (quantityEvalEvalf q) Cellml.Gen.floatPrecision = .ok s ∧
      floatOfSNum s = strippedValue (quantityValue b)
  | l => l' = l

/-- the equation of a node after the stage: same left-hand side, same shape, same number of leaves -/
theorem substGraph_node (g : NGraph) (hu : UniqueIds g) (n : Nat) (oe : Option NEq) (hp : (n, oe) ∈ g.nodes) :
    nodeEquation (substGraph g) n = .ok (oe.map substEq) := by
  unfold nodeEquation substGraph
  simp only [List.find?_map]
  have hfind : g.nodes.find? ((fun p => p.1 == n) ∘ substNode) = some (n, oe) := by
    cases hf : g.nodes.find? ((fun p => p.1 == n) ∘ substNode) with
    | none =>
      have := List.find?_eq_none.1 hf (n, oe) hp
      simp [substNode] at this
    | some p1 =>
      have h1 := List.mem_of_find?_eq_some hf
      have h2 := List.find?_some hf
      have : p1.1 = n := by simpa [substNode] using h2
      rw [hu p1 h1 (n, oe) hp this]
  rw [hfind]
  rfl

/-- **every number of every equation**: in the graph the generated function returns, the equation of node `n` has the
    left-hand side and the shape it had, and leaf for leaf: a Quantity holding the double `b` has become a number `s`
    with `q.evalf(FLOAT_PRECISION) = s` (generated code) and `float(s) = C14.strippedValue (C14.quantityValue b)`;
    every other leaf is what it was. -/
theorem graphNum_all_leaf (m : NModel) (g : NGraph) (hg : m.graph = .ok g) (hu : UniqueIds g) (he : EdgesOK g)
    (hf : FloatAtoms g) (n : Nat) (eq : NEq) (hp : (n, some eq) ∈ g.nodes) :
    ∃ r c eq', graphWithSympyNumbers m none = .ok (r, c) ∧ c = some r ∧ r.nodeIds = g.nodeIds ∧ r.edges = g.edges ∧
      nodeEquation r n = .ok (some eq') ∧ eq'.lhs = eq.lhs ∧ eq'.rhs.shape = eq.rhs.shape ∧
      eq'.rhs.leaves.length = eq.rhs.leaves.length ∧
      ∀ i (hi : i < eq.rhs.leaves.length) (hi' : i < eq'.rhs.leaves.length),
        LeafStripped (eq.rhs.leaves[i]) (eq'.rhs.leaves[i]) := by
  refine ⟨_, _, substEq eq, graphNum_all m g hg hu he hf, rfl, ?_, rfl, substGraph_node g hu n _ hp, rfl, rfl, ?_, ?_⟩
  · unfold substGraph NGraph.nodeIds
    simp only [List.map_map]
    apply List.map_congr_left
    intro p _; rfl
  · simp only [substEq, substExpr, List.length_map]
  · intro i hi hi'
    simp only [substEq, substExpr, List.getElem_map]
    have hmem : eq.rhs.leaves[i] ∈ eq.rhs.leaves := List.getElem_mem hi
    cases hl : eq.rhs.leaves[i] with
    | qty q =>
      rw [hl] at hmem
      obtain ⟨b, hb⟩ := hf (n, some eq) hp eq rfl q hmem
      exact ⟨b, strippedNum q, hb, rfl, (strippedNum_spec q b hb).1, (strippedNum_spec q b hb).2⟩
    | num s => rfl
    | var v => rfl
    | deriv v => rfl

/-- `graphNum_single` is the instance "one node, one leaf" -/
example (x : Nat) (q : QObj) (b : Nat) (hq : q._value = some (.flt b)) :
    UniqueIds (graph1 x q) ∧ EdgesOK (graph1 x q) ∧ FloatAtoms (graph1 x q) := by
  refine ⟨?_, ?_, ?_⟩
  · intro p hp p' hp' _
    simp only [graph1, List.mem_singleton] at hp hp'
    rw [hp, hp']
  · intro ed hed; cases hed
  · intro p hp eq he q' hq'
    simp only [graph1, List.mem_singleton] at hp
    subst hp
    simp only [Option.some.injEq] at he
    subst he
    simp only [List.mem_singleton, NLeaf.qty.injEq] at hq'
    subst hq'
    exact ⟨b, hq⟩

end Cellml.Tie.PNumPipe
