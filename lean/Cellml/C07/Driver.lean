import Cellml.Units.Wire
import Cellml.Units.Conv

/-! Channel C07:
    `(C07 (stores (0 new) (1 share 0) ...) (defs d...) (queries q...))` → `((defs r...) (queries r...))`. -/
namespace C07
open Sexp Units Units.Wire

def uerr : UErr → Sexp
  | .dimensionality => .list [.atom "err", .atom "DimensionalityError"]
  | .undefinedUnit => .list [.atom "err", .atom "UndefinedUnitError"]
  | .valueError => .list [.atom "err", .atom "ValueError"]
  | .other w => .list [.atom "err", .atom "Other", .str w]

def two (w : World) (a b : Sexp) : Except Sexp (Registry × Container × Container) :=
  match unitExpr? w a, unitExpr? w b with
  | .ok (ra, ca), .ok (rb, cb) =>
      if ra != rb then .error (.list [.atom "err", .atom "CrossRegistry"])
      else match w.regs[ra]? with
        | some reg => .ok (reg, ca, cb)
        | none => .error (.atom "bad-store")
  | .error "different-registries", _ | _, .error "different-registries" => .error (.list [.atom "err", .atom "CrossRegistry"])
  | .error e, _ => .error (.list [.atom "err", .atom e])
  | _, .error e => .error (.list [.atom "err", .atom e])

def query (w : World) : Sexp → Sexp
  | .list [.atom "factor", a, b] =>
      match two w a b with
      | .error e => e
      | .ok (reg, ca, cb) =>
          match conversionFactor reg ca cb with
          | .ok none => .list [.atom "ok", .atom "one"]
          | .ok (some f) => .list [.atom "ok", ofScale f]
          | .error e => uerr e
  | .list [.atom "convert", _, a, b] =>
      match two w a b with
      | .error e => e
      | .ok (reg, ca, cb) =>
          match convert reg ca cb with
          | .ok (f, u) => .list [.atom "ok", ofScale f, ofScale (toRoot reg u).1, ofContainer "root" (toRoot reg u).2]
          | .error e => uerr e
  | .list [.atom "equiv", a, b] =>
      match two w a b with
      | .error e => e
      | .ok (reg, ca, cb) => .list [.atom "ok", ofBool (isEquivalent reg ca cb)]
  | .list [.atom "root", a] =>
      match unitExpr? w a with
      | .ok (ri, c) =>
          match w.regs[ri]? with
          | some reg => .list [.atom "ok", ofScale (toRoot reg c).1, ofContainer "root" (toRoot reg c).2,
                              ofContainer "dims" (dimsOf reg c)]
          | none => .atom "bad-store"
      | .error e => .list [.atom "err", .atom e]
  | _ => .atom "bad-query"

def handle (args : List Sexp) : Sexp :=
  match args with
  | [.list (.atom "stores" :: ss), .list (.atom "defs" :: ds), .list (.atom "queries" :: qs)] =>
      let w0 := mkWorld ss
      let (w, rs) := applyDefs w0 ds
      .list [.list (.atom "defs" :: rs), .list (.atom "queries" :: qs.map (query w))]
  | _ => .atom "bad-request"

end C07
