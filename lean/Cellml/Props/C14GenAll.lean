import Cellml.Props.C14Gen
import Cellml.Tie.NumPipeAll

set_option linter.unusedSimpArgs false
set_option linter.unusedVariables false

/-! # C14 — the unit-stripped equations of a WHOLE model (generated `graph_with_sympy_numbers`, any graph)

    `Props/C14Gen.lean` section 6 observes the model of ONE literal. Here: any model — any number of equations, each
    with any number of numbers, in any expression. `Tie/NumPipeAll.lean` (`graphNum_all`) says what the generated
    `Model.graph_with_sympy_numbers` returns for it; this file restates it in C14's vocabulary:

    * `stripped_all`        — every Quantity (holding the double `b`) at position `i` of the right-hand side of the
                              equation of ANY node is, in the returned graph, a number whose `float()` is
                              `C14.strippedValue (C14.quantityValue b)`;
    * `stripped_all_id`     — hence (`widen_narrow_id`) `b` itself, bit for bit, for every finite non-zero double, and
                              the generated `_print_Float` prints `str(b)`;
    * `stripped_all_zero`   — `+0.0` stays `+0.0`; `stripped_all_negzero`: `-0.0` comes out as `+0.0` (the known finding
                              `negative-zero-sign-lost`, now for every equation of every model);
    * `stripped_all_created`— the same with the hypothesis on the generated code only: the Quantities are whatever the
                              generated `create_quantity` returned for doubles the generated `_cn_handler` returned. -/

namespace Cellml.Props.C14GenAll
open _root_.C14 Cellml.Tie Cellml.Tie.PNumPipe Cellml.Gen Cellml.Gen.NumPipe

/-- **every number of every equation, C14's stage function.** `m` any model, `g` what its `graph` leaf answers
    (`UniqueIds`, `EdgesOK`, `FloatAtoms`: see `Tie/NumPipeAll.lean`), `(n, eq)` any node with an equation, `i` any
    position of its right-hand side holding a Quantity `q` that stores the double `b`: the generated
    `graph_with_sympy_numbers` returns a graph (and caches it) in which that position of that equation holds a number
    `s` = `q.evalf(FLOAT_PRECISION)` with `float(s) = C14.strippedValue (C14.quantityValue b)`. -/
theorem stripped_all (m : NModel) (g : NGraph) (hg : m.graph = .ok g) (hu : UniqueIds g) (he : EdgesOK g)
    (hf : FloatAtoms g) (n : Nat) (eq : NEq) (hp : (n, some eq) ∈ g.nodes) (i : Nat) (q : QObj) (b : Nat)
    (hl : eq.rhs.leaves[i]? = some (.qty q)) (hq : q._value = some (.flt b)) :
    ∃ r eq' s, graphWithSympyNumbers m none = .ok (r, some r) ∧ nodeEquation r n = .ok (some eq') ∧
      eq'.lhs = eq.lhs ∧ eq'.rhs.leaves[i]? = some (.num s) ∧
      sympyEvalf (quantityEvalEvalf q) Cellml.Gen.floatPrecision = .ok s ∧
      floatOfSNum s = strippedValue (quantityValue b) := by
  obtain ⟨r, c, eq', hrun, hc, _, _, hne, hlhs, _, hlen, hleaf⟩ := graphNum_all_leaf m g hg hu he hf n eq hp
  obtain ⟨hi, hli⟩ := List.getElem?_eq_some_iff.1 hl
  have hi' : i < eq'.rhs.leaves.length := by rw [hlen]; exact hi
  have := hleaf i hi hi'
  rw [hli] at this
  obtain ⟨b', s, hb', hs, hev, hfl⟩ := this
  have : b' = b := by rw [hq] at hb'; injection hb' with hb'; injection hb' with hb'; exact hb'.symm
  subst this
  subst hc
  exact ⟨r, eq', s, hrun, hne, hlhs, by rw [List.getElem?_eq_getElem hi', hs], hev, hfl⟩

/-- **… hence the double itself** (`widen_narrow_id`): for a finite non-zero double the number in the stripped equation
    reads back as `b`, bit for bit, and the generated `_print_Float` emits `str(b)` -/
theorem stripped_all_id (v : PView) (m : NModel) (g : NGraph) (hg : m.graph = .ok g) (hu : UniqueIds g)
    (he : EdgesOK g) (hf : FloatAtoms g) (n : Nat) (eq : NEq) (hp : (n, some eq) ∈ g.nodes) (i : Nat) (q : QObj)
    (b : Nat) (hl : eq.rhs.leaves[i]? = some (.qty q)) (hq : q._value = some (.flt b))
    (hb : b < 2 ^ 64) (hfin : isFiniteBits b = true) (hnz : magOf b ≠ 0) :
    ∃ r eq' s, graphWithSympyNumbers m none = .ok (r, some r) ∧ nodeEquation r n = .ok (some eq') ∧
      eq'.rhs.leaves[i]? = some (.num s) ∧ floatOfSNum s = b ∧ printFloatS v s = .ok (v.reprF b) := by
  obtain ⟨r, eq', s, hrun, hne, _, hli, _, hfl⟩ := stripped_all m g hg hu he hf n eq hp i q b hl hq
  have : floatOfSNum s = b := by
    rw [hfl]; exact Cellml.Props.C14.widen_narrow_id b hb hfin hnz
  exact ⟨r, eq', s, hrun, hne, hli, this, by rw [printFloatS_tie, this]⟩

/-- `+0.0` stays `+0.0` … -/
theorem stripped_all_zero (m : NModel) (g : NGraph) (hg : m.graph = .ok g) (hu : UniqueIds g)
    (he : EdgesOK g) (hf : FloatAtoms g) (n : Nat) (eq : NEq) (hp : (n, some eq) ∈ g.nodes) (i : Nat) (q : QObj)
    (hl : eq.rhs.leaves[i]? = some (.qty q)) (hq : q._value = some (.flt 0)) :
    ∃ r eq' s, graphWithSympyNumbers m none = .ok (r, some r) ∧ nodeEquation r n = .ok (some eq') ∧
      eq'.rhs.leaves[i]? = some (.num s) ∧ floatOfSNum s = 0 := by
  obtain ⟨r, eq', s, hrun, hne, _, hli, _, hfl⟩ := stripped_all m g hg hu he hf n eq hp i q 0 hl hq
  exact ⟨r, eq', s, hrun, hne, hli, by rw [hfl]; decide +kernel⟩

/-- … and `-0.0` loses its sign in every equation of every model (known finding `negative-zero-sign-lost`) -/
theorem stripped_all_negzero (m : NModel) (g : NGraph) (hg : m.graph = .ok g) (hu : UniqueIds g)
    (he : EdgesOK g) (hf : FloatAtoms g) (n : Nat) (eq : NEq) (hp : (n, some eq) ∈ g.nodes) (i : Nat) (q : QObj)
    (hl : eq.rhs.leaves[i]? = some (.qty q)) (hq : q._value = some (.flt signBit)) :
    ∃ r eq' s, graphWithSympyNumbers m none = .ok (r, some r) ∧ nodeEquation r n = .ok (some eq') ∧
      eq'.rhs.leaves[i]? = some (.num s) ∧ floatOfSNum s = 0 := by
  obtain ⟨r, eq', s, hrun, hne, _, hli, _, hfl⟩ := stripped_all m g hg hu he hf n eq hp i q signBit hl hq
  exact ⟨r, eq', s, hrun, hne, hli, by rw [hfl]; decide +kernel⟩

/-- a graph whose Quantities all came out of the generated `create_quantity` called with doubles (what the parser's
    number generator and `transform_constants` do) -/
def CreatedAtoms (v : PView) (g : NGraph) : Prop :=
  ∀ p ∈ g.nodes, ∀ eq, p.2 = some eq → ∀ q, NLeaf.qty q ∈ eq.rhs.leaves →
    ∃ v' b u, createQuantity v' (.flt b) u = .ok q

theorem floatAtoms_of_created (v : PView) (g : NGraph) (h : CreatedAtoms v g) : FloatAtoms g := by
  intro p hp eq he q hq
  obtain ⟨v', b, u, hc⟩ := h p hp eq he q hq
  exact ⟨b, createQuantity_value _ _ _ _ hc⟩

/-- **loaded models**: the `<cn>` element `cn` was read by the generated `_cn_handler` (`genCn`) to the double `b`, the
    generated `create_quantity` made `q` of it, and `q` stands at position `i` of some equation of a graph all of whose
    Quantities were made that way: in the stripped graph that position holds `b` — if it is finite and not a zero —
    with NO further hypothesis on `b` (`genCn_lt`). -/
theorem stripped_all_created (v : PView) (m : NModel) (g : NGraph) (hg : m.graph = .ok g) (hu : UniqueIds g)
    (he : EdgesOK g) (hc : CreatedAtoms v g) (n : Nat) (eq : NEq) (hp : (n, some eq) ∈ g.nodes) (i : Nat)
    (cn : PTranspile.CnNode) (b : Nat) (u : UArg) (q : QObj) (hcn : C14Gen.genCn cn = .ok b)
    (hmk : createQuantity v (.flt b) u = .ok q) (hl : eq.rhs.leaves[i]? = some (.qty q))
    (hfin : isFiniteBits b = true) (hnz : magOf b ≠ 0) :
    ∃ r eq' s, graphWithSympyNumbers m none = .ok (r, some r) ∧ nodeEquation r n = .ok (some eq') ∧
      eq'.rhs.leaves[i]? = some (.num s) ∧ floatOfSNum s = b ∧ printFloatS v s = .ok (v.reprF b) :=
  stripped_all_id v m g hg hu he (floatAtoms_of_created v g hc) n eq hp i q b hl
    (createQuantity_value _ _ _ _ hmk) (C14Gen.genCn_lt cn b hcn) hfin hnz

/-- non-vacuity: two equations, three numbers, a shared variable, an edge:
    `x1 = q1 * x2 + q2` (node 1), `x2 = q3` (node 2), edge 2 → 1 -/
example (q1 q2 q3 : QObj) (b1 b2 b3 : Nat) (h1 : q1._value = some (.flt b1)) (h2 : q2._value = some (.flt b2))
    (h3 : q3._value = some (.flt b3)) (m : NModel)
    (hg : m.graph = .ok ⟨[(1, some ⟨1, ⟨7, [.qty q1, .var 2, .qty q2]⟩⟩), (2, some ⟨2, ⟨0, [.qty q3]⟩⟩)], [(2, 1)]⟩) :
    graphWithSympyNumbers m none =
      .ok (⟨[(1, some ⟨1, ⟨7, [.num (strippedNum q1), .var 2, .num (strippedNum q2)]⟩⟩),
              (2, some ⟨2, ⟨0, [.num (strippedNum q3)]⟩⟩)], [(2, 1)]⟩,
           some ⟨[(1, some ⟨1, ⟨7, [.num (strippedNum q1), .var 2, .num (strippedNum q2)]⟩⟩),
              (2, some ⟨2, ⟨0, [.num (strippedNum q3)]⟩⟩)], [(2, 1)]⟩) := by
  refine graphNum_all m _ hg (UniqueIds.of_nodup _ (by simp [NGraph.nodeIds])) ?_ ?_
  · intro ed hed p hp eq hpe hl
    simp only [List.mem_singleton] at hed
    subst hed
    simp only [List.mem_cons, List.mem_singleton, List.not_mem_nil, or_false] at hp
    cases hp with
    | inl hp => subst hp; simp only [Option.some.injEq] at hpe; subst hpe; simp [varRefs]
    | inr hp => subst hp; simp only [Option.some.injEq] at hpe; subst hpe; simp at hl
  · intro p hp eq hpe q hq
    simp only [List.mem_cons, List.mem_singleton, List.not_mem_nil, or_false] at hp
    cases hp with
    | inl hp =>
      subst hp; simp only [Option.some.injEq] at hpe; subst hpe
      simp only [List.mem_cons, NLeaf.qty.injEq, List.not_mem_nil, or_false, reduceCtorEq, false_or] at hq
      cases hq with
      | inl hq => subst hq; exact ⟨_, h1⟩
      | inr hq => subst hq; exact ⟨_, h2⟩
    | inr hp =>
      subst hp; simp only [Option.some.injEq] at hpe; subst hpe
      simp only [List.mem_singleton, NLeaf.qty.injEq] at hq
      subst hq; exact ⟨_, h3⟩

end Cellml.Props.C14GenAll
