#!/venv/bin/python
"""Probe for the RdfQ tie (notes/reports/TIE5_RdfQ.md): the model functions of lean/Cellml/Model/RdfQ.lean, Model/Cmeta.lean
(`termsOf`, `addRdf`) and the view function `PCmeta.createRdfNode`, re-written in python below LINE BY LINE from the Lean
text, against the real cellmlmanip on concrete inputs. A Model is built through the public API, rdf is added with
`add_rdf` / `rdf.add`, and the answers are compared (lists as multisets: rdflib's order is unspecified).

run: /venv/bin/python notes/tie5_rdfq_probe.py      (exit status 0 = every comparison agrees)"""
import sys
from collections import Counter

import rdflib
from lxml import etree

from cellmlmanip.model import Model, Variable
from cellmlmanip.parser import Parser, XmlNs, with_ns
from cellmlmanip.rdf import create_rdf_node

BQ = 'http://biomodels.net/biology-qualifiers/'
BQ_IS = BQ + 'is'
OX = 'https://chaste.comlab.ox.ac.uk/cellml/ns/oxford-metadata#'
fails = []
count = [0]


def check(label, got, want):
    count[0] += 1
    if got != want:
        fails.append(label)
        print('DISAGREE', label, '\n   code :', got, '\n   model:', want)


# ---------------------------------------------------------------------------------------------- the Lean model, in python
# RdfArg: None | ('node', RNode) | ('pair', ns, loc) | ('str', s);  RNode: ('uri', s) | ('lit', s);  Triple: (subj id, pred, RNode)
def to_arg(x):
    if x is None:
        return None
    if isinstance(x, rdflib.term.Node):
        return ('node', to_rnode(x))
    if isinstance(x, tuple):
        return ('pair', x[0], x[1])
    return ('str', x)


def to_rnode(n):
    return ('uri', str(n)) if isinstance(n, rdflib.URIRef) else ('lit', str(n))


def m_create(x):                       # PCmeta.createRdfNode (CmetaView.lean), tied by createRdfNode_tie
    if x is None:
        return None
    if x[0] == 'node':
        return x
    if x[0] == 'pair':
        ns, loc = x[1], x[2]
        if not ns[-1:] == '#' and not ns[-1:] == '/':
            return ('node', ('uri', ns + '#' + loc))
        return ('node', ('uri', ns + loc))
    s = x[1]
    return ('node', ('uri', s)) if s[:1] == '#' else ('node', ('lit', s))


def pat_of(x):                         # Tie/RdfQ.lean patOf
    r = m_create(x)
    return r[1] if r is not None and r[0] == 'node' else None


def pat_matches(pat, n):
    return pat is None or n == pat


def m_annotations(rdf, s, p, o):       # Model.RdfQ.annotations
    return [t for t in rdf if pat_matches(s, ('uri', '#' + t[0])) and pat_matches(p, ('uri', t[1])) and pat_matches(o, t[2])]


def m_strip(s):                        # Model.RdfQ.strip: Char.isWhitespace = space \t \r \n
    ws = ' \t\r\n'
    while s and s[0] in ws:
        s = s[1:]
    while s and s[-1] in ws:
        s = s[:-1]
    return s


def m_rdf_value(rdf, s, p):            # Model.RdfQ.rdfValue
    ts = m_annotations(rdf, s, p, None)
    if len(ts) == 1 and ts[0][2][0] == 'lit':
        return ('ok', m_strip(ts[0][2][1]))
    return ('error', 'AssertionError')


def m_local_name(s):                   # Model.localName / afterHash
    acc = s
    for i, c in enumerate(s):
        if c == '#':
            acc = s[i + 1:]
    return acc


def m_terms(rdf, cmeta, ns):           # Model.termsOf
    if cmeta is None:
        return []
    return [m_local_name(t[2][1]) for t in rdf
            if t[0] == cmeta and t[1] == BQ_IS and (ns is None or t[2][1].startswith(ns))]


def m_set_cmeta(c):                    # Model.RdfQ.setCmetaId
    return (c, None if c is None else ('uri', '#' + c))


def graph_triples(model):
    """the hand model's view of the graph: triples whose subject is a local resource `#id`"""
    out = []
    for s, p, o in model.rdf:
        assert isinstance(s, rdflib.URIRef) and str(s).startswith('#'), s
        out.append((str(s)[1:], str(p), to_rnode(o)))
    return out


def run(f, *a):
    try:
        return ('ok', f(*a))
    except Exception as e:          # noqa
        return ('error', type(e).__name__)


# ---------------------------------------------------------------------------------------------- 1. create_rdf_node
for x in [None, rdflib.URIRef('#a'), rdflib.URIRef('http://x/y'), rdflib.Literal('z'), rdflib.Literal('#z'),
          (OX, 'membrane_voltage'), ('http://x/y/', 'l'), ('http://x/y', 'l'), ('', 'l'), ('#', ''), '#v', '#', '', 'plain',
          ' #notfirst', 'a#b']:
    got = create_rdf_node(x)
    check('create_rdf_node(%r)' % (x,), to_arg(got), m_create(to_arg(x)))
    if type(x) is str and x.startswith('#'):
        check('create_rdf_node(%r) is URIRef' % x, isinstance(got, rdflib.URIRef) and not isinstance(got, rdflib.Literal), True)

# ---------------------------------------------------------------------------------------------- a model through the API
m = Model('probe', cmeta_id='mid')
u = 'dimensionless'
va = m.add_variable('c$a', u, cmeta_id='a')
vb = m.add_variable('c$b', u, cmeta_id='b')
vn = m.add_variable('c$n', u)                    # no cmeta id
vc = m.add_variable('c$c', u, cmeta_id='c')      # an id without annotations
RDFXML = '''<rdf:RDF xmlns:rdf="http://www.w3.org/1999/02/22-rdf-syntax-ns#" xmlns:bqbiol="%s" xmlns:dc="http://purl.org/dc/elements/1.1/">
  <rdf:Description rdf:about="#a">
    <bqbiol:is rdf:resource="%smembrane_voltage"/>
    <bqbiol:is rdf:resource="http://other.org/ns#x#y"/>
    <bqbiol:is rdf:resource="http://nohash.org/term"/>
    <bqbiol:isVersionOf rdf:resource="%sother"/>
    <dc:description>  the voltage
 </dc:description>
  </rdf:Description>
  <rdf:Description rdf:about="#b">
    <bqbiol:is rdf:resource="%stime"/>
    <dc:description>one</dc:description>
    <dc:title>t1</dc:title>
    <dc:title>t2</dc:title>
  </rdf:Description>
  <rdf:Description rdf:about="#mid"><dc:description>the model</dc:description></rdf:Description>
</rdf:RDF>''' % (BQ, OX, OX, OX)
before = graph_triples(m)
m.add_rdf(RDFXML)
rdf = graph_triples(m)
check('add_rdf adds 10 triples to the empty graph', (len(before), len(rdf)), (0, 10))
m.add_rdf(RDFXML)                                 # a graph is a set: Model.addRdf adds nothing the second time
check('add_rdf twice: set semantics', Counter(graph_triples(m)), Counter(rdf))
r = run(m.add_rdf, '<rdf:RDF xmlns:rdf="http://www.w3.org/1999/02/22-rdf-syntax-ns#"><rdf:Description')
check('add_rdf malformed raises, graph untouched', (r[0], Counter(graph_triples(m))), ('error', Counter(rdf)))
print('   (malformed RDF/XML raises %s; the view calls it SAXParseException)' % r[1])

# ---------------------------------------------------------------------------------------------- 2/3. terms, has_annotation
for v in (va, vb, vn, vc):
    for ns in (None, OX, 'http://other.org/', 'http://nomatch/', '', 'http'):
        got = m.get_ontology_terms_by_variable(v, ns)
        want = m_terms(rdf, v.cmeta_id, ns)
        check('terms(%s, %r)' % (v.name, ns), Counter(got), Counter(want))
        check('has_ontology_annotation(%s, %r)' % (v.name, ns), m.has_ontology_annotation(v, ns), len(want) != 0)
check('terms of a variable without id', m.get_ontology_terms_by_variable(vn), [])
# consistency with get_variable_by_ontology_term
for term in [(OX, 'membrane_voltage'), (OX, 'time'), rdflib.URIRef('http://nohash.org/term')]:
    w = m.get_variable_by_ontology_term(term)
    t = str(create_rdf_node(term))
    check('round trip %r' % (term,), m_local_name(t) in m.get_ontology_terms_by_variable(w), True)

# ---------------------------------------------------------------------------------------------- 4. get_rdf_annotations
DC = 'http://purl.org/dc/elements/1.1/'
for s, p, o in [(None, None, None), ('#a', None, None), ('#a', (BQ, 'is'), None), (None, (BQ, 'is'), (OX, 'time')),
                (None, (DC, 'title'), 't1'), (None, None, 'one'), ('a', None, None), ('#zz', None, None),
                (rdflib.URIRef('#b'), rdflib.URIRef(DC + 'title'), rdflib.Literal('t2')), ((BQ, 'is'), None, None),
                (None, ('http://biomodels.net/biology-qualifiers', 'is'), None), ('#mid', None, None)]:
    got = [(str(a)[1:], str(b), to_rnode(c)) for a, b, c in m.get_rdf_annotations(s, p, o)]
    want = m_annotations(rdf, pat_of(to_arg(s)), pat_of(to_arg(p)), pat_of(to_arg(o)))
    check('get_rdf_annotations(%r, %r, %r)' % (s, p, o), Counter(got), Counter(want))

# ---------------------------------------------------------------------------------------------- 5. get_rdf_value
for s, p in [('#a', (DC, 'description')), ('#b', (DC, 'description')), ('#b', (DC, 'title')), ('#c', (DC, 'description')),
             ('#a', (BQ, 'isVersionOf')), ('#mid', (DC, 'description')), (None, (DC, 'description')), ('#b', None),
             (None, (BQ, 'isVersionOf'))]:
    check('get_rdf_value(%r, %r)' % (s, p), run(m.get_rdf_value, s, p), m_rdf_value(rdf, pat_of(to_arg(s)), pat_of(to_arg(p))))

# ---------------------------------------------------------------------------------------------- 6. Variable._set_cmeta_id / rdf_identity
for c in ['x', 'a b', '', None, 'mid']:
    vn._set_cmeta_id(c)
    ident = vn.rdf_identity
    check('_set_cmeta_id(%r)' % (c,), (vn._cmeta_id, None if ident is None else to_rnode(ident)), m_set_cmeta(c))
vn._set_cmeta_id(None)
for v in (va, vb, vc):
    check('rdf_identity of %s' % v.name, to_rnode(v.rdf_identity), m_set_cmeta(v.cmeta_id)[1])

# ---------------------------------------------------------------------------------------------- 7. with_ns, Parser._add_rdf
check('with_ns(XmlNs.RDF, "RDF")', with_ns(XmlNs.RDF, 'RDF'), '{http://www.w3.org/1999/02/22-rdf-syntax-ns#}RDF')
BLOCK = ('<rdf:RDF xmlns:rdf="http://www.w3.org/1999/02/22-rdf-syntax-ns#" xmlns:bqbiol="%s"><rdf:Description rdf:about="#%%s">'
         '<bqbiol:is rdf:resource="%s%%s"/></rdf:Description></rdf:RDF>' % (BQ, OX))
DOC = ('<model xmlns="http://www.cellml.org/cellml/1.0#" name="d">%s<component name="c">%s<variable name="v" units="dimensionless">%s'
       '</variable></component>%s</model>' % (BLOCK % ('a', 't1'), BLOCK % ('b', 't2'), BLOCK % ('a', 't3'), BLOCK % ('a', 't1')))
root = etree.fromstring(DOC)
p = Parser.__new__(Parser)
p.model = Model('d')
p._add_rdf(root)
# the model: every <rdf:RDF> block at or under the element, in document order, each triple added to a set
want = []
for e in root.iter('{http://www.w3.org/1999/02/22-rdf-syntax-ns#}RDF'):
    g = rdflib.Graph()
    g.parse(data=etree.tostring(e, encoding=str), format='xml')
    for s, pp, o in g:
        t = (str(s)[1:], str(pp), to_rnode(o))
        if t not in want:
            want.append(t)
check('_add_rdf over 4 blocks (one repeated)', (Counter(graph_triples(p.model)), len(want)), (Counter(want), 3))
p2 = Parser.__new__(Parser)
p2.model = Model('d2')
p2._add_rdf(root[1])                               # only the blocks under the component
check('_add_rdf under the component', len(graph_triples(p2.model)), 2)

print('%d comparisons, %d disagreements' % (count[0], len(fails)))
sys.exit(1 if fails else 0)
