import Cellml.C17.Stages

/-! # C17 — fault classes as decidable predicates on a document, each existential over sites

    Every predicate says "SOMEWHERE in the document there is …"; nothing is assumed about the rest of the document, so a
    theorem `P doc → load refuses doc` covers the fault alone and together with any other fault.
    Predicates about interfaces are phrased with the declarations of the document (`declOf`) and the encapsulation
    parents the loader computes (`parOf`), not with the loader's variable table, so they do not depend on the units. -/

namespace C17
open Load

/-! ## declarations of the document and the loader's variable table -/

def declList (comps : List Comp) : List (VRef × VarDecl) :=
  comps.flatMap (fun c => c.vars.map (fun d => ((c.name, d.name), d)))

/-- the first `<variable>` with this (component, name) -/
def declOf (comps : List Comp) (v : VRef) : Option VarDecl := (declList comps).lookup v

theorem lookup_map_snd {A B : Type} (h : VRef → A → B) : ∀ (L : List (VRef × A)) (v : VRef),
    (L.map (fun p => (p.1, h p.1 p.2))).lookup v = (L.lookup v).map (h v)
  | [], _ => rfl
  | (k, a) :: L, v => by
      simp only [List.map_cons, List.lookup_cons]
      by_cases hv : v = k
      · subst hv; simp
      · have : (v == k) = false := by simpa using hv
        simp only [this]
        exact lookup_map_snd h L v

theorem varTable_eq (ust : Units.Store) (comps : List Comp) :
    varTable ust comps = (declList comps).map (fun p => (p.1, (entry ust p.1.1 p.2).2)) := by
  unfold varTable declList
  rw [List.map_flatMap]
  congr 1
  funext c
  simp only [List.map_map]
  rfl

theorem lookup_varTable (ust : Units.Store) (comps : List Comp) (v : VRef) :
    (varTable ust comps).lookup v = (declOf comps v).map (fun d => (entry ust v.1 d).2) := by
  rw [varTable_eq]
  exact lookup_map_snd (fun k d => (entry ust k.1 d).2) (declList comps) v

theorem lookup_varTable_some {ust : Units.Store} {comps : List Comp} {v : VRef} {i : VarInfo}
    (h : (varTable ust comps).lookup v = some i) :
    ∃ d, declOf comps v = some d ∧ i.pub = d.pub ∧ i.priv = d.priv ∧ i.init = d.init := by
  rw [lookup_varTable] at h
  cases hd : declOf comps v with
  | none => rw [hd] at h; cases h
  | some d =>
      rw [hd] at h
      simp only [Option.map_some, Option.some.injEq] at h
      subst h
      exact ⟨d, rfl, rfl, rfl, rfl⟩

theorem lookup_varTable_of_decl {ust : Units.Store} {comps : List Comp} {v : VRef} {d : VarDecl}
    (h : declOf comps v = some d) :
    ∃ i, (varTable ust comps).lookup v = some i ∧ i.pub = d.pub ∧ i.priv = d.priv := by
  rw [lookup_varTable, h]
  exact ⟨_, rfl, rfl, rfl⟩

/-! ## the stages a successful load has gone through -/

theorem loadFrom_ok_parts {reg : Registry} {ust : Units.Store} {doc : Doc} {F : Flat}
    (h : loadFrom reg ust doc = .ok F) :
    ∃ chk par dl st defined,
      checkComps ust doc.comps [] ([], doc.cmeta.toList) = .ok chk ∧
      buildParents (doc.comps.map (·.name)) doc.encaps [] [] = .ok par ∧
      directAll (doc.comps.map (·.name)) par (varTable ust doc.comps) doc.conns = .ok dl ∧
      connect reg (varTable ust doc.comps) dl = .ok st ∧
      checkMaths ust (varTable ust doc.comps) st doc.comps (st.convs.map (·.target)) = .ok defined ∧
      checkConstants (statesOf (mathsOf ust st doc.comps)) defined (varTable ust doc.comps) = .ok () := by
  unfold loadFrom at h
  split at h
  · cases h
  · rename_i L hL
    unfold prepareFrom at hL
    split at hL
    · cases hL
    · rename_i chk h1
      simp only at hL
      split at hL
      · cases hL
      · rename_i par h2
        split at hL
        · cases hL
        · rename_i dl h3
          split at hL
          · cases hL
          · rename_i st h4
            simp only [Except.ok.injEq] at hL
            subst hL
            unfold finishFrom at h
            split at h
            · cases h
            · rename_i defined h5
              split at h
              · cases h
              · rename_i h6
                exact ⟨chk, par, dl, st, defined, h1, h2, h3, h4, h5, h6⟩

/-- the encapsulation parents the loader computes (`[]` when `_add_relationships` raises) -/
def parOf (doc : Doc) : ParentMap :=
  match buildParents (doc.comps.map (·.name)) doc.encaps [] [] with
  | .ok p => p
  | .error _ => []

theorem parOf_eq {doc : Doc} {par : ParentMap}
    (h : buildParents (doc.comps.map (·.name)) doc.encaps [] [] = .ok par) : parOf doc = par := by
  unfold parOf; rw [h]

/-! ## interfaces that face each other -/

/-- the two interfaces through which the ends of a connection see each other: public/public for siblings, the parent's
    private and the child's public interface otherwise; `none` when the components are not adjacent -/
def facing (par : ParentMap) (k : Conn) (d1 d2 : VarDecl) : Option (Iface × Iface) :=
  if par.lookup k.c1 = par.lookup k.c2 then some (d1.pub, d2.pub)
  else if par.lookup k.c2 = some k.c1 then some (d1.priv, d2.pub)
  else if par.lookup k.c1 = some k.c2 then some (d1.pub, d2.priv)
  else none

/-- a connection is given a direction only if the facing interfaces are `out`/`in` or `in`/`out` -/
theorem direction_ok_facing {par : ParentMap} {ust : Units.Store} {comps : List Comp} {k : Conn} {d : VRef × VRef}
    (h : direction par (varTable ust comps) k = .ok d) :
    ∃ d1 d2, declOf comps k.end1 = some d1 ∧ declOf comps k.end2 = some d2 ∧
      ((facing par k d1 d2 = some (.out, .inn) ∧ d = (k.end1, k.end2)) ∨
       (facing par k d1 d2 = some (.inn, .out) ∧ d = (k.end2, k.end1))) := by
  unfold direction at h
  split at h
  · cases h
  · cases h
  · rename_i i1 i2 h1 h2
    obtain ⟨d1, hd1, p1, q1, _⟩ := lookup_varTable_some h1
    obtain ⟨d2, hd2, p2, q2, _⟩ := lookup_varTable_some h2
    refine ⟨d1, d2, hd1, hd2, ?_⟩
    unfold facing
    rw [p1, p2] at h
    split at h
    · rename_i hs
      rw [if_pos hs]
      split at h
      · rename_i hc
        simp only [Bool.and_eq_true, decide_eq_true_eq] at hc
        simp only [Except.ok.injEq] at h
        exact Or.inl ⟨by rw [hc.1, hc.2], h.symm⟩
      · split at h
        · rename_i hc
          simp only [Bool.and_eq_true, decide_eq_true_eq] at hc
          simp only [Except.ok.injEq] at h
          exact Or.inr ⟨by rw [hc.1, hc.2], h.symm⟩
        · cases h
    · rename_i hs
      rw [if_neg hs]
      split at h
      · rename_i hp
        rw [if_pos hp]
        unfold directionPC at h
        rw [p2, q1] at h
        split at h
        · rename_i hc
          simp only [Bool.and_eq_true, decide_eq_true_eq] at hc
          simp only [Except.ok.injEq] at h
          exact Or.inl ⟨by rw [hc.1, hc.2], h.symm⟩
        · split at h
          · rename_i hc
            simp only [Bool.and_eq_true, decide_eq_true_eq] at hc
            simp only [Except.ok.injEq] at h
            exact Or.inr ⟨by rw [hc.1, hc.2], h.symm⟩
          · cases h
      · rename_i hp
        rw [if_neg hp]
        split at h
        · rename_i hq
          rw [if_pos hq]
          unfold directionPC at h
          rw [p1, q2] at h
          split at h
          · rename_i hc
            simp only [Bool.and_eq_true, decide_eq_true_eq] at hc
            simp only [Except.ok.injEq] at h
            exact Or.inr ⟨by rw [hc.1, hc.2], h.symm⟩
          · split at h
            · rename_i hc
              simp only [Bool.and_eq_true, decide_eq_true_eq] at hc
              simp only [Except.ok.injEq] at h
              exact Or.inl ⟨by rw [hc.1, hc.2], h.symm⟩
            · cases h
        · cases h

end C17
