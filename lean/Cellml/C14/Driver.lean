import Cellml.Basic.Sexp
/-! Channel C14 of the model driver (stub: not built yet). -/
namespace C14
def handle (_args : List Sexp) : Sexp := .atom "not-implemented"
end C14
