import Cellml.Expr.Basic
import Cellml.Units.Lemmas

/-! The CellML unit rules (spec 1.0/1.1 Appendix C.3; the rule list of property C04) as a recursive function on
    SEMANTIC units. A semantic unit is a pair `(scale, root container)`: the positive real factor (prime ↦ exponent)
    and the product of ROOT units (base units) the unit stands for. Nothing here mentions pint containers of
    intermediate results, magnitudes carried along, or the order in which checks are made: only leaves are expanded
    (`Units.toRoot`), everything else is arithmetic on semantic units, compared by meaning (`PMap.beq`, which decides
    `≃` exactly: PMapCanon.beq_iff_equiv). Core Lean only. -/

set_option linter.constructorNameAsVariable false

namespace Spec
open Units

abbrev SUnit := Scale × Container

/-- the unit one: scale 1, no root unit -/
def one : SUnit := ([], [])

def mul (x y : SUnit) : SUnit := (PMap.add x.1 y.1, PMap.add x.2 y.2)
def div (x y : SUnit) : SUnit := (PMap.sub x.1 y.1, PMap.sub x.2 y.2)
def pow (q : Rat) (x : SUnit) : SUnit := (PMap.smul q x.1, PMap.smul q x.2)

/-- same scale and same root units (decides `≃₂`) -/
def same (x y : SUnit) : Bool := PMap.beq x.1 y.1 && PMap.beq x.2 y.2

/-- the unit one (decides `≃₂ one`) -/
def isOne (x : SUnit) : Bool := PMap.isZero x.1 && PMap.isZero x.2

/-- dimension zero: no root unit that carries a dimension is left (root units without a dimension, pint's `radian`,
    do not count; the scale does not matter) -/
def dimZero (reg : Registry) (x : SUnit) : Bool := PMap.isZero (dimsOfRoot reg x.2)

/-- value of a closed numeric term: literal leaves, products, sums (negation is the product with -1) -/
def constVal : E → Option Rat
  | .qty v _ => some v
  | .int n => some (n : Rat)
  | .rat q => some q
  | .flt q => some q
  | .mul a b => match constVal a, constVal b with
      | some x, some y => some (x * y)
      | _, _ => none
  | .add a b => match constVal a, constVal b with
      | some x, some y => some (x + y)
      | _, _ => none
  | _ => none

/-- The unit of an expression under the CellML rules, `none` if the expression is inconsistent or has no unit.
    * leaves carry the root form of their declared unit; plain numbers and the constants are dimensionless;
    * a product multiplies units; a derivative has the quotient unit;
    * a power needs a dimensionless exponent (unit one); with a numeric exponent `q` the unit is raised to `q`, with any
      other dimensionless exponent the base itself must have the unit one;
    * the operands of a sum and the pieces of a piecewise must have the same unit (scale included), which is the result;
      the conditions of a piecewise are not inspected;
    * abs / floor / ceiling keep the unit; every other one-argument function needs an argument of dimension zero and
      yields a dimensionless number;
    * relations, boolean terms, two-argument functions (Max, Min, Mod), an empty piecewise and anything else have no
      unit. -/
def specUnit (reg : Registry) (Γ : VarEnv) : E → Option SUnit
  | .qty _ u => some (toRoot reg u)
  | .cf _ u => some (toRoot reg u)
  | .var i => match Γ[i]? with
      | some vi => some (toRoot reg vi.unit)
      | none => none
  | .int _ | .rat _ | .flt _ | .pi | .e | .oo | .nan => some one
  | .mul a b => match specUnit reg Γ a, specUnit reg Γ b with
      | some x, some y => some (mul x y)
      | _, _ => none
  | .pow b x => match specUnit reg Γ b, specUnit reg Γ x with
      | some sb, some sx =>
          if isOne sx then
            match constVal x with
            | some q => some (pow q sb)
            | none => if isOne sb then some one else none
          else none
      | _, _ => none
  | .add a b => match specUnit reg Γ a, specUnit reg Γ b with
      | some x, some y => if same x y then some x else none
      | _, _ => none
  | .ite _ t el =>
      if el = .undef then specUnit reg Γ t
      else match specUnit reg Γ t, specUnit reg Γ el with
        | some x, some y => if same x y then some x else none
        | _, _ => none
  | .abs a => specUnit reg Γ a
  | .floor a => specUnit reg Γ a
  | .ceil a => specUnit reg Γ a
  | .fn1 _ a => match specUnit reg Γ a with
      | some x => if dimZero reg x then some one else none
      | none => none
  | .deriv v t => match Γ[v]?, Γ[t]? with
      | some vi, some ti => some (div (toRoot reg vi.unit) (toRoot reg ti.unit))
      | _, _ => none
  | .undef | .rel _ _ _ | .and _ _ | .or _ _ | .not _ | .tt | .ff | .fnN _ _ _ | .other _ => none

/-- a numeric leaf: a plain number or a dimensionless literal quantity -/
def numLeaf : E → Bool
  | .qty _ u => decide (u = [])
  | .int _ | .rat _ | .flt _ => true
  | _ => false

/-- a product of numeric leaves (`-x` is `(-1)·x`, `1/3` a rational leaf): the property's "numeric exponent" -/
def numProd : E → Bool
  | .qty _ u => decide (u = [])
  | .int _ | .rat _ | .flt _ => true
  | .mul a b => numProd a && numProd b
  | _ => false

/-- every exponent occurring in the value part of the expression is a numeric leaf or a product of numeric leaves
    (conditions of a piecewise are not looked at) -/
def SimpleExps : E → Bool
  | .pow b x => SimpleExps b && numProd x
  | .add a b | .mul a b | .fnN _ a b | .rel _ a b | .and a b | .or a b => SimpleExps a && SimpleExps b
  | .ite _ t el => SimpleExps t && SimpleExps el
  | .abs a | .floor a | .ceil a | .fn1 _ a | .not a => SimpleExps a
  | _ => true

/-- The same rules as an inductive typing relation `HasUnit reg Γ e su` ("`e` is consistent and has the unit `su`"),
    with every comparison spelled out as equality of meaning `≃₂` / `≃`. `specUnit` is its decision procedure
    (`specUnit_hasUnit`, `hasUnit_specUnit` in Props/C04.lean). -/
inductive HasUnit (reg : Registry) (Γ : VarEnv) : E → SUnit → Prop where
  | qty (v : Rat) (u : Container) : HasUnit reg Γ (.qty v u) (toRoot reg u)
  | cf (s : Scale) (u : Container) : HasUnit reg Γ (.cf s u) (toRoot reg u)
  | var (i : Nat) (vi : VarInfo) : Γ[i]? = some vi → HasUnit reg Γ (.var i) (toRoot reg vi.unit)
  | int (n : Int) : HasUnit reg Γ (.int n) one
  | rat (q : Rat) : HasUnit reg Γ (.rat q) one
  | flt (q : Rat) : HasUnit reg Γ (.flt q) one
  | pi : HasUnit reg Γ .pi one
  | e : HasUnit reg Γ .e one
  | oo : HasUnit reg Γ .oo one
  | nan : HasUnit reg Γ .nan one
  /-- product: no restriction, units multiply -/
  | mul {a b : E} {x y : SUnit} : HasUnit reg Γ a x → HasUnit reg Γ b y → HasUnit reg Γ (.mul a b) (mul x y)
  /-- power with a numeric exponent: the exponent is dimensionless, the unit is raised to its value -/
  | powNum {b x : E} {sb sx : SUnit} {q : Rat} : HasUnit reg Γ b sb → HasUnit reg Γ x sx → sx ≃₂ one →
      constVal x = some q → HasUnit reg Γ (.pow b x) (pow q sb)
  /-- power with any other dimensionless exponent: the base must be a dimensionless number -/
  | powOne {b x : E} {sb sx : SUnit} : HasUnit reg Γ b sb → HasUnit reg Γ x sx → sx ≃₂ one → sb ≃₂ one →
      constVal x = none → HasUnit reg Γ (.pow b x) one
  /-- sum: operands of the same unit -/
  | add {a b : E} {x y : SUnit} : HasUnit reg Γ a x → HasUnit reg Γ b y → x ≃₂ y → HasUnit reg Γ (.add a b) x
  /-- last piece of a piecewise (the condition is not inspected) -/
  | iteLast {c t : E} {x : SUnit} : HasUnit reg Γ t x → HasUnit reg Γ (.ite c t .undef) x
  /-- piecewise: pieces of the same unit -/
  | ite {c t el : E} {x y : SUnit} : el ≠ .undef → HasUnit reg Γ t x → HasUnit reg Γ el y → x ≃₂ y →
      HasUnit reg Γ (.ite c t el) x
  | abs {a : E} {x : SUnit} : HasUnit reg Γ a x → HasUnit reg Γ (.abs a) x
  | floor {a : E} {x : SUnit} : HasUnit reg Γ a x → HasUnit reg Γ (.floor a) x
  | ceil {a : E} {x : SUnit} : HasUnit reg Γ a x → HasUnit reg Γ (.ceil a) x
  /-- exp, log, trigonometric … functions: argument of dimension zero, dimensionless result -/
  | fn1 {f : String} {a : E} {x : SUnit} : HasUnit reg Γ a x → dimsOfRoot reg x.2 ≃ [] →
      HasUnit reg Γ (.fn1 f a) one
  /-- derivative: the quotient unit -/
  | deriv (v t : Nat) (vi ti : VarInfo) : Γ[v]? = some vi → Γ[t]? = some ti →
      HasUnit reg Γ (.deriv v t) (div (toRoot reg vi.unit) (toRoot reg ti.unit))

end Spec
