import Cellml.Iso.Lemmas
import Cellml.Props.C07

/-! # C16 — models and unit stores do not leak into one another

    Model: `Iso/Namespace.lean` — the process state `Units.Wire.World` (registries; stores `(id, known names)` each
    pointing at a registry; the store counter is the number of stores created), the operations `Iso.Op`
    (`UnitStore()` / `UnitStore(other)` / `Model(…, unit_store=…)` / `load_model(…, unit_store=…)` = `newStore`;
    `add_unit`; `add_base_unit`) indexed by the store they act on, `Iso.obsStore w i` = everything observable through
    store `i` (its known names — hence `is_defined` of every name — and the root form scale / root units /
    dimensionality of every known name, user-defined and built-in), `Iso.probe w i name` for arbitrary probe names,
    `Iso.crossFactor` for conversions between units of two stores, `Iso.strip` for `_STORE_PREFIX.sub('', ·)`.

    All theorems quantify over ALL reachable process states (any number of stores and registries, any history) and all
    operation lists; nothing is bounded. The tie to cellmlmanip is `harness/props/c16.py`. -/

namespace Cellml.Props.C16
open Units Units.Wire Iso PMap

/-! ### names -/

/-- `_prefix_name` is injective on (store id, user name): two different (store, name) pairs never share a registry key.
    Character-list proof: after `store` come the decimal digits of the id, which end at the first `_`
    (`Nat.underscore_not_in_toDigits`), and the digits determine the id (`Nat.ofDigitChars_ten_toDigits`). -/
theorem prefix_injective (i j : Nat) (n₁ n₂ : String)
    (h₁ : Cellml.Gen.cellmlUnits.contains n₁ = false) (_h₂ : Cellml.Gen.cellmlUnits.contains n₂ = false)
    (hne : (i, n₁) ≠ (j, n₂)) : prefixName i n₁ ≠ prefixName j n₂ := by
  intro h
  obtain ⟨rfl, rfl⟩ := prefixName_eq i j n₁ n₂ h₁ h
  exact hne rfl

/-- … and a user key never coincides with what a built-in name maps to (built-ins are not prefixed) -/
theorem prefix_never_builtin (i j : Nat) (n b : String)
    (hn : Cellml.Gen.cellmlUnits.contains n = false) (hb : Cellml.Gen.cellmlUnits.contains b = true) :
    prefixName i n ≠ prefixName j b := by
  intro h
  obtain ⟨_, rfl⟩ := prefixName_eq i j n b hn h
  rw [hn] at hb; cases hb

/-- `format` shows the user's name: stripping `_STORE_PREFIX` from the registry key of the user-defined `name` in
    store `id` gives back `name`, for every identifier -/
theorem strip_roundtrip (id : Nat) (n : String) (hb : Cellml.Gen.cellmlUnits.contains n = false)
    (hn : isIdent n = true) : formatName id n = n := by
  have hss := prefixName_startsStore id n hb
  simp only [formatName, nameContainer, startsStore_ne_dimensionless _ hss, Bool.false_eq_true, if_false,
    canonName_of_startsStore _ hss]
  exact strip_prefixName_user id n hb hn

/-- built-in names are not prefixed and contain no match: `format` shows pint's canonical spelling of the name
    (`metre` ↦ `meter`, `litre` ↦ `liter`, every other name itself), in every store -/
theorem strip_roundtrip_builtin (id : Nat) (b : String) (hb : Cellml.Gen.cellmlUnits.contains b = true) :
    formatName id b = if b = "dimensionless" then "dimensionless" else canonName b := by
  have h0 : formatName id b = formatName 0 b := by simp only [formatName, prefixName, hb, if_true]
  rw [h0]
  have := List.all_eq_true.mp (by decide +kernel : Cellml.Gen.cellmlUnits.all (fun b =>
    formatName 0 b == if b = "dimensionless" then "dimensionless" else canonName b) = true) b (by simpa using hb)
  simpa using this

/-- the general form: after the prefix is removed the scan continues inside the name with `_` as look-behind, so the
    name comes back exactly when it does not itself contain a further match -/
theorem strip_roundtrip_general (id : Nat) (n : String) (hb : Cellml.Gen.cellmlUnits.contains n = false) :
    formatName id n = String.ofList (stripGo ((prefixName id n).length) '_' n.toList) := by
  have hss := prefixName_startsStore id n hb
  simp only [formatName, nameContainer, startsStore_ne_dimensionless _ hss, Bool.false_eq_true, if_false,
    canonName_of_startsStore _ hss]
  unfold strip
  rw [prefixName_toList id n hb]
  have hm := matchStorePrefix_prefixed (Nat.toDigits 10 id) n.toList Nat.toDigits_ne_nil
    (fun c hc => Nat.isDigit_of_mem_toDigits (by decide) (by decide) hc)
  simp only [List.cons_append, List.nil_append] at hm ⊢
  rw [stripGo]
  simp only [show isWordChar ' ' = false by decide, Bool.false_eq_true, if_false, hm]

/-- outside identifiers the round trip fails (not reachable from CellML, whose unit names are identifiers) -/
theorem strip_not_roundtrip_non_identifier : formatName 0 "a store1_b" = "a b" := by decide +kernel

/-! ### the registry lemma behind the shared case -/

/-- consing an entry whose key the container does not mention leaves the expansion to root units unchanged -/
theorem expand_cons_unused (n : String) (d : UnitDef) (reg : Registry) (s : Scale) (c : Container)
    (h : get c n = 0) : expand ((n, d) :: reg) (s, c) ≃₂ expand reg (s, c) :=
  Iso.expand_cons_unused n d reg s c h

/-- hence scale, root units and dimensionality of such a unit are unchanged, when no definition mentions the key -/
theorem root_form_cons_unused (n : String) (d : UnitDef) (reg : Registry) (c : Container)
    (h : get c n = 0) (hreg : Unmentioned reg n) : obsUnit ((n, d) :: reg) c = obsUnit reg c :=
  obsUnit_cons_unused n d reg c h hreg

/-! ### reachable states -/

/-- every process state reachable from the empty process satisfies the namespace invariant -/
theorem inv_reachable (ops : List Op) : Inv (run {} ops) := inv_run {} ops inv_empty

/-- store ids are unique: the store at index `s` has id `s` (the class-level counter `_next_id`) -/
theorem unique_ids (ops : List Op) (s t : Nat) (st st' : Store) (ri rj : Nat)
    (hs : (run {} ops).stores[s]? = some (st, ri)) (ht : (run {} ops).stores[t]? = some (st', rj))
    (hne : s ≠ t) : st.id ≠ st'.id := by
  have h := inv_reachable ops
  rw [h.ids s st ri hs, h.ids t st' rj ht]; exact hne

/-- a successful definition in store `s` adds exactly one registry key, `prefixName s name`, which was not a key
    before (so it shadows nothing) -/
theorem adds_only_own_fresh_key (w : World) (h : Inv w) (s ri : Nat) (st st' : Store) (reg reg' : Registry)
    (name : String) (elems : List UnitElem) (hs : w.stores[s]? = some (st, ri)) (hr : w.regs[ri]? = some reg)
    (hok : addUnit reg st name elems = .ok (reg', st')) :
    (∃ d, reg' = (prefixName s name, d) :: reg) ∧ prefixName s name ∉ Iso.keys reg := by
  have ext := Iso.addUnit_ok hok
  have hid := h.ids s st ri hs
  obtain ⟨d, hd, _⟩ := ext.regEq
  refine ⟨⟨d, by rw [← hid]; exact hd⟩, ?_⟩
  rw [← hid]
  exact key_fresh w h s ri st reg name hs hr ext.notBuiltin ext.fresh

/-- a rejected definition changes nothing at all -/
theorem rejected_changes_nothing (w : World) (s : Nat) (name : String) (elems : List UnitElem) (st : Store) (ri : Nat)
    (reg : Registry) (e : AddErr) (hs : w.regOf s = some (st, ri, reg)) (herr : addUnit reg st name elems = .error e) :
    step w (.addUnit s name elems) = w := by
  simp only [step, applyTo, hs, herr]

/-! ### frame -/

/-- **frame**: an operation that does not act on store `j` leaves everything observable through `j` unchanged —
    whether `j` has its own registry or shares the registry the operation extends. In the shared case the new key
    carries the acting store's prefix (`prefix_injective`), the units `j` hands out do not mention it
    (`expand_cons_unused`), and no older definition mentions it because it is new to the registry. -/
theorem frame (w : World) (h : Inv w) (op : Op) (j : Nat) (hj : j < w.stores.length) (hop : op.actsOn j = false) :
    obsStore (step w op) j = obsStore w j :=
  (step_view w h op j hj hop).obsStore

/-- the same for ANY probe name — in particular the names only the other store knows: `is_defined` and `get_unit` -/
theorem frame_probe (w : World) (h : Inv w) (op : Op) (j : Nat) (hj : j < w.stores.length)
    (hop : op.actsOn j = false) (name : String) : probe (step w op) j name = probe w j name :=
  (step_view w h op j hj hop).probe name

/-- **frame_run**: for every list of operations none of which acts on store `j` — any interleaving of definitions in
    other stores (successful or rejected) and of creations of further stores and registries — `obsStore j` is unchanged -/
theorem frame_run (w : World) (h : Inv w) (ops : List Op) (j : Nat) (hj : j < w.stores.length)
    (hops : ∀ op ∈ ops, op.actsOn j = false) : obsStore (run w ops) j = obsStore w j :=
  (run_view w h ops j hj hops).obsStore

theorem frame_run_probe (w : World) (h : Inv w) (ops : List Op) (j : Nat) (hj : j < w.stores.length)
    (hops : ∀ op ∈ ops, op.actsOn j = false) (name : String) : probe (run w ops) j name = probe w j name :=
  (run_view w h ops j hj hops).probe name

/-- unconditional form: after ANY history `ops₀`, any further work elsewhere leaves store `j` as it was -/
theorem frame_reachable (ops₀ ops : List Op) (j : Nat) (hj : j < (run {} ops₀).stores.length)
    (hops : ∀ op ∈ ops, op.actsOn j = false) :
    obsStore (run {} (ops₀ ++ ops)) j = obsStore (run {} ops₀) j := by
  have : run {} (ops₀ ++ ops) = run (run {} ops₀) ops := by simp [run, List.foldl_append]
  rw [this]
  exact frame_run _ (inv_reachable ops₀) ops j hj hops

/-! ### names of one store are unknown in the other; equal names stay distinct -/

/-- `get_unit` of store `j` on a name that only other stores define fails (KeyError), whatever the others do -/
theorem names_unknown_elsewhere (w : World) (h : Inv w) (ops : List Op) (j : Nat) (hj : j < w.stores.length)
    (hops : ∀ op ∈ ops, op.actsOn j = false) (name : String) (stj : Store) (rj : Nat) (reg : Registry)
    (hw : w.regOf j = some (stj, rj, reg)) (hunknown : stj.isDefined name = false) :
    probe (run w ops) j name = some (false, none) := by
  rw [frame_run_probe w h ops j hj hops name]
  have hg : ∃ e, getUnit stj name = .error e := by
    unfold getUnit
    split
    · exact ⟨_, rfl⟩
    · simp [hunknown]
  obtain ⟨e, he⟩ := hg
  simp only [probe, hw, hunknown, obsName, he]

/-- one-step form with the definition visible: after store `i` successfully defines `name`, store `j ≠ i`, which did
    not know `name`, still does not, although they may share the registry that now holds a key for it -/
theorem names_unknown_elsewhere_step (w : World) (h : Inv w) (i j : Nat) (hij : i ≠ j) (hj : j < w.stores.length)
    (name : String) (elems : List UnitElem) (stj : Store) (rj : Nat) (reg : Registry)
    (hw : w.regOf j = some (stj, rj, reg)) (hunknown : stj.isDefined name = false) :
    probe (step w (.addUnit i name elems)) j name = some (false, none) := by
  have := names_unknown_elsewhere w h [.addUnit i name elems] j hj
    (by intro op hop; simp only [List.mem_singleton] at hop; subst hop; simpa [Op.actsOn] using hij)
    name stj rj reg hw hunknown
  simpa [run] using this

/-- equal user names in different stores are different units: different registry keys, so neither container is the
    other (not even semantically) -/
theorem same_name_distinct (sti stj : Store) (hid : sti.id ≠ stj.id) (name : String) (a b : Container)
    (hb : Cellml.Gen.cellmlUnits.contains name = false)
    (ha : getUnit sti name = .ok a) (hb' : getUnit stj name = .ok b) : ¬ a ≃ b := by
  rw [getUnit_user sti name a hb ha, getUnit_user stj name b hb hb']
  intro heq
  have hne : prefixName stj.id name ≠ prefixName sti.id name :=
    prefix_injective _ _ _ _ hb hb (fun h => hid (Prod.mk.inj h).1.symm)
  have := heq (prefixName sti.id name)
  simp only [get_cons, get_nil, if_true, hne, if_false] at this
  grind

/-! ### conversion across stores -/

/-- **shared_convert**: units of two stores sharing a registry convert with `Units.factor` of the shared registry, and
    both units are defined there — so every law of C07 applies across stores -/
theorem shared_convert (w : World) (h : Inv w) (i j ri : Nat) (sti stj : Store) (reg : Registry) (x y : String)
    (a b : Container) (hi : w.stores[i]? = some (sti, ri)) (hj : w.stores[j]? = some (stj, ri))
    (hr : w.regs[ri]? = some reg) (ha : getUnit sti x = .ok a) (hb : getUnit stj y = .ok b) :
    (∀ f, crossFactor w i x j y = .ok f ↔ factor reg a b = .ok f) ∧
    allKnown reg a = true ∧ allKnown reg b = true := by
  refine ⟨?_, getUnit_allKnown w h i ri sti reg hi hr x a ha, getUnit_allKnown w h j ri stj reg hj hr y b hb⟩
  intro f
  rw [crossFactor_shared w i j ri sti stj reg x y a b hi hj hr ha hb]
  cases factor reg a b <;> simp

/-- units of equal dimension in two stores sharing a registry convert in both directions; the factors are inverse
    to each other and equal the ratio of the root scales -/
theorem shared_convert_total (w : World) (h : Inv w) (i j ri : Nat) (sti stj : Store) (reg : Registry) (x y : String)
    (a b : Container) (hi : w.stores[i]? = some (sti, ri)) (hj : w.stores[j]? = some (stj, ri))
    (hr : w.regs[ri]? = some reg) (ha : getUnit sti x = .ok a) (hb : getUnit stj y = .ok b)
    (hd : dimsOf reg a ≃ dimsOf reg b) :
    ∃ f g, crossFactor w i x j y = .ok f ∧ crossFactor w j y i x = .ok g ∧ add f g ≃ [] ∧
      f ≃ sub (toRoot reg a).1 (toRoot reg b).1 := by
  obtain ⟨hx, hka, hkb⟩ := shared_convert w h i j ri sti stj reg x y a b hi hj hr ha hb
  obtain ⟨hy, _, _⟩ := shared_convert w h j i ri stj sti reg y x b a hj hi hr hb ha
  obtain ⟨f, hf⟩ := Cellml.Props.C07.same_dims_convert reg a b hka hkb hd
  obtain ⟨g, hg, hfg⟩ := Cellml.Props.C07.factor_inv reg a b f hf
  exact ⟨f, g, (hx f).mpr hf, (hy g).mpr hg, hfg, Cellml.Props.C07.factor_ratio reg a b f hf⟩

/-- a dimension mismatch across stores is reported, never converted -/
theorem shared_convert_mismatch (w : World) (h : Inv w) (i j ri : Nat) (sti stj : Store) (reg : Registry) (x y : String)
    (a b : Container) (hi : w.stores[i]? = some (sti, ri)) (hj : w.stores[j]? = some (stj, ri))
    (hr : w.regs[ri]? = some reg) (ha : getUnit sti x = .ok a) (hb : getUnit stj y = .ok b)
    (hd : ¬ dimsOf reg a ≃ dimsOf reg b) : crossFactor w i x j y = .error (.unit .dimensionality) := by
  obtain ⟨_, hka, hkb⟩ := shared_convert w h i j ri sti stj reg x y a b hi hj hr ha hb
  rw [crossFactor_shared w i j ri sti stj reg x y a b hi hj hr ha hb,
    Cellml.Props.C07.mismatch_is_error' reg a b hka hkb hd]

/-- stores with separate registries never convert into each other -/
theorem separate_registries_fail (w : World) (i j ri rj : Nat) (sti stj : Store) (regi regj : Registry) (x y : String)
    (hi : w.stores[i]? = some (sti, ri)) (hj : w.stores[j]? = some (stj, rj))
    (hri : w.regs[ri]? = some regi) (hrj : w.regs[rj]? = some regj) (hne : ri ≠ rj) :
    ∃ e, crossFactor w i x j y = .error e ∧ (e = .crossRegistry ∨ e = .keyError) :=
  crossFactor_separate w i j ri rj sti stj regi regj x y hi hj hri hrj hne

/-! ### the memoised singularity analysis (`lru_cache` on `_get_singularity`, `_generate_piecewise`) -/

/-- **cache_sound**: whatever sequence of calls from whatever models filled the cache, a memoised call returns the
    value of the function at its key, and the cache stays sound (evicting entries keeps it sound too). The keys of the
    two `lru_cache`s contain the voltage variable `V`, a `sympy.Dummy` unique to its model, so equal keys come from
    the same model; key equality being real equality (`LawfulBEq`) is the assumption about SymPy here. -/
theorem cache_sound {κ ν : Type} [BEq κ] [LawfulBEq κ] (f : κ → ν) (cache : List (κ × ν)) (h : CacheOk f cache)
    (k : κ) : (cachedCall f cache k).1 = f k ∧ CacheOk f (cachedCall f cache k).2 := by
  unfold cachedCall
  cases hl : cache.lookup k with
  | some v =>
      refine ⟨?_, h⟩
      have : (k, v) ∈ cache := by
        clear h
        induction cache with
        | nil => simp [List.lookup] at hl
        | cons hd tl ih =>
            obtain ⟨k', v'⟩ := hd
            by_cases hk : k = k'
            · subst hk; simp [List.lookup] at hl; simp [hl]
            · have : (k == k') = false := by simpa using hk
              simp only [List.lookup, this] at hl
              exact List.mem_cons_of_mem _ (ih hl)
      exact h k v this
  | none =>
      refine ⟨rfl, ?_⟩
      intro k' v' hm
      rcases List.mem_cons.mp hm with hm | hm
      · cases hm; rfl
      · exact h k' v' hm

theorem cache_evict_sound {κ ν : Type} (f : κ → ν) (cache : List (κ × ν)) (h : CacheOk f cache) (n : Nat) :
    CacheOk f (cache.take n) := fun k v hm => h k v (List.mem_of_mem_take hm)

/-- any interleaving of memoised calls returns exactly the uncached values -/
theorem cache_transparent {κ ν : Type} [BEq κ] [LawfulBEq κ] (f : κ → ν) (ks : List κ) :
    ∀ cache, CacheOk f cache → cachedCalls f cache ks = ks.map f := by
  induction ks with
  | nil => intro _ _; rfl
  | cons k ks ih =>
      intro cache h
      obtain ⟨h1, h2⟩ := cache_sound f cache h k
      show (cachedCall f cache k).1 :: cachedCalls f (cachedCall f cache k).2 ks = f k :: ks.map f
      rw [h1, ih _ h2]

/-! ### non-vacuity: concrete processes meet the hypotheses, and the conclusions are not trivially true -/

/-- two stores SHARING a registry both define `mV`, with different meanings; a third store has its own registry -/
def demoOps : List Op :=
  [.newStore none, .newStore (some 0), .newStore none,
   .addUnit 0 "mV" [{ units := "volt", pfx := some "milli" }],
   .addUnit 1 "mV" [{ units := "volt", pfx := some "micro" }],
   .addBase 1 "widget",
   .addUnit 1 "mV" [{ units := "volt" }],                       -- rejected: already known to store 1
   .addUnit 2 "kW" [{ units := "watt", pfx := some "kilo" }]]

example : (run {} demoOps).stores.map (fun p => (p.1.id, p.1.known, p.2)) =
    [(0, ["mV"], 0), (1, ["widget", "mV"], 0), (2, ["kW"], 1)] := by decide +kernel

/-- store 0 after everything = store 0 right after its own definition (the operations on 1 and 2 are invisible):
    the hypotheses of `frame_reachable` are met by the demo -/
example : obsStore (run {} demoOps) 0 = obsStore (run {} (demoOps.take 4)) 0 :=
  frame_reachable (demoOps.take 4) (demoOps.drop 4) 0 (by decide +kernel) (by decide)
example : (obsStore (run {} demoOps) 0).map (·.known) = some ["mV"] := by decide +kernel
example : (obsStore (run {} demoOps) 0).map (·.units.length) = some 34 := by decide +kernel

/-- and the observation is not empty: `mV` of store 0 is 10⁻³ volt, `mV` of store 1 is 10⁻⁶ volt -/
example : (probe (run {} demoOps) 0 "mV").map (fun p => (p.1, p.2.map (·.scale))) =
    some (true, some [(2, -3), (5, -3)]) := by decide +kernel
example : (probe (run {} demoOps) 1 "mV").map (fun p => (p.1, p.2.map (·.scale))) =
    some (true, some [(2, -6), (5, -6)]) := by decide +kernel

/-- `widget` is known to store 1 only; store 0 shares the registry holding `store1_widget` and still does not see it -/
example : probe (run {} demoOps) 0 "widget" = some (false, none) := by decide +kernel
example : (probe (run {} demoOps) 1 "widget").map (·.1) = some true := by decide +kernel

/-- the two `mV` convert into each other through the shared registry: 1 mV(store 0) = 1000 mV(store 1) -/
example : crossFactor (run {} demoOps) 0 "mV" 1 "mV" = .ok [(2, 3), (5, 3)] := by decide +kernel
example : crossFactor (run {} demoOps) 1 "mV" 0 "volt" = .ok [(2, -6), (5, -6)] := by decide +kernel
/-- across separate registries conversion is refused -/
example : crossFactor (run {} demoOps) 0 "mV" 2 "volt" = .error .crossRegistry := by decide +kernel

/-- the hypotheses of `frame_run` hold for the foreign operations of the demo -/
example : ∀ op ∈ demoOps.drop 4, op.actsOn 0 = false := by decide

example : prefixName 1 "mV" = "store1_mV" ∧ prefixName 12 "store1_q" = "store12_store1_q" ∧
    prefixName 3 "volt" = "volt" := by decide +kernel
example : formatName 12 "store1_q" = "store1_q" := by decide +kernel
example : strip "1000.0 store3_mV / store12_store1_q ** 2" = "1000.0 mV / store1_q ** 2" := by decide +kernel
example : isIdent "uA_per_cm2" = true := by decide +kernel

end Cellml.Props.C16
