import Cellml.Model.Roles

/-! # C10: what a variable's definition denotes at the initial state

    `Den M i q`: item `i` (a variable or an expression) has the value `q` when states are at their initial values,
    the free variable is 0, a derivative stands for the right-hand side of its ODE and every other variable for its
    definition. An inductive relation: no fuel, no memo, no evaluation order — the specification `getValue` is measured
    against. Core Lean only. -/

namespace Model

inductive Item | v (n : Nat) | e (x : Expr)

inductive Den (M : RModel) : Item → Rat → Prop
  | state {v q} : isState M v = true → initOf M.st v = some q → Den M (.v v) q
  | defn {v r q} : isState M v = false → varRhs M v = some r → Den M (.e r) q → Den M (.v v) q
  | free {v} : isState M v = false → varRhs M v = none → freeVar M = some v → Den M (.v v) 0
  | num (q) : Den M (.e (.num q)) q
  | var {v q} : Den M (.v v) q → Den M (.e (.var v)) q
  | deriv {s t r q} : odeRhs M s t = some r → Den M (.e r) q → Den M (.e (.deriv s t)) q
  | bin {op a b p q r} : Den M (.e a) p → Den M (.e b) q → applyBin op p q = some r → Den M (.e (.bin op a b)) r
  | pow {a n p r} : Den M (.e a) p → powInt p n = some r → Den M (.e (.pow a n)) r

variable {M : RModel}

/-- a definition denotes at most one value -/
theorem den_unique {i : Item} {q q' : Rat} (h : Den M i q) (h' : Den M i q') : q = q' := by
  induction h generalizing q' with
  | state hs hi =>
    cases h' with
    | state _ hi' => rw [hi] at hi'; exact Option.some.inj hi'
    | defn hs' _ _ => rw [hs] at hs'; cases hs'
    | free hs' _ _ => rw [hs] at hs'; cases hs'
  | defn hs hr _ ih =>
    cases h' with
    | state hs' _ => rw [hs] at hs'; cases hs'
    | defn _ hr' hd' => rw [hr] at hr'; cases hr'; exact ih hd'
    | free _ hr' _ => rw [hr] at hr'; cases hr'
  | free hs hr _ =>
    cases h' with
    | state hs' _ => rw [hs] at hs'; cases hs'
    | defn _ hr' _ => rw [hr] at hr'; cases hr'
    | free _ _ _ => rfl
  | num q => cases h'; rfl
  | var _ ih => cases h' with | var hd' => exact ih hd'
  | deriv ho _ ih =>
    cases h' with
    | deriv ho' hd' => rw [ho] at ho'; cases ho'; exact ih hd'
  | bin _ _ hab iha ihb =>
    cases h' with
    | bin ha' hb' hab' =>
      have := iha ha'; subst this
      have := ihb hb'; subst this
      rw [hab] at hab'; exact Option.some.inj hab'
  | pow _ hp ih =>
    cases h' with
    | pow ha' hp' =>
      have := ih ha'; subst this
      rw [hp] at hp'; exact Option.some.inj hp'

-- ------------------------------------------------------------------------------------------------ inversion
theorem den_var_iff {v : Nat} {q : Rat} : Den M (.e (.var v)) q ↔ Den M (.v v) q :=
  ⟨fun h => by cases h with | var h => exact h, Den.var⟩

theorem den_deriv_iff {s t : Nat} {r : Expr} (ho : odeRhs M s t = some r) {q : Rat} :
    Den M (.e (.deriv s t)) q ↔ Den M (.e r) q :=
  ⟨fun h => by cases h with | deriv ho' h => rw [ho] at ho'; cases ho'; exact h, Den.deriv ho⟩

theorem not_den_deriv {s t : Nat} (ho : odeRhs M s t = none) (q : Rat) : ¬ Den M (.e (.deriv s t)) q := by
  intro h; cases h with | deriv ho' _ => rw [ho] at ho'; cases ho'

theorem den_bin_iff {op : BinOp} {a b : Expr} {r : Rat} :
    Den M (.e (.bin op a b)) r ↔ ∃ p q, Den M (.e a) p ∧ Den M (.e b) q ∧ applyBin op p q = some r :=
  ⟨fun h => by cases h with | bin ha hb hab => exact ⟨_, _, ha, hb, hab⟩,
   fun ⟨_, _, ha, hb, hab⟩ => Den.bin ha hb hab⟩

theorem den_pow_iff {a : Expr} {n : Int} {r : Rat} :
    Den M (.e (.pow a n)) r ↔ ∃ p, Den M (.e a) p ∧ powInt p n = some r :=
  ⟨fun h => by cases h with | pow ha hp => exact ⟨_, ha, hp⟩, fun ⟨_, ha, hp⟩ => Den.pow ha hp⟩

theorem not_den_opq (l : List Node) (q : Rat) : ¬ Den M (.e (.opq l)) q := by
  intro h; cases h

theorem den_num_iff {p q : Rat} : Den M (.e (.num p)) q ↔ q = p :=
  ⟨fun h => by cases h; rfl, fun h => by subst h; exact Den.num _⟩

end Model
