import Cellml.C11.Sem

/-! C11 — `print_means`, part 1: the joining operations on layout trees compute what they should. -/
namespace C11
set_option linter.unusedSimpArgs false
variable {K : Type} [Field K] (S : Sem K)

@[simp] theorem evD_paren (d : Doc) : evD S (.paren d) = evD S d := rfl

theorem evD_bracket (e : E) (d : Doc) (p : Nat) : evD S (bracket e d p) = evD S d := by
  rw [bracket_eq]; split <;> rfl

@[simp] theorem evD_mul_num (a b : Doc) : (evD S (.bin .mul a b)).num = (evD S a).num * (evD S b).num := rfl
@[simp] theorem evD_div_num (a b : Doc) : (evD S (.bin .div a b)).num = (evD S a).num / (evD S b).num := rfl
@[simp] theorem evD_add_num (a b : Doc) : (evD S (.bin .add a b)).num = (evD S a).num + (evD S b).num := rfl
@[simp] theorem evD_sub_num (a b : Doc) : (evD S (.bin .sub a b)).num = (evD S a).num - (evD S b).num := rfl
@[simp] theorem evD_pow_num (a b : Doc) : (evD S (.bin .pow a b)).num = S.powK (evD S a).num (evD S b).num := rfl
@[simp] theorem evD_neg_num (a : Doc) : (evD S (.neg a)).num = -(evD S a).num := rfl
@[simp] theorem evD_and_bool (a b : Doc) : (evD S (.and a b)).bool = ((evD S a).bool && (evD S b).bool) := rfl
@[simp] theorem evD_or_bool (a b : Doc) : (evD S (.or a b)).bool = ((evD S a).bool || (evD S b).bool) := rfl
@[simp] theorem evD_and_num (a b : Doc) : (evD S (.and a b)).num = b2k ((evD S a).bool && (evD S b).bool) := rfl
@[simp] theorem evD_or_num (a b : Doc) : (evD S (.or a b)).num = b2k ((evD S a).bool || (evD S b).bool) := rfl

theorem spliceProd_num (acc d : Doc) : (evD S (spliceProd acc d)).num = (evD S acc).num * (evD S d).num := by
  induction d with
  | bin op a b iha _ =>
      cases op <;> simp only [spliceProd, evD_mul_num, evD_div_num, iha]
      · ring
      · ring
  | _ => simp only [spliceProd, evD_mul_num]

theorem foldl_spliceProd_num (ds : List Doc) : ∀ acc,
    (evD S (ds.foldl spliceProd acc)).num = (evD S acc).num * prodK (ds.map (fun d => (evD S d).num)) := by
  induction ds with
  | nil => intro acc; simp [prodK]
  | cons d ds ih => intro acc; simp only [List.foldl_cons, ih, spliceProd_num, List.map_cons, prodK]; ring

theorem prodChain_num (hL : Laws S) (ds : List Doc) :
    (evD S (prodChain ds)).num = prodK (ds.map (fun d => (evD S d).num)) := by
  cases ds with
  | nil =>
      have h1 : toString (1 : Nat) = "1" := by decide
      have := hL.atom_nat 1
      rw [h1] at this
      simp only [prodChain, List.map_nil, prodK, evD]
      simpa using this
  | cons d ds => simp only [prodChain, foldl_spliceProd_num, List.map_cons, prodK]

theorem negFirst_num (d : Doc) : (evD S (negFirst d)).num = -(evD S d).num := by
  induction d with
  | bin op a b iha _ =>
      cases op <;> simp only [negFirst, evD_mul_num, evD_div_num, evD_neg_num, iha] <;> ring
  | _ => simp only [negFirst, evD_neg_num]

theorem spliceSum_plus_num (acc d : Doc) :
    (evD S (spliceSum acc false d)).num = (evD S acc).num + (evD S d).num := by
  induction d with
  | bin op a b iha _ =>
      cases op
      case add => simp only [spliceSum, evD_add_num, iha]; ring
      case sub => simp only [spliceSum, evD_sub_num, evD_add_num, iha]; ring
      all_goals simp [spliceSum]
  | _ => simp [spliceSum]

end C11
