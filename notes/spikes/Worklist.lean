/-! Spike: the `_add_units` work list as a total function (termination = the loop cannot hang). -/
structure Def where
  name : String
  refs : List String
deriving Repr, DecidableEq

inductive Err | duplicate (n : String) | stuck (left : List String)
deriving Repr, DecidableEq

/-- deque as a list whose *last* element is the right end: `pop()` takes the last, `appendleft` conses. -/
def addUnits (dq : List Def) (found : List String) (it : Nat) (hit : it ≤ dq.length) :
    Except Err (List String) :=
  match h : dq with
  | [] => .ok found
  | x :: xs =>
    let d := (x :: xs).getLast (by simp)
    let rest := (x :: xs).dropLast
    if d.refs.all (· ∈ found) then
      if d.name ∈ found then .error (.duplicate d.name)
      else addUnits rest (d.name :: found) 0 (Nat.zero_le _)
    else
      let dq' := d :: rest
      if hgt : it + 1 > dq'.length then .error (.stuck (dq'.map (·.name)))
      else addUnits dq' found (it + 1) (by omega)
termination_by (dq.length, dq.length + 1 - it)
decreasing_by
  · apply Prod.Lex.left; subst h; simp [List.length_dropLast]
  · subst h
    have : (d :: rest).length = (x :: xs).length := by simp [rest, List.length_dropLast]
    rw [this]; apply Prod.Lex.right; simp only [List.length_cons] at *; omega

#eval addUnits [⟨"c", ["b"]⟩, ⟨"b", ["a"]⟩, ⟨"a", ["second"]⟩] ["second"] 0 (by simp)
#eval addUnits [⟨"a", ["second"]⟩, ⟨"b", ["a"]⟩, ⟨"c", ["b"]⟩] ["second"] 0 (by simp)
#eval addUnits [⟨"a", ["b"]⟩, ⟨"b", ["a"]⟩, ⟨"c", ["second"]⟩] ["second"] 0 (by simp)
#eval addUnits [⟨"a", ["zz"]⟩] ["second"] 0 (by simp)
