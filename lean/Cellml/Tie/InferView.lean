import Cellml.Tie.Prelude
import Cellml.Expr.Infer

/-! # What `UnitCalculator.traverse`, `_check_unit_of_quantities_equal`, `_is_dimensionless` (units.py) see

    The generated code (`Cellml/Generated/Code/Infer.lean`) refers to python leaves: flags and attributes of SymPy
    objects (`expr.is_Add`, `expr.args`, `expr.func`, `expr.units` …), pint quantity arithmetic (`q1 * q2`, `b ** x`,
    `abs(q)`, `math.floor(m)` …) and pint registry queries (`get_base_units`, `.dimensionality`). The pattern table of
    harness/code_specs/infer.py binds each of them to one accessor below; the accessors read the hand model's data
    (`E`, `VarEnv`, `Registry`, `Infer.M`, containers). No decision of the translated functions is made here: no
    accessor looks at more than the one python leaf it stands for. Core Lean only. -/

namespace Cellml.Tie.PInfer
open Units Infer

/-- a pint `Quantity` as `traverse` handles it: the (abstract) magnitude and the pint units container -/
abbrev Q := M × Container

/-- model-side error classes as python class names: `otherException w` IS the python exception `w`; `unsupported w`
    (the exact model abstains) is kept apart under its own name -/
def errName : UnitErr → String
  | .otherException w => w
  | e => e.name

/-- a model computation seen from the generated code: same value, error identified by its class name -/
abbrev liftE {α} (x : Except UnitErr α) : Except PyErr α := errClass errName x

/-! ## python objects reaching `traverse` -/

/-- A python object as `traverse` meets it: a SymPy expression (the hand model's tree `E`), or a tuple of expressions
    (`ExprCondPair (e, c)` of a Piecewise; `(t, 1)` in `Derivative(x, (t, 1))`). -/
inductive Obj where
  | ex (e : E)
  | tup (l : List E)
deriving DecidableEq, Repr

/-- what `traverse` sees of its surroundings: the pint registry (`self._registry`, `self._store`) and the model's
    variables (the attributes of `model.Variable` objects) -/
structure TravView where
  reg : Registry
  Γ : VarEnv

namespace Sym

/-- operands of an n-ary node along the left spine (SymPy's `Add` / `Mul` / `Max` are n-ary and flat; the wire
    format nests them to the left: `Add(a, b, c)` is `add (add a b) c`) -/
def addArgs : E → List E
  | .add a b => addArgs a ++ [b]
  | e => [e]

def mulArgs : E → List E
  | .mul a b => mulArgs a ++ [b]
  | e => [e]

def fnArgs (f : String) : E → List E
  | .fnN g a b => if f = g then fnArgs f a ++ [b] else [.fnN g a b]
  | e => [e]

/-- operands of SymPy's flat n-ary `And` / `Or` (the wire format nests them to the left like `Add`) -/
def andArgs : E → List E
  | .and a b => andArgs a ++ [b]
  | e => [e]

def orArgs : E → List E
  | .or a b => orArgs a ++ [b]
  | e => [e]

/-- the `(expr, cond)` pairs of a Piecewise chain -/
def pieces : E → List Obj
  | .ite c t el => .tup [t, c] :: pieces el
  | _ => []

/-- a well-formed Piecewise chain ends in `undef` -/
def isChain : E → Bool
  | .undef => true
  | .ite _ _ el => isChain el
  | _ => false

/-- `expr.args` -/
def args : Obj → List Obj
  | .ex (.add a b) => (addArgs (.add a b)).map .ex
  | .ex (.mul a b) => (mulArgs (.mul a b)).map .ex
  | .ex (.pow b x) => [.ex b, .ex x]
  | .ex (.abs a) | .ex (.floor a) | .ex (.ceil a) | .ex (.fn1 _ a) | .ex (.not a) => [.ex a]
  | .ex (.fnN f a b) => (fnArgs f (.fnN f a b)).map .ex
  | .ex (.ite c t el) => pieces (.ite c t el)
  | .ex (.deriv v t) => [.ex (.var v), .tup [.var t, .int 1]]
  | .ex (.rel _ a b) => [.ex a, .ex b]
  | .ex (.and a b) => (andArgs (.and a b)).map .ex
  | .ex (.or a b) => (orArgs (.or a b)).map .ex
  | _ => []

/-- `expr.args[1][1]`: the count of the first differentiation variable (the model's `deriv v t` is first order) -/
def derivCount : Obj → Nat
  | .ex (.deriv _ _) => 1
  | _ => 0

/-- `x[i]` on a tuple of expressions -/
def item (o : Obj) (i : Nat) : Except PyErr Obj :=
  match o with
  | .tup l => match l[i]? with
    | some e => .ok (.ex e)
    | none => .error ⟨"IndexError"⟩
  | .ex _ => .error ⟨"TypeError"⟩

/-- `expr.is_Matrix` (a Matrix reaches the model as `other "Matrix"`) -/
def isMatrix : Obj → Bool
  | .ex (.other n) => n == "Matrix"
  | _ => false
def isPiecewise : Obj → Bool
  | .ex (.ite _ _ _) | .ex .undef => true
  | _ => false
def isDerivative : Obj → Bool
  | .ex (.deriv _ _) => true
  | _ => false
/-- `expr.is_Symbol`: `model.Quantity` and `model.Variable` are SymPy Dummy symbols -/
def isSymbol : Obj → Bool
  | .ex (.qty _ _) | .ex (.cf _ _) | .ex (.var _) => true
  | _ => false
/-- `isinstance(expr, model.Quantity)` -/
def isQuantity : Obj → Bool
  | .ex (.qty _ _) | .ex (.cf _ _) => true
  | _ => false
/-- `isinstance(expr, model.Variable)` -/
def isVariable : Obj → Bool
  | .ex (.var _) => true
  | _ => false
/-- `expr.is_Number` (SymPy: Integer, Rational, Float; `pi` and `E` are NumberSymbols, not Numbers) -/
def isNumber : Obj → Bool
  | .ex (.int _) | .ex (.rat _) | .ex (.flt _) => true
  | _ => false
def isInteger : Obj → Bool
  | .ex (.int _) => true
  | _ => false
/-- `expr.is_Rational` (an Integer is a Rational) -/
def isRational : Obj → Bool
  | .ex (.int _) | .ex (.rat _) => true
  | _ => false
def isMul : Obj → Bool
  | .ex (.mul _ _) => true
  | _ => false
def isPow : Obj → Bool
  | .ex (.pow _ _) => true
  | _ => false
def isAdd : Obj → Bool
  | .ex (.add _ _) => true
  | _ => false
def isRelational : Obj → Bool
  | .ex (.rel _ _ _) => true
  | _ => false
/-- `expr.is_Boolean` (a Relational is a Boolean too) -/
def isBoolean : Obj → Bool
  | .ex (.rel _ _ _) | .ex (.and _ _) | .ex (.or _ _) | .ex (.not _) | .ex .tt | .ex .ff => true
  | _ => false
def isFunction : Obj → Bool
  | .ex (.abs _) | .ex (.floor _) | .ex (.ceil _) | .ex (.fn1 _ _) | .ex (.fnN _ _ _) => true
  | _ => false

/-- `expr.func`, a SymPy class, represented by its name (`sympy.Abs` is `"Abs"`, `str(expr.func)` the same string) -/
def func : Obj → String
  | .ex (.abs _) => "Abs"
  | .ex (.floor _) => "floor"
  | .ex (.ceil _) => "ceiling"
  | .ex (.fn1 f _) => f
  | .ex (.fnN f _ _) => f
  | _ => ""

/-- `expr.units` of a `model.Quantity` / `model.Variable` -/
def units (self : TravView) : Obj → Container
  | .ex (.qty _ u) | .ex (.cf _ u) => u
  | .ex (.var i) => match self.Γ[i]? with
    | some vi => vi.unit
    | none => []
  | _ => []

/-- `expr.initial_value` of a `model.Variable`: `None` or a float. Python truthiness: `None` and `0.0` are false. -/
structure InitVal where
  v : Option Rat
deriving DecidableEq

instance : Py.Truthy InitVal := ⟨fun x => match x.v with | some q => !(q == 0) | none => false⟩

def initialValue (self : TravView) : Obj → InitVal
  | .ex (.var i) => match self.Γ[i]? with
    | some vi => ⟨vi.init⟩
    | none => ⟨none⟩
  | _ => ⟨none⟩

end Sym

namespace Py

/-- `float(x)`: of a `model.Quantity` (its value; a conversion factor's value is not tracked exactly unless it is 1),
    of a SymPy number, of an initial value -/
class ToFloat (α : Type) where
  toFloat : α → M
export ToFloat (toFloat)

instance : ToFloat Obj := ⟨fun
  | .ex (.qty v _) => .num v true
  | .ex (.cf s _) => if s = [] then .num 1 true else .anynum
  | .ex (.int n) => .num n true
  | .ex (.rat q) => .num q true
  | .ex (.flt q) => .num q true
  | _ => .weird⟩

instance : ToFloat Sym.InitVal := ⟨fun x => match x.v with | some q => .num q true | none => .weird⟩

/-- `int(x)` of a SymPy Integer -/
def toInt : Obj → M
  | .ex (.int n) => .num n false
  | _ => .weird

/-- the magnitude handed to `registry.Quantity(magnitude, units)`: a number already computed, or a SymPy object -/
class ToMag (α : Type) where
  toMag : α → M
instance : ToMag M := ⟨id⟩
instance : ToMag Obj := ⟨fun _ => .sym⟩

/-- `self._registry.Quantity(m, u)` -/
def mkQuantity {α} [ToMag α] (m : α) (u : Container) : Q := (ToMag.toMag m, u)

/-- `magnitude * unit` -/
instance : HMul M Container Q := ⟨fun m u => (m, u)⟩

/-- `1 * unit` -/
def oneTimes (u : Container) : Q := (.num 1 false, u)

/-- `self._store.get_unit('dimensionless')`: the empty units container -/
def dimensionless : Container := []

/-- `xs[i]` on a python list -/
def getItem {α} (xs : List α) (i : Nat) : Except PyErr α :=
  match xs[i]? with
  | some a => .ok a
  | none => .error ⟨"IndexError"⟩

/-- `operator.mul` on quantities -/
def mulQ (a b : Q) : Q := (mulM a.1 b.1, mulC a.2 b.2)

/-- `functools.reduce(f, xs)` (no initial value: TypeError on the empty list) -/
def reduce {α} (f : α → α → α) : List α → Except PyErr α
  | [] => .error ⟨"TypeError"⟩
  | a :: l => .ok (l.foldl f a)

/-- `a ** b` on magnitudes and on quantities -/
class Pow (α : Type) where
  pow : α → α → Except PyErr α

instance : Pow M := ⟨fun a b => liftE (powM a b)⟩

/-- pint `Quantity.__pow__` with a dimensionless exponent quantity: the magnitude is raised, and the units to the
    exponent's value (a value the exact model does not track: the model abstains) -/
instance : Pow Q := ⟨fun b x => do
  let m ← liftE (powM b.1 x.1)
  match x.1 with
  | .num q _ => pure (m, powC b.2 q)
  | _ => throw ⟨errName (.unsupported "exponent value not tracked")⟩⟩

/-- `a / b` on quantities -/
def divQ (a b : Q) : Except PyErr Q := do
  let m ← liftE (divM a.1 b.1)
  pure (m, divC a.2 b.2)

/-- `abs(q)` -/
def absQ (q : Q) : Q := (absM q.1, q.2)

/-- `isinstance(m, (sympy.Number, numbers.Number))` -/
def isNumberMag (m : M) : Bool := m.isNumber
/-- `isinstance(m, sympy.Expr)` -/
def isExprMag (m : M) : Bool := m == .sym
/-- `isinstance(m, float)`: a number of unknown value (`anynum`: an irrational result; `weird`: inf / nan) is a
    float in the model's reading -/
def isFloatMag : M → Bool
  | .num _ f => f
  | .anynum | .weird => true
  | .sym => false

/-- `math.floor(m)` / `math.ceil(m)` on a magnitude that is not a SymPy expression -/
def mathFloor (m : M) : Except PyErr M :=
  match m with
  | .sym => .error ⟨"TypeError"⟩
  | m => liftE (floorM false m)
def mathCeil (m : M) : Except PyErr M :=
  match m with
  | .sym => .error ⟨"TypeError"⟩
  | m => liftE (floorM true m)

/-- `math.exp(m)` on a float magnitude: OverflowError beyond 709; the value is not tracked -/
def mathExp : M → Except PyErr M
  | .num q _ => if q > 709 then .error ⟨"OverflowError"⟩ else .ok .anynum
  | .anynum | .weird => .ok .anynum
  | .sym => .error ⟨"TypeError"⟩

/-- a pint `UnitsContainer` (of root units, or of dimensions) compared as pint compares them: by content -/
structure UC where
  c : PMap String
instance : BEq UC := ⟨fun a b => PMap.beq a.c b.c⟩

/-- the multiplicative factor returned by `get_base_units` (a float in python; here the exact scale). -/
structure Factor where
  s : Scale
/-- `math.isclose(f1, f2)` on two such factors: equality of the exact scales -/
def isclose (a b : Factor) : Bool := PMap.beq a.s b.s

/-- `next(it, True)`: the next element and the advanced iterator; `none` stands for the default `True` -/
def nextOrTrue {α} : List α → Option α × List α
  | [] => (none, [])
  | a :: l => (some a, l)

/-- `.units` of what `next(it, True)` returned (python's `True` has none: the generator is then empty and `_is_equal`
    is never called) -/
def unitsOfFirst : Option Q → Container
  | some q => q.2
  | none => []

end Py

/-- `self._registry.get_base_units(1 * u)`: (factor, root units) -/
def TravView.baseUnits (self : TravView) (u : Container) : Py.Factor × Py.UC :=
  (⟨(toRoot self.reg u).1⟩, ⟨(toRoot self.reg u).2⟩)

/-- `u.dimensionality` -/
def TravView.dimensionality (self : TravView) (u : Container) : Py.UC := ⟨dimsOf self.reg u⟩

/-- `self._registry.dimensionless.dimensionality` -/
def Py.noDimension : Py.UC := ⟨[]⟩

end Cellml.Tie.PInfer
