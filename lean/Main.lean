import Cellml.Basic.Sexp
import Cellml.C01.Driver
import Cellml.C02.Driver
import Cellml.C03.Driver
import Cellml.C04.Driver
import Cellml.C05.Driver
import Cellml.C06.Driver
import Cellml.C07.Driver
import Cellml.C08.Driver
import Cellml.C09.Driver
import Cellml.C10.Driver
import Cellml.C11.Driver
import Cellml.C12.Driver
import Cellml.C13.Driver
import Cellml.C14.Driver
import Cellml.C15.Driver
import Cellml.C16.Driver
import Cellml.C17.Driver
import Cellml.C18.Driver
import Cellml.C19.Driver

/-! Model driver: one request per line, one reply per line; the first atom selects the channel.
    Everything imported here is core-Lean only (no Mathlib), so this links as a native executable. -/
def handle (e : Sexp) : Sexp :=
  match e with
  | .list (.atom "C01" :: args) => C01.handle args
  | .list (.atom "C02" :: args) => C02.handle args
  | .list (.atom "C03" :: args) => C03.handle args
  | .list (.atom "C04" :: args) => C04.handle args
  | .list (.atom "C05" :: args) => C05.handle args
  | .list (.atom "C06" :: args) => C06.handle args
  | .list (.atom "C07" :: args) => C07.handle args
  | .list (.atom "C08" :: args) => C08.handle args
  | .list (.atom "C09" :: args) => C09.handle args
  | .list (.atom "C10" :: args) => C10.handle args
  | .list (.atom "C11" :: args) => C11.handle args
  | .list (.atom "C12" :: args) => C12.handle args
  | .list (.atom "C13" :: args) => C13.handle args
  | .list (.atom "C14" :: args) => C14.handle args
  | .list (.atom "C15" :: args) => C15.handle args
  | .list (.atom "C16" :: args) => C16.handle args
  | .list (.atom "C17" :: args) => C17.handle args
  | .list (.atom "C18" :: args) => C18.handle args
  | .list (.atom "C19" :: args) => C19.handle args
  | .list (.atom "echo" :: args) => .list args
  | _ => .atom "unknown-channel"

def main : IO Unit := do
  lineLoop (← IO.getStdin) (← IO.getStdout) handle
