import Cellml.Tie.UnitDefs
import Cellml.Tie.GenBIso
import Cellml.Units.WorklistComplete

/-! # GenB: the two tie packages meet — the leaf `add_unit` of the generated `_add_units` IS the generated
    `UnitStore.add_unit`, on the work list's own domain

    The body of the `while` loop of `Parser._add_units` (`Gen.UnitDefs.addUnitsBody`) calls
    `self.model.units.add_unit(name, definition)`; the spec of that group binds the call to the leaf
    `PUnitDefs.addUnitLeaf`. `UnitStore.add_unit` itself is translated in the group `Units` (`Gen.Units.addUnit`) and tied
    to the same hand model by `addUnit_tie`, with the domain hypotheses `hdef`, `hsup`. This file composes the two:
    the leaf returns exactly what the generated method does to the store object (since the repair of the hand model,
    notes/reports/MODELFIX_Units.md, with no condition on the references: an unknown name is an `UndefinedUnitError` of
    the leaf and of the generated method alike, whatever its exponent). What remains of the domain is `hdef` / `hsup` —
    where the hand model abstains
    (`unsupported`: a multiplier ≤ 0; `dimensionless` mixed with dimensional units) and the leaf, which is defined by
    the hand model, abstains with it. -/

set_option linter.unusedSimpArgs false

namespace Cellml.Tie.PGenB
open Units PMap Cellml.Gen Cellml.Tie Cellml.Tie.PUnits

theorem addUnit_not_unsupported (reg : Registry) (st : Store) (name : String) (elems : List UnitElem) (k : Scale)
    (c : Container) (md : Bool) (hdef : defMeaning st.id elems = .ok (k, c, md))
    (hsup : ¬ (norm c ≠ [] ∧ md = true)) (e : AddErr) (h : Units.addUnit reg st name elems = .error e) :
    PUnitDefs.addErrClass e = PUnits.addErrClass e := by
  rw [addUnit_noOffset (defMeaning_ok_offset hdef)] at h
  unfold Units.addUnitWith at h
  rw [hdef] at h
  simp only at h
  split at h
  · cases h; rfl
  · split at h
    · cases h; rfl
    · split at h
      · cases h; rfl
      · split at h
        · cases h; rfl
        · split at h
          · cases h
          · split at h
            · rename_i h5 h6
              exact absurd ⟨h5, h6⟩ hsup
            · cases h

/-- the leaf of the generated work list is the hand model `Units.addUnit` (classes of `PUnitDefs.addErrClass`) -/
theorem addUnitLeaf_model (reg : Registry) (st : Store) (d : UDef) (hoff : d.elems.any elemOffsetBad = false) :
    PUnitDefs.addUnitLeaf (reg, st) d.name ⟨d.elems.map PUnitDefs.elemExpr⟩ =
      errClass PUnitDefs.addErrClass (Units.addUnit reg st d.name d.elems) := by
  have h5 : ((d.elems.map PUnitDefs.elemExpr).all
      fun e => e.names.all fun n => allKnown reg (nameContainer (mangle st.id n))) = refsKnown reg st.id d.elems := by
    simp [refsKnown, List.all_map, Function.comp_def, PUnitDefs.elemExpr_names]
  unfold PUnitDefs.addUnitLeaf
  simp only [h5]
  rw [PUnitDefs.denAll_map _ _ hoff, PUnitDefs.addUnit_eq_with _ _ _ _ hoff]

/-- **composition of the ties**: the leaf the generated work list calls = the generated `UnitStore.add_unit` run on
    the store object, read back (`registry definitions, model store`) — same result, same exception class; no
    hypothesis on the references of the definition -/
theorem addUnitLeaf_generated (reg : Registry) (st : Store) (d : UDef)
    (hoff : d.elems.any elemOffsetBad = false) (k : Scale) (c : Container) (md : Bool)
    (hdef : defMeaning st.id d.elems = .ok (k, c, md)) (hsup : ¬ (norm c ≠ [] ∧ md = true)) :
    PUnitDefs.addUnitLeaf (reg, st) d.name ⟨d.elems.map PUnitDefs.elemExpr⟩ =
      (Gen.Units.addUnit (storeObj st reg []) d.name ⟨d.elems, id⟩).map
        (fun r => (r.1._registry.defs, storeOfObj r.1)) := by
  rw [addUnit_tie st reg [] d.name d.elems k c md hdef hsup, addUnitLeaf_model reg st d hoff]
  cases hr : Units.addUnit reg st d.name d.elems with
  | ok r =>
    obtain ⟨reg', st'⟩ := r
    simp [errClass, Except.map, added, storeObj, storeOfObj, userNames_append]
  | error e =>
    simp only [errClass, Except.map, addUnit_not_unsupported reg st d.name d.elems k c md hdef hsup e hr]

/-- **the property's own hypothesis implies the tie domain**: whenever an `add_now` step of the work list SUCCEEDS
    (as every step does under the hypothesis `… = .ok (reg, st)` of `worklist_sound_partial` / `worklist_perm_partial`),
    the call `add_unit(name, definition)` it makes is inside the domain of `addUnit_tie` (`hdef`, `hsup` both hold),
    and the new unit store is exactly what the GENERATED `UnitStore.add_unit` produces from the store object -/
theorem addNow_ok_generated (reg : Registry) (st : Store) (d : UDef) (r : Registry × Store)
    (h : addNow reg st d = .ok r) :
    (Gen.Units.addUnit (storeObj st reg []) d.name ⟨d.elems, id⟩).map
      (fun o => (o.1._registry.defs, storeOfObj o.1)) = .ok r := by
  obtain ⟨hoff, _, _, _, hadd⟩ := addNow_ok h
  obtain ⟨k, c, md, hdef, _, _, _, _, hmd, _⟩ := Units.addUnit_ok hadd
  have hsup : ¬ (norm c ≠ [] ∧ md = true) := fun hh => hh.1 (hmd hh.2)
  rw [← addUnitLeaf_generated reg st d hoff k c md hdef hsup]
  have hn := PUnitDefs.addNow_tie reg st d
  rw [h, PUnitDefs.makeDef_tie, hoff] at hn
  have hdup : PUnitDefs.isDefined (reg, st) d.name = false := by
    cases hx : PUnitDefs.isDefined (reg, st) d.name with
    | false => rfl
    | true => simp [hx, bind, Except.bind, throw, throwThe, MonadExceptOf.throw, errClass] at hn
  simpa [hdup, bind, Except.bind, errClass] using hn

end Cellml.Tie.PGenB
