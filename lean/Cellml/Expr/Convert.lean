import Cellml.Expr.Infer

/-! `UnitCalculator.convert_expression_recursively` (units.py 659-801), branch by branch. -/

namespace Convert
open Units Infer

/-- result of a conversion: new expression, `was_converted`, `actual_units`, and whether the returned object is the
    very object that was passed in -/
structure CR where
  e    : E
  wc   : Bool
  u    : Container
  same : Bool
deriving Repr, DecidableEq

/-- `float(expr)` on a closed numeric expression: `none` = TypeError (symbols left), `some none` = a number whose
    value the exact model does not track, `some (some q)` = q -/
def evalClosed : E → Option (Option Rat)
  | .qty v _ => some (some v)
  | .cf s _ => if s = [] then some (some 1) else some none
  | .int n => some (some n)
  | .rat q => some (some q)
  | .flt q => some (some q)
  | .pi | .e | .oo | .nan => some none
  | .mul a b =>
      match evalClosed a, evalClosed b with
      | some (some x), some (some y) => some (some (x * y))
      | some _, some _ => some none
      | _, _ => none
  | .add a b =>
      match evalClosed a, evalClosed b with
      | some (some x), some (some y) => some (some (x + y))
      | some _, some _ => some none
      | _, _ => none
  | .pow a b =>
      match evalClosed a, evalClosed b with
      | some (some x), some (some y) =>
          if y.den = 1 ∧ ¬ (x = 0 ∧ y < 0) then some (some (ratPowInt x y.num)) else some none
      | some _, some _ => some none
      | _, _ => none
  | .abs a =>
      match evalClosed a with
      | some (some x) => some (some (if x < 0 then -x else x))
      | r => r
  | .floor a | .ceil a | .fn1 _ a =>
      match evalClosed a with
      | some _ => some none
      | none => none
  | _ => none

/-- `maybe_convert_expr` -/
def maybeConv (reg : Registry) (e : E) (wc : Bool) (frm : Container) (tgt : Option Container) (same : Bool) :
    Except UnitErr CR :=
  match tgt with
  | none => .ok ⟨e, wc, frm, same⟩
  | some t =>
      match conversionFactor reg frm t with
      | .error .dimensionality => .error .cannotConvert
      | .error _ => .error (.otherException "UndefinedUnitError")
      | .ok none => .ok ⟨e, wc, t, same⟩
      | .ok (some f) => .ok ⟨.mul (.cf f (divC t frm)) e, true, t, false⟩

/-- target of a construct that can only be dimensionless: `None` or structurally `dimensionless` -/
def dimlessTarget (tgt : Option Container) : Bool :=
  match tgt with
  | none => true
  | some t => t = []

def convert (reg : Registry) (Γ : VarEnv) : E → Option Container → Except UnitErr CR
  | .qty v u, tgt => maybeConv reg (.qty v u) false u tgt true
  | .cf s u, tgt => maybeConv reg (.cf s u) false u tgt true
  | .var i, tgt =>
      match Γ[i]? with
      | some vi => maybeConv reg (.var i) false vi.unit tgt true
      | none => .error (.unsupported "unknown variable")
  | .deriv v t, tgt =>
      match Γ[v]?, Γ[t]? with
      | some vv, some vt => maybeConv reg (.deriv v t) false (divC vv.unit vt.unit) tgt true
      | _, _ => .error (.unsupported "unknown variable")
  | .mul a b, tgt => do
      let ra ← convert reg Γ a none
      let rb ← convert reg Γ b none
      let wc := ra.wc || rb.wc
      let u := mulC ra.u rb.u
      -- the product is rebuilt only when an operand was converted (after the repair recorded in findings/C05.json)
      maybeConv reg (if wc then .mul ra.e rb.e else .mul a b) wc u tgt (!wc)
  | .pow b x, tgt => do
      let rx ← convert reg Γ x (some [])
      let xv ← match evalClosed rx.e with
        | none => throw .mustBeNumber
        | some none => throw (.unsupported "exponent value not tracked")
        | some (some q) => pure q
      let rb ← convert reg Γ b none
      let wc := rx.wc || rb.wc
      let e' := if wc then E.pow rb.e rx.e else E.pow b x
      maybeConv reg e' wc (powC rb.u xv) tgt (!wc)
  | .add a b, tgt => do
      let ra ← convert reg Γ a tgt
      let t := tgt.getD ra.u
      let rb ← convert reg Γ b (some t)
      let wc := ra.wc || rb.wc
      pure ⟨if wc then .add ra.e rb.e else .add a b, wc, rb.u, !wc⟩
  | .rel r a b, tgt => do
      if !dimlessTarget tgt then throw .boolean
      let ra ← convert reg Γ a none
      let rb ← convert reg Γ b (some ra.u)
      let wc := ra.wc || rb.wc
      pure ⟨if wc then .rel r ra.e rb.e else .rel r a b, wc, [], !wc⟩
  | .ite c t el, tgt => do
      let rt ← convert reg Γ t tgt
      let rc ← convert reg Γ c (some [])
      let tg := tgt.getD rt.u
      if el = .undef then
        let wc := rt.wc || rc.wc
        pure ⟨if wc then .ite rc.e rt.e .undef else .ite c t .undef, wc, rt.u, !wc⟩
      else do
        let re ← convert reg Γ el (some tg)
        let wc := rt.wc || rc.wc || re.wc
        pure ⟨if wc then .ite rc.e rt.e re.e else .ite c t el, wc, re.u, !wc⟩
  | .abs a, tgt => do
      let ra ← convert reg Γ a tgt
      pure ⟨if ra.wc then .abs ra.e else .abs a, ra.wc, ra.u, !ra.wc⟩
  | .floor a, tgt => do
      let ra ← convert reg Γ a tgt
      pure ⟨if ra.wc then .floor ra.e else .floor a, ra.wc, ra.u, !ra.wc⟩
  | .ceil a, tgt => do
      let ra ← convert reg Γ a tgt
      pure ⟨if ra.wc then .ceil ra.e else .ceil a, ra.wc, ra.u, !ra.wc⟩
  | .fn1 f a, tgt => do
      if !dimlessTarget tgt then throw .mustBeDimensionless
      let ra ← convert reg Γ a (some [])
      pure ⟨if ra.wc then .fn1 f ra.e else .fn1 f a, ra.wc, ra.u, !ra.wc⟩
  | .fnN f a b, tgt => do
      if !dimlessTarget tgt then throw .mustBeDimensionless
      let ra ← convert reg Γ a (some [])
      let rb ← convert reg Γ b (some [])
      let wc := ra.wc || rb.wc
      pure ⟨if wc then .fnN f ra.e rb.e else .fnN f a b, wc, rb.u, !wc⟩
  -- `And`, `Or`, `Not` are SymPy Functions (`is_Function` is True): the function branch applies to them
  | .and a b, tgt => do
      if !dimlessTarget tgt then throw .mustBeDimensionless
      let ra ← convert reg Γ a (some [])
      let rb ← convert reg Γ b (some [])
      let wc := ra.wc || rb.wc
      pure ⟨if wc then .and ra.e rb.e else .and a b, wc, rb.u, !wc⟩
  | .or a b, tgt => do
      if !dimlessTarget tgt then throw .mustBeDimensionless
      let ra ← convert reg Γ a (some [])
      let rb ← convert reg Γ b (some [])
      let wc := ra.wc || rb.wc
      pure ⟨if wc then .or ra.e rb.e else .or a b, wc, rb.u, !wc⟩
  | .not a, tgt => do
      if !dimlessTarget tgt then throw .mustBeDimensionless
      let ra ← convert reg Γ a (some [])
      pure ⟨if ra.wc then .not ra.e else .not a, ra.wc, ra.u, !ra.wc⟩
  | .undef, _ => .error .unexpectedMath
  | .other _, _ => .error .unexpectedMath
  -- numbers, constants and every Boolean that is not a relation: a leaf that can only be dimensionless
  | e, tgt => if dimlessTarget tgt then .ok ⟨e, false, [], true⟩ else .error .mustBeDimensionless

end Convert
