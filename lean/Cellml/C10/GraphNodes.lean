import Cellml.C10.WF

/-! # C10: which nodes `Model.graph` has, and with which `variable_type`

    `buildGraph names eqs = .ok g` ⇒ the nodes of `g` are the left-hand sides (in equation order, typed by `typeMap`)
    followed by bare variable nodes typed STATE or FREE. Hence the derivative nodes are exactly the ODE left-hand
    sides and the nodes that are neither FREE, STATE nor PARAMETER are left-hand-side variables. Core Lean only. -/

namespace Model

-- ------------------------------------------------------------------------------------------------ typeMap
theorem typeMap_eq (eqs : List Eqn) :
    typeMap eqs = tmAcc freeWrites (tmAcc stateWrites (tmAcc lhsWrites [] eqs) eqs) eqs := rfl

/-- what one equation writes in the three loops together is `typeWrites` -/
theorem mem_typeWrites (e : Eqn) (p : Nat × VType) :
    p ∈ typeWrites e ↔ p ∈ freeWrites e ∨ p ∈ stateWrites e ∨ p ∈ lhsWrites e := by
  unfold typeWrites freeWrites stateWrites lhsWrites
  cases e.lhs <;> simp

theorem lookup_isSome_of_mem (l : List (Nat × VType)) (x : Nat) (ty : VType) (h : (x, ty) ∈ l) :
    (l.lookup x).isSome = true := by
  induction l with
  | nil => cases h
  | cons p rest ih =>
    obtain ⟨a, b⟩ := p
    by_cases hxa : x = a
    · subst hxa; simp
    · rcases List.mem_cons.mp h with h | h
      · cases h; exact absurd rfl hxa
      · simp only [List.lookup_cons, beq_ne hxa]; exact ih h

/-- one type-writing loop: either some equation of the loop wrote the role found, or no equation of the loop wrote
    a role for `x` and the role is the one from before the loop -/
theorem lookup_tmAcc_cases (w : Eqn → List (Nat × VType)) (x : Nat) : ∀ (eqs : List Eqn) (acc : List (Nat × VType)),
    (∃ e ∈ eqs, ∃ ty, (x, ty) ∈ w e ∧ (tmAcc w acc eqs).lookup x = some ty) ∨
    ((∀ e ∈ eqs, ∀ ty, (x, ty) ∉ w e) ∧ (tmAcc w acc eqs).lookup x = acc.lookup x)
  | [], acc => .inr ⟨fun _ h => (by cases h), rfl⟩
  | e :: es, acc => by
    rcases lookup_tmAcc_cases w x es (w e ++ acc) with ⟨e', he', ty, hm, hl⟩ | ⟨hno, hl⟩
    · exact .inl ⟨e', List.mem_cons_of_mem _ he', ty, hm, hl⟩
    · have hl' : (tmAcc w acc (e :: es)).lookup x = (w e ++ acc).lookup x := hl
      rw [List.lookup_append] at hl'
      rcases hw : (w e).lookup x with _ | ty
      · right
        rw [hw] at hl'
        refine ⟨fun e' he' ty hm => ?_, by simpa using hl'⟩
        rcases List.mem_cons.mp he' with rfl | he'
        · have := lookup_isSome_of_mem _ x ty hm
          rw [hw] at this; cases this
        · exact hno e' he' ty hm
      · left
        rw [hw] at hl'
        exact ⟨e, List.mem_cons_self .., ty, mem_of_lookup _ _ _ hw, by simpa using hl'⟩

theorem lookup_tmAcc (w : Eqn → List (Nat × VType)) (x : Nat) (ty : VType) (eqs : List Eqn) (acc : List (Nat × VType))
    (h : (tmAcc w acc eqs).lookup x = some ty) : (∃ e ∈ eqs, (x, ty) ∈ w e) ∨ acc.lookup x = some ty := by
  rcases lookup_tmAcc_cases w x eqs acc with ⟨e, he, ty', hm, hl⟩ | ⟨_, hl⟩
  · rw [h] at hl; cases hl; exact .inl ⟨e, he, hm⟩
  · rw [h] at hl; exact .inr hl.symm

theorem isSome_tmAcc (w : Eqn → List (Nat × VType)) (x : Nat) (eqs : List Eqn) (acc : List (Nat × VType))
    (h : (∃ e ∈ eqs, ∃ ty, (x, ty) ∈ w e) ∨ (acc.lookup x).isSome = true) :
    ((tmAcc w acc eqs).lookup x).isSome = true := by
  rcases lookup_tmAcc_cases w x eqs acc with ⟨e, he, ty', hm, hl⟩ | ⟨hno, hl⟩
  · rw [hl]; rfl
  · rcases h with ⟨e, he, ty, hm⟩ | h
    · exact absurd hm (hno e he ty)
    · rw [hl]; exact h

/-- the role of a variable was written by some equation -/
theorem tyOf_typeMap_some {eqs : List Eqn} {x : Nat} {ty : VType} (h : tyOf (typeMap eqs) x = some ty) :
    ∃ e ∈ eqs, (x, ty) ∈ typeWrites e := by
  rcases lookup_tmAcc freeWrites x ty eqs _ h with ⟨e, he, hm⟩ | h
  · exact ⟨e, he, (mem_typeWrites e _).mpr (.inl hm)⟩
  · rcases lookup_tmAcc stateWrites x ty eqs _ h with ⟨e, he, hm⟩ | h
    · exact ⟨e, he, (mem_typeWrites e _).mpr (.inr (.inl hm))⟩
    · rcases lookup_tmAcc lhsWrites x ty eqs _ h with ⟨e, he, hm⟩ | h
      · exact ⟨e, he, (mem_typeWrites e _).mpr (.inr (.inr hm))⟩
      · simp at h

theorem tyOf_typeMap_isSome {eqs : List Eqn} {e : Eqn} (he : e ∈ eqs) {x : Nat} {ty : VType}
    (h : (x, ty) ∈ typeWrites e) : (tyOf (typeMap eqs) x).isSome = true := by
  unfold tyOf
  rw [typeMap_eq]
  rcases (mem_typeWrites e _).mp h with h | h | h
  · exact isSome_tmAcc _ x eqs _ (.inl ⟨e, he, ty, h⟩)
  · exact isSome_tmAcc _ x eqs _ (.inr (isSome_tmAcc _ x eqs _ (.inl ⟨e, he, ty, h⟩)))
  · exact isSome_tmAcc _ x eqs _ (.inr (isSome_tmAcc _ x eqs _ (.inr (isSome_tmAcc _ x eqs _ (.inl ⟨e, he, ty, h⟩)))))

/-- one type-writing loop gives the same role to `x` for every order of the equations, provided the equations agree
    on the role they write for `x` -/
theorem lookup_tmAcc_perm (w : Eqn → List (Nat × VType)) (x : Nat) {eqs eqs' : List Eqn} (hp : eqs'.Perm eqs)
    {acc acc' : List (Nat × VType)} (hacc : acc'.lookup x = acc.lookup x)
    (hfun : ∀ e₁ ∈ eqs, ∀ e₂ ∈ eqs, ∀ t₁ t₂, (x, t₁) ∈ w e₁ → (x, t₂) ∈ w e₂ → t₁ = t₂) :
    (tmAcc w acc' eqs').lookup x = (tmAcc w acc eqs).lookup x := by
  rcases lookup_tmAcc_cases w x eqs acc with ⟨e, he, t, hm, hl⟩ | ⟨hno, hl⟩ <;>
    rcases lookup_tmAcc_cases w x eqs' acc' with ⟨e', he', t', hm', hl'⟩ | ⟨hno', hl'⟩
  · rw [hl, hl', hfun e he e' (hp.mem_iff.mp he') t t' hm hm']
  · exact absurd hm (hno' e (hp.mem_iff.mpr he) t)
  · exact absurd hm' (hno e' (hp.mem_iff.mp he') t')
  · rw [hl, hl', hacc]

/-- **the roles are a function of the SET of equations** (since the `fix:` commit "the roles that come from the ODEs
    win"): permuting `Model.equations` changes the `type` of no variable, as long as no variable is assigned both a
    bare number and something else (`Model.graph` refuses two equations with the same left-hand side anyway) -/
theorem tyOf_typeMap_perm {eqs eqs' : List Eqn} (hp : eqs'.Perm eqs)
    (hfun : ∀ e₁ ∈ eqs, ∀ e₂ ∈ eqs, ∀ v, e₁.lhs = .var v → e₂.lhs = .var v → e₁.bareQuantity = e₂.bareQuantity)
    (x : Nat) : tyOf (typeMap eqs') x = tyOf (typeMap eqs) x := by
  unfold tyOf
  rw [typeMap_eq, typeMap_eq]
  apply lookup_tmAcc_perm _ x hp
  · apply lookup_tmAcc_perm _ x hp
    · apply lookup_tmAcc_perm _ x hp rfl
      intro e₁ h₁ e₂ h₂ t₁ t₂ m₁ m₂
      unfold lhsWrites at m₁ m₂
      cases hl₁ : e₁.lhs with
      | var v₁ =>
        cases hl₂ : e₂.lhs with
        | var v₂ =>
          rw [hl₁] at m₁; rw [hl₂] at m₂
          simp only [List.mem_singleton, Prod.mk.injEq] at m₁ m₂
          obtain ⟨rfl, rfl⟩ := m₁
          obtain ⟨rfl, rfl⟩ := m₂
          rw [hfun e₁ h₁ e₂ h₂ x hl₁ hl₂]
        | deriv s t o => rw [hl₂] at m₂; cases m₂
        | other => rw [hl₂] at m₂; cases m₂
      | deriv s t o => rw [hl₁] at m₁; cases m₁
      | other => rw [hl₁] at m₁; cases m₁
    · intro e₁ _ e₂ _ t₁ t₂ m₁ m₂
      unfold stateWrites at m₁ m₂
      cases hl₁ : e₁.lhs <;> rw [hl₁] at m₁ <;> cases hl₂ : e₂.lhs <;> rw [hl₂] at m₂ <;> simp_all
  · intro e₁ _ e₂ _ t₁ t₂ m₁ m₂
    unfold freeWrites at m₁ m₂
    cases hl₁ : e₁.lhs <;> rw [hl₁] at m₁ <;> cases hl₂ : e₂.lhs <;> rw [hl₂] at m₂ <;> simp_all

/-- BEFORE the fix (`typeMapOld`: one loop, the last write stays) the role of a free variable that also has a defining
    equation depended on where the ODE stood: `t = …` (variable 0) and `dx/dt = …` in the two orders -/
theorem typeMapOld_order_dependent :
    tyOf (typeMapOld [⟨0, .var 0, [], [], false⟩, ⟨1, .deriv 1 0 1, [], [], false⟩]) 0 = some .free ∧
    tyOf (typeMapOld [⟨1, .deriv 1 0 1, [], [], false⟩, ⟨0, .var 0, [], [], false⟩]) 0 = some .computed ∧
    tyOf (typeMap [⟨0, .var 0, [], [], false⟩, ⟨1, .deriv 1 0 1, [], [], false⟩]) 0 = some .free ∧
    tyOf (typeMap [⟨1, .deriv 1 0 1, [], [], false⟩, ⟨0, .var 0, [], [], false⟩]) 0 = some .free := by decide

/-- a variable that is the state or bound variable of an ODE and is not the left-hand side of an assignment is typed
    STATE or FREE -/
theorem tyOf_state_or_free {eqs : List Eqn} {e : Eqn} (he : e ∈ eqs) {s t o : Nat} (hl : e.lhs = .deriv s t o)
    {x : Nat} (hx : x = s ∨ x = t) (hno : ∀ e' ∈ eqs, e'.lhs ≠ .var x) :
    tyOf (typeMap eqs) x = some .state ∨ tyOf (typeMap eqs) x = some .free := by
  have hsome : (tyOf (typeMap eqs) x).isSome = true := by
    rcases hx with rfl | rfl
    · exact tyOf_typeMap_isSome he (ty := .state) (by simp [typeWrites, hl])
    · exact tyOf_typeMap_isSome he (ty := .free) (by simp [typeWrites, hl])
  obtain ⟨ty, hty⟩ := Option.isSome_iff_exists.mp hsome
  obtain ⟨e', he', hw⟩ := tyOf_typeMap_some hty
  cases hl' : e'.lhs with
  | var v =>
    simp [typeWrites, hl'] at hw
    exact absurd (hw.1 ▸ hl') (hno e' he')
  | deriv s' t' o' =>
    simp [typeWrites, hl'] at hw
    rcases hw with ⟨_, rfl⟩ | ⟨_, rfl⟩
    · exact .inr hty
    · exact .inl hty
  | other => simp [typeWrites, hl'] at hw

-- ------------------------------------------------------------------------------------------------ nodes of the graph
/-- a node added for a reference or for the variables of an ODE: a variable without equation, typed STATE or FREE -/
def BareOK (tm : List (Nat × VType)) (x : GNode) : Prop :=
  ∃ v, x = ⟨.var v, none, tyOf tm v⟩ ∧ (tyOf tm v = some .state ∨ tyOf tm v = some .free)

/-- `g'` has the nodes of `g` followed by bare STATE/FREE variable nodes -/
def Ext (tm : List (Nat × VType)) (g g' : Graph) : Prop :=
  ∃ extra, g'.nodes = g.nodes ++ extra ∧ ∀ x ∈ extra, BareOK tm x

theorem Ext.refl (tm : List (Nat × VType)) (g : Graph) : Ext tm g g := ⟨[], by simp, fun _ h => by cases h⟩

theorem Ext.trans {tm : List (Nat × VType)} {g g' g'' : Graph} (h1 : Ext tm g g') (h2 : Ext tm g' g'') : Ext tm g g'' := by
  obtain ⟨x1, e1, b1⟩ := h1
  obtain ⟨x2, e2, b2⟩ := h2
  refine ⟨x1 ++ x2, by rw [e2, e1, List.append_assoc], fun x hx => ?_⟩
  rcases List.mem_append.mp hx with h | h
  · exact b1 x h
  · exact b2 x h

theorem Ext.has {tm : List (Nat × VType)} {g g' : Graph} (h : Ext tm g g') {n : Node} (hn : hasNode g n = true) :
    hasNode g' n = true := by
  obtain ⟨x, e, _⟩ := h
  unfold hasNode at hn ⊢
  rw [e, List.any_append, hn]; rfl

/-- the reference can be given a node: it is a variable typed STATE or FREE -/
def bareRef (tm : List (Nat × VType)) (r : Node) : Prop :=
  ∃ v, r = .var v ∧ (tyOf tm v = some .state ∨ tyOf tm v = some .free)

theorem ext_addBareNode (tm : List (Nat × VType)) (g : Graph) (n : Node) (h : hasNode g n = true ∨ bareRef tm n) :
    Ext tm g (addBareNode tm g n) := by
  unfold addBareNode
  by_cases hn : hasNode g n = true
  · rw [if_pos hn]; exact Ext.refl tm g
  · rw [if_neg hn]
    rcases h with h | ⟨v, rfl, hv⟩
    · exact absurd h hn
    · exact ⟨[⟨.var v, none, nodeType tm (.var v)⟩], rfl, fun x hx => by
        simp only [List.mem_singleton] at hx
        exact ⟨v, hx, hv⟩⟩

theorem ext_refs_fold (tm : List (Nat × VType)) (l : Node) : ∀ (refs : List Node) (g : Graph),
    (∀ r ∈ refs, hasNode g r = true ∨ bareRef tm r) →
    Ext tm g (refs.foldl (fun g r => { addBareNode tm g r with edges := (addBareNode tm g r).edges ++ [(r, l)] }) g)
  | [], g, _ => Ext.refl tm g
  | r :: rs, g, h => by
    simp only [List.foldl_cons]
    have h1 : Ext tm g { addBareNode tm g r with edges := (addBareNode tm g r).edges ++ [(r, l)] } := by
      obtain ⟨x, e, b⟩ := ext_addBareNode tm g r (h r (List.mem_cons_self ..))
      exact ⟨x, e, b⟩
    refine h1.trans (ext_refs_fold tm l rs _ (fun r' hr' => ?_))
    rcases h r' (List.mem_cons_of_mem _ hr') with h' | h'
    · exact .inl (h1.has h')
    · exact .inr h'

theorem not_badRef {tm : List (Nat × VType)} {g : Graph} {r : Node} (h : badRef tm g r = false) :
    hasNode g r = true ∨ bareRef tm r := by
  unfold badRef at h
  by_cases hn : hasNode g r = true
  · exact .inl hn
  · right
    have hn' : hasNode g r = false := by simpa using hn
    rw [hn'] at h
    cases r with
    | deriv s t => simp at h
    | var v =>
      simp only [Bool.not_false, Bool.true_and, Bool.not_eq_false', Bool.or_eq_true, beq_iff_eq] at h
      exact ⟨v, rfl, h⟩

/-- one equation of the edge loop only appends bare STATE/FREE variable nodes -/
theorem ext_addEdges {eqs : List Eqn} {g g' : Graph} {e : Eqn} (he : e ∈ eqs)
    (hlhs : ∀ e' ∈ eqs, ∀ n, lhsNode e'.lhs = some n → hasNode g n = true)
    (h : addEdges (typeMap eqs) g e = .ok g') : Ext (typeMap eqs) g g' := by
  unfold addEdges at h
  rcases hl : lhsNode e.lhs with _ | l
  · rw [hl] at h; cases h
  · rw [hl] at h
    dsimp only at h
    by_cases hbad : (!(e.refs.filter (badRef (typeMap eqs) g)).isEmpty) = true
    · rw [if_pos hbad] at h; cases h
    · rw [if_neg hbad] at h
      have hempty : e.refs.filter (badRef (typeMap eqs) g) = [] := by simpa using hbad
      have hrefs : ∀ r ∈ e.refs, hasNode g r = true ∨ bareRef (typeMap eqs) r := fun r hr => by
        apply not_badRef
        by_cases hb : badRef (typeMap eqs) g r = true
        · have : r ∈ e.refs.filter (badRef (typeMap eqs) g) := List.mem_filter.mpr ⟨hr, hb⟩
          rw [hempty] at this; cases this
        · simpa using hb
      have h1 := ext_refs_fold (typeMap eqs) l e.refs g hrefs
      cases hlhs' : e.lhs with
      | var v => rw [hlhs'] at h; cases h; exact h1
      | other => rw [hlhs'] at h; cases h; exact h1
      | deriv s t o =>
        rw [hlhs'] at h
        dsimp only at h
        cases h
        have hvar : ∀ (x : Nat) (gx : Graph), (x = s ∨ x = t) → Ext (typeMap eqs) g gx →
            hasNode gx (.var x) = true ∨ bareRef (typeMap eqs) (.var x) := fun x gx hx hgx => by
          by_cases hno : ∀ e' ∈ eqs, e'.lhs ≠ .var x
          · exact .inr ⟨x, rfl, tyOf_state_or_free he hlhs' hx hno⟩
          · left
            have : ∃ e' ∈ eqs, e'.lhs = .var x := by
              apply Classical.byContradiction
              intro hc
              exact hno (fun e' he' heq => hc ⟨e', he', heq⟩)
            obtain ⟨e', he', heq⟩ := this
            exact hgx.has (hlhs e' he' (.var x) (by rw [heq]; rfl))
        have h2 := ext_addBareNode (typeMap eqs) _ (.var t) (hvar t _ (.inr rfl) h1)
        have h3 := ext_addBareNode (typeMap eqs) _ (.var s) (hvar s _ (.inl rfl) (h1.trans h2))
        exact (h1.trans h2).trans h3

theorem ext_addAllEdges {eqs : List Eqn} : ∀ (es : List Eqn) (g g' : Graph), (∀ e ∈ es, e ∈ eqs) →
    (∀ e' ∈ eqs, ∀ n, lhsNode e'.lhs = some n → hasNode g n = true) →
    addAllEdges (typeMap eqs) g es = .ok g' → Ext (typeMap eqs) g g'
  | [], g, g', _, _, h => by simp only [addAllEdges] at h; cases h; exact Ext.refl _ g
  | e :: es, g, g', hsub, hlhs, h => by
    simp only [addAllEdges] at h
    rcases h1 : addEdges (typeMap eqs) g e with err | g1
    · rw [h1] at h; cases h
    · rw [h1] at h
      dsimp only at h
      have e1 := ext_addEdges (hsub e (List.mem_cons_self ..)) hlhs h1
      exact e1.trans (ext_addAllEdges es g1 g' (fun x hx => hsub x (List.mem_cons_of_mem _ hx))
        (fun e' he' n hn => e1.has (hlhs e' he' n hn)) h)

-- ------------------------------------------------------------------------------------------------ buildGraph
/-- the nodes the builder starts the edge loop with: the left-hand sides, in equation order, with their roles -/
def lhsGNodes (tm : List (Nat × VType)) (eqs : List Eqn) : List GNode :=
  eqs.filterMap (fun e => (lhsNode e.lhs).map fun n => ⟨n, some e, nodeType tm n⟩)

theorem lhsNodes_spec (tm : List (Nat × VType)) : ∀ (eqs : List Eqn) (ns : List GNode), lhsNodes eqs = some ns →
    ns.map (fun n => { n with vtype := nodeType tm n.node }) = lhsGNodes tm eqs
  | [], ns, h => by simp only [lhsNodes, Option.some.injEq] at h; subst h; rfl
  | e :: es, ns, h => by
    simp only [lhsNodes] at h
    rcases hl : lhsNode e.lhs with _ | n
    · rw [hl] at h; simp at h
    · rcases hr : lhsNodes es with _ | ns'
      · rw [hl, hr] at h; simp at h
      · rw [hl, hr] at h
        simp only [Option.some.injEq] at h
        subst h
        have ih := lhsNodes_spec tm es ns' hr
        simp only [List.map_cons, lhsGNodes, List.filterMap_cons, hl, Option.map_some]
        rw [ih]; rfl

theorem hasNode_lhsGNodes (tm : List (Nat × VType)) (eqs : List Eqn) (es : List (Node × Node)) {e : Eqn}
    (he : e ∈ eqs) {n : Node} (hn : lhsNode e.lhs = some n) : hasNode ⟨lhsGNodes tm eqs, es⟩ n = true := by
  unfold hasNode
  rw [List.any_eq_true]
  exact ⟨⟨n, some e, nodeType tm n⟩, List.mem_filterMap.mpr ⟨e, he, by simp [hn]⟩, by simp⟩

/-- **the nodes of `Model.graph`**: the left-hand sides, then bare STATE/FREE variable nodes -/
theorem buildGraph_nodes {names : List String} {eqs : List Eqn} {g : Graph} (h : buildGraph names eqs = .ok g) :
    ∃ extra, g.nodes = lhsGNodes (typeMap eqs) eqs ++ extra ∧ ∀ x ∈ extra, BareOK (typeMap eqs) x := by
  unfold buildGraph at h
  dsimp only at h
  rcases hl : lhsNodes eqs with _ | ns
  · rw [hl] at h; cases h
  · rw [hl] at h
    dsimp only at h
    split at h
    · cases h
    · split at h
      · cases h
      · rw [lhsNodes_spec (typeMap eqs) eqs ns hl] at h
        exact ext_addAllEdges eqs _ g (fun _ he => he)
          (fun e' he' n hn => hasNode_lhsGNodes _ _ _ he' hn) h

/-- the derivatives that are left-hand sides, in equation order -/
def derivLhs (eqs : List Eqn) : List (Nat × Nat) :=
  eqs.filterMap (fun e => match e.lhs with | .deriv s t _ => some (s, t) | _ => none)

/-- the assigned variables whose role is none of FREE, STATE, PARAMETER, in equation order -/
def computedLhs (tm : List (Nat × VType)) (eqs : List Eqn) : List Nat :=
  eqs.filterMap (fun e => match e.lhs with
    | .var v => if tyOf tm v = some .free ∨ tyOf tm v = some .state ∨ tyOf tm v = some .parameter then none else some v
    | _ => none)

theorem lhsGNodes_cons_some (tm : List (Nat × VType)) (e : Eqn) (es : List Eqn) {n : Node} (h : lhsNode e.lhs = some n) :
    lhsGNodes tm (e :: es) = ⟨n, some e, nodeType tm n⟩ :: lhsGNodes tm es := by
  unfold lhsGNodes; rw [List.filterMap_cons]; simp only [h, Option.map_some]

theorem lhsGNodes_cons_none (tm : List (Nat × VType)) (e : Eqn) (es : List Eqn) (h : lhsNode e.lhs = none) :
    lhsGNodes tm (e :: es) = lhsGNodes tm es := by
  unfold lhsGNodes; rw [List.filterMap_cons]; simp only [h, Option.map_none]

theorem derivNodesL_lhsGNodes (tm : List (Nat × VType)) : ∀ eqs : List Eqn, derivNodesL (lhsGNodes tm eqs) = derivLhs eqs
  | [] => rfl
  | e :: es => by
    have ih := derivNodesL_lhsGNodes tm es
    cases hl : e.lhs with
    | var v =>
      rw [lhsGNodes_cons_some tm e es (n := .var v) (by rw [hl]; rfl)]
      simp only [derivNodesL, derivLhs, List.filterMap_cons, hl] at ih ⊢; exact ih
    | deriv s t o =>
      rw [lhsGNodes_cons_some tm e es (n := .deriv s t) (by rw [hl]; rfl)]
      simp only [derivNodesL, derivLhs, List.filterMap_cons, hl] at ih ⊢; rw [ih]
    | other =>
      rw [lhsGNodes_cons_none tm e es (by rw [hl]; rfl)]
      simp only [derivNodesL, derivLhs, List.filterMap_cons, hl] at ih ⊢; exact ih

theorem derivedNodesL_lhsGNodes (tm : List (Nat × VType)) : ∀ eqs : List Eqn,
    derivedNodesL (lhsGNodes tm eqs) = computedLhs tm eqs
  | [] => rfl
  | e :: es => by
    have ih := derivedNodesL_lhsGNodes tm es
    cases hl : e.lhs with
    | var v =>
      rw [lhsGNodes_cons_some tm e es (n := .var v) (by rw [hl]; rfl)]
      simp only [derivedNodesL, computedLhs, List.filterMap_cons, hl, nodeType] at ih ⊢
      rw [ih]
    | deriv s t o =>
      rw [lhsGNodes_cons_some tm e es (n := .deriv s t) (by rw [hl]; rfl)]
      simp only [derivedNodesL, computedLhs, List.filterMap_cons, hl] at ih ⊢; exact ih
    | other =>
      rw [lhsGNodes_cons_none tm e es (by rw [hl]; rfl)]
      simp only [derivedNodesL, computedLhs, List.filterMap_cons, hl] at ih ⊢; exact ih

theorem bare_no_deriv {tm : List (Nat × VType)} {extra : List GNode} (h : ∀ x ∈ extra, BareOK tm x) :
    derivNodesL extra = [] ∧ derivedNodesL extra = [] := by
  constructor
  · unfold derivNodesL
    rw [List.filterMap_eq_nil_iff]
    intro x hx
    obtain ⟨v, rfl, _⟩ := h x hx
    rfl
  · unfold derivedNodesL
    rw [List.filterMap_eq_nil_iff]
    intro x hx
    obtain ⟨v, rfl, hv⟩ := h x hx
    rcases hv with hv | hv <;> simp [hv]

theorem derivNodes_of_build {names : List String} {eqs : List Eqn} {g : Graph} (h : buildGraph names eqs = .ok g) :
    derivNodes g = derivLhs eqs := by
  obtain ⟨extra, hn, hb⟩ := buildGraph_nodes h
  unfold derivNodes
  rw [hn]
  unfold derivNodesL
  rw [List.filterMap_append]
  have := (bare_no_deriv hb).1
  unfold derivNodesL at this
  rw [this, List.append_nil]
  exact derivNodesL_lhsGNodes _ eqs

theorem derivedNodes_of_build {names : List String} {eqs : List Eqn} {g : Graph} (h : buildGraph names eqs = .ok g) :
    derivedNodes g = computedLhs (typeMap eqs) eqs := by
  obtain ⟨extra, hn, hb⟩ := buildGraph_nodes h
  unfold derivedNodes
  rw [hn]
  unfold derivedNodesL
  rw [List.filterMap_append]
  have := (bare_no_deriv hb).2
  unfold derivedNodesL at this
  rw [this, List.append_nil]
  exact derivedNodesL_lhsGNodes _ eqs

end Model
