import Cellml.C14.Lemmas

/-! # C14: the overflow edge. `ratToBits` returns infinity exactly from the halfway point between the largest double
    and `2^1024` upwards (IEEE round-to-nearest-even overflow rule), and never below it.
    Large powers of two are kept symbolic (`T = 2^2044`) so that nothing has to be evaluated. -/

namespace C14

/-- scaled halfway point between the largest double and `2^1024`: `(2^54 − 1) · 2^2044` -/
def overflowThreshold : Nat := (2 ^ 54 - 1) * 2 ^ 2044

private theorem p45 : (2 : Nat) ^ 2045 = 2 ^ 2044 * 2 := Nat.pow_succ 2 2044
private theorem p46 : (2 : Nat) ^ 2046 = 2 ^ 2044 * 2 * 2 := by
  rw [show (2046 : Nat) = 2044 + 1 + 1 from rfl, Nat.pow_succ, Nat.pow_succ]
private theorem p97 : (2 : Nat) ^ 2097 = 2 ^ 2044 * 2 ^ 53 := Nat.pow_add 2 2044 53

/-- a value below the threshold never becomes infinity -/
theorem ratToBits_finite_of_lt (num den : Nat) (hd : 0 < den)
    (h : num * 2 ^ 1074 < overflowThreshold * den) : ratToBits num den < infBits := by
  rw [ratToBits_eq]
  generalize hN : num * 2 ^ 1074 = N at *
  generalize hj : spacing N den = j
  have hsig := sig_le N den hd
  rw [hj] at hsig
  have hthr : overflowThreshold * den = (2 ^ 54 - 1) * (den * 2 ^ 2044) := by
    unfold overflowThreshold; rw [Nat.mul_assoc, Nat.mul_comm (2 ^ 2044) den]
  rw [hthr] at h
  -- j ≤ 2045
  have hj45 : j ≤ 2045 := by
    apply Classical.byContradiction; intro hc
    have hjpos : 0 < spacing N den := by omega
    have hlo := spacing_lo N den hd hjpos
    rw [hj] at hlo
    have h1 : 2 ^ 2046 ≤ 2 ^ j := Nat.pow_le_pow_right (by decide) (by omega)
    rw [p46] at h1
    have h2 : den * (2 ^ 2044 * 2 * 2) ≤ den * 2 ^ j := Nat.mul_le_mul_left _ h1
    rw [← Nat.mul_assoc, ← Nat.mul_assoc] at h2
    generalize den * 2 ^ 2044 = Z at *
    generalize den * 2 ^ j = P at *
    omega
  unfold assemble rawBits
  by_cases hs : roundDivEven N (den * 2 ^ j) < 2 ^ 52
  · simp only [hs, if_true]
    have : ¬ (infBits ≤ roundDivEven N (den * 2 ^ j)) := by unfold infBits; omega
    simp only [this, if_false]; unfold infBits; omega
  · simp only [hs, if_false]
    by_cases hj' : j < 2045
    · have : ¬ (infBits ≤ (j + 1) * 2 ^ 52 + (roundDivEven N (den * 2 ^ j) - 2 ^ 52)) := by
        unfold infBits; omega
      simp only [this, if_false]; unfold infBits; omega
    · have hje : j = 2045 := by omega
      subst hje
      have hP : 0 < den * 2 ^ 2045 := Nat.mul_pos hd (two_pow_pos _)
      -- N < (2^54 − 1)·2^2044·den = (2^53 − 1/2)·P  ⇒  sig ≤ 2^53 − 1
      have hlt : roundDivEven N (den * 2 ^ 2045) ≤ 2 ^ 53 - 1 := by
        have hn := (roundDivEven_near N (den * 2 ^ 2045) hP).2
        generalize roundDivEven N (den * 2 ^ 2045) = sg at *
        apply Classical.byContradiction; intro hc
        have hsg : sg = 2 ^ 53 := by omega
        subst hsg
        have hPZ : den * 2 ^ 2045 = 2 * (den * 2 ^ 2044) := by
          rw [p45, ← Nat.mul_assoc]; omega
        rw [hPZ] at hn
        generalize den * 2 ^ 2044 = Z at *
        omega
      have : ¬ (infBits ≤ (2045 + 1) * 2 ^ 52 + (roundDivEven N (den * 2 ^ 2045) - 2 ^ 52)) := by
        unfold infBits; omega
      simp only [this, if_false]; unfold infBits; omega

/-- from the threshold on the result is infinity (the tie at the threshold goes to the even neighbour, `2^1024`) -/
theorem ratToBits_inf_of_ge (num den : Nat) (hd : 0 < den)
    (h : overflowThreshold * den ≤ num * 2 ^ 1074) : ratToBits num den = infBits := by
  rw [ratToBits_eq]
  generalize hN : num * 2 ^ 1074 = N at *
  generalize hj : spacing N den = j
  have hthr : overflowThreshold * den = (2 ^ 54 - 1) * (den * 2 ^ 2044) := by
    unfold overflowThreshold; rw [Nat.mul_assoc, Nat.mul_comm (2 ^ 2044) den]
  rw [hthr] at h
  -- the quotient is at least 2^2097, so the spacing exponent is at least 2045
  have hq : 2 ^ 2097 ≤ N / den := by
    apply (Nat.le_div_iff_mul_le hd).mpr
    rw [p97, Nat.mul_assoc, Nat.mul_comm (2 ^ 53) den, ← Nat.mul_assoc, Nat.mul_comm (2 ^ 2044) den]
    generalize den * 2 ^ 2044 = Z at *
    omega
  have hj45 : 2045 ≤ j := by
    rw [← hj]; unfold spacing
    have hne : N / den ≠ 0 := by
      intro h0; rw [h0] at hq
      have := two_pow_pos 2097
      omega
    have : 2097 ≤ Nat.log2 (N / den) := (Nat.le_log2 hne).mpr hq
    omega
  have hjpos : 0 < spacing N den := by omega
  have hsg := sig_ge N den hd hjpos
  rw [hj] at hsg
  unfold assemble rawBits
  have hs : ¬ (roundDivEven N (den * 2 ^ j) < 2 ^ 52) := by omega
  simp only [hs, if_false]
  by_cases hj' : 2045 < j
  · have : infBits ≤ (j + 1) * 2 ^ 52 + (roundDivEven N (den * 2 ^ j) - 2 ^ 52) := by unfold infBits; omega
    simp only [this, if_true]
  · have hje : j = 2045 := by omega
    subst hje
    have hP : 0 < den * 2 ^ 2045 := Nat.mul_pos hd (two_pow_pos _)
    have hPZ : den * 2 ^ 2045 = 2 * (den * 2 ^ 2044) := by
      rw [p45, ← Nat.mul_assoc]; omega
    have hZpos : 0 < den * 2 ^ 2044 := Nat.mul_pos hd (two_pow_pos _)
    -- N ≥ (2^53 − 1/2)·P: the significand rounds to 2^53 (a tie goes to the even 2^53)
    have hge : 2 ^ 53 ≤ roundDivEven N (den * 2 ^ 2045) := by
      have hn := (roundDivEven_near N (den * 2 ^ 2045) hP).1
      apply Classical.byContradiction; intro hc
      have hle : roundDivEven N (den * 2 ^ 2045) ≤ 2 ^ 53 - 1 := by omega
      have hmul : roundDivEven N (den * 2 ^ 2045) * (den * 2 ^ 2045) ≤ (2 ^ 53 - 1) * (den * 2 ^ 2045) :=
        Nat.mul_le_mul_right _ hle
      -- sig ≤ 2^53 − 1 forces equality everywhere: an exact tie whose lower neighbour 2^53 − 1 is odd
      have hsig : roundDivEven N (den * 2 ^ 2045) * (den * 2 ^ 2045) = (2 ^ 53 - 1) * (den * 2 ^ 2045) := by
        rw [hPZ] at hn hmul ⊢
        generalize den * 2 ^ 2044 = Z at *
        generalize roundDivEven N (2 * Z) * (2 * Z) = S at *
        omega
      have hsg' : roundDivEven N (den * 2 ^ 2045) = 2 ^ 53 - 1 := Nat.eq_of_mul_eq_mul_right hP hsig
      have hN2 : N = (2 ^ 53 - 1) * (den * 2 ^ 2045) + den * 2 ^ 2044 := by
        rw [hsig] at hn
        rw [hPZ] at hn ⊢
        generalize den * 2 ^ 2044 = Z at *
        omega
      have hmod : N % (den * 2 ^ 2045) = den * 2 ^ 2044 := by
        rw [hN2, Nat.add_comm, Nat.add_mul_mod_self_right]
        apply Nat.mod_eq_of_lt; omega
      have heven := roundDivEven_tie_even N (den * 2 ^ 2045) (by rw [hmod]; omega)
      rw [hsg'] at heven
      exact absurd heven (by decide)
    have : infBits ≤ (2045 + 1) * 2 ^ 52 + (roundDivEven N (den * 2 ^ 2045) - 2 ^ 52) := by unfold infBits; omega
    simp only [this, if_true]

end C14
