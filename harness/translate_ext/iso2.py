"""Translator extension of package Iso2 (C16, process-global state): the DEF LINE of a function and the CALL SITES of a
callee inside a function, as Lean definitions.

`functools.lru_cache` keys a call on the tuple of its positional arguments (plus keyword arguments; `typed=False`), so
the key of a decorated function is decided by its parameter list and by what every caller passes. Two modes (spec key
`mode`); without the key the class behaves exactly like `translate_code.Fn`:

* `'mode': 'def_line'` — emits
    `def <lean_name>_cache : Option (Option Nat)`  the decorator: `some (some N)` for `@lru_cache(maxsize=N)`,
                                                    `some none` for `@lru_cache(maxsize=None)` / `@lru_cache`, `none` if
                                                    the function is not memoised;
    `def <lean_name>_defaults : List (String × String)`  (parameter, source text of its default value);
    `def <lean_name> (p₁ : T₁) … (pₙ : Tₙ) : <record> := ⟨p₁, …, pₙ⟩`  the positional parameters of the `def`, in
        order, packed into the record named by the spec key `record` (types from `param_types`; `self` is dropped). A
        parameter without a type in the spec, `*args`, `**kwargs` or keyword-only parameters are translation errors.
  Dropping, adding or re-ordering a parameter changes the generated definition (the anonymous constructor no longer
  fits the record, or the tie `… = ⟨e, V, u, f⟩` fails).

* `'mode': 'call_sites'` with `callee` (python name), `callee_lean` (the Lean name of the callee's `def_line`
  definition), `binders` (Lean binder text for the caller's local names) and `result` (the record type) — emits, for the
  k-th call of `callee` inside the function (source order),
    `def <lean_name>_<k> <binders> : <result> := <callee_lean> a₁ … aₙ`
  where the aᵢ are the translations (ordinary expression rules and patterns of the spec) of the positional arguments
  followed by the keyword arguments and the callee's own defaults, placed by the callee's parameter names (read from the
  callee's `def` in the same file, or in `callee_file`), and
    `def <lean_name>_count : Nat`  the number of call sites.
  A call that passes `*args` / `**kwargs`, an unknown keyword or too few arguments is a translation error."""
import ast
import os

import translate_code as T


def _find_def(spec, name):
    path = os.path.join(T.REPO, spec.get('callee_file', spec['file']))
    tree = ast.parse(open(path).read())
    node = T.find_function(tree, name)
    if node is None or not isinstance(node, ast.FunctionDef):
        raise T.TranslationError('callee %s not found' % name)
    return node


def _positional(node):
    a = node.args
    if a.vararg or a.kwarg or a.kwonlyargs:
        raise T.TranslationError('`%s` has *args / **kwargs / keyword-only parameters' % node.name)
    return [x.arg for x in a.posonlyargs + a.args if x.arg != 'self']


def _defaults(node):
    a = node.args
    names = [x.arg for x in a.posonlyargs + a.args]
    return list(zip(names[len(names) - len(a.defaults):], a.defaults))


class KeyFn(T.Fn):
    def translate(self):
        mode = self.spec.get('mode')
        if mode == 'def_line':
            return self.def_line()
        if mode == 'call_sites':
            return self.call_sites()
        return super().translate()

    # ------------------------------------------------------------------------------------------------ def line
    def cache_decorator(self):
        for d in self.node.decorator_list:
            call = d if isinstance(d, ast.Call) else None
            f = call.func if call else d
            name = f.attr if isinstance(f, ast.Attribute) else getattr(f, 'id', None)
            if name == 'lru_cache':
                if call is None:
                    return 'some (some 128)'            # functools default
                if call.args or any(k.arg != 'maxsize' for k in call.keywords):
                    raise T.TranslationError('lru_cache with arguments other than maxsize: `%s`' % T.src(d))
                for k in call.keywords:
                    if isinstance(k.value, ast.Constant) and k.value.value is None:
                        return 'some none'
                    if isinstance(k.value, ast.Constant) and isinstance(k.value.value, int):
                        return 'some (some %d)' % k.value.value
                    raise T.TranslationError('no rule for maxsize=`%s`' % T.src(k.value))
                return 'some (some 128)'
            if name == 'cache':
                return 'some none'
            raise T.TranslationError('no rule for the decorator `%s`' % T.src(d))
        return 'none'

    def def_line(self):
        name = self.spec['lean_name']
        types = self.spec['param_types']
        params = _positional(self.node)
        for p in params:
            if p not in types:
                raise T.TranslationError('parameter `%s` of `%s` has no type in the spec' % (p, self.node.name))
        out = ['def %s_cache : Option (Option Nat) := %s' % (name, self.cache_decorator()), '',
               'def %s_defaults : List (String × String) := [%s]'
               % (name, ', '.join('(%s, %s)' % (T.lean_str(p), T.lean_str(T.src(d)))
                                  for p, d in _defaults(self.node) if p != 'self')), '',
               'def %s %s : %s :=' % (name, ' '.join('(%s : %s)' % (T.mangle(p), types[p]) for p in params),
                                      self.spec['record']),
               '  ⟨%s⟩' % ', '.join(T.mangle(p) for p in params)]
        return '\n'.join(out)

    # ------------------------------------------------------------------------------------------------ call sites
    def call_sites(self):
        name = self.spec['lean_name']
        callee = self.spec['callee']
        cdef = _find_def(self.spec, self.spec.get('callee_def', callee))
        cparams = _positional(cdef)
        cdefaults = dict(_defaults(cdef))
        calls = [n for n in ast.walk(self.node) if isinstance(n, ast.Call)
                 and ((isinstance(n.func, ast.Name) and n.func.id == callee)
                      or (isinstance(n.func, ast.Attribute) and n.func.attr == callee))]
        calls.sort(key=lambda n: (n.lineno, n.col_offset))
        out = ['def %s_count : Nat := %d' % (name, len(calls)), '']
        for k, c in enumerate(calls):
            if any(isinstance(a, ast.Starred) for a in c.args) or any(kw.arg is None for kw in c.keywords):
                raise T.TranslationError('call with * / **: `%s`' % T.src(c))
            if len(c.args) > len(cparams):
                raise T.TranslationError('too many arguments: `%s`' % T.src(c))
            placed = dict(zip(cparams, c.args))
            for kw in c.keywords:
                if kw.arg not in cparams or kw.arg in placed:
                    raise T.TranslationError('bad keyword `%s` in `%s`' % (kw.arg, T.src(c)))
                placed[kw.arg] = kw.value
            args = []
            for p in cparams:
                if p in placed:
                    args.append(self.expr(placed[p]))
                elif p in cdefaults:
                    args.append(self.expr(cdefaults[p]))
                else:
                    raise T.TranslationError('no argument for `%s` in `%s`' % (p, T.src(c)))
            out += ['/-- line %d: `%s` -/' % (c.lineno, T.src(c)),
                    'def %s_%d %s : %s :=' % (name, k, self.spec['binders'], self.spec['result']),
                    '  %s %s' % (self.spec['callee_lean'], ' '.join(args)), '']
        return '\n'.join(out).rstrip()
