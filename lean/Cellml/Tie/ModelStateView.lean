import Cellml.Tie.Prelude
import Cellml.Model.State

/-! # What the translated methods of `cellmlmanip.model.Model` see of the model object

    The generated code (`Cellml/Generated/Code/ModelState.lean`) runs in `PyM MState`: a state-and-exception monad in
    which the state SURVIVES a raise (`σ → Except PyErr α × σ`), as the attributes of a python object do. That is what
    makes the order "validate, then mutate" of `add_equation` visible to the tie theorems: the state component of a
    run that raised is the model object as the exception left it.

    The pattern table of harness/code_specs/modelstate.py binds each python attribute path / dict or list primitive to
    one of the accessors below, which read or update the hand-written model state `Model.MState`
    (`Cellml/Model/State.lean`). Core Lean only. -/

namespace Cellml.Tie.PModelState
open Model

-- ------------------------------------------------------------------------------------------------ the monad
/-- a python method body over an object of state `σ`: result or raised exception, and the state afterwards -/
def PyM (σ α : Type) : Type := σ → Except PyErr α × σ

namespace PyM
variable {σ α β : Type}

def run (x : PyM σ α) (s : σ) : Except PyErr α × σ := x s

instance : Monad (PyM σ) where
  pure a := fun s => (.ok a, s)
  bind x f := fun s => match x s with
    | (.ok a, s') => f a s'
    | (.error e, s') => (.error e, s')

instance : MonadExceptOf PyErr (PyM σ) where
  throw e := fun s => (.error e, s)
  tryCatch x h := fun s => match x s with
    | (.error e, s') => h e s'
    | r => r

/-- `self` (all attributes at once) -/
def readSelf : PyM σ σ := fun s => (.ok s, s)
/-- an attribute update -/
def modifySelf (f : σ → σ) : PyM σ Unit := fun s => (.ok (), f s)
/-- an `Except` leaf (no access to the state) -/
def liftE (x : Except PyErr α) : PyM σ α := fun s => (x, s)

@[simp] theorem run_pure (a : α) (s : σ) : (pure a : PyM σ α).run s = (.ok a, s) := rfl
@[simp] theorem run_bind (x : PyM σ α) (f : α → PyM σ β) (s : σ) :
    (x >>= f).run s = match x.run s with
      | (.ok a, s') => (f a).run s'
      | (.error e, s') => (.error e, s') := rfl
@[simp] theorem run_throw (e : PyErr) (s : σ) : (throw e : PyM σ α).run s = (.error e, s) := rfl
@[simp] theorem run_tryCatch (x : PyM σ α) (h : PyErr → PyM σ α) (s : σ) :
    (tryCatch x h).run s = match x.run s with
      | (.error e, s') => (h e).run s'
      | r => r := rfl
@[simp] theorem run_tryCatchThe (x : PyM σ α) (h : PyErr → PyM σ α) (s : σ) :
    (tryCatchThe PyErr x h).run s = match x.run s with
      | (.error e, s') => (h e).run s'
      | r => r := rfl
@[simp] theorem run_readSelf (s : σ) : (readSelf : PyM σ σ).run s = (.ok s, s) := rfl
@[simp] theorem run_modifySelf (f : σ → σ) (s : σ) : (modifySelf f).run s = (.ok (), f s) := rfl
@[simp] theorem run_liftE (x : Except PyErr α) (s : σ) : (liftE x : PyM σ α).run s = (x, s) := rfl
@[simp] theorem run_ite (c : Prop) [Decidable c] (x y : PyM σ α) (s : σ) :
    (if c then x else y).run s = if c then x.run s else y.run s := by split <;> rfl
@[simp] theorem run_forIn_nil {γ : Type} (b : β) (f : γ → β → PyM σ (ForInStep β)) (s : σ) :
    (forIn ([] : List γ) b f).run s = (.ok b, s) := rfl

end PyM
open PyM

/-- raised by an accessor when the python code would do something the hand model has no representation for
    (a `None` or a non-`Variable` expression used as a dictionary key). No model function ever answers this class, so a
    generated definition that can reach it is not equal to the model. -/
def outsideModel : PyErr := ⟨"<outside the model>"⟩

-- ------------------------------------------------------------------------------------------------ sympy leaves
/-- `lhs.is_Derivative` -/
def isDerivative : Lhs → Bool
  | .deriv _ _ _ => true
  | _ => false

/-- `isinstance(lhs.args[0], Variable)` for a derivative: the differentiated expression is a variable. The model's
    `Lhs.deriv s t n` only expresses derivatives OF A VARIABLE (the derivative of an expression is `Lhs.other`). -/
def derivOfVariable : Lhs → Bool
  | .deriv _ _ _ => true
  | _ => false

@[simp] theorem derivOfVariable_deriv (s t n : Nat) : derivOfVariable (.deriv s t n) = true := rfl

/-- `isinstance(lhs, Variable)` -/
def isVariable : Lhs → Bool
  | .var _ => true
  | _ => false

/-- The shape of the `args` of a `sympy.Derivative` left-hand side. The hand model keeps only the total order
    (`Lhs.deriv s t order`, `order` = sum of the counts); python looks at `len(lhs.args)` (1 + number of
    differentiation variables) and `lhs.args[1][1]` (count of the first one). A `DerivShape` is any pair of values
    python may see for a derivative of a given total order (`DerivShape.ok`); the tie theorem holds for all of them. -/
structure DerivShape where
  /-- `len(lhs.args)` -/
  nargs : Nat
  /-- `lhs.args[1][1]` -/
  count1 : Nat

/-- consistency with the model's total order: at least one differentiation variable, each with count ≥ 1, the counts
    add up to `order` -/
def DerivShape.ok (sh : DerivShape) (order : Nat) : Prop :=
  2 ≤ sh.nargs ∧ 1 ≤ sh.count1 ∧ sh.count1 + (sh.nargs - 2) ≤ order ∧ (sh.nargs = 2 → sh.count1 = order)

/-- `lhs.free_symbols.pop()`: for `Derivative(x, t)` sympy's `free_symbols` is `{x}` (the differentiation variables
    are not free); for a variable `{v}`; for anything else an arbitrary element or KeyError — outside the model -/
def freeSymbolsPop : Lhs → PyM MState Nat
  | .deriv s _ _ => pure s
  | .var v => pure v
  | .other => throw outsideModel

-- ------------------------------------------------------------------------------------------------ dictionaries
/-- what python uses as a key of `_var_definition_map` / `_ode_definition_map`: a `Variable` of the model (an identity
    number) or any sympy expression (`lhs`), of which only a `Variable` can be a key that is present -/
class DictKey (κ : Type) where
  key : κ → Option Nat

instance : DictKey Nat := ⟨some⟩
instance : DictKey Lhs := ⟨fun | .var v => some v | _ => none⟩

@[simp] theorem key_nat (n : Nat) : DictKey.key n = some n := rfl
@[simp] theorem key_lhs_var (v : Nat) : DictKey.key (Lhs.var v) = some v := rfl
@[simp] theorem key_lhs_deriv (s t o : Nat) : DictKey.key (Lhs.deriv s t o) = none := rfl
@[simp] theorem key_lhs_other : DictKey.key Lhs.other = none := rfl

/-- `k in d` -/
def dictHas {κ β} [DictKey κ] (k : κ) (d : List (Nat × β)) : Bool :=
  match DictKey.key k with
  | some n => hasKey n d
  | none => false

/-- `d.get(k)` -/
def dictGet {κ β} [DictKey κ] (k : κ) (d : List (Nat × β)) : Option β :=
  match DictKey.key k with
  | some n => d.lookup n
  | none => none

/-- `d[k] = v` (a key that is not a `Variable`: not representable) -/
def dictSet {κ β} [DictKey κ] (k : κ) (v : β) (d : List (Nat × β)) : Except PyErr (List (Nat × β)) :=
  match DictKey.key k with
  | some n => .ok (insertKey n v d)
  | none => .error outsideModel

/-- `del d[k]` -/
def dictDel {κ β} [DictKey κ] (k : κ) (d : List (Nat × β)) : Except PyErr (List (Nat × β)) :=
  match DictKey.key k with
  | some n => if hasKey n d then .ok (eraseKey n d) else .error ⟨"KeyError"⟩
  | none => .error ⟨"KeyError"⟩

/-- `self._ode_definition_map[k] = v` -/
def odeSet {κ} [DictKey κ] (k : κ) (v : Eqn) : PyM MState Unit := do
  let d ← liftE (dictSet k v (← readSelf).odeDef)
  modifySelf fun s => { s with odeDef := d }

/-- `self._var_definition_map[k] = v` -/
def varSet {κ} [DictKey κ] (k : κ) (v : Eqn) : PyM MState Unit := do
  let d ← liftE (dictSet k v (← readSelf).varDef)
  modifySelf fun s => { s with varDef := d }

/-- `del self._ode_definition_map[k]` -/
def odeDel {κ} [DictKey κ] (k : κ) : PyM MState Unit := do
  let d ← liftE (dictDel k (← readSelf).odeDef)
  modifySelf fun s => { s with odeDef := d }

/-- `del self._var_definition_map[k]` -/
def varDel {κ} [DictKey κ] (k : κ) : PyM MState Unit := do
  let d ← liftE (dictDel k (← readSelf).varDef)
  modifySelf fun s => { s with varDef := d }

-- ------------------------------------------------------------------------------------------------ the equation list
/-- `self.equations.append(e)` -/
def equationsAppend (e : Eqn) : PyM MState Unit := modifySelf fun s => { s with equations := s.equations ++ [e] }

/-- `self.equations.remove(e)`: the first `==` element; ValueError when there is none -/
def equationsRemove (e : Eqn) : PyM MState Unit := do
  if (← readSelf).equations.contains e then modifySelf fun s => { s with equations := s.equations.erase e }
  else throw ⟨"ValueError"⟩

-- ------------------------------------------------------------------------------------------------ the caches
/-- `self._graph = g` -/
def setGraph (g : Option Graph) : PyM MState Unit := modifySelf fun s => { s with graph := g }
/-- `self._graph_with_sympy_numbers = g` -/
def setGraphNum (g : Option Graph) : PyM MState Unit := modifySelf fun s => { s with graphNum := g }

-- ------------------------------------------------------------------------------------------------ variables
/-- a value python uses as an object under an `is not None` guard -/
def notNone {α} : Option α → PyM MState α
  | some a => pure a
  | none => throw outsideModel

/-- `name in self._name_to_variable` (`live` is the dict in insertion order; the names are on the objects) -/
def nameHas (s : MState) (name : String) : Bool := s.live.any (fun i => nameOfVar s i == name)

/-- `self.has_cmeta_id(c)` (`has_cmeta_id(None)` is False: `None` is never a key and the first test excludes it) -/
def hasCmetaIdPy (s : MState) : Option String → Bool
  | some c => hasCmetaId s c
  | none => false

/-- the `units` argument of `add_variable`: a `Unit` object, or a name that the unit store knows or does not know
    (units are not part of `MState`) -/
inductive UnitArg | unit | name (known : Bool)
deriving DecidableEq, Repr

/-- `isinstance(units, self.units.Unit)` -/
def isUnitObject : UnitArg → Bool
  | .unit => true
  | .name _ => false

/-- `self.units.get_unit(name)`: KeyError for a name the store does not know -/
def getUnit : UnitArg → PyM MState UnitArg
  | .name false => throw ⟨"KeyError"⟩
  | _ => pure .unit

/-- `Variable(name=…, units=…, model=self, initial_value=…, public_interface=…, private_interface=…, order_added=…,
    cmeta_id=…)`: a new object on the heap; its identity number is returned. Units and interfaces are not kept. -/
def newVariable (name : String) (_units : UnitArg) (init : Option Rat) (order : Nat) (cmeta : Option String) :
    PyM MState Nat := do
  let id := (← readSelf).heap.length
  modifySelf fun s => { s with heap := s.heap ++ [⟨name, order, cmeta, init, none⟩] }
  return id

/-- `self._name_to_variable[name] = var` for a NEW name (the guard above it excludes an existing one; replacing the
    entry of an existing name is not representable) -/
def nameSet (name : String) (v : Nat) : PyM MState Unit := do
  if nameHas (← readSelf) name then throw outsideModel
  modifySelf fun s => { s with live := s.live ++ [v] }

/-- `del self._name_to_variable[name]`: the entry with that name; KeyError when there is none -/
def nameDel (name : String) : PyM MState Unit := do
  let s ← readSelf
  match s.live.find? (fun i => nameOfVar s i == name) with
  | some i => modifySelf fun s => { s with live := s.live.erase i }
  | none => throw ⟨"KeyError"⟩

/-- `self._variables_added += n` -/
def variablesAddedIncr (n : Nat) : PyM MState Unit := modifySelf fun s => { s with nextOrder := s.nextOrder + n }

/-- `self._cmeta_id_to_variable[c] = v` (`None` as a key: not representable) -/
def cmetaSet (c : Option String) (v : Nat) : PyM MState Unit :=
  match c with
  | some c => modifySelf fun s => { s with cmetaMap := insertKey c v s.cmetaMap }
  | none => throw outsideModel

/-- `del self._cmeta_id_to_variable[c]` -/
def cmetaDel (c : Option String) : PyM MState Unit :=
  match c with
  | some c => do
      if hasKey c (← readSelf).cmetaMap then modifySelf fun s => { s with cmetaMap := eraseKey c s.cmetaMap }
      else throw ⟨"KeyError"⟩
  | none => throw ⟨"KeyError"⟩

/-- `variable.rdf_identity`: a node exactly when the variable has a cmeta id -/
def rdfIdentity (s : MState) (v : Nat) : Option String := (cmetaOf s v).map ("#" ++ ·)

/-- `self.rdf.triples((subject, None, None))`: the RDF store is not part of `MState` (see C13); seen as empty -/
def rdfTriples (_s : MState) (_subject : Option String) : List Unit := []

/-- `self.rdf.remove(triple)` -/
def rdfRemove (_t : Unit) : PyM MState Unit := pure ()

-- ------------------------------------------------------------------------------------------------ outcomes
/-- the python class of a model-side error (`notInModel` / `cmetaFuel` are conventions of the model, see State.lean) -/
def errName : Model.Err → String
  | .valueError => "ValueError"
  | .keyError => "KeyError"
  | .graphError _ => "GraphError"
  | .notInModel => "NotInModel"
  | .cmetaFuel => "CmetaFuel"

/-- a step of the hand model as a run of a python method returning `a`: state afterwards, and returned / raised -/
def outcome {α} (a : α) : MState × Outcome → Except PyErr α × MState
  | (s, .ok) => (.ok a, s)
  | (s, .raised e) => (.error ⟨errName e⟩, s)

end Cellml.Tie.PModelState
