"""Extension of the code translator for the MathsWalk package (`Parser._add_maths`).

`MathsFn` adds ONE rule; everything else defers to `translate_code.Fn`:

 * a `lambda` whose body runs an action (its translation contains a monadic leaf `(← …)`) becomes
   `(fun x y => do return BODY)`: the action is run when the lambda is CALLED, not where it is written (Lean rejects a
   nested action under a `fun` binder otherwise). A lambda with a pure body is translated as before.
"""
import ast
import sys

from translate_code import Fn, TranslationError, mangle

# when the translator runs as a script its own `TranslationError` is `__main__.TranslationError`, not the one of the
# imported module `translate_code` that `Fn` raises: re-raise as the class the driver catches (as translate_ext/sing3.py)
_MAIN_TE = getattr(sys.modules.get('__main__'), 'TranslationError', TranslationError)


class MathsFn(Fn):
    def __init__(self, spec, node):
        try:
            super().__init__(spec, node)
        except TranslationError as e:
            raise _MAIN_TE(str(e))

    def translate(self):
        try:
            return super().translate()
        except TranslationError as e:
            raise _MAIN_TE(str(e))

    def expr(self, n):
        if isinstance(n, ast.Lambda):
            args = ' '.join(mangle(a.arg) for a in n.args.args)
            body = self.expr(n.body)
            if '←' in body:
                return '(fun %s => do return %s)' % (args, body)
            return '(fun %s => %s)' % (args, body)
        return super().expr(n)
