import Cellml.Expr.Basic

/-! `UnitCalculator.traverse` (units.py 442-657): bottom-up pint quantity arithmetic over the expression tree.
    Returns the magnitude carried along (it feeds exponents) and the pint unit container of the result. -/

namespace Infer
open Units

/-- magnitudes: an exactly known number (with Python's int/float distinction), a number whose value the exact model
    does not track (irrational results), a SymPy expression, or inf/nan/complex -/
inductive M where
  | num (q : Rat) (isFloat : Bool)
  | anynum
  | sym
  | weird
deriving Repr, DecidableEq

def M.isNumber : M → Bool
  | .num _ _ | .anynum | .weird => true
  | .sym => false

def mulM : M → M → M
  | .num a fa, .num b fb => .num (a * b) (fa || fb)
  | .num a _, .anynum => if a = 0 then .num 0 true else .anynum
  | .anynum, .num b _ => if b = 0 then .num 0 true else .anynum
  | .sym, _ | _, .sym => .sym
  | .weird, _ | _, .weird => .weird
  | _, _ => .anynum

def divM : M → M → Except UnitErr M
  | .num a fa, .num b fb => if b = 0 then .error (.otherException "ZeroDivisionError") else .ok (.num (a / b) (fa || fb))
  | .sym, _ | _, .sym => .ok .sym
  | .weird, _ | _, .weird => .ok .weird
  | _, _ => .ok .anynum

def ratPowInt (b : Rat) (n : Int) : Rat := if n ≥ 0 then b ^ n.toNat else (1 / b) ^ (-n).toNat

/-- Python `base ** exponent` on magnitudes -/
def powM : M → M → Except UnitErr M
  | .num b fb, .num x fx =>
      -- |x · log2 b| beyond the double range (estimated from bit lengths): Python raises OverflowError or underflows;
      -- the exact model does not track such magnitudes
      if (if x < 0 then -x else x) * ((((b.num.natAbs.log2 : Int) - (b.den.log2 : Int)).natAbs + 1 : Nat) : Rat) > 1000
      then .error (.unsupported "power of an untracked magnitude")
      else if x.den = 1 then
        if b = 0 ∧ x < 0 then .error (.otherException "ZeroDivisionError")
        else if x.num.natAbs > 4000 then .error (.unsupported "power of an untracked magnitude")
        else
          let r := ratPowInt b x.num
          -- Python float ** overflows to OverflowError beyond the double range (ints are unbounded)
          if (fb || fx || decide (x < 0)) ∧ (r > 179769313486231570000 * 10 ^ 288 ∨ r < -(179769313486231570000 * 10 ^ 288))
          then .error (.unsupported "power of an untracked magnitude")   -- beyond the double range: not tracked
          else .ok (.num r (fb || fx || decide (x < 0)))
      else if b < 0 then .ok .weird
      else if b = 0 then .ok (.num 0 true)
      else .ok .anynum
  | .sym, _ | _, .sym => .ok .sym
  | .weird, _ | _, .weird => .error (.unsupported "power of an untracked magnitude")   -- complex / inf / nan
  | .anynum, .num x _ =>
      -- the base is a number the exact model does not track: it may be 0 (ZeroDivisionError) or negative (complex)
      if x < 0 ∨ x.den ≠ 1 then .error (.unsupported "power of an untracked magnitude") else .ok .anynum
  | _, _ => .ok .anynum

def absM : M → M
  | .num q f => .num (if q < 0 then -q else q) f
  | .weird => .anynum          -- abs of a complex number is a real number
  | m => m

def floorM (up : Bool) : M → Except UnitErr M
  | .num q _ => .ok (.num (if up then (Rat.ceil q : Int) else (Rat.floor q : Int)) false)
  | .sym => .ok (.num 1 false)
  | .anynum => .ok .anynum
  | .weird => .error (.otherException "TypeError")

/-- `_check_unit_of_quantities_equal` on two quantities -/
def sameUnits (reg : Registry) (a b : Container) : Bool := isEquivalent reg a b

/-- `_is_dimensionless`: dimensionality zero -/
def isDimless (reg : Registry) (u : Container) : Bool := PMap.isZero (dimsOf reg u)

def mulC (a b : Container) : Container := PMap.norm (PMap.add a b)
def divC (a b : Container) : Container := PMap.norm (PMap.sub a b)
def powC (a : Container) (q : Rat) : Container := PMap.norm (PMap.smul q a)

def dimless1 : M × Container := (.num 1 false, [])

/-- a Variable leaf: a non-zero initial value is substituted for the symbol -/
def varQ (Γ : VarEnv) (i : Nat) : Except UnitErr (M × Container) :=
  match Γ[i]? with
  | none => .error (.unsupported "unknown variable")
  | some vi =>
      match vi.init with
      | some q => if q ≠ 0 then .ok (.num q true, vi.unit) else .ok (.sym, vi.unit)
      | none => .ok (.sym, vi.unit)

/-- the check of `Add`: every operand has the unit of the first -/
def finish (reg : Registry) : List (M × Container) → Except UnitErr (M × Container)
  | [] => .error .unexpectedMath
  | q :: rest => if rest.all (fun r => sameUnits reg q.2 r.2) then .ok q else .error .argsInvalidUnits

/-- Operand quantities of the top-level sum of an expression (a singleton for anything that is not a sum): SymPy's `Add`
    is n-ary and `traverse` evaluates ALL operands before it compares their units, so along the left spine of the
    serialised sum the comparison is deferred until every operand has been traversed. -/
def trav (reg : Registry) (Γ : VarEnv) : E → Except UnitErr (List (M × Container))
  | .qty v u => .ok [(.num v true, u)]
  | .cf s u => .ok [(if s = [] then .num 1 true else .anynum, u)]
  | .var i => do let q ← varQ Γ i; pure [q]
  | .int n => .ok [(.num n false, [])]
  | .rat q => .ok [(.num q true, [])]
  | .flt q => .ok [(.num q true, [])]
  | .pi => .ok [(.anynum, [])]
  | .e => .ok [(.anynum, [])]
  | .oo => .error (.unsupported "infinity")
  | .nan => .error (.unsupported "nan")
  | .mul a b => do
      let (ma, ua) ← finish reg (← trav reg Γ a)
      let (mb, ub) ← finish reg (← trav reg Γ b)
      pure [(mulM ma mb, mulC ua ub)]
  | .pow b x => do
      let (mb, ub) ← finish reg (← trav reg Γ b)
      let (mx, ux) ← finish reg (← trav reg Γ x)
      if ux ≠ [] then throw .mustBeDimensionless
      if !mx.isNumber then throw .mustBeNumber
      let m ← powM mb mx
      if ub = [] then pure [(m, [])]
      else match mx with
        | .num q _ => pure [(m, powC ub q)]
        | _ => throw (.unsupported "exponent value not tracked")
  | .add a b => do
      let qa ← trav reg Γ a
      let qb ← finish reg (← trav reg Γ b)
      pure (qa ++ [qb])
  | .ite _ t el => do
      let (mt, ut) ← finish reg (← trav reg Γ t)
      if el = .undef then pure [(mt, ut)]
      else do
        let (_, ue) ← finish reg (← trav reg Γ el)
        if sameUnits reg ut ue then pure [(mt, ut)] else throw .argsInvalidUnits
  | .undef => .error .unexpectedMath
  | .rel _ a b => do
      let _ ← finish reg (← trav reg Γ a)
      let _ ← finish reg (← trav reg Γ b)
      throw .boolean
  | .and a b => do
      let _ ← finish reg (← trav reg Γ a)
      let _ ← finish reg (← trav reg Γ b)
      throw .boolean
  | .or a b => do
      let _ ← finish reg (← trav reg Γ a)
      let _ ← finish reg (← trav reg Γ b)
      throw .boolean
  | .not a => do
      let _ ← finish reg (← trav reg Γ a)
      throw .boolean
  | .tt => .error .boolean
  | .ff => .error .boolean
  | .abs a => do
      let (m, u) ← finish reg (← trav reg Γ a)
      pure [(absM m, u)]
  | .floor a => do
      let (m, u) ← finish reg (← trav reg Γ a)
      let m' ← floorM false m
      pure [(m', u)]
  | .ceil a => do
      let (m, u) ← finish reg (← trav reg Γ a)
      let m' ← floorM true m
      pure [(m', u)]
  | .fn1 f a => do
      let (m, u) ← finish reg (← trav reg Γ a)
      if f == "log" || f == "factorial" then
        if isDimless reg u then pure [dimless1] else throw .mustBeDimensionless
      else if f == "exp" then
        if isDimless reg u then
          match m with
          | .num q true => if q > 709 then throw (.otherException "OverflowError") else pure [(.anynum, [])]
          | .anynum => pure [(.anynum, [])]
          | .weird => pure [(.anynum, [])]
          | _ => pure [dimless1]
        else throw .mustBeDimensionless
      else if Cellml.Gen.trigFunctions.contains f then
        if isDimless reg u then pure [dimless1] else throw .mustBeDimensionless
      else if isDimless reg u then pure [dimless1]
      else throw .unexpectedMath
  | .fnN f a b => do
      -- Max(a, b, c) is serialised fnN(fnN(a, b), c): every operand is traversed before the function is rejected
      match a with
      | .fnN g _ _ =>
          match trav reg Γ a with
          | .error .deferredFn => if f = g then pure () else throw .unexpectedMath
          | .error err => throw err
          | .ok _ => pure ()
      | _ => do let _ ← finish reg (← trav reg Γ a); pure ()
      let _ ← finish reg (← trav reg Γ b)
      throw .deferredFn
  | .deriv v t => do
      let (mv, uv) ← varQ Γ v
      let (mt, ut) ← varQ Γ t
      let m ← divM mv mt
      pure [(m, divC uv ut)]
  | .other _ => .error .unexpectedMath

/-- `UnitCalculator.traverse` -/
def traverse (reg : Registry) (Γ : VarEnv) (e : E) : Except UnitErr (M × Container) := do
  finish reg (← trav reg Γ e)

end Infer
