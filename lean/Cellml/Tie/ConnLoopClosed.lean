import Cellml.Tie.ConnLoop
import Cellml.C17.Worklist

/-! # The CLOSED `while connections_to_process:` loop of `Parser._add_connections` over the GENERATED body

    `Tie/ConnLoop.lean` ties one iteration (`connLoop_body_tie`, `connectLoop_cons`). Here the loop itself is closed:

    * `genConnectLoop` — `while <generated test>: <generated body>`, a total function by well-founded recursion on the
      termination measure of the hand model, `(|deque|, |deque| + 1 − unchanged_loop_count)`. That the generated body
      decreases the measure whenever it returns (`body_decreases`) is proved THROUGH the body tie.
    * `genConnectLoop_eq` / `genConnect_eq` — the closed generated loop IS `Load.connectLoop` / `Load.connect`
      (results, and exception classes).
    * `whileUpTo_genConnectLoop` — the same loop as a fuelled python `while` (`Py.whileUpTo`, the translator's own
      rendering of a `while`): with `C17.stepBound |deque| unch` iterations of fuel the test is false at the end and the
      state is that of `genConnectLoop`.

    The start values of `genConnect` — `unchanged_loop_count = 0` and an empty `connected_variable_mapping` — are written
    here by hand, but they ARE what the generated set-up part of `_add_connections` returns
    (`Gen.ConnSetup.addConnectionsSetup`, `LoaderClose.connSetup_tie`); `GenA.genAddConnections` (Tie/LoaderGen.lean)
    runs the generated set-up and passes ITS results to `genConnectLoop`, and `genAddConnections_eq` shows that this is
    `genConnect` on the deque of `Load.directAll`. Only `Load.initState vt` (`Variable.__init__`: a variable without an
    `in` interface is its own `assigned_to`) is a leaf: the state `Model.add_variable` leaves. -/

namespace Cellml.Tie.GenA
open Load Cellml.Gen Cellml.Tie

/-- the test of the `while` is "the deque is not empty" -/
theorem test_cons (c : VRef × VRef) (rest : List (VRef × VRef)) : ConnLoop.addConnectionsBody_test (c :: rest) = true := rfl
theorem test_nil : ConnLoop.addConnectionsBody_test ([] : List (VRef × VRef)) = false := rfl

/-- what a successful run of the GENERATED body does to the loop counters: either the deque got shorter and the
    counter was reset, or the deque kept its length and the counter grew by one, staying within the deque's length -/
theorem body_ok_shape {reg : Registry} {vt : VarTable} {dq dq' : List (VRef × VRef)} {unch unch' : Nat}
    {st st' : CState}
    (h : ConnLoop.addConnectionsBody (connLoopView reg vt) dq unch st = .ok (dq', unch', st')) :
    (dq'.length + 1 = dq.length ∧ unch' = 0) ∨ (dq'.length = dq.length ∧ unch' = unch + 1 ∧ unch' ≤ dq'.length) := by
  rw [connLoop_body_tie] at h
  unfold modelIter at h
  cases dq with
  | nil => cases h
  | cons c rest =>
    simp only at h
    cases hs : stepConn reg vt st c with
    | error e => rw [hs] at h; cases h
    | ok o =>
      rw [hs] at h
      cases o with
      | none =>
        simp only at h
        split at h
        · rename_i hlt
          simp only [Except.ok.injEq, Prod.mk.injEq] at h
          obtain ⟨rfl, rfl, rfl⟩ := h
          right
          exact ⟨by simp, rfl, hlt⟩
        · cases h
      | some s' =>
        simp only [Except.ok.injEq, Prod.mk.injEq] at h
        obtain ⟨rfl, rfl, rfl⟩ := h
        left; simp

/-- the `assert` at the end of the generated body re-establishes the invariant of the model loop -/
theorem body_ok_inv {reg : Registry} {vt : VarTable} {dq dq' : List (VRef × VRef)} {unch unch' : Nat}
    {st st' : CState}
    (h : ConnLoop.addConnectionsBody (connLoopView reg vt) dq unch st = .ok (dq', unch', st')) :
    unch' ≤ dq'.length := by
  rcases body_ok_shape h with ⟨_, h0⟩ | ⟨_, _, h1⟩
  · omega
  · exact h1

/-- TERMINATION of the python loop, on the generated body: the measure of `Load.connectLoop` decreases -/
theorem body_decreases {reg : Registry} {vt : VarTable} {dq dq' : List (VRef × VRef)} {unch unch' : Nat}
    {st st' : CState}
    (h : ConnLoop.addConnectionsBody (connLoopView reg vt) dq unch st = .ok (dq', unch', st')) :
    Prod.Lex (· < ·) (· < ·) (dq'.length, dq'.length + 1 - unch') (dq.length, dq.length + 1 - unch) := by
  rcases body_ok_shape h with ⟨h1, _⟩ | ⟨h1, h2, h3⟩
  · apply Prod.Lex.left; omega
  · apply Prod.Lex.right'
    · omega
    · omega

/-- **the `while connections_to_process:` loop over the generated test and the generated body** -/
def genConnectLoop (reg : Registry) (vt : VarTable) (dq : List (VRef × VRef)) (unch : Nat) (st : CState) :
    Except PyErr CState :=
  if ConnLoop.addConnectionsBody_test dq = true then
    match hb : ConnLoop.addConnectionsBody (connLoopView reg vt) dq unch st with
    | .error e => .error e
    | .ok (dq', unch', st') => genConnectLoop reg vt dq' unch' st'
  else .ok st
termination_by (dq.length, dq.length + 1 - unch)
decreasing_by exact body_decreases hb

/-- `_add_connections` from the statement `unchanged_loop_count = 0` on, given the directed connections -/
def genConnect (reg : Registry) (vt : VarTable) (l : List (VRef × VRef)) : Except PyErr CState :=
  genConnectLoop reg vt l 0 (initState vt)

/-- the closed generated loop is the model loop (any deque, any counter within the invariant, any state) -/
theorem genConnectLoop_eq (reg : Registry) (vt : VarTable) (dq : List (VRef × VRef)) (unch : Nat) (st : CState) :
    ∀ h : unch ≤ dq.length,
      genConnectLoop reg vt dq unch st = errClass Err.className (connectLoop reg vt dq unch h st) := by
  induction dq, unch, st using genConnectLoop.induct reg vt with
  | case1 dq unch st ht e hb =>
    intro h
    cases dq with
    | nil => cases ht
    | cons c rest =>
      rw [genConnectLoop, if_pos ht]
      rw [connectLoop_cons]
      split <;> rename_i heq
      · simp only [heq]
      · rw [hb] at heq; cases heq
  | case2 dq unch st ht dq' unch' st' hb ih =>
    intro h
    cases dq with
    | nil => cases ht
    | cons c rest =>
      rw [genConnectLoop, if_pos ht]
      rw [connectLoop_cons]
      have hinv := body_ok_inv hb
      split <;> rename_i heq
      · rw [hb] at heq; cases heq
      · rw [hb] at heq
        simp only [Except.ok.injEq, Prod.mk.injEq] at heq
        obtain ⟨rfl, rfl, rfl⟩ := heq
        simp only [hb]
        rw [dif_pos hinv]
        exact ih hinv
  | case3 dq unch st ht =>
    intro h
    cases dq with
    | nil => rw [genConnectLoop, if_neg ht, Cellml.Tie.connectLoop_nil]; rfl
    | cons c rest => exact absurd (test_cons c rest) ht

theorem genConnect_eq (reg : Registry) (vt : VarTable) (l : List (VRef × VRef)) :
    genConnect reg vt l = errClass Err.className (connect reg vt l) :=
  genConnectLoop_eq reg vt l 0 (initState vt) (Nat.zero_le _)

/-! ## transfer lemmas -/

theorem errClass_ok_iff {ε α : Type} (cls : ε → String) (x : Except ε α) (a : α) :
    errClass cls x = .ok a ↔ x = .ok a := by
  cases x <;> simp [errClass]

theorem errClass_isOk_iff {ε α : Type} (cls : ε → String) (x : Except ε α) :
    (∃ a, errClass cls x = .ok a) ↔ ∃ a, x = .ok a := by
  cases x <;> simp [errClass]

theorem errClass_isErr_iff {ε α : Type} (cls : ε → String) (x : Except ε α) :
    (∃ e, errClass cls x = .error e) ↔ ∃ e, x = .error e := by
  cases x <;> simp [errClass]

theorem genConnect_ok_iff (reg : Registry) (vt : VarTable) (l : List (VRef × VRef)) (st : CState) :
    genConnect reg vt l = .ok st ↔ connect reg vt l = .ok st := by
  rw [genConnect_eq, errClass_ok_iff]

/-! ## the same loop with fuel (`Py.whileUpTo`): the budget of C17 -/

/-- the loop state of the python `while` as one value -/
abbrev LoopSt := List (VRef × VRef) × Nat × CState

/-- the python `while` over the generated test and body, cut off after `fuel` iterations -/
def genConnectWhile (reg : Registry) (vt : VarTable) (fuel : Nat) (s : LoopSt) : Except PyErr LoopSt :=
  Py.whileUpTo fuel (fun s : LoopSt => ConnLoop.addConnectionsBody_test s.1)
    (fun s : LoopSt => ConnLoop.addConnectionsBody (connLoopView reg vt) s.1 s.2.1 s.2.2) s

/-- with `stepBound |deque| unch` iterations the fuelled loop has FINISHED (its result is the one of the closed loop, on
    an empty deque — so the test is false and more fuel changes nothing) -/
theorem whileUpTo_genConnectLoop (reg : Registry) (vt : VarTable) : ∀ (fuel : Nat) (dq : List (VRef × VRef)) (unch : Nat)
    (st : CState), unch ≤ dq.length → C17.stepBound dq.length unch ≤ fuel →
    ∃ u, genConnectWhile reg vt fuel (dq, unch, st) =
      (genConnectLoop reg vt dq unch st).map (fun st' => (([] : List (VRef × VRef)), u, st')) := by
  intro fuel
  induction fuel with
  | zero => intro dq unch st hu hf; simp [C17.stepBound] at hf
  | succ fuel ih =>
    intro dq unch st hu hf
    cases dq with
    | nil =>
      refine ⟨unch, ?_⟩
      rw [genConnectLoop, if_neg (by simp [test_nil])]
      simp [genConnectWhile, Py.whileUpTo, test_nil, Except.map]
    | cons c rest =>
      rw [genConnectLoop, if_pos (test_cons c rest)]
      simp only [genConnectWhile, Py.whileUpTo, test_cons, if_true]
      cases hb : ConnLoop.addConnectionsBody (connLoopView reg vt) (c :: rest) unch st with
      | error e =>
        refine ⟨0, ?_⟩
        split <;> rename_i heq
        · cases heq; simp [bind, Except.bind, Except.map]
        · cases heq
      | ok r =>
        obtain ⟨dq', unch', st'⟩ := r
        have hinv := body_ok_inv hb
        have hfuel : C17.stepBound dq'.length unch' ≤ fuel := by
          rcases body_ok_shape hb with ⟨h1, h2⟩ | ⟨h1, h2, h3⟩
          · have hl : rest.length = dq'.length := by simp only [List.length_cons] at h1; omega
            subst h2
            simp only [C17.stepBound, List.length_cons, C17.tri, hl] at hf hu ⊢
            omega
          · simp only [C17.stepBound] at hf hu ⊢
            rw [h1, h2]
            omega
        obtain ⟨u, hu'⟩ := ih dq' unch' st' hinv hfuel
        refine ⟨u, ?_⟩
        split <;> rename_i heq
        · cases heq
        · simp only [Except.ok.injEq, Prod.mk.injEq] at heq
          obtain ⟨rfl, rfl, rfl⟩ := heq
          simp only [bind, Except.bind]
          exact hu'

end Cellml.Tie.GenA
