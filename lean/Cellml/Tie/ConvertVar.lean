import Cellml.Tie.ConvertVarHelpers
import Cellml.Tie.ConvertVarDriver
import Cellml.Tie.ConvertVarWF
import Cellml.Tie.ConvertVarSym

/-! # Tie of the `convert_variable` family (cellmlmanip/model.py) to the hand model `Cellml/Model/ConvertVar.lean`

    Generated code: `Cellml/Generated/Code/ConvertVar.lean` (spec `harness/code_specs/convertvar.py`, view
    `Cellml/Tie/ConvertVarView.lean`).

    | python function | generated | hand model | tie theorem |
    |---|---|---|---|
    | `get_unique_name` | `getUniqueName` (open recursion) | `uniqueName` / `freshName` | `getUniqueName_unfold`, `getUniqueName_tie` |
    | `_remove_ode_and_assign_rhs_to_new_variable` | `removeOdeAndAssignRhsToNewVariable` | `removeOdeAssign` | `removeOdeAssign_tie` |
    | `_convert_free_variable_deriv` | `convertFreeVariableDeriv` | `convertFreeDeriv` | `convertFreeDeriv_tie` |
    | `_convert_state_variable_deriv` | `convertStateVariableDeriv` | `convertStateDeriv` | `convertStateDeriv_tie` |
    | `_replace_references_to_derivatives` | `replaceReferencesToDerivatives` | `replaceRefs` | `replaceRefs_tie` |
    | `_convert_variable_instance` | `convertVariableInstance` | `convertInstance` (`instInput`, `instOutput`, `newInit`) | `convertInstance_tie` |
    | `convert_variable` | `convertVariable` | `convertVariable` (`statePhase`, `freePhase`, `freeStep`, `sortedOdes`, `replacePhase`) | `convertVariable_tie`, `convertVariable_tie_inv0`, `convertVariable_tie_wf`, `convertVariable_cf_error`, `convertVariable_not_in_model` | -/

/-! The same python functions, run on symbolic values (`Cellml/Generated/Code/ConvertVarSym.lean`, spec
    `convertvarsym.py`, view `ConvertVarSymView.lean`), are tied to the hand model of C19 `Units.convertVariable` by
    `Cellml.Tie.CVSym.convertVariable_sym_tie`. -/

/-- info: 'Cellml.Tie.CVSym.convertVariable_sym_tie' depends on axioms: [propext, Classical.choice, Quot.sound] -/
#guard_msgs in
#print axioms Cellml.Tie.CVSym.convertVariable_sym_tie

namespace Cellml.Tie.CV

/-- info: 'Cellml.Tie.CV.convertVariable_tie' depends on axioms: [propext, Classical.choice, Quot.sound] -/
#guard_msgs in
#print axioms convertVariable_tie

/-- info: 'Cellml.Tie.CV.convertVariable_tie_wf' depends on axioms: [propext, Classical.choice, Quot.sound] -/
#guard_msgs in
#print axioms convertVariable_tie_wf

end Cellml.Tie.CV
