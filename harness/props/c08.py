"""C08 — any sequence of edits leaves a coherent model; rejected edits change nothing."""
import itertools
import logging
from fractions import Fraction

from common import Str, sx

ID = 'C08'
LEAN_MODULES = ['Cellml.Props.C08', 'Cellml.Tie.ModelState', 'Cellml.Props.C08Gen', 'Cellml.Props.C06GenE']
N = {'quick': 192, 'thorough': 2600}
RULE = ('histories of API calls on a Model built through the public API over a pool of 6 variable slots (two share a '
        'name, two share a cmeta id, one cmeta id equals another variable\'s name, the model id equals a name) and 10 '
        'equations (parameter, computed, two ODEs, state/free/derivative on a right-hand side, duplicate definitions, '
        'lhs = a+1, second-order derivative, a dependency that vanishes when numbers are substituted); alphabet of 45 '
        'concrete calls (valid and invalid edits, create_quantity, the five queries). Exhaustive: every tail of 1 and 2 '
        'calls over the full alphabet and every tail of 3 calls over a 12-call core, after each of two prefixes, each '
        'in two observation modes (light: only non-perturbing queries around the last call, graphs at the explicit '
        'query calls; deep: both graphs read after every call of the tail) = 15 192 histories; thorough adds tails of '
        '3 over the full alphabet and of 4 over the core (223 722 more). Random histories of 6-40 calls, every call '
        'checked; one random bundle in five interleaves convert_variable (oracle only in this check; its raises are modelled in Props/C06GenE). The corpus adds one convert history over an 11th equation dy/da (a second bound variable), the witness of the known finding. A case bundles '
        '100 exhaustive or 25 random histories. After every checked call: full snapshot compared with the model; '
        'oracle = a fresh Model rebuilt through the API from the current variables and equations answers every query '
        'alike, and a raising call leaves the snapshot as it was. non-trivial = some call raised; distinct = distinct '
        'bundle JSON')
TRUSTED = ['Lean 4.33 kernel', 'axioms: propext, Classical.choice, Quot.sound',
           'correspondence harness harness/props/c08.py (resolves Python objects to identity numbers, equations to '
           'identity tokens by ==, computes the set of variables/derivatives referenced by a right-hand side before and '
           'after substituting numbers with sympy)',
           'sympy (structural equality of Eq, xreplace/auto-simplification after number substitution) and networkx '
           'DiGraph are used as they are, not verified']
ASSUMPTIONS = ['variable arguments of remove_variable / add_cmeta_id / transfer_cmeta_id / get_definition are variables '
               'of the model, and the variable being defined by an added equation is a variable of the model (the model '
               'answers such calls with a conventional `notInModel` rejection; the generator skips them); right-hand '
               'sides may mention removed variables',
               'add_equation(check_duplicates=False) (internal use by convert_variable) and convert_variable itself are '
               'outside the alphabet of the C08 model; convert_variable histories are searched by the oracle only (the class of its exceptions and the state it leaves at a raise are tied to the source by Tie/ConvertVarE.lean)',
               'left-hand derivatives are of a single variable with respect to variables (Derivative(x+y, t) is outside)']
FINGERPRINT = {'cellmlmanip/model.py': [
    'Model.__init__', 'Model.variables', 'Model.get_free_variable', 'Model.get_state_variables', 'Model.get_definition',
    'Model.get_variable_by_cmeta_id', 'Model.has_cmeta_id', 'Model.graph', 'Model.graph_with_sympy_numbers',
    'Model.add_variable', 'Model.remove_variable', 'Model.add_equation', 'Model.remove_equation',
    'Model.create_quantity', 'Model.add_cmeta_id', 'Model.transfer_cmeta_id', 'Model.find_variables_and_derivatives',
    'Model._invalidate_cache', 'Model._check_duplicate_definitions', 'Model.get_display_name', 'Variable.__init__',
    'Variable._set_cmeta_id', 'Quantity.__new__']}

MODEL_CMETA = 't'
# slot -> (name, cmeta id, initial value)
VARS = [('a', None, None), ('b', 'b_id', 1.0), ('x', None, 2.5), ('y', 'a', None), ('t', None, None),
        ('a', 'b_id', 3.0)]
QUANTS = [0.0, 1.0, 2.0, 3.0]
N_EQS = 10
CMETA_UNIVERSE = ['a', 'a_', 'a__', 'b', 'b_', 'b_id', 'b_id_', 'x', 'x_', 'y', 'y_', 't', 't_', 't__', 'zz']


def build_eq(k, V, Q):
    """Pool equation k over the current objects (V: slot -> Variable, Q: index -> Quantity)."""
    import sympy as sp
    a, b, x, y, t = V[0], V[1], V[2], V[3], V[4]
    if k == 0:
        return sp.Eq(a, Q[1], evaluate=False)                                   # parameter
    if k == 1:
        return sp.Eq(b, a + Q[2], evaluate=False)                               # computed
    if k == 2:
        return sp.Eq(sp.Derivative(x, t), a, evaluate=False)                    # ODE
    if k == 3:
        return sp.Eq(sp.Derivative(y, t), x + Q[2], evaluate=False)             # second ODE, state on the right
    if k == 4:
        return sp.Eq(b, x * t, evaluate=False)                                  # other definition of b; state and free variable on rhs
    if k == 5:
        return sp.Eq(a, sp.Derivative(x, t) + Q[1], evaluate=False)             # other definition of a; derivative on rhs
    if k == 6:
        return sp.Eq(x, Q[3])                                   # x by assignment (clashes with its ODE, evaluate=False)
    if k == 7:
        return sp.Eq(a + Q[1], b, evaluate=False)                               # invalid left-hand side
    if k == 8:
        return sp.Eq(sp.Derivative(x, t, 2), a, evaluate=False)                 # second-order derivative
    if k == 9:
        return sp.Eq(y, a * Q[0] + b, evaluate=False)                           # dependency on a vanishes with numbers substituted
    if k == 10:
        return sp.Eq(sp.Derivative(y, a), Q[1], evaluate=False)                 # ODE over a SECOND bound variable (witness only)
    raise ValueError(k)


EQ_SLOTS = {0: [0], 1: [1, 0], 2: [2, 4, 0], 3: [3, 4, 2], 4: [1, 2, 4], 5: [0, 2, 4], 6: [2], 7: [0, 1], 8: [2, 4, 0],
            9: [3, 0, 1], 10: [3, 0]}
EQ_LHS_SLOTS = {0: [0], 1: [1], 2: [2, 4], 3: [3, 4], 4: [1], 5: [0], 6: [2], 7: [], 8: [2, 4], 9: [3], 10: [3, 0]}

ALPHABET = ([['addVar', i] for i in range(6)] + [['rmVar', i] for i in range(6)] +
            [['addEq', k] for k in range(N_EQS)] + [['rmEq', k] for k in range(N_EQS)] +
            [['cmeta', 0], ['cmeta', 1], ['cmeta', 4], ['xfer', 1, 0], ['xfer', 3, 2], ['xfer', 0, 1],
             ['quantity', 1], ['graph'], ['graphNum'], ['states'], ['free'], ['getDef', 0], ['getDef', 2]])
CORE = [['addEq', 2], ['rmEq', 2], ['addEq', 4], ['addEq', 6], ['addEq', 7], ['addEq', 1], ['rmVar', 2], ['addVar', 2],
        ['rmVar', 4], ['addVar', 5], ['graph'], ['graphNum']]
PREFIXES = [
    [['addVar', 0], ['addVar', 1], ['addVar', 2], ['addVar', 3], ['addVar', 4], ['addEq', 0], ['addEq', 2]],
    [['addVar', 4], ['addVar', 2], ['addVar', 1], ['addVar', 0], ['addVar', 3], ['addEq', 0], ['addEq', 2],
     ['addEq', 3], ['addEq', 1], ['graphNum']],
]
BUNDLE = 100


# ---------------------------------------------------------------------------------------------- generation
def exhaustive(tier):
    """All tails of every length up to the depth after each prefix. Only the last call of a tail is checked and
    stored (the earlier ones are the last call of a shorter tail); in deep mode the graphs are nevertheless read after
    every call of the tail."""
    out = []

    def tails(alphabet, depths, mode, p):
        for d in depths:
            for tail in itertools.product(alphabet, repeat=d):
                out.append({'mode': mode, 'from': len(p), 'check': len(p) + d - 1, 'ops': p + list(tail)})
    combos = [(m, p) for m in ('light', 'deep') for p in PREFIXES]
    for mode, p in combos:
        tails(ALPHABET, (1, 2), mode, p)
        tails(CORE, (3,), mode, p)
    if tier != 'quick':
        tails(ALPHABET, (3,), 'light', PREFIXES[0])
        tails(ALPHABET, (3,), 'deep', PREFIXES[1])
        tails(CORE, (4,), 'light', PREFIXES[1])
        tails(CORE, (4,), 'deep', PREFIXES[0])
    return out


def random_history(rng):
    n = rng.randint(6, 40)
    ops = []
    weights = []
    for op in ALPHABET:
        w = {'addVar': 3, 'addEq': 4, 'rmEq': 2, 'rmVar': 1.5, 'cmeta': 1, 'xfer': 1, 'quantity': 0.5}.get(op[0], 1.2)
        weights.append(w)
    for i in range(n):
        if i < 4 and rng.random() < 0.8:
            ops.append(['addVar', rng.randrange(6)])
        else:
            ops.append(rng.choices(ALPHABET, weights)[0])
    return {'mode': rng.choice(['light', 'light', 'deep']), 'from': 0, 'check': 0, 'ops': ops}


def convert_history(rng):
    h = random_history(rng)
    ops = h['ops']
    for _ in range(rng.randint(1, 4)):
        pos = rng.randint(min(4, len(ops)), len(ops))
        ops.insert(pos, ['convert', rng.randrange(5), rng.choice(CONV_TARGETS), rng.choice(['IN', 'OUT'])])
    h['conv'] = True
    return h


def gen(rng, n, tier):
    ex = exhaustive(tier)
    cases = [{'kind': 'exhaustive', 'histories': ex[i:i + BUNDLE]} for i in range(0, len(ex), BUNDLE)]
    n_random = max(3, n - len(cases)) if tier == 'quick' else 200
    for c in cases:
        yield c
    for i in range(n_random):
        if i % 5 == 4:
            yield {'kind': 'convert', 'histories': [convert_history(rng) for _ in range(BUNDLE // 4)]}
        else:
            yield {'kind': 'random', 'histories': [random_history(rng) for _ in range(BUNDLE // 4)]}


def corpus():
    p = PREFIXES[0]
    return [{'kind': 'witness', 'histories': [
        # (1) rejected add_equation: duplicate definition, invalid lhs
        {'mode': 'light', 'from': 0, 'check': 0, 'ops': p + [['addEq', 6], ['graph'], ['addEq', 7], ['addEq', 5], ['graphNum']]},
        # (2) stale Variable.type after removing the ODE
        {'mode': 'light', 'from': 0, 'check': 0, 'ops': p + [['graph'], ['rmEq', 2], ['addVar', 5], ['addEq', 4], ['graph']]},
        {'mode': 'deep', 'from': 0, 'check': 0, 'ops': p + [['rmEq', 2], ['addEq', 4], ['rmVar', 4], ['addEq', 1]]},
        # (3) order_added reused after remove_variable
        {'mode': 'light', 'from': 0, 'check': 0, 'ops': [['addVar', 4], ['addVar', 0], ['addVar', 2], ['rmVar', 0], ['addVar', 3],
                                             ['addEq', 3], ['addEq', 2], ['states']]},
    ]}, {'kind': 'convert', 'histories': [
        # (4) known finding: ODEs over two different bound variables (dx/dt, dy/da), then the free variable t converted as
        # an input: the loop assert of convert_variable fires after t_converted and x_orig_deriv have been added
        {'mode': 'light', 'from': 0, 'check': 0, 'conv': True,
         'ops': [['addVar', 0], ['addVar', 2], ['addVar', 3], ['addVar', 4], ['addEq', 2], ['addEq', 10],
                 ['convert', 4, 'second', 'IN']]},
    ]}]


# ---------------------------------------------------------------------------------------------- implementation
_UNITS = []


def shared_units():
    """One pint registry per worker process (building one costs more than a whole history); units play no role here."""
    if not _UNITS:
        from cellmlmanip.units import UnitStore
        _UNITS.append(UnitStore())
    return _UNITS[0]


CONV_UNITS = ['mV', 'mV', 'mV', 'volt', 'ms', 'mV']     # units of the slots in histories with convert_variable
CONV_TARGETS = ['volt', 'mV', 'second', 'ms']


class Run:
    """One history on the real code."""

    def __init__(self, conv=False):
        from cellmlmanip.model import Model
        self.m = Model('m', cmeta_id=MODEL_CMETA, unit_store=shared_units())
        if conv:
            self.m.units.add_unit('mV', 'volt / 1000')
            self.m.units.add_unit('ms', 'second / 1000')
        self.latest = [None] * len(VARS)        # slot -> latest Variable object created for it
        self.ids = {}                           # Variable object -> identity number (count of successful add_variable)
        self.objs = []                          # identity number -> object
        self.Q = [self.m.create_quantity(v, 'dimensionless') for v in QUANTS]
        self.toks = []                          # (equation object, token): token shared by == equations
        self.conv = conv                        # history with convert_variable: slots carry real units

    def unit_of(self, slot):
        return CONV_UNITS[slot] if self.conv else 'dimensionless'

    def adopt(self):
        """give identity numbers to variables the model created itself (convert_variable)"""
        for v in self.m.variables():
            if v not in self.ids:
                self.ids[v] = len(self.objs)
                self.objs.append(v)

    def live(self, v):
        return v is not None and self.m._name_to_variable.get(v.name) is v

    def tok(self, eq, table=None):
        table = self.toks if table is None else table
        for e, t in table:
            if e == eq:
                return t
        table.append((eq, len(table)))
        return len(table) - 1

    def label(self, node, ids):
        if getattr(node, 'is_Derivative', False):
            return ['d', ids.get(node.args[0], -1), ids.get(node.args[1][0], -1)]
        return ['v', ids.get(node, -1)]


def refs_of(expr):
    """Variables and derivatives referenced by an expression (derivatives are opaque)."""
    from cellmlmanip.model import Variable
    if expr.is_Derivative or isinstance(expr, Variable):
        return {expr}
    out = set()
    for a in expr.args:
        out |= refs_of(a)
    return out


def resolve_eq(run, eq):
    """Describe an equation for the model: left-hand side shape, referenced nodes before/after number substitution."""
    from cellmlmanip.model import Quantity, Variable
    lhs = eq.lhs
    if isinstance(lhs, Variable):
        l = ['var', run.ids[lhs]]
    elif lhs.is_Derivative and isinstance(lhs.args[0], Variable):
        order = sum(int(c) for _, c in lhs.variable_count)
        l = ['deriv', run.ids[lhs.args[0]], run.ids[lhs.variable_count[0][0]], order]
    else:
        l = ['other']
    refs = sorted(run.label(r, run.ids) for r in refs_of(eq.rhs))
    quants = eq.rhs.atoms(Quantity)
    if quants:
        nrhs = eq.rhs.xreplace({q: q.evalf(17) for q in quants})
        numrefs = sorted(run.label(r, run.ids) for r in refs_of(nrhs))
    else:
        numrefs = refs
    return l, refs, numrefs, isinstance(eq.rhs, Quantity)


def graph_obs(m, which, ids, tokof):
    try:
        g = m.graph if which == 0 else m.graph_with_sympy_numbers
    except Exception as e:
        return ['err', type(e).__name__]
    nodes = []
    for n, d in g.nodes.items():
        vt = d.get('variable_type')
        eq = d.get('equation')
        lab = ['d', ids.get(n.args[0], -1), ids.get(n.args[1][0], -1)] if n.is_Derivative else ['v', ids.get(n, -1)]
        nodes.append([lab, None if vt is None else vt.name,
                      None if eq is None else (tokof(eq) if which == 0 else tokof_lhs(eq, g, n, tokof))])
    edges = []
    for a, b in g.edges:
        la = ['d', ids.get(a.args[0], -1), ids.get(a.args[1][0], -1)] if a.is_Derivative else ['v', ids.get(a, -1)]
        lb = ['d', ids.get(b.args[0], -1), ids.get(b.args[1][0], -1)] if b.is_Derivative else ['v', ids.get(b, -1)]
        edges.append([la, lb])
    return ['ok', sorted(nodes, key=repr), sorted(edges, key=repr)]


def tokof_lhs(eq, g, n, tokof):
    """In the graph with numbers the equation attribute is a rewritten copy: only record that there is one."""
    return -2


def snapshot(m, ids, tokof, deep, all_objs):
    s = {}
    s['vars'] = [[ids.get(v, -1), v.name, v.cmeta_id, None if v.initial_value is None else str(Fraction(v.initial_value))]
                 for v in m.variables()]
    s['eqs'] = [tokof(e) for e in m.equations]
    defs = []
    for v in m.variables():
        d = m.get_definition(v)
        defs.append([ids.get(v, -1), None if d is None else tokof(d)])
    s['defs'] = defs
    s['states'] = [ids.get(v, -1) for v in m.get_state_variables()]
    s['states_unsorted'] = [ids.get(v, -1) for v in m.get_state_variables(sort=False)]
    try:
        s['free'] = ids.get(m.get_free_variable(), -1)
    except ValueError:
        s['free'] = 'err:ValueError'
    cm = []
    for cid in CMETA_UNIVERSE:
        try:
            who = ids.get(m.get_variable_by_cmeta_id(cid), -1)
        except KeyError:
            who = None
        cm.append([cid, bool(m.has_cmeta_id(cid)), who])
    s['cmeta'] = cm
    if deep:
        s['graph'] = graph_obs(m, 0, ids, tokof)
        s['graphNum'] = graph_obs(m, 1, ids, tokof)
    s['types'] = [[ids[v], None if v.type is None else v.type.name] for v in all_objs]
    return s


def fresh_like(m):
    """A fresh Model holding the same variables and equations, built through the public API only.
    Returns (model, old object -> new object) or raises what the API raised."""
    import sympy as sp
    from cellmlmanip.model import Model, Variable
    f = Model('m', cmeta_id=MODEL_CMETA, unit_store=shared_units())
    mp = {}
    for v in m.variables():
        mp[v] = f.add_variable(v.name, v.units, initial_value=v.initial_value, cmeta_id=v.cmeta_id)
    scratch = None
    eqs = []
    for e in m.equations:
        for v in e.atoms(Variable):
            if v not in mp:      # a variable that is not (or no longer) in the model: stand-in from another model
                if scratch is None:
                    scratch = Model('scratch', unit_store=shared_units())
                mp[v] = scratch.add_variable(v.name + '_%d' % len(mp), 'dimensionless')
                mp[v].name = v.name
        ne = sp.Eq(e.lhs.xreplace(mp), e.rhs.xreplace(mp), evaluate=False)
        f.add_equation(ne)
        eqs.append(ne)
    return f, mp, eqs


def strip_types(s):
    return {k: v for k, v in s.items() if k != 'types'}


def diff_keys(a, b):
    return [k for k in a if a.get(k) != b.get(k)]


def run_history(h):
    import sympy as sp
    from cellmlmanip.model import Variable
    run = Run(bool(h.get('conv')))
    m = run.m
    deep = h['mode'] == 'deep'
    steps, fails = [], []
    first = h.get('from', 0)          # deep mode: the graphs are read before this call and after every call from here
    check = h.get('check', first)     # the oracle runs and snapshots are stored from this call on

    def tokof(e):
        return run.tok(e)

    def observe():
        return snapshot(m, run.ids, tokof, deep, run.objs)

    prev = None
    for i, op in enumerate(h['ops']):
        kind = op[0]
        rec = {'op': None, 'out': 'ok', 'res': None}
        checked = i >= check
        if i == first and deep and not checked:
            observe()
        if checked and prev is None:
            prev = observe()
        is_edit = kind in ('addVar', 'rmVar', 'addEq', 'rmEq', 'cmeta', 'xfer', 'quantity', 'convert')
        call = None
        # ---- resolve the call to objects; skip calls that violate the stated preconditions
        if kind == 'addVar':
            name, cm, iv = VARS[op[1]]
            rec['op'] = ['addVar', Str(name), 'none' if cm is None else Str(cm),
                         'none' if iv is None else Fraction(iv)]

            def call(op=op, name=name, cm=cm, iv=iv):
                v = m.add_variable(name, run.unit_of(op[1]), initial_value=iv, cmeta_id=cm)
                run.ids[v] = len(run.objs)
                run.objs.append(v)
                run.latest[op[1]] = v
        elif kind in ('rmVar', 'cmeta', 'getDef'):
            v = run.latest[op[1]]
            if run.live(v):
                rec['op'] = [kind, run.ids[v]]
                if kind == 'rmVar':
                    def call(v=v):
                        m.remove_variable(v)
                elif kind == 'cmeta':
                    def call(v=v):
                        m.add_cmeta_id(v)
                else:
                    def call(v=v):
                        d = m.get_definition(v)
                        return None if d is None else tokof(d)
        elif kind == 'xfer':
            s, t = run.latest[op[1]], run.latest[op[2]]
            if run.live(s) and run.live(t):
                rec['op'] = ['xfer', run.ids[s], run.ids[t]]

                def call(s=s, t=t):
                    m.transfer_cmeta_id(s, t)
        elif kind in ('addEq', 'rmEq'):
            k = op[1]
            if all(run.latest[j] is not None for j in EQ_SLOTS[k]) and \
                    (kind == 'rmEq' or all(run.live(run.latest[j]) for j in EQ_LHS_SLOTS[k])):
                eq = build_eq(k, run.latest, run.Q)
                t = tokof(eq)
                if kind == 'addEq':
                    l, refs, numrefs, bare = resolve_eq(run, eq)
                    rec['op'] = ['addEq', t, l, ['refs'] + refs, ['numrefs'] + numrefs, bare]

                    def call(eq=eq):
                        m.add_equation(eq)
                else:
                    rec['op'] = ['rmEq', t]

                    def call(eq=eq):
                        m.remove_equation(eq)
        elif kind == 'convert':
            v = run.latest[op[1]]
            if run.live(v):
                rec['op'] = ['convert', run.ids[v], op[2], op[3]]

                def call(v=v, op=op):
                    from cellmlmanip.model import DataDirectionFlow
                    try:
                        m.convert_variable(v, m.units.get_unit(op[2]),
                                           DataDirectionFlow.INPUT if op[3] == 'IN' else DataDirectionFlow.OUTPUT)
                    finally:
                        run.adopt()     # also after a raise: whatever the call left behind must be observable
        elif kind == 'quantity':
            rec['op'] = ['quantity']

            def call(op=op):
                run.Q[op[1]] = m.create_quantity(QUANTS[op[1]], 'dimensionless')
        elif kind in ('graph', 'graphNum'):
            rec['op'] = [kind]

            def call(kind=kind):
                return graph_obs(m, 0 if kind == 'graph' else 1, run.ids, tokof)
        elif kind == 'states':
            rec['op'] = ['states']

            def call():
                return [run.ids.get(v, -1) for v in m.get_state_variables()]
        elif kind == 'free':
            rec['op'] = ['free']

            def call():
                return run.ids.get(m.get_free_variable(), -1)
        if call is None:
            rec['out'] = 'skip'
            steps.append(rec)
            continue
        # ---- the call
        try:
            rec['res'] = call()
        except Exception as e:
            rec['out'] = 'err:' + type(e).__name__
        if kind in ('graph', 'graphNum') and rec['res'][0] == 'err':
            rec['out'] = 'err:' + rec['res'][1]
            rec['res'] = None
        if not checked:
            if deep and i >= first:
                observe()
            steps.append(rec)
            continue
        snap = observe()
        rec['snap'] = snap
        where = 'step %d %s (%s)' % (i, op, rec['out'])
        # ---- oracle 1: a call that raises leaves every observable as it was
        if rec['out'].startswith('err:') and is_edit:
            d = diff_keys(snap, prev)
            if d:
                what = kind if kind != 'convert' else 'convert:' + rec['out'][4:]
                fails.append({'key': 'not-atomic:%s:%s' % (what, ','.join(d)),
                              'detail': '%s changed %s: before %s after %s'
                              % (where, d, [prev[k] for k in d], [snap[k] for k in d])})
            if rec['out'] not in ('err:ValueError', 'err:KeyError') and \
                    not (kind == 'convert' and rec['out'] == 'err:DimensionalityError'):
                fails.append({'key': 'unexpected-exception:%s:%s' % (kind, rec['out'][4:]), 'detail': where})
        # ---- oracle 2: every query answers as a freshly built model with the same variables and equations
        try:
            f, mp, feqs = fresh_like(m)
        except Exception as e:
            fails.append({'key': 'incoherent:fresh-build-rejected:' + type(e).__name__,
                          'detail': '%s: a fresh model refuses the current content: %s' % (where, str(e)[:120])})
            f = None
        if f is not None:
            fids = {nv: run.ids[ov] for ov, nv in mp.items()}
            ftoks = [(ne, tokof(oe)) for ne, oe in zip(feqs, m.equations)]

            def ftok(e):
                for ne, t in ftoks:
                    if ne == e:
                        return t
                return -1
            fobjs = [mp[o] for o in run.objs if o in mp]
            fs = snapshot(f, fids, ftok, deep, fobjs)
            a, b = strip_types(snap), strip_types(fs)
            d = diff_keys(a, b)
            if deep:
                ft = dict((x[0], x[1]) for x in fs['types'])
                st = dict((x[0], x[1]) for x in snap['types'] if x[0] in ft)
                if st != ft:
                    d.append('types')
                    a['types'], b['types'] = st, ft
            if not d and kind in ('graph', 'graphNum', 'states', 'free') :
                if kind in ('graph', 'graphNum'):
                    fr = graph_obs(f, 0 if kind == 'graph' else 1, fids, ftok)
                    mine = rec['res'] if rec['res'] is not None else ['err', rec['out'][4:]]
                    if fr != mine:
                        d.append(kind)
                        a[kind], b[kind] = mine, fr
            if d:
                fails.append({'key': 'incoherent:' + ','.join(d),
                              'detail': '%s: edited model %s, fresh model %s' % (where, [a[k] for k in d],
                                                                                 [b[k] for k in d])})
        # ---- oracle 3: the equation list and the definition maps are views of one set of definitions
        owner = {}
        for e in m.equations:
            dv = e.lhs.args[0] if e.lhs.is_Derivative else e.lhs
            if dv in owner:
                fails.append({'key': 'incoherent:two-definitions',
                              'detail': '%s: Model.equations holds two equations that define %s: %s and %s'
                                        % (where, dv, owner[dv], e)})
                break
            owner[dv] = e
        else:
            for dv, e in owner.items():
                try:
                    d = m.get_definition(dv)
                except Exception:
                    d = None
                if d is None or d != e:
                    fails.append({'key': 'incoherent:definition-not-in-equations',
                                  'detail': '%s: get_definition(%s) = %s but Model.equations defines it by %s'
                                            % (where, dv, d, e)})
                    break
        prev = snap
        steps.append(rec)
        if fails:
            break
    return {'steps': steps, 'fails': fails[:3]}


def impl(case):
    logging.disable(logging.CRITICAL)
    return {'runs': [run_history(h) for h in case['histories']]}


# ---------------------------------------------------------------------------------------------- model
def requests(case, obs):
    lines = []
    if case.get('kind') == 'convert':
        return lines        # convert_variable is not modelled: these histories are for the oracle only
    for h, r in zip(case['histories'], obs['runs']):
        ops = []
        for st in r['steps']:
            ops.append(['skip'] if st['out'] == 'skip' else st['op'])
        lines.append(sx(['C08', h['mode'], h.get('from', 0), h.get('check', h.get('from', 0)), Str(MODEL_CMETA), ['ops'] + ops]))
    return lines


def py(x):
    """model reply -> python values comparable with the observation"""
    if isinstance(x, list):
        return [py(y) for y in x]
    if isinstance(x, Str):
        return str(x)
    if x == 'none':
        return None
    if x == 'true':
        return True
    if x == 'false':
        return False
    try:
        return int(x)
    except ValueError:
        return x


def canon_graph(g):
    if g[0] == 'err':
        return g
    return ['ok', sorted(g[1], key=repr), sorted(g[2], key=repr)]


def graph_agrees(mine, model, num=False):
    """model error replies carry the set of classes the first failing equation can raise"""
    if model[0] == 'err':
        return mine[0] == 'err' and mine[1] in model[1:]
    if num:     # the equation attribute of the graph with numbers is a rewritten copy: only its presence is compared
        model = ['ok', [[n, t, None if e is None else -2] for n, t, e in model[1]], model[2]]
    return mine == canon_graph(model)


def compare_snap(s, ms, deep):
    """s: implementation snapshot; ms: model snapshot as association list"""
    md = {k: v for k, *v in ms}
    md['vars'] = [v[:3] + [None if v[3] is None else str(v[3])] for v in md['vars']]
    if s['vars'] != md['vars']:
        return 'vars: implementation %s model %s' % (s['vars'], md['vars'])
    for k in ('eqs', 'defs', 'states'):
        if s[k] != md[k]:
            return '%s: implementation %s model %s' % (k, s[k], md[k])
    if s['states_unsorted'] != md['states_unsorted']:
        return 'states(sort=False): implementation %s model %s' % (s['states_unsorted'], md['states_unsorted'])
    mfree = md['free'][0]
    if s['free'] != (mfree if mfree is not None else 'err:ValueError'):
        return 'free variable: implementation %s model %s' % (s['free'], mfree)
    cmap = dict((c, i) for c, i in md['cmeta'])
    for cid, has, who in s['cmeta']:
        if who != cmap.get(cid) or has != (cid in cmap or cid == MODEL_CMETA):
            return 'cmeta id %s: implementation has=%s var=%s, model map %s' % (cid, has, who, md['cmeta'])
    if sorted(s['types']) != sorted(md['types']):
        return 'type fields: implementation %s model %s' % (sorted(s['types']), sorted(md['types']))
    if deep:
        for k in ('graph', 'graphNum'):
            if not graph_agrees(s[k], md[k][0], k == 'graphNum'):
                return '%s: implementation %s model %s' % (k, s[k], md[k][0])
    return None


def compare(case, obs, replies):
    for hi, (h, r, rep) in enumerate(zip(case['histories'], obs['runs'], replies)):
        if r['fails']:
            continue        # the implementation broke the property on this history: reported by the oracle
        rep = py(rep)
        if not isinstance(rep, list) or len(rep) != len(r['steps']):
            return 'history %d: model reply malformed: %r' % (hi, str(rep)[:200])
        deep = h['mode'] == 'deep'
        for i, (st, ms) in enumerate(zip(r['steps'], rep)):
            where = 'history %d %s step %d %s' % (hi, h['ops'], i, h['ops'][i])
            if st['out'] == 'skip':
                continue
            mout, mres, msnap = ms[0], ms[1], ms[2]
            kind = st['op'][0]
            if kind in ('graph', 'graphNum'):
                mine = st['res'] if st['res'] is not None else ['err', st['out'][4:]]
                if not graph_agrees(mine, mres, kind == 'graphNum'):
                    return '%s: implementation %s model %s' % (where, mine, mres)
            else:
                want = 'ok' if mout == 'ok' else 'err:' + mout[1]
                if want != st['out']:
                    return '%s: outcome implementation %s model %s' % (where, st['out'], mout)
                if kind in ('states', 'getDef', 'free') and st['out'] == 'ok' and st['res'] != mres:
                    return '%s: result implementation %s model %s' % (where, st['res'], mres)
            if 'snap' in st:
                mm = compare_snap(st['snap'], msnap, deep)
                if mm:
                    return where + ': ' + mm
    return None


# ---------------------------------------------------------------------------------------------- property oracle
def oracle(case, obs):
    out = []
    for h, r in zip(case['histories'], obs['runs']):
        for f in r['fails']:
            out.append({'key': f['key'], 'detail': '%s ops=%s: %s' % (h['mode'], h['ops'], f['detail'][:900])})
    return out[:6]


def nontrivial(case, obs):
    for r in obs['runs']:
        outs = [s['out'] for s in r['steps']]
        if any(o.startswith('err:') for o in outs) and any(s['op'] and s['op'][0] in ('graph', 'graphNum')
                                                           for s in r['steps'] if s['out'] != 'skip'):
            return True
    return any(any(s['out'].startswith('err:') for s in r['steps']) for r in obs['runs'])


def tag(case, obs):
    n = sum(len(r['steps']) for r in obs['runs'])
    e = sum(1 for r in obs['runs'] for s in r['steps'] if s['out'].startswith('err:'))
    return '%s steps~%d raised~%d%%' % (case.get('kind'), round(n, -2), round(100.0 * e / max(n, 1), -1))


def shrink(v):
    """Keep only the first failing history, cut after the failing step."""
    case = v['case']
    for h, r in zip(case['histories'], v['obs']['runs']):
        if r['fails']:
            ops = h['ops'][:len(r['steps'])]
            small = {'kind': 'shrunk', 'histories': [{'mode': h['mode'], 'from': 0, 'check': 0, 'ops': ops}]}
            best = small
            # greedy removal of single calls while the same key keeps failing
            key = r['fails'][0]['key']
            changed = True
            while changed:
                changed = False
                for j in range(len(best['histories'][0]['ops']) - 1):
                    cand_ops = best['histories'][0]['ops'][:j] + best['histories'][0]['ops'][j + 1:]
                    cand = {'kind': 'shrunk', 'histories': [{'mode': h['mode'], 'from': 0, 'check': 0, 'ops': cand_ops}]}
                    o = impl(cand)
                    if o['runs'][0]['fails'] and o['runs'][0]['fails'][0]['key'] == key:
                        best, changed = cand, True
                        break
            o = impl(best)
            return {'case': best, 'failures': oracle(best, o), 'obs': o}
    return v


MANIFEST = {
    'technique': 'Lean 4 state-machine model of Model (heap of Variable objects, registries, three equation views, two '
                 'graph caches) with invariant, coherence and atomicity theorems by induction over operation lists + '
                 'differential correspondence over exhaustive and random API histories',
    'text': ('Proved in Lean for ALL histories of add_variable / remove_variable / add_equation / remove_equation / '
             'create_quantity / add_cmeta_id / transfer_cmeta_id and the queries graph / graph_with_sympy_numbers / '
             'get_state_variables / get_free_variable / get_definition, valid or raising, in any order and of any '
             'length (lean/Cellml/Props/C08.lean, standard axioms only): inv_init, inv_step, inv_reachable (definition '
             'maps = maps derived from the equation list, no variable defined twice, a cached graph = graph of the '
             'current equations, name and cmeta registries = the variable list, order_added strictly increasing); '
             'coherent (every observable equals that of the fresh model with the same content), fresh_is_built (that '
             'fresh model is what add_equation builds), history_independent; atomic / atomic_reachable / '
             'rejected_edit_state (a raising call changes no observable; a raising edit changes nothing at all); '
             'states_in_order_of_introduction, order_added_increasing. Counterexamples for the code before the three '
             'fix: commits are proved by decide (today_not_atomic, today_not_coherent, today_order_reused). The model '
             'is tied to model.py by the correspondence check: 15 192 exhaustive + ~1000 random histories per quick '
             'run, full snapshot (variables, equations, definitions, states, free variable, cmeta lookups, type '
             'fields, both graphs with node attributes and edges) after every checked call; the independent oracle '
             'rebuilds a fresh Model through the API after every call. Three defects found and fixed in /repo '
             '(findings/C08.json). convert_variable and add_equation(check_duplicates=False) are outside the model; '
             'convert_variable histories are searched by the oracle only.'),
    'note': ('Trusted: Lean kernel; propext, Classical.choice, Quot.sound; the correspondence harness (object identity '
             '-> numbers, equations -> tokens by ==, reference sets of right-hand sides computed with sympy). sympy and '
             'networkx are used as they are. Calls with variables that are not in the model are answered by a '
             'conventional rejection in the model and are not generated.'),
}
