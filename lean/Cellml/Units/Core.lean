import Cellml.Basic.PMap
import Cellml.Generated.Tables

/-! Mini-pint: the unit algebra exactly as cellmlmanip uses pint 0.18 (units.py 143-335).

    * `Scale`     : prime ↦ rational exponent; denotes the positive real ∏ pᵉ. Multiplication of scales is
                    `PMap.add`, powers are `PMap.smul`, the unit scale is `[]`.
    * `Container` : pint's `UnitsContainer` (unit name ↦ exponent); `dimensionless` is the empty container.
    * `Registry`  : name ↦ definition, NEWEST FIRST; a derived unit refers only to names defined before it
                    (deeper in the list) — this is what `_add_units`' work list guarantees — so one pass over
                    the list expands any container to root units (`expand`), by structural recursion.
    Core Lean only. -/

abbrev Scale := PMap Nat
abbrev Container := PMap String
abbrev Dims := PMap String

inductive UnitDef where
  /-- root unit. `dim = none` is pint's `radian = []`: a root unit that carries no dimension. -/
  | base (dim : Option String)
  /-- `name = k · of` (also the `ScaleConverter` special case for scaled dimensionless units: `of = []`). -/
  | derived (k : Scale) (of : Container)
deriving Repr, DecidableEq

abbrev Registry := List (String × UnitDef)

namespace Units

/-- 10^k as a scale -/
def pow10 (k : Int) : Scale := if k = 0 then [] else [(2, (k : Rat)), (5, (k : Rat))]

/-- One pass, newest first: replace every derived unit by its definition. Returns (scale, root container). -/
def expand : Registry → Scale × Container → Scale × Container
  | [], sc => sc
  | (_, .base _) :: r, sc => expand r sc
  | (n, .derived k of) :: r, (s, c) =>
      let e := c.get n
      expand r (PMap.add s (PMap.smul e k), PMap.add (PMap.sub c (PMap.single n e)) (PMap.smul e of))

/-- `registry.get_base_units(unit)` : (factor, root units) -/
def toRoot (reg : Registry) (c : Container) : Scale × Container := expand reg ([], c)

def scaleOf (reg : Registry) (c : Container) : Scale := PMap.norm (toRoot reg c).1
def rootOf (reg : Registry) (c : Container) : Container := PMap.norm (toRoot reg c).2

/-- dimensionality of a root container: root units without a dimension (`radian`) disappear -/
def dimsOfRoot : Registry → Container → Dims
  | [], _ => []
  | (n, .base (some d)) :: r, c => PMap.add (PMap.single d (c.get n)) (dimsOfRoot r c)
  | _ :: r, c => dimsOfRoot r c

def dimsOf (reg : Registry) (c : Container) : Dims := PMap.norm (dimsOfRoot reg (PMap.norm (toRoot reg c).2))

/-- every name of the container is a key of the registry -/
def allKnown (reg : Registry) (c : Container) : Bool :=
  c.all (fun (n, _) => (reg.lookup n).isSome)

inductive UErr where
  | dimensionality      -- pint.DimensionalityError
  | undefinedUnit       -- pint.UndefinedUnitError / KeyError
  | valueError
  | other (what : String)
deriving Repr, DecidableEq

/-- `1 * a` converted to `b` : the magnitude multiplier. pint: dimensionalities must agree; the factor is
    the scale of `a / b` in root units (left-over dimensionless root units such as `radian` are ignored). -/
def factor (reg : Registry) (a b : Container) : Except UErr Scale :=
  if !(allKnown reg a && allKnown reg b) then .error .undefinedUnit
  else if PMap.beq (dimsOf reg a) (dimsOf reg b) then
    .ok (PMap.norm (PMap.sub (toRoot reg a).1 (toRoot reg b).1))
  else .error .dimensionality

/-- `UnitStore.is_equivalent`: equal root containers (radian counts) and equal scales -/
def isEquivalent (reg : Registry) (a b : Container) : Bool :=
  PMap.beq (toRoot reg a).2 (toRoot reg b).2 && PMap.beq (toRoot reg a).1 (toRoot reg b).1

/-! ### Built-in registry, computed from the generated table `Cellml.Gen.builtinUnits`. -/

open Cellml.Gen in
/-- root form of a built-in definition given root forms of the already resolved names -/
def builtinFactor (known : List (String × (Scale × Container))) : BFactor → Option (Scale × Container)
  | .num m e10 p =>
      if m = 1 then some (PMap.smul (p : Rat) (pow10 e10), []) else none
  | .unit n p =>
      match known.lookup n with
      | some (s, c) => some (PMap.smul (p : Rat) s, PMap.smul (p : Rat) c)
      | none => none

open Cellml.Gen in
def builtinExpr (known : List (String × (Scale × Container))) : List BFactor → Option (Scale × Container)
  | [] => some ([], [])
  | f :: fs =>
      match builtinFactor known f, builtinExpr known fs with
      | some (s, c), some (s', c') => some (PMap.add s s', PMap.add c c')
      | _, _ => none

open Cellml.Gen in
/-- one sweep over the table: resolve every entry whose references are all resolved -/
def builtinSweep (tbl : List (String × List String × BDef)) (known : List (String × (Scale × Container))) :
    List (String × (Scale × Container)) :=
  tbl.foldl (fun kn (name, aliases, d) =>
    if (kn.lookup name).isSome then kn else
    match d with
    | .base _ => (name :: aliases).foldl (fun k n => (n, (([] : Scale), PMap.single name 1)) :: k) kn
    | .expr fs =>
        match builtinExpr kn fs with
        | some (s, c) => (name :: aliases).foldl (fun k n => (n, (PMap.norm s, PMap.norm c)) :: k) kn
        | none => kn
    | .raw _ => kn) known

def builtinResolve : Nat → List (String × (Scale × Container)) → List (String × (Scale × Container))
  | 0, kn => kn
  | n + 1, kn => builtinResolve n (builtinSweep Cellml.Gen.builtinUnits kn)

/-- root forms (scale, root container) of all built-in names, aliases included -/
def builtinRoots : List (String × (Scale × Container)) := builtinResolve 8 []

open Cellml.Gen in
/-- the registry of a fresh `UnitStore`: base units first defined (deepest), derived units in root form -/
def builtinRegistry : Registry :=
  let bases : Registry := builtinUnits.filterMap (fun (name, _, d) =>
    match d with
    | .base dim => some (name, UnitDef.base (if dim = "" then none else some dim))
    | _ => none)
  let derived : Registry := builtinRoots.filterMap (fun (n, (s, c)) =>
    if (bases.lookup n).isSome then none else some (n, UnitDef.derived s c))
  derived ++ bases

end Units
