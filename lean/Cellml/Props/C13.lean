import Cellml.C13.Lemmas
import Cellml.C13.LoadLemmas

/-! # C13 — annotations always point at exactly one live variable

    Model: `Cellml/Model/Cmeta.lean` (`AState` = the C08 model state + the RDF triples; `astep`, `arun`; the lookups
    `getVariableByCmetaId`, `byRdf`, `byTerm`, `termsOf`), `Cellml/Load/Connect.lean` (`stepConn`: the mover of
    connection resolution, as repaired by commit df25620). Lemmas: `Cellml/C13/Lemmas.lean`, `Cellml/C13/LoadLemmas.lean`.

    Every theorem quantifies over ALL states satisfying the invariant / ALL histories of calls of any length (valid
    calls and calls that raise) / ALL documents. The tie to the Python code is `harness/props/c13.py`. -/

namespace Cellml.Props.C13
open Model

-- ================================================================================================ the bijection
/-- a new model satisfies the invariant, hence the bijection … -/
theorem bij_init (mc : Option String) : AInv (ainit mc) ∧ Bij (ainit mc).m :=
  ⟨ainv_init mc, bij_of_inv (ainv_init mc).inv⟩

/-- … every call — `add_variable` (with or without id, clashing or not), `remove_variable`, `add_equation`,
    `remove_equation`, `add_cmeta_id`, `transfer_cmeta_id`, the graph queries, `rdf.add`, `convert_variable` with
    either setting of `move_annotations`, the loader's mover — whether it returns or raises, preserves it … -/
theorem bij_step (a : AState) (op : AOp) (h : AInv a) : AInv (astep a op).1 ∧ Bij (astep a op).1.m :=
  ⟨ainv_step h op, bij_of_inv (ainv_step h op).inv⟩

/-- … so after every history each cmeta id belongs to at most one live variable and never to a variable and the
    model at once; the registry holds exactly the pairs (id, live variable carrying it); `has_cmeta_id` is true exactly
    of the model's id and the ids carried by live variables. -/
theorem bij_reachable (mc : Option String) (ops : List AOp) : Bij (arun mc ops).m :=
  bij_of_inv (ainv_run mc ops).inv

theorem ainv_reachable (mc : Option String) (ops : List AOp) : AInv (arun mc ops) := ainv_run mc ops

-- ================================================================================================ lookups
/-- `get_variable_by_cmeta_id(c)` returns precisely the live variable that carries `c` now (found by looking at every
    variable), and raises KeyError exactly when no live variable does -/
theorem lookup_id (a : AState) (h : AInv a) (c : String) :
    getVariableByCmetaId a.m c = carrierOf a.m c ∧
    (∀ v, getVariableByCmetaId a.m c = some v ↔ (v ∈ a.m.live ∧ cmetaOf a.m v = some c)) ∧
    (getVariableByCmetaId a.m c = none ↔ ∀ i ∈ a.m.live, cmetaOf a.m i ≠ some c) :=
  ⟨lookup_eq_carrier (bij_of_inv h.inv) c, (bij_of_inv h.inv).lookup_iff c, lookup_none_iff (bij_of_inv h.inv) c⟩

/-- `get_variables_by_rdf(predicate, object)` is the lookup computed from `variables()` alone; when it returns, it
    returns one entry per matching triple, exactly the live variables whose CURRENT id is the subject of a matching
    triple, in `order_added` order; it raises (KeyError) exactly when a matching triple is about an id that no live
    variable carries (an annotation of the model itself, or of an unknown id) -/
theorem lookup_rdf (a : AState) (h : AInv a) (p : String) (o : Option RNode) :
    byRdf a p o = byRdfSpec a p o ∧
    (∀ vs, byRdf a p o = .ok vs →
      vs.length = (a.rdf.filter (tripleMatches p o)).length ∧
      (∀ v, v ∈ vs ↔ v ∈ a.m.live ∧ ∃ t ∈ a.rdf, tripleMatches p o t = true ∧ cmetaOf a.m v = some t.subj) ∧
      vs.Pairwise (fun x y => orderOf a.m x ≤ orderOf a.m y)) ∧
    (∀ e, byRdf a p o = .error e ↔
      (e = .keyError ∧ ∃ t ∈ a.rdf, tripleMatches p o t = true ∧ ∀ i ∈ a.m.live, cmetaOf a.m i ≠ some t.subj)) :=
  ⟨byRdf_eq_spec (bij_of_inv h.inv) p o, fun _ hv => byRdf_ok (bij_of_inv h.inv) hv,
   fun e => byRdf_error (bij_of_inv h.inv) p o e⟩

/-- `get_variable_by_ontology_term(term)` returns `v` exactly when one triple says `… bqbiol:is term` and its subject
    is the id `v` carries now; with no such triple it raises KeyError; and the term found a variable by is among the
    terms reachable through that variable (`get_ontology_terms_by_variable`) -/
theorem lookup_term (a : AState) (h : AInv a) (term : RNode) :
    (∀ v, byTerm a term = .ok v ↔
      ∃ c, a.rdf.filter (tripleMatches bqbiolIs (some term)) = [⟨c, bqbiolIs, term⟩] ∧ v ∈ a.m.live ∧
        cmetaOf a.m v = some c) ∧
    (a.rdf.filter (tripleMatches bqbiolIs (some term)) = [] → byTerm a term = .error .keyError) ∧
    (∀ v, byTerm a term = .ok v → localName term.text ∈ termsOf a v none) :=
  ⟨byTerm_ok_iff (bij_of_inv h.inv) term, byTerm_none term, fun _ hv => byTerm_reachable (bij_of_inv h.inv) hv⟩

/-- a variable's annotations are reachable through it: `get_ontology_terms_by_variable(v, ns)` lists exactly the local
    names of the objects of the `bqbiol:is` triples whose subject is the id `v` carries now -/
theorem annotations_reachable (a : AState) (v : Nat) (ns : Option String) (x : String) :
    x ∈ termsOf a v ns ↔
      ∃ t ∈ a.rdf, cmetaOf a.m v = some t.subj ∧ t.pred = bqbiolIs ∧ nsOk ns t.obj = true ∧ localName t.obj.text = x :=
  termsOf_mem

-- ================================================================================================ edits
/-- `remove_variable(v)` on a variable carrying `c`: the call returns; `v` is no longer in `variables()`; every triple
    about `c` is gone and every other triple is kept; `c` is free again (`has_cmeta_id` false, lookup raises KeyError);
    nobody else's id changes -/
theorem remove_drops_annotations (a : AState) (h : AInv a) (v : Nat) (c : String) (hv : v ∈ a.m.live)
    (hc : cmetaOf a.m v = some c) :
    (astep a (.base (.removeVariable v))).2 = .ok ∧
    v ∉ (astep a (.base (.removeVariable v))).1.m.live ∧
    (∀ t, t ∈ (astep a (.base (.removeVariable v))).1.rdf ↔ (t ∈ a.rdf ∧ t.subj ≠ c)) ∧
    hasCmetaId (astep a (.base (.removeVariable v))).1.m c = false ∧
    getVariableByCmetaId (astep a (.base (.removeVariable v))).1.m c = none ∧
    (∀ i, cmetaOf (astep a (.base (.removeVariable v))).1.m i = cmetaOf a.m i) ∧
    (∀ i, i ∈ (astep a (.base (.removeVariable v))).1.m.live ↔ (i ∈ a.m.live ∧ i ≠ v)) := by
  have hst : astep a (.base (.removeVariable v)) = removeVariableA a v := rfl
  rw [hst]
  obtain ⟨r1, r2, r3, r4, r5⟩ := removeVariableA_ok h.inv hv
  have B := bij_of_inv h.inv
  have B' : Bij (removeVariableA a v).1.m := bij_of_inv (by rw [← hst]; exact (ainv_step h _).inv)
  have hlive : ∀ i, i ∈ (removeVariableA a v).1.m.live ↔ (i ∈ a.m.live ∧ i ≠ v) := by
    intro i; rw [r2, h.inv.reg.liveNodup.mem_erase_iff]; exact And.comm
  have hnone : ∀ i ∈ (removeVariableA a v).1.m.live, cmetaOf (removeVariableA a v).1.m i ≠ some c := by
    intro i hi hci
    obtain ⟨hi1, hi2⟩ := (hlive i).mp hi
    rw [r4] at hci
    exact hi2 (B.distinct i hi1 v hv c hci hc)
  refine ⟨r1, fun hm => ((hlive v).mp hm).2 rfl, ?_, ?_, (lookup_none_iff B' c).mpr hnone, r4, hlive⟩
  · intro t
    rw [r5, hc, mem_dropSubject]
    constructor
    · rintro ⟨h1, h2⟩; exact ⟨h1, fun e => h2 (by rw [e])⟩
    · rintro ⟨h1, h2⟩; exact ⟨h1, fun e => h2 (Option.some.inj e).symm⟩
  · cases hh : hasCmetaId (removeVariableA a v).1.m c with
    | false => rfl
    | true =>
      exfalso
      rcases (B'.has_iff c).mp hh with hm | ⟨i, hi, hci⟩
      · rw [r3] at hm; exact B.notModel v hv c hc hm
      · exact hnone i hi hci

/-- a variable that later receives the id of a removed variable starts without annotations: after
    `remove_variable(v)`, `add_variable(n, cmeta_id=c)` (when it is accepted) creates a variable with no terms -/
theorem readd_has_no_annotations (a : AState) (h : AInv a) (v : Nat) (c : String) (hv : v ∈ a.m.live)
    (hc : cmetaOf a.m v = some c) (n : String) (iv : Option Rat) (ns : Option String) :
    let a1 := (astep a (.base (.removeVariable v))).1
    let a2 := (astep a1 (.base (.addVariable n (some c) iv))).1
    (astep a1 (.base (.addVariable n (some c) iv))).2 = .ok → termsOf a2 a1.m.heap.length ns = [] := by
  intro a1 a2 hok
  obtain ⟨_, _, hrdf, hfree, _, _, _⟩ := remove_drops_annotations a h v c hv hc
  have hnt : nameTaken a1.m n = false := by
    cases hx : nameTaken a1.m n with
    | false => rfl
    | true =>
      have : (astep a1 (.base (.addVariable n (some c) iv))).2 = .raised .valueError := by
        show (addVariable a1.m n (some c) iv).2 = _
        rw [addVariable_raised (Or.inl hx)]
      rw [this] at hok; cases hok
  obtain ⟨_, _, _, _, h5, _⟩ := addVariable_ok (s := a1.m) (n := n) (c := some c) (iv := iv) hnt hfree
  have hcm : cmetaOf a2.m a1.m.heap.length = some c := by
    show cmetaOf (addVariable a1.m n (some c) iv).1 a1.m.heap.length = some c
    rw [h5]; simp
  unfold termsOf annotationsOf
  simp only [hcm]
  have : a2.rdf = a1.rdf := rfl
  rw [this]
  have hemp : a1.rdf.filter (fun t => t.subj == c && t.pred == bqbiolIs) = [] := by
    rw [List.filter_eq_nil_iff]
    intro t ht
    have := ((hrdf t).mp ht).2
    simp [this]
  rw [hemp]; rfl

/-- `add_cmeta_id(v)` on a variable without id: the `while has_cmeta_id` loop terminates (the conventional out-of-fuel
    answer of the model never occurs); the id is the first of `name'`, `name'_`, `name'__`, … (`name'` = the name with
    `$` replaced by `__`) that is neither in use by a variable nor the model's own id; `v` carries it afterwards,
    nobody else's id changes, and looking it up returns `v` -/
theorem addCmetaId_fresh (a : AState) (h : AInv a) (v : Nat) (hv : v ∈ a.m.live) (hc : cmetaOf a.m v = none) :
    ∃ (c : String) (k : Nat), c = cand ((nameOfVar a.m v).replace "$" "__") k ∧
      (∀ j, j < k → hasCmetaId a.m (cand ((nameOfVar a.m v).replace "$" "__") j) = true) ∧
      hasCmetaId a.m c = false ∧ a.m.modelCmeta ≠ some c ∧ (∀ i ∈ a.m.live, cmetaOf a.m i ≠ some c) ∧
      (astep a (.base (.addCmetaId v))).2 = .ok ∧
      (∀ i, cmetaOf (astep a (.base (.addCmetaId v))).1.m i = if i = v then some c else cmetaOf a.m i) ∧
      (astep a (.base (.addCmetaId v))).1.m.live = a.m.live ∧
      getVariableByCmetaId (astep a (.base (.addCmetaId v))).1.m c = some v := by
  obtain ⟨c, k, he, hall, hfree, hok, hl, _, _, hcm, _⟩ := addCmetaId_ok h.inv.reg hv hc
  have B := bij_of_inv h.inv
  have B' := bij_of_inv (ainv_step h (.base (.addCmetaId v))).inv
  have hnot : ¬ (a.m.modelCmeta = some c ∨ ∃ i ∈ a.m.live, cmetaOf a.m i = some c) := by
    intro hx; have := (B.has_iff c).mpr hx; rw [hfree] at this; cases this
  refine ⟨c, k, he, hall, hfree, fun hm => hnot (Or.inl hm), fun i hi hci => hnot (Or.inr ⟨i, hi, hci⟩), hok, hcm, hl, ?_⟩
  exact (B'.lookup_iff c v).mpr ⟨by show v ∈ (addCmetaId a.m v).1.live; rw [hl]; exact hv,
    by show cmetaOf (addCmetaId a.m v).1 v = some c; rw [hcm]; simp⟩

/-- `add_cmeta_id` on a variable that already has an id does nothing -/
theorem addCmetaId_keeps (a : AState) (v : Nat) (c : String) (hc : cmetaOf a.m v = some c) :
    (astep a (.base (.addCmetaId v))).1 = a := by
  show ({ a with m := (addCmetaId a.m v).1 } : AState) = a
  rw [addCmetaId_noop (Or.inr (by rw [hc]; rfl))]

/-- `transfer_cmeta_id(src, dst)`: raises ValueError — and changes nothing — when `src` has no id or `dst` already has
    one; otherwise `src` loses the id, `dst` gains it, nothing else changes (no other variable, no triple), the id now
    leads to `dst`, and so does every annotation that led to `src` -/
theorem transfer_moves (a : AState) (h : AInv a) (src dst : Nat) (hs : src ∈ a.m.live) (hd : dst ∈ a.m.live) :
    ((cmetaOf a.m src = none ∨ (cmetaOf a.m dst).isSome = true) →
      astep a (.base (.transferCmetaId src dst)) = (a, .raised .valueError)) ∧
    (∀ c, cmetaOf a.m src = some c → cmetaOf a.m dst = none →
      (astep a (.base (.transferCmetaId src dst))).2 = .ok ∧
      (∀ i, cmetaOf (astep a (.base (.transferCmetaId src dst))).1.m i =
        if i = src then none else if i = dst then some c else cmetaOf a.m i) ∧
      (astep a (.base (.transferCmetaId src dst))).1.m.live = a.m.live ∧
      (astep a (.base (.transferCmetaId src dst))).1.rdf = a.rdf ∧
      getVariableByCmetaId (astep a (.base (.transferCmetaId src dst))).1.m c = some dst ∧
      (∀ term, byTerm a term = .ok src → byTerm (astep a (.base (.transferCmetaId src dst))).1 term = .ok dst)) := by
  constructor
  · intro hx
    show (({ a with m := (transferCmetaId a.m src dst).1 } : AState), (transferCmetaId a.m src dst).2) = _
    rw [transferCmetaId_raised hs hd hx]
  · intro c hcs hcd
    obtain ⟨t1, t2, _, _, t5, _⟩ := transferCmetaId_ok h.inv.reg hs hd hcs hcd
    have B := bij_of_inv h.inv
    have A' := ainv_step h (.base (.transferCmetaId src dst))
    have B' := bij_of_inv A'.inv
    have hne : src ≠ dst := by rintro rfl; rw [hcs] at hcd; cases hcd
    have hdst : dst ∈ (astep a (.base (.transferCmetaId src dst))).1.m.live ∧
        cmetaOf (astep a (.base (.transferCmetaId src dst))).1.m dst = some c := by
      refine ⟨by show dst ∈ (transferCmetaId a.m src dst).1.live; rw [t2]; exact hd, ?_⟩
      show cmetaOf (transferCmetaId a.m src dst).1 dst = some c
      rw [t5, if_neg (Ne.symm hne), if_pos rfl]
    refine ⟨t1, t5, t2, rfl, (B'.lookup_iff c dst).mpr hdst, ?_⟩
    intro term hterm
    obtain ⟨c', hl, _, hc'⟩ := (byTerm_ok_iff B term src).mp hterm
    have : c' = c := by rw [hcs] at hc'; exact (Option.some.inj hc').symm
    subst this
    exact (byTerm_ok_iff B' term dst).mpr ⟨c', hl, hdst.1, hdst.2⟩

-- ================================================================================================ convert_variable
/-- who carries what among old and new variables when no id moved -/
theorem carried_iff_of_same {s s' : MState} {extra : List Nat} (hl : s'.live = s.live ++ s.heap.length :: extra)
    (hge : ∀ i ∈ extra, s.heap.length < i) (hc : ∀ i, cmetaOf s' i = cmetaOf s i) (c : String) (i : Nat) :
    (i ∈ s'.live ∧ cmetaOf s' i = some c) ↔ (i ∈ s.live ∧ cmetaOf s i = some c) := by
  rw [hc, hl]
  constructor
  · rintro ⟨hi, hci⟩
    refine ⟨?_, hci⟩
    have hlt : i < s.heap.length := by
      apply Nat.lt_of_not_le; intro hle; rw [cmetaOf_ge hle] at hci; cases hci
    rcases List.mem_append.mp hi with h | h
    · exact h
    · rcases List.mem_cons.mp h with h | h
      · omega
      · have := hge i h; omega
  · rintro ⟨hi, hci⟩; exact ⟨List.mem_append_left _ hi, hci⟩

/-- `convert_variable(v, …, move_annotations=True)` that converts (factor ≠ 1), `v` carrying `c`: the call returns; the
    new variable (number `heap.length`, not a variable before) is live and carries `c`; `v` has no id; nobody else's id
    and no triple changes; `c` and every ontology term that led to `v` now lead to the new variable -/
theorem convert_moves_id (a : AState) (h : AInv a) (v : Nat) (k : ConvKind) (c : String) (hv : v ∈ a.m.live)
    (hk : k ≠ .same) (hc : cmetaOf a.m v = some c) :
    (astep a (.convert v true k)).2 = .ok ∧
    a.m.heap.length ∈ (astep a (.convert v true k)).1.m.live ∧ a.m.heap.length ∉ a.m.live ∧
    cmetaOf (astep a (.convert v true k)).1.m a.m.heap.length = some c ∧
    cmetaOf (astep a (.convert v true k)).1.m v = none ∧
    (∀ i, i ≠ v → i ≠ a.m.heap.length → cmetaOf (astep a (.convert v true k)).1.m i = cmetaOf a.m i) ∧
    (astep a (.convert v true k)).1.rdf = a.rdf ∧
    getVariableByCmetaId (astep a (.convert v true k)).1.m c = some a.m.heap.length ∧
    (∀ term, byTerm a term = .ok v → byTerm (astep a (.convert v true k)).1 term = .ok a.m.heap.length) := by
  have hst : astep a (.convert v true k) = convertVariable a v true k := rfl
  rw [hst]
  obtain ⟨e1, e2, _, ⟨extra, hl, _⟩, e5⟩ := convertVariable_effect h.inv hv true hk
  have B := bij_of_inv h.inv
  have B' : Bij (convertVariable a v true k).1.m := bij_of_inv (by rw [← hst]; exact (ainv_step h _).inv)
  have hvlt : v < a.m.heap.length := h.inv.reg.liveBound v hv
  have hcond : (true = true ∧ (cmetaOf a.m v).isSome = true) := ⟨rfl, by rw [hc]; rfl⟩
  have hnv : a.m.heap.length ∈ (convertVariable a v true k).1.m.live := by rw [hl]; simp
  have hcn : cmetaOf (convertVariable a v true k).1.m a.m.heap.length = some c := by
    rw [e5]; unfold idsAfterConvert; rw [if_pos hcond, if_neg (by omega), if_pos rfl, hc]
  refine ⟨e1, hnv, fun hm => Nat.lt_irrefl _ (h.inv.reg.liveBound _ hm), hcn, ?_, ?_, e2,
    (B'.lookup_iff c _).mpr ⟨hnv, hcn⟩, ?_⟩
  · rw [e5]; unfold idsAfterConvert; rw [if_pos hcond, if_pos rfl]
  · intro i h1 h2; rw [e5]; unfold idsAfterConvert; rw [if_pos hcond, if_neg h1, if_neg h2]
  · intro term hterm
    obtain ⟨c', hf, _, hc'⟩ := (byTerm_ok_iff B term v).mp hterm
    have : c' = c := by rw [hc] at hc'; exact (Option.some.inj hc').symm
    subst this
    exact (byTerm_ok_iff B' term _).mpr ⟨c', by rw [e2]; exact hf, hnv, hcn⟩

/-- `convert_variable` with `move_annotations=False`, or of a variable without id: no id moves — every variable keeps
    what it had, the new variables have none, no triple changes, and every lookup by id or by ontology term answers as
    before -/
theorem convert_keeps_id (a : AState) (h : AInv a) (v : Nat) (move : Bool) (k : ConvKind) (hv : v ∈ a.m.live)
    (hk : k ≠ .same) (hm : move = false ∨ cmetaOf a.m v = none) :
    (astep a (.convert v move k)).2 = .ok ∧
    (∀ i, cmetaOf (astep a (.convert v move k)).1.m i = cmetaOf a.m i) ∧
    (astep a (.convert v move k)).1.rdf = a.rdf ∧
    (∀ c i, getVariableByCmetaId (astep a (.convert v move k)).1.m c = some i ↔ getVariableByCmetaId a.m c = some i) ∧
    (∀ term w, byTerm (astep a (.convert v move k)).1 term = .ok w ↔ byTerm a term = .ok w) := by
  have hst : astep a (.convert v move k) = convertVariable a v move k := rfl
  rw [hst]
  obtain ⟨e1, e2, _, ⟨extra, hl, hge⟩, e5⟩ := convertVariable_effect h.inv hv move hk
  have B := bij_of_inv h.inv
  have B' : Bij (convertVariable a v move k).1.m := bij_of_inv (by rw [← hst]; exact (ainv_step h _).inv)
  have hsame : ∀ i, cmetaOf (convertVariable a v move k).1.m i = cmetaOf a.m i := by
    intro i
    rw [e5]; unfold idsAfterConvert
    rw [if_neg]
    rintro ⟨h1, h2⟩
    rcases hm with hm | hm
    · rw [hm] at h1; cases h1
    · rw [hm] at h2; cases h2
  have hcar := carried_iff_of_same hl hge hsame
  refine ⟨e1, hsame, e2, ?_, ?_⟩
  · intro c i; rw [B'.lookup_iff, B.lookup_iff]; exact hcar c i
  · intro term w
    rw [byTerm_ok_iff B', byTerm_ok_iff B, e2]
    constructor
    · rintro ⟨c, hf, h1, h2⟩; exact ⟨c, hf, ((hcar c w).mp ⟨h1, h2⟩).1, ((hcar c w).mp ⟨h1, h2⟩).2⟩
    · rintro ⟨c, hf, h1, h2⟩; exact ⟨c, hf, ((hcar c w).mpr ⟨h1, h2⟩).1, ((hcar c w).mpr ⟨h1, h2⟩).2⟩

/-- a conversion that is not needed (factor 1: the original is returned) or not possible (DimensionalityError) leaves
    the model as it is -/
theorem convert_same_noop (a : AState) (v : Nat) (move : Bool) : (astep a (.convert v move .same)).1 = a :=
  convertVariable_noop (Or.inr rfl)

-- ================================================================================================ loading
/-- **where loading leaves the ids** (rule of commit df25620: a factor-1 target hands its id to `source.assigned_to`).
    For every document whose connections resolve (`connect … = ok st`), with `home v0 = v0.assigned_to` (or `v0` when it
    has none):
    * the ids after resolution sit exactly on the homes of the variables they were written on — none is lost, none is
      duplicated, none appears from nowhere;
    * a variable that was never connected keeps its id (`home v0 = v0`);
    * otherwise `home v0` is assigned to itself and is either a source proper — and then it is the ULTIMATE source
      `rootOf st v0`, the variable by which `symbol_generator` replaces every mention of `v0` in the component
      maths — or the left-hand side of a conversion equation of the flat model. -/
theorem load_moves_id {reg : Registry} {vt : Load.VarTable} {l : List (Load.VRef × Load.VRef)} {st : Load.CState}
    (h : Load.connect reg vt l = .ok st) :
    (∀ w c, Load.cmetaOf st w = some c ↔ ∃ v0, Load.docId vt v0 = some c ∧ Load.home st v0 = w) ∧
    (∀ v0 c, Load.docId vt v0 = some c → Load.cmetaOf st (Load.home st v0) = some c) ∧
    (∀ v0, (st.asg v0 = none ∧ Load.home st v0 = v0) ∨
      (st.asg v0 = some (Load.home st v0) ∧ st.asg (Load.home st v0) = some (Load.home st v0) ∧
        ((Load.Src vt (Load.home st v0) ∧ Load.rootOf st v0 = Load.home st v0) ∨
          ∃ e ∈ st.convs, e.target = Load.home st v0))) :=
  ⟨(Load.connect_cm h).ids, fun v0 c hd => ((Load.connect_cm h).ids _ c).mpr ⟨v0, hd, rfl⟩, Load.home_facts h⟩

/-- the same for a loaded document: every flat variable reports the id that resolution left on it, and a conversion
    target that received an id is the left-hand side of an equation of the flat model -/
theorem load_moves_id_flat {doc : Load.Doc} {F : Load.Flat} (h : Load.load doc = .ok F) :
    ∃ L, Load.prepare doc = .ok L ∧ F = L.flat doc ∧
      (∀ fv ∈ F.vars, ∀ c, fv.cmeta = some c ↔ ∃ v0, Load.docId L.vt v0 = some c ∧ Load.home L.st v0 = fv.ref) ∧
      (∀ e ∈ L.st.convs, ∃ q ∈ F.eqs, q.lhs = .var e.target) := by
  obtain ⟨L, hL, hF⟩ := Load.load_prepare h
  have hconn := Load.prepare_connect hL
  refine ⟨L, hL, hF, ?_, ?_⟩
  · intro fv hfv c
    subst hF
    simp only [Load.Loaded.flat, Load.flatVars, List.mem_map] at hfv
    obtain ⟨⟨r, i⟩, _, rfl⟩ := hfv
    exact (Load.connect_cm hconn).ids r c
  · intro e he
    subst hF
    exact ⟨e.toEq, by simp only [Load.Loaded.flat]; exact List.mem_append_left _ (List.mem_append_left _ (List.mem_map.mpr ⟨e, he, rfl⟩)), rfl⟩

-- ================================================================================================ non-vacuity
section Examples
open Load in
/-- a (owns `x`, `x = 1 V`) ⊃ b (relays `x`) ⊃ c (reads `x`, carries the annotation `ann_x`; `y = x + 1 V`): a relay
    chain in ONE unit, the id on the far end -/
def chainDoc : Load.Doc :=
  { units := []
    comps := [
      ⟨"a", [⟨"x", "volt", .none, .out, none, none⟩], [⟨.var "x", .num 1 "volt"⟩]⟩,
      ⟨"b", [⟨"x", "volt", .inn, .out, none, none⟩], []⟩,
      ⟨"c", [⟨"x", "volt", .inn, .none, none, some "ann_x"⟩, ⟨"y", "volt", .none, .none, none, none⟩],
        [⟨.var "y", .add (.var "x") (.num 1 "volt")⟩]⟩]
    encaps := [(none, "a"), (some "a", "b"), (some "b", "c")]
    conns := [⟨"b", "x", "c", "x"⟩, ⟨"a", "x", "b", "x"⟩] }

def chainUnits : Registry × Units.Store := (Units.builtinRegistry, { id := 0, known := [] })
def chainVt : Load.VarTable := Load.varTable chainUnits.2 chainDoc.comps
def chainPar : Load.ParentMap :=
  match Load.buildParents (chainDoc.comps.map (·.name)) chainDoc.encaps [] [] with
  | .ok p => p
  | .error _ => []
def chainDl : List (Load.VRef × Load.VRef) :=
  match Load.directAll (chainDoc.comps.map (·.name)) chainPar chainVt chainDoc.conns with
  | .ok d => d
  | .error _ => []
/-- resolution with the repaired rule … -/
def chainSt : Load.CState :=
  match Load.loopF (Load.stepConn chainUnits.1 chainVt) 10 chainDl 0 (Load.initState chainVt) with
  | some (.ok st) => st
  | _ => Load.initState chainVt
/-- … and with the rule before commit df25620 -/
def chainStToday : Load.CState :=
  match Load.loopF (Load.stepConnToday chainUnits.1 chainVt) 10 chainDl 0 (Load.initState chainVt) with
  | some (.ok st) => st
  | _ => Load.initState chainVt

/-- does the variable occur in an equation (either side, also under a derivative)? -/
def occurs (v : Load.VRef) (eqs : List Load.FlatEq) : Bool :=
  eqs.any (fun e => (e.lhs :: e.rhs.leaves).any (fun l => match l with
    | .var a => a == v
    | .diff x t => x == v || t == v))

theorem chain_connect : Load.connect chainUnits.1 chainVt chainDl = .ok chainSt :=
  Load.connect_of_fuel 10 (by rw [← Load.loopF_stepConn]; decide +kernel)

/-- the loop really rotates (the first connection listed cannot be resolved first) and both connections have factor 1 -/
example : chainDl = [(("b", "x"), ("c", "x")), (("a", "x"), ("b", "x"))] ∧ chainSt.convs = [] ∧
    chainSt.asg ("c", "x") = some ("a", "x") := by decide +kernel

/-- **before the repair** the id written on `c$x` ended on the relay variable `b$x`, which occurs in no equation of the
    flat model, while the quantity is known to the equations as `a$x` (= `rootOf … c$x`) -/
theorem today_relay_unused :
    Load.cmetaOf chainStToday ("b", "x") = some "ann_x" ∧ Load.cmetaOf chainStToday ("a", "x") = none ∧
    Load.rootOf chainStToday ("c", "x") = ("a", "x") ∧
    occurs ("b", "x") ((⟨chainUnits.1, chainUnits.2, chainVt, chainPar, chainDl, chainStToday⟩ : Load.Loaded).flat chainDoc).eqs = false ∧
    occurs ("a", "x") ((⟨chainUnits.1, chainUnits.2, chainVt, chainPar, chainDl, chainStToday⟩ : Load.Loaded).flat chainDoc).eqs = true := by
  decide +kernel

/-- **after the repair** it is on `a$x`: `load_moves_id` applied to the same document -/
example : Load.cmetaOf chainSt ("a", "x") = some "ann_x" ∧ Load.cmetaOf chainSt ("b", "x") = none ∧
    Load.home chainSt ("c", "x") = ("a", "x") ∧ Load.docId chainVt ("c", "x") = some "ann_x" ∧
    occurs ("a", "x") ((⟨chainUnits.1, chainUnits.2, chainVt, chainPar, chainDl, chainSt⟩ : Load.Loaded).flat chainDoc).eqs = true := by
  decide +kernel

example : Load.cmetaOf chainSt (Load.home chainSt ("c", "x")) = some "ann_x" :=
  (load_moves_id chain_connect).2.1 ("c", "x") "ann_x" (by decide +kernel)

/-- the same chain with a second id on the source `a$x` -/
def chainVt2 : Load.VarTable :=
  chainVt.map (fun (r, i) => if r = ("a", "x") then (r, { i with cmeta := some "src" }) else (r, i))

def chainSt2Today : Load.CState :=
  match Load.loopF (Load.stepConnToday chainUnits.1 chainVt2) 10 chainDl 0 (Load.initState chainVt2) with
  | some (.ok st) => st
  | _ => Load.initState chainVt2

/-- ids on both the source and the far end: refused (ValueError) — as the direct connection `a$x → b$x` with ids on
    both ends always was; before the repair this document loaded, with `ann_x` on the unused relay -/
example : Load.loopF (Load.stepConn chainUnits.1 chainVt2) 10 chainDl 0 (Load.initState chainVt2) =
      some (.error (.valueError "Cannot transfer cmeta id: target variable already has a cmeta id")) ∧
    Load.loopF (Load.stepConnToday chainUnits.1 chainVt2) 10 chainDl 0 (Load.initState chainVt2) = some (.ok chainSt2Today) ∧
    Load.cmetaOf chainSt2Today ("b", "x") = some "ann_x" ∧ Load.cmetaOf chainSt2Today ("a", "x") = some "src" := by
  decide +kernel

/-- a history on an API-built model: V (id `V`, two terms), t (id `t`), b; clash with the model id; transfer; remove -/
def demoOps : List AOp :=
  [.base (.addVariable "V" (some "V") none), .base (.addVariable "t" (some "t") none), .base (.addVariable "b" none none),
   .addRdf ⟨"V", bqbiolIs, .uri "https://chaste.comlab.ox.ac.uk/cellml/ns/oxford-metadata#membrane_voltage"⟩,
   .addRdf ⟨"V", bqbiolIs, .uri "http://example.org/onto#V"⟩,
   .addRdf ⟨"t", bqbiolIs, .uri "https://chaste.comlab.ox.ac.uk/cellml/ns/oxford-metadata#time"⟩,
   .addRdf ⟨"mid", bqbiolIs, .uri "http://example.org/onto#model"⟩]

def demo : AState := arun (some "mid") demoOps
def oxV : RNode := .uri "https://chaste.comlab.ox.ac.uk/cellml/ns/oxford-metadata#membrane_voltage"

example : demo.m.live = [0, 1, 2] ∧ getVariableByCmetaId demo.m "V" = some 0 ∧ hasCmetaId demo.m "mid" = true ∧
    getVariableByCmetaId demo.m "mid" = none ∧ byTerm demo oxV = .ok 0 ∧
    termsOf demo 0 none = ["membrane_voltage", "V"] ∧
    termsOf demo 0 (some "http://example.org/") = ["V"] ∧
    byRdf demo bqbiolIs (some (.uri "http://example.org/onto#model")) = .error .keyError ∧
    byRdf demo bqbiolIs (some (.uri "http://example.org/onto#V")) = .ok [0] := by decide +kernel

/-- clashing ids are refused: an id in use, and the model's own id -/
example : (astep demo (.base (.addVariable "c" (some "V") none))).2 = .raised .valueError ∧
    (astep demo (.base (.addVariable "c" (some "mid") none))).2 = .raised .valueError ∧
    (astep demo (.base (.addVariable "V" none none))).2 = .raised .valueError := by decide +kernel

/-- transfer V → b, then the term leads to b (hypotheses of `transfer_moves` are met) … -/
example : byTerm (astep demo (.base (.transferCmetaId 0 2))).1 oxV = .ok 2 :=
  ((transfer_moves demo (ainv_reachable _ _) 0 2 (by decide +kernel) (by decide +kernel)).2 "V" (by decide +kernel)
    (by decide +kernel)).2.2.2.2.2 oxV (by decide +kernel)

/-- … a transfer onto an annotated variable is refused … -/
example : astep demo (.base (.transferCmetaId 0 1)) = (demo, .raised .valueError) := by decide +kernel

/-- … conversion with `move_annotations`: the new variable 3 carries `V` and the term leads to it; without: nothing moves -/
example : getVariableByCmetaId (astep demo (.convert 0 true (.input [0]))).1.m "V" = some 3 ∧
    byTerm (astep demo (.convert 0 true (.input [0]))).1 oxV = .ok 3 ∧
    (astep demo (.convert 0 true (.input [0]))).1.m.live = [0, 1, 2, 3, 4] ∧
    nameOfVar (astep demo (.convert 0 true (.input [0]))).1.m 3 = "V_converted" ∧
    nameOfVar (astep demo (.convert 0 true (.input [0]))).1.m 4 = "V_orig_deriv" ∧
    byTerm (astep demo (.convert 0 false .output)).1 oxV = .ok 0 := by decide +kernel

/-- … `remove_variable` takes the annotations along: 2 of the 4 triples stay, the id is free again -/
example : (astep demo (.base (.removeVariable 0))).1.rdf.length = 2 ∧
    hasCmetaId (astep demo (.base (.removeVariable 0))).1.m "V" = false ∧
    byTerm (astep demo (.base (.removeVariable 0))).1 oxV = .error .keyError := by decide +kernel

/-- `add_cmeta_id`: variable `b` (no id) meets the hypotheses of `addCmetaId_fresh`; a variable named like an id in use
    (`V` is taken, `V_` is taken) gets `V__` — stated through the theorem, since `String.replace` does not reduce in
    the kernel -/
example : ∃ c k, c = cand (("b" : String).replace "$" "__") k ∧ hasCmetaId demo.m c = false := by
  obtain ⟨c, k, he, _, hf, _⟩ := addCmetaId_fresh demo (ainv_reachable _ _) 2 (by decide +kernel) (by decide +kernel)
  exact ⟨c, k, by rw [he]; rfl, hf⟩

example : freeCmeta demo.m "V" (demo.m.cmetaMap.length + 1) = some "V_" ∧
    freeCmeta (astep demo (.base (.addVariable "x" (some "V_") none))).1.m "V" 4 = some "V__" ∧
    freeCmeta demo.m "mid" 3 = some "mid_" := by decide +kernel

end Examples

end Cellml.Props.C13
