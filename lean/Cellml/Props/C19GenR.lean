import Cellml.Props.C19Gen
import Cellml.Tie.ConvRule

/-! # C19 about the GENERATED `add_conversion_rule` — "custom conversion rules apply the same way whatever the units"

    `Props/C19.lean` / `Props/C19Gen.lean` take the list of enabled transformations as given (hypotheses
    `lookupRule rules … = some r`). Here the list is the one the code generated from `UnitStore.add_conversion_rule`
    (`Cellml.Gen.ConvRule.addConversionRule`) leaves in the python object, so the statements run from the CALL of
    `add_conversion_rule(f, t, rule)` to the later `convert` / `get_conversion_factor` (both generated):

    * `added_rule_found_whatever_units`: after the call, a lookup between ANY two units with the dimensionalities of
      `f` / `t` finds the rule (the key depends on dimensionality only, not on scale or spelling);
    * `added_rule_converts_whatever_units`: … and the generated `convert` between any such units returns the rule's κ
      rescaled by the ordinary factors of the units actually used;
    * `added_rule_registration_units_irrelevant`: registering through other units of the same dimensions leaves the
      same python object;
    * `added_rule_not_consulted_same_dims`: a conversion between units of equal dimensionality returns the same with
      and without the call;
    * `added_rule_other_key_untouched`, `added_rule_directional`: lookups under every other key are unchanged; in
      particular the reverse direction;
    * `add_twice_idempotent`: the same call twice: every lookup as after one call;
    * `later_rule_shadows`: a later rule for the same pair of dimensionalities (whatever units it was given by) wins,
      as in pint's `ContextChain` (newest map first) — `notes/tie5_convrule_probe.py` cases 5-8;
    * `add_unknown_unit_raises`: a unit the registry does not know: `UndefinedUnitError`, nothing enabled. -/

namespace Cellml.Props.C19GenR
open Units PMap Cellml.Gen Cellml.Tie Cellml.Tie.PUnits Cellml.Tie.PConvRule

/-- `store.add_conversion_rule(f, t, rule)` computed by the GENERATED method on the object `storeObj st reg rules` -/
abbrev addR (st : Store) (reg : Registry) (rules : List Rule) (f t : Container) (body : List RFactor) :
    Except PyErr StoreObj :=
  Gen.ConvRule.addConversionRule (storeObj st reg rules) ⟨f⟩ ⟨t⟩ body

@[simp] theorem mkRule_src (reg : Registry) (f t : Container) (body : List RFactor) :
    (mkRule reg f t body).src = dimsOf reg f := by
  unfold mkRule; rcases kappa body with ⟨s, y, u⟩; rfl

@[simp] theorem mkRule_dst (reg : Registry) (f t : Container) (body : List RFactor) :
    (mkRule reg f t body).dst = dimsOf reg t := by
  unfold mkRule; rcases kappa body with ⟨s, y, u⟩; rfl

theorem mkRule_kappa (reg : Registry) (f t : Container) (body : List RFactor) :
    (mkRule reg f t body).kscale = norm (kappa body).1 ∧ (mkRule reg f t body).ksyms = norm (kappa body).2.1 ∧
    (mkRule reg f t body).kunit = norm (kappa body).2.2 := by
  unfold mkRule; rcases kappa body with ⟨s, y, u⟩; exact ⟨rfl, rfl, rfl⟩

theorem lookupRule_cons (r : Rule) (rules : List Rule) (s d : Dims) :
    lookupRule (r :: rules) s d = if r.src = s ∧ r.dst = d then some r else lookupRule rules s d := by
  unfold lookupRule
  rw [List.find?_cons]
  by_cases h : r.src = s ∧ r.dst = d
  · simp [h]
  · rw [if_neg h]
    have : (decide (r.src = s) && decide (r.dst = d)) = false := by
      rcases Classical.not_and_iff_not_or_not.mp h with h | h <;> simp [h]
    simp [this]

/-- **The key depends on dimensionality only.** After `add_conversion_rule(f, t, rule)` (units known to the
    registry), for ANY units `a`, `b` with the dimensionalities of `f` and `t` — any scale, any spelling — the
    transformation pint finds for (dim a, dim b) is this rule. -/
theorem added_rule_found_whatever_units (st : Store) (reg : Registry) (rules : List Rule) (f t a b : Container)
    (body : List RFactor) (hf : allKnown reg f = true) (ht : allKnown reg t = true)
    (ha : dimsOf reg a ≃ dimsOf reg f) (hb : dimsOf reg b ≃ dimsOf reg t) :
    ∃ s', addR st reg rules f t body = .ok s' ∧ s' = storeObj st reg s'._registry.rules ∧
      lookupRule s'._registry.rules (dimsOf reg a) (dimsOf reg b) = some (mkRule reg f t body) := by
  refine ⟨_, addConversionRule_ok st reg rules f t body hf ht, rfl, ?_⟩
  show lookupRule (mkRule reg f t body :: rules) _ _ = _
  rw [lookupRule_cons, dimsOf_eq_of_equiv ha, dimsOf_eq_of_equiv hb]
  simp

/-- **… and it is applied the same way whatever the units.** After the call, the generated `convert` of any
    magnitude from ANY unit `a` of the dimension of `f` to ANY unit `b` of the dimension of `t` (the two dimensions
    differ; κ = the rule's multiplier has the dimension target / source) succeeds with the multiplier
    `scale(a) · |κ| · scale(unit κ) / scale(b)` and the symbols of κ: nothing of `f`, `t` enters but their dimension. -/
theorem added_rule_converts_whatever_units (st : Store) (reg : Registry) (rules : List Rule) (f t a b : Container)
    (body : List RFactor) (m : MagObj) (hf : allKnown reg f = true) (ht : allKnown reg t = true)
    (hka : allKnown reg a = true) (hkb : allKnown reg b = true)
    (hk : allKnown reg (norm (kappa body).2.2) = true)
    (ha : dimsOf reg a ≃ dimsOf reg f) (hb : dimsOf reg b ≃ dimsOf reg t)
    (hne : ¬ dimsOf reg f ≃ dimsOf reg t)
    (hdim : dimsOf reg (norm (kappa body).2.2) ≃ sub (dimsOf reg t) (dimsOf reg f)) :
    ∃ s' g y, addR st reg rules f t body = .ok s' ∧
      Gen.Units.convert s' ⟨m, ⟨a⟩⟩ ⟨b⟩ = .ok ⟨m * ⟨g, y⟩, ⟨b⟩⟩ ∧
      g ≃ add (sub (toRoot reg a).1 (toRoot reg b).1)
            (add (norm (kappa body).1) (toRoot reg (norm (kappa body).2.2)).1) ∧
      y ≃ norm (kappa body).2.1 := by
  obtain ⟨hks, hky, hku⟩ := mkRule_kappa reg f t body
  have hlk : lookupRule (mkRule reg f t body :: rules) (dimsOf reg a) (dimsOf reg b) = some (mkRule reg f t body) := by
    rw [lookupRule_cons, dimsOf_eq_of_equiv ha, dimsOf_eq_of_equiv hb]; simp
  have hne' : ¬ dimsOf reg a ≃ dimsOf reg b := by
    rw [dimsOf_eq_of_equiv ha, dimsOf_eq_of_equiv hb]; exact hne
  obtain ⟨g, y, hc, hg, hy⟩ := C19Gen.rule_unit_independent_any_magnitude st reg (mkRule reg f t body :: rules) m a b
    (mkRule reg f t body) hka hkb (by rw [hku]; exact hk) hne' hlk
    (by rw [hku, mkRule_src, mkRule_dst]; exact hdim)
  refine ⟨_, g, y, addConversionRule_ok st reg rules f t body hf ht, hc, ?_, ?_⟩
  · rw [hks, hku] at hg; exact hg
  · rw [hky] at hy; exact hy

/-- registering the rule through other units of the same two dimensions leaves the same python object -/
theorem added_rule_registration_units_irrelevant (st : Store) (reg : Registry) (rules : List Rule)
    (f f' t t' : Container) (body : List RFactor)
    (hf : allKnown reg f = true) (ht : allKnown reg t = true)
    (hf' : allKnown reg f' = true) (ht' : allKnown reg t' = true)
    (h₁ : dimsOf reg f ≃ dimsOf reg f') (h₂ : dimsOf reg t ≃ dimsOf reg t') :
    addR st reg rules f t body = addR st reg rules f' t' body := by
  unfold addR
  rw [addConversionRule_ok st reg rules f t body hf ht, addConversionRule_ok st reg rules f' t' body hf' ht',
    C19.rule_registration_units_irrelevant reg f f' t t' body h₁ h₂]

/-- **A conversion between units of equal dimensionality never consults the rule**: the generated `convert` and
    `get_conversion_factor` return the same — result or exception class — on the object after the call as on the
    object before it, whatever the rule (even one keyed on that very dimension). -/
theorem added_rule_not_consulted_same_dims (st : Store) (reg : Registry) (rules : List Rule) (f t a b : Container)
    (body : List RFactor) (m : MagObj) (hf : allKnown reg f = true) (ht : allKnown reg t = true)
    (hd : dimsOf reg a ≃ dimsOf reg b) :
    ∃ s', addR st reg rules f t body = .ok s' ∧
      Gen.Units.convert s' ⟨m, ⟨a⟩⟩ ⟨b⟩ = Gen.Units.convert (storeObj st reg rules) ⟨m, ⟨a⟩⟩ ⟨b⟩ ∧
      Gen.Units.getConversionFactor s' ⟨a⟩ ⟨b⟩ = Gen.Units.getConversionFactor (storeObj st reg rules) ⟨a⟩ ⟨b⟩ :=
  ⟨_, addConversionRule_ok st reg rules f t body hf ht,
    (C19Gen.rule_noninterference_code st reg (mkRule reg f t body :: rules) rules m a b hd).1,
    (C19Gen.rule_noninterference_code st reg (mkRule reg f t body :: rules) rules m a b hd).2⟩

/-- lookups under every key other than (dim f, dim t) are what they were before the call -/
theorem added_rule_other_key_untouched (reg : Registry) (rules : List Rule) (f t : Container) (body : List RFactor)
    (s d : Dims) (h : ¬ (dimsOf reg f = s ∧ dimsOf reg t = d)) :
    lookupRule (mkRule reg f t body :: rules) s d = lookupRule rules s d := by
  rw [lookupRule_cons, mkRule_src, mkRule_dst, if_neg h]

/-- the rule is directional: under the reversed key nothing new is found -/
theorem added_rule_directional (reg : Registry) (rules : List Rule) (f t : Container) (body : List RFactor)
    (hne : dimsOf reg f ≠ dimsOf reg t) :
    lookupRule (mkRule reg f t body :: rules) (dimsOf reg t) (dimsOf reg f) =
      lookupRule rules (dimsOf reg t) (dimsOf reg f) :=
  added_rule_other_key_untouched reg rules f t body _ _ (fun h => hne h.1)

/-- the rule list of the object after `add_conversion_rule(f, t, rule)` twice (the second call on the object the
    first returned) -/
theorem add_twice (st : Store) (reg : Registry) (rules : List Rule) (f t f' t' : Container)
    (body body' : List RFactor) (hf : allKnown reg f = true) (ht : allKnown reg t = true)
    (hf' : allKnown reg f' = true) (ht' : allKnown reg t' = true) :
    (addR st reg rules f t body >>= fun s₁ => Gen.ConvRule.addConversionRule s₁ ⟨f'⟩ ⟨t'⟩ body') =
      .ok (storeObj st reg (mkRule reg f' t' body' :: mkRule reg f t body :: rules)) := by
  unfold addR
  rw [addConversionRule_ok st reg rules f t body hf ht]
  exact addConversionRule_ok st reg _ f' t' body' hf' ht'

/-- **Adding the same rule twice is idempotent on lookups**: pint holds two contexts with the same key, every lookup
    gives what it gave after the first call. -/
theorem add_twice_idempotent (reg : Registry) (rules : List Rule) (f t : Container) (body : List RFactor)
    (s d : Dims) :
    lookupRule (mkRule reg f t body :: mkRule reg f t body :: rules) s d =
      lookupRule (mkRule reg f t body :: rules) s d := by
  rw [lookupRule_cons, lookupRule_cons]
  split <;> rfl

/-- **A later rule for the same pair of dimensionalities shadows the earlier one** — whatever units either was
    registered with (pint: `ContextChain` is a `ChainMap` with the newest context first). -/
theorem later_rule_shadows (reg : Registry) (rules : List Rule) (f t f' t' a b : Container)
    (body body' : List RFactor)
    (h₁ : dimsOf reg f' ≃ dimsOf reg f) (h₂ : dimsOf reg t' ≃ dimsOf reg t)
    (ha : dimsOf reg a ≃ dimsOf reg f) (hb : dimsOf reg b ≃ dimsOf reg t) :
    lookupRule (mkRule reg f' t' body' :: mkRule reg f t body :: rules) (dimsOf reg a) (dimsOf reg b) =
      some (mkRule reg f' t' body') := by
  rw [lookupRule_cons, dimsOf_eq_of_equiv ha, dimsOf_eq_of_equiv hb, mkRule_src, mkRule_dst,
    dimsOf_eq_of_equiv h₁, dimsOf_eq_of_equiv h₂]
  simp

/-- … and a later rule for ANOTHER pair does not: the earlier rule is still found under its key -/
theorem later_rule_other_key_does_not_shadow (reg : Registry) (rules : List Rule) (f t f' t' a b : Container)
    (body body' : List RFactor)
    (hk : ¬ (dimsOf reg f' = dimsOf reg f ∧ dimsOf reg t' = dimsOf reg t))
    (ha : dimsOf reg a ≃ dimsOf reg f) (hb : dimsOf reg b ≃ dimsOf reg t) :
    lookupRule (mkRule reg f' t' body' :: mkRule reg f t body :: rules) (dimsOf reg a) (dimsOf reg b) =
      some (mkRule reg f t body) := by
  rw [dimsOf_eq_of_equiv ha, dimsOf_eq_of_equiv hb, added_rule_other_key_untouched reg _ f' t' body' _ _ hk,
    lookupRule_cons]
  simp

/-- a unit the registry does not know (a unit of a store with another registry): `UndefinedUnitError`, and no object
    with a new rule list is produced -/
theorem add_unknown_unit_raises (st : Store) (reg : Registry) (rules : List Rule) (f t : Container)
    (body : List RFactor) (h : allKnown reg f = false ∨ allKnown reg t = false) :
    addR st reg rules f t body = .error ⟨"UndefinedUnitError"⟩ := by
  apply addConversionRule_unknown
  rcases h with h | h <;> simp [h]

end Cellml.Props.C19GenR
