import Cellml.Model.Inv

/-! Lemmas for C08: association lists, the heap of variable objects, the definition maps, preservation of the
    invariant by each API call. Core Lean only. -/

namespace Model

-- ================================================================================================ association lists
section Assoc
variable {α β : Type} [DecidableEq α]

theorem hasKey_iff (k : α) (l : List (α × β)) : hasKey k l = true ↔ ∃ v, (k, v) ∈ l := by
  induction l with
  | nil => simp [hasKey]
  | cons p l ih =>
    obtain ⟨k', v'⟩ := p
    simp only [hasKey, List.any_cons, Bool.or_eq_true, decide_eq_true_eq, List.mem_cons, Prod.mk.injEq] at ih ⊢
    constructor
    · rintro (h | h)
      · exact ⟨v', Or.inl ⟨h.symm, rfl⟩⟩
      · obtain ⟨v, hv⟩ := ih.mp h; exact ⟨v, Or.inr hv⟩
    · rintro ⟨v, (⟨h, _⟩ | h)⟩
      · exact Or.inl h.symm
      · exact Or.inr (ih.mpr ⟨v, h⟩)

theorem hasKey_iff_mem_keys (k : α) (l : List (α × β)) : hasKey k l = true ↔ k ∈ l.map (·.1) := by
  rw [hasKey_iff]; simp

theorem insertKey_of_not_hasKey (k : α) (v : β) (l : List (α × β)) (h : hasKey k l = false) :
    insertKey k v l = l ++ [(k, v)] := by
  induction l with
  | nil => rfl
  | cons p l ih =>
    obtain ⟨k', v'⟩ := p
    simp only [hasKey, List.any_cons, Bool.or_eq_false_iff, decide_eq_false_iff_not] at h
    simp only [insertKey, h.1, if_false, List.cons_append, List.cons.injEq, true_and]
    exact ih (by simpa [hasKey] using h.2)

theorem mem_eraseKey (k : α) (l : List (α × β)) (p : α × β) : p ∈ eraseKey k l ↔ p ∈ l ∧ p.1 ≠ k := by
  simp [eraseKey]

theorem keys_eraseKey_sublist (k : α) (l : List (α × β)) : ((eraseKey k l).map (·.1)).Sublist (l.map (·.1)) :=
  (List.filter_sublist (l := l)).map _

omit [DecidableEq α] in
/-- with distinct keys, a key determines its value -/
theorem functional_of_keys_nodup (l : List (α × β)) (h : (l.map (·.1)).Nodup) (k : α) (v w : β)
    (hv : (k, v) ∈ l) (hw : (k, w) ∈ l) : v = w := by
  induction l with
  | nil => cases hv
  | cons p l ih =>
    simp only [List.map_cons, List.nodup_cons, List.mem_map, not_exists, not_and] at h
    rcases List.mem_cons.mp hv with hv | hv <;> rcases List.mem_cons.mp hw with hw | hw
    · rw [← hv] at hw; exact (Prod.mk.inj hw).2.symm
    · exact absurd (by rw [← hv]) (h.1 (k, w) hw)
    · exact absurd (by rw [← hw]) (h.1 (k, v) hv)
    · exact ih h.2 hv hw

theorem lookup_eq_some_iff (l : List (α × β)) (k : α) (v : β)
    (hf : ∀ a b, (k, a) ∈ l → (k, b) ∈ l → a = b) : l.lookup k = some v ↔ (k, v) ∈ l := by
  induction l with
  | nil => simp
  | cons p l ih =>
    obtain ⟨k', v'⟩ := p
    by_cases hk : k = k'
    · subst hk
      simp only [List.lookup_cons_self, Option.some.injEq, List.mem_cons, Prod.mk.injEq, true_and]
      constructor
      · intro h; exact Or.inl h.symm
      · rintro (h | h)
        · exact h.symm
        · exact hf v' v (List.mem_cons_self ..) (List.mem_cons_of_mem _ h)
    · have : (k == k') = false := by simpa using hk
      simp only [List.lookup_cons, this, List.mem_cons, Prod.mk.injEq, hk, false_and, false_or]
      exact ih (fun a b ha hb => hf a b (List.mem_cons_of_mem _ ha) (List.mem_cons_of_mem _ hb))

theorem mem_of_lookup (l : List (α × β)) (k : α) (v : β) (h : l.lookup k = some v) : (k, v) ∈ l := by
  induction l with
  | nil => simp at h
  | cons p l ih =>
    obtain ⟨k', v'⟩ := p
    by_cases hk : k = k'
    · subst hk; simp at h; subst h; exact List.mem_cons_self ..
    · have : (k == k') = false := by simpa using hk
      simp only [List.lookup_cons, this] at h
      exact List.mem_cons_of_mem _ (ih h)

/-- two dicts with the same items answer every lookup alike -/
theorem lookup_congr (l₁ l₂ : List (α × β)) (k : α)
    (hf₁ : ∀ a b, (k, a) ∈ l₁ → (k, b) ∈ l₁ → a = b) (hf₂ : ∀ a b, (k, a) ∈ l₂ → (k, b) ∈ l₂ → a = b)
    (h : ∀ v, (k, v) ∈ l₁ ↔ (k, v) ∈ l₂) : l₁.lookup k = l₂.lookup k := by
  apply Option.ext; intro v
  rw [lookup_eq_some_iff l₁ k v hf₁, lookup_eq_some_iff l₂ k v hf₂, h]

theorem mem_insertKey (k : α) (v : β) (l : List (α × β)) (hn : (l.map (·.1)).Nodup) (p : α × β) :
    p ∈ insertKey k v l ↔ p = (k, v) ∨ (p ∈ l ∧ p.1 ≠ k) := by
  induction l with
  | nil => simp [insertKey]
  | cons q l ih =>
    obtain ⟨k', v'⟩ := q
    simp only [List.map_cons, List.nodup_cons, List.mem_map, not_exists, not_and] at hn
    by_cases hk : k' = k
    · subst hk
      simp only [insertKey, if_true, List.mem_cons]
      constructor
      · rintro (h | h)
        · exact Or.inl h
        · refine Or.inr ⟨Or.inr h, ?_⟩
          intro hp; exact hn.1 p h hp
      · rintro (h | ⟨h | h, hne⟩)
        · exact Or.inl h
        · subst h; exact absurd rfl hne
        · exact Or.inr h
    · simp only [insertKey, hk, if_false, List.mem_cons, ih hn.2]
      constructor
      · rintro (h | h | ⟨h, hne⟩)
        · subst h; exact Or.inr ⟨Or.inl rfl, hk⟩
        · exact Or.inl h
        · exact Or.inr ⟨Or.inr h, hne⟩
      · rintro (h | ⟨h | h, hne⟩)
        · exact Or.inr (Or.inl h)
        · exact Or.inl h
        · exact Or.inr (Or.inr ⟨h, hne⟩)

theorem keys_insertKey_of_hasKey (k : α) (v : β) (l : List (α × β)) (h : hasKey k l = true) :
    (insertKey k v l).map (·.1) = l.map (·.1) := by
  induction l with
  | nil => simp [hasKey] at h
  | cons q l ih =>
    obtain ⟨k', v'⟩ := q
    by_cases hk : k' = k
    · subst hk; simp [insertKey]
    · simp only [insertKey, hk, if_false, List.map_cons, List.cons.injEq, true_and]
      apply ih
      simpa [hasKey, hk] using h

end Assoc

-- ================================================================================================ the heap
theorem getElem?_setVar (h : List Var) (i j : Nat) (f : Var → Var) :
    (setVar h i f)[j]? = if j = i then (h[j]?).map f else h[j]? := by
  unfold setVar
  cases hi : h[i]? with
  | none =>
    by_cases hj : j = i
    · subst hj; simp [hi]
    · simp [hj]
  | some v =>
    by_cases hj : j = i
    · subst hj; simp [hi, List.getElem?_set]
      have := (List.getElem?_eq_some_iff.mp hi).1
      simp [this]
    · simp [hj, Ne.symm hj]

theorem length_setVar (h : List Var) (i : Nat) (f : Var → Var) : (setVar h i f).length = h.length := by
  unfold setVar; cases h[i]? <;> simp

theorem getElem?_applyTypes (h : List Var) (rel : List Nat) (tm : List (Nat × VType)) (i : Nat) :
    (applyTypes h rel tm)[i]? = (h[i]?).map (fun v => if rel.contains i then { v with type := tyOf tm i } else v) := by
  simp [applyTypes, List.getElem?_mapIdx]

theorem length_applyTypes (h : List Var) (rel : List Nat) (tm : List (Nat × VType)) :
    (applyTypes h rel tm).length = h.length := by simp [applyTypes]

/-- a change of the heap that leaves name, order, cmeta id and initial value of every object alone -/
def regFields (v : Var) : String × Nat × Option String × Option Rat := (v.name, v.order, v.cmeta, v.init)

def SameButTypes (h h' : List Var) : Prop := ∀ i : Nat, (h'[i]?).map regFields = (h[i]?).map regFields

theorem sameButTypes_applyTypes (h : List Var) (rel : List Nat) (tm : List (Nat × VType)) :
    SameButTypes h (applyTypes h rel tm) := by
  intro i; rw [getElem?_applyTypes]; cases h[i]? with
  | none => rfl
  | some v => simp only [Option.map_some]; split <;> rfl

theorem sameButTypes_eraseTypes (h : List Var) : SameButTypes h (h.map (fun v => { v with type := none })) := by
  intro i; simp only [List.getElem?_map]; cases h[i]? <;> rfl

theorem SameButTypes.symm {h h' : List Var} (hs : SameButTypes h h') : SameButTypes h' h := fun i => (hs i).symm

theorem SameButTypes.length {h h' : List Var} (hs : SameButTypes h h') : h'.length = h.length := by
  rcases Nat.lt_trichotomy h'.length h.length with hl | hl | hl
  · have := hs h'.length
    rw [List.getElem?_eq_none (Nat.le_refl _), List.getElem?_eq_getElem hl] at this; cases this
  · exact hl
  · have := hs h.length
    rw [List.getElem?_eq_none (Nat.le_refl _), List.getElem?_eq_getElem hl] at this; cases this

section Same
variable {s s' : MState} (hs : SameButTypes s.heap s'.heap)
include hs

theorem SameButTypes.names : names s' = names s := by
  apply List.ext_getElem?; intro i
  have := hs i
  simp only [Model.names, List.getElem?_map]
  cases h1 : s'.heap[i]? <;> cases h2 : s.heap[i]? <;> simp_all [regFields]

theorem SameButTypes.nameOfVar : nameOfVar s' = nameOfVar s := by
  funext i; simp only [Model.nameOfVar, hs.names]

theorem SameButTypes.cmetaOf : cmetaOf s' = cmetaOf s := by
  funext i; have := hs i
  simp only [Model.cmetaOf]
  cases h1 : s'.heap[i]? <;> cases h2 : s.heap[i]? <;> simp_all [regFields]

theorem SameButTypes.orderOf : orderOf s' = orderOf s := by
  funext i; have := hs i
  simp only [Model.orderOf]
  cases h1 : s'.heap[i]? <;> cases h2 : s.heap[i]? <;> simp_all [regFields]

theorem SameButTypes.initOf : initOf s' = initOf s := by
  funext i; have := hs i
  simp only [Model.initOf]
  cases h1 : s'.heap[i]? <;> cases h2 : s.heap[i]? <;> simp_all [regFields]

end Same

-- ================================================================================================ definition maps
theorem mem_deriveVarDef (eqs : List Eqn) (v : Nat) (e : Eqn) :
    (v, e) ∈ deriveVarDef eqs ↔ e ∈ eqs ∧ e.lhs = .var v := by
  simp only [deriveVarDef, List.mem_filterMap]
  constructor
  · rintro ⟨a, ha, h⟩
    cases hl : a.lhs <;> simp [hl] at h
    obtain ⟨rfl, rfl⟩ := h; exact ⟨ha, hl⟩
  · rintro ⟨he, hl⟩; exact ⟨e, he, by simp [hl]⟩

theorem mem_deriveOdeDef (eqs : List Eqn) (v : Nat) (e : Eqn) :
    (v, e) ∈ deriveOdeDef eqs ↔ e ∈ eqs ∧ ∃ t o, e.lhs = .deriv v t o := by
  simp only [deriveOdeDef, List.mem_filterMap]
  constructor
  · rintro ⟨a, ha, h⟩
    cases hl : a.lhs <;> simp [hl] at h
    obtain ⟨rfl, rfl⟩ := h; exact ⟨ha, _, _, hl⟩
  · rintro ⟨he, t, o, hl⟩; exact ⟨e, he, by simp [hl]⟩

theorem keys_deriveVarDef_sub (eqs : List Eqn) (k : Nat) (h : hasKey k (deriveVarDef eqs) = true) :
    k ∈ eqs.filterMap defKey := by
  obtain ⟨e, he⟩ := (hasKey_iff _ _).mp h
  obtain ⟨hm, hl⟩ := (mem_deriveVarDef _ _ _).mp he
  exact List.mem_filterMap.mpr ⟨e, hm, by simp [defKey, hl]⟩

theorem keys_deriveOdeDef_sub (eqs : List Eqn) (k : Nat) (h : hasKey k (deriveOdeDef eqs) = true) :
    k ∈ eqs.filterMap defKey := by
  obtain ⟨e, he⟩ := (hasKey_iff _ _).mp h
  obtain ⟨hm, t, o, hl⟩ := (mem_deriveOdeDef _ _ _).mp he
  exact List.mem_filterMap.mpr ⟨e, hm, by simp [defKey, hl]⟩

theorem mem_defKeys (eqs : List Eqn) (k : Nat) (h : k ∈ eqs.filterMap defKey) :
    hasKey k (deriveOdeDef eqs) = true ∨ hasKey k (deriveVarDef eqs) = true := by
  obtain ⟨e, he, hk⟩ := List.mem_filterMap.mp h
  cases hl : e.lhs with
  | var v =>
    simp [defKey, hl] at hk; subst hk
    exact Or.inr ((hasKey_iff _ _).mpr ⟨e, (mem_deriveVarDef _ _ _).mpr ⟨he, hl⟩⟩)
  | deriv st t o =>
    simp [defKey, hl] at hk; subst hk
    exact Or.inl ((hasKey_iff _ _).mpr ⟨e, (mem_deriveOdeDef _ _ _).mpr ⟨he, t, o, hl⟩⟩)
  | other => simp [defKey, hl] at hk

/-- removing the equation that defines `k` from the list removes exactly the entry `k` of a derived map whose entries
    are `f e`; entries of other equations stay, in order -/
theorem filterMap_erase_key (f : Eqn → Option (Nat × Eqn)) (hf : ∀ e p, f e = some p → defKey e = some p.1)
    (eqs : List Eqn) (e : Eqn) (k : Nat) (he : e ∈ eqs) (hk : defKey e = some k)
    (hn : (eqs.filterMap defKey).Nodup) :
    (eqs.erase e).filterMap f = eraseKey k (eqs.filterMap f) := by
  induction eqs with
  | nil => cases he
  | cons x xs ih =>
    by_cases hx : x = e
    · subst hx
      simp only [List.erase_cons_head]
      simp only [List.filterMap_cons, hk, List.nodup_cons] at hn
      have hrest : eraseKey k (xs.filterMap f) = xs.filterMap f := by
        simp only [eraseKey, List.filter_eq_self, List.mem_filterMap, decide_eq_true_eq, ne_eq]
        rintro p ⟨y, hy, hfy⟩ hpk
        apply hn.1
        exact List.mem_filterMap.mpr ⟨y, hy, by rw [hf y p hfy, hpk]⟩
      cases hfx : f x with
      | none => simp [hfx, hrest]
      | some p =>
        have : p.1 = k := by have := hf x p hfx; rw [hk] at this; exact (Option.some.inj this).symm
        rw [List.filterMap_cons_some hfx]
        simp only [eraseKey] at hrest ⊢
        rw [List.filter_cons_of_neg (by simp [this]), hrest]
    · have he' : e ∈ xs := by
        rcases List.mem_cons.mp he with h | h
        · exact absurd h.symm hx
        · exact h
      have hbeq : (x == e) = false := by simpa using hx
      simp only [List.erase_cons, hbeq]
      have hn' : (xs.filterMap defKey).Nodup := by
        simp only [List.filterMap_cons] at hn
        cases hdx : defKey x <;> simp [hdx] at hn
        · exact hn
        · exact hn.2
      cases hfx : f x with
      | none => simp [hfx, ih he' hn']
      | some p =>
        have hpk : p.1 ≠ k := by
          intro hpk
          have hdx := hf x p hfx
          simp only [List.filterMap_cons, hdx, List.nodup_cons] at hn
          apply hn.1
          exact List.mem_filterMap.mpr ⟨e, he', by rw [hk, hpk]⟩
        simp [hfx, ih he' hn', eraseKey, hpk]

/-- … and leaves alone a derived map that has no entry for that equation -/
theorem filterMap_erase_none (f : Eqn → Option (Nat × Eqn)) (eqs : List Eqn) (e : Eqn) (hf : f e = none) :
    (eqs.erase e).filterMap f = eqs.filterMap f := by
  induction eqs with
  | nil => rfl
  | cons x xs ih =>
    by_cases hx : x = e
    · subst hx; simp [hf]
    · have hbeq : (x == e) = false := by simpa using hx
      simp only [List.erase_cons, hbeq]
      simp [List.filterMap_cons, ih]

theorem EqInvOn.of_removeVar {eqs : List Eqn} {vd od : List (Nat × Eqn)} (h : EqInvOn eqs vd od) (e : Eqn) (v : Nat)
    (he : e ∈ eqs) (hl : e.lhs = .var v) : EqInvOn (eqs.erase e) (eraseKey v vd) od := by
  refine ⟨?_, ?_, (List.erase_sublist.filterMap _).nodup h.nodup, fun x hx => h.lhsOk x (List.mem_of_mem_erase hx),
    fun x hx => h.orderOk x (List.mem_of_mem_erase hx)⟩
  · rw [h.varDef]
    exact (filterMap_erase_key _ (by
      intro a p hp; cases hla : a.lhs <;> simp [hla] at hp; subst hp; simp [defKey, hla]) eqs e v he
      (by simp [defKey, hl]) h.nodup).symm
  · rw [h.odeDef]; exact (filterMap_erase_none _ eqs e (by simp [hl])).symm

theorem EqInvOn.of_removeOde {eqs : List Eqn} {vd od : List (Nat × Eqn)} (h : EqInvOn eqs vd od) (e : Eqn)
    (st t o : Nat) (he : e ∈ eqs) (hl : e.lhs = .deriv st t o) : EqInvOn (eqs.erase e) vd (eraseKey st od) := by
  refine ⟨?_, ?_, (List.erase_sublist.filterMap _).nodup h.nodup, fun x hx => h.lhsOk x (List.mem_of_mem_erase hx),
    fun x hx => h.orderOk x (List.mem_of_mem_erase hx)⟩
  · rw [h.varDef]; exact (filterMap_erase_none _ eqs e (by simp [hl])).symm
  · rw [h.odeDef]
    exact (filterMap_erase_key _ (by
      intro a p hp; cases hla : a.lhs <;> simp [hla] at hp; subst hp; simp [defKey, hla]) eqs e st he
      (by simp [defKey, hl]) h.nodup).symm

theorem not_defined_of {eqs : List Eqn} {vd od : List (Nat × Eqn)} (h : EqInvOn eqs vd od) (k : Nat)
    (hd : (hasKey k od || hasKey k vd) = false) : k ∉ eqs.filterMap defKey := by
  intro hm
  rw [h.varDef, h.odeDef] at hd
  rcases mem_defKeys eqs k hm with h1 | h1 <;> simp [h1] at hd

theorem EqInvOn.of_addVar {eqs : List Eqn} {vd od : List (Nat × Eqn)} (h : EqInvOn eqs vd od) (e : Eqn) (v : Nat)
    (hl : e.lhs = .var v) (hd : (hasKey v od || hasKey v vd) = false) :
    EqInvOn (eqs ++ [e]) (insertKey v e vd) od := by
  have hnk := not_defined_of h v hd
  simp only [Bool.or_eq_false_iff] at hd
  refine ⟨?_, ?_, ?_, ?_, ?_⟩
  · rw [insertKey_of_not_hasKey _ _ _ hd.2, h.varDef]; simp [deriveVarDef, List.filterMap_append, hl]
  · rw [h.odeDef]; simp [deriveOdeDef, List.filterMap_append, hl]
  · simp only [List.filterMap_append, List.filterMap_cons, defKey, hl, List.filterMap_nil]
    exact List.nodup_append.mpr ⟨h.nodup, by simp, by
      intro a ha b hb; simp at hb; subst hb; intro hab; subst hab; exact hnk ha⟩
  · intro x hx; rcases List.mem_append.mp hx with hx | hx
    · exact h.lhsOk x hx
    · simp at hx; subst hx; simp [hl]
  · intro x hx st' t' o' hx'; rcases List.mem_append.mp hx with hx | hx
    · exact h.orderOk x hx st' t' o' hx'
    · simp at hx; subst hx; rw [hl] at hx'; cases hx'

theorem EqInvOn.of_addOde {eqs : List Eqn} {vd od : List (Nat × Eqn)} (h : EqInvOn eqs vd od) (e : Eqn)
    (st t o : Nat) (hl : e.lhs = .deriv st t o) (ho : o ≤ 1) (hd : (hasKey st od || hasKey st vd) = false) :
    EqInvOn (eqs ++ [e]) vd (insertKey st e od) := by
  have hnk := not_defined_of h st hd
  simp only [Bool.or_eq_false_iff] at hd
  refine ⟨?_, ?_, ?_, ?_, ?_⟩
  · rw [h.varDef]; simp [deriveVarDef, List.filterMap_append, hl]
  · rw [insertKey_of_not_hasKey _ _ _ hd.1, h.odeDef]; simp [deriveOdeDef, List.filterMap_append, hl]
  · simp only [List.filterMap_append, List.filterMap_cons, defKey, hl, List.filterMap_nil]
    exact List.nodup_append.mpr ⟨h.nodup, by simp, by
      intro a ha b hb; simp at hb; subst hb; intro hab; subst hab; exact hnk ha⟩
  · intro x hx; rcases List.mem_append.mp hx with hx | hx
    · exact h.lhsOk x hx
    · simp at hx; subst hx; simp [hl]
  · intro x hx st' t' o' hx'; rcases List.mem_append.mp hx with hx | hx
    · exact h.orderOk x hx st' t' o' hx'
    · simp at hx; subst hx; rw [hl] at hx'; cases hx'; exact ho

-- ================================================================================================ registries
section Reg
variable {mc : Option String} {len : Nat} {name : Nat → String} {cmeta : Nat → Option String} {order : Nat → Nat}
  {live : List Nat} {cm : List (String × Nat)} {no : Nat}

/-- `add_variable` that succeeds -/
theorem RegInvOn.addVar (R : RegInvOn mc len name cmeta order live cm no)
    (name' : Nat → String) (cmeta' : Nat → Option String) (order' : Nat → Nat)
    (hname : ∀ i, i < len → name' i = name i) (hcmeta : ∀ i, i < len → cmeta' i = cmeta i)
    (horder : ∀ i, i < len → order' i = order i)
    (hnew : ∀ i ∈ live, name i ≠ name' len) (hord : order' len = no)
    (hc : ∀ c, cmeta' len = some c → mc ≠ some c ∧ hasKey c cm = false) :
    RegInvOn mc (len + 1) name' cmeta' order' (live ++ [len])
      (registerCmeta (cmeta' len) len cm) (no + 1) := by
  have hlt : ∀ i ∈ live, i < len := R.liveBound
  have hnotin : len ∉ live := fun h => Nat.lt_irrefl _ (hlt _ h)
  have mapn : live.map name' = live.map name := List.map_congr_left (fun i hi => hname i (hlt i hi))
  have mapo : live.map order' = live.map order := List.map_congr_left (fun i hi => horder i (hlt i hi))
  refine ⟨?_, ?_, ?_, ?_, ?_, ?_, ?_, ?_⟩
  · exact List.nodup_append.mpr ⟨R.liveNodup, by simp, by
      intro a ha b hb; simp at hb; subst hb; intro hab; subst hab; exact hnotin ha⟩
  · intro i hi; rcases List.mem_append.mp hi with hi | hi
    · exact Nat.lt_succ_of_lt (hlt i hi)
    · simp at hi; subst hi; exact Nat.lt_succ_self _
  · rw [List.map_append, mapn]
    exact List.nodup_append.mpr ⟨R.namesNodup, by simp, by
      intro a ha b hb; simp at hb; subst hb
      obtain ⟨i, hi, rfl⟩ := List.mem_map.mp ha
      exact hnew i hi⟩
  · intro c i
    cases hcl : cmeta' len with
    | none =>
      simp only [registerCmeta, List.mem_append, List.mem_singleton]
      rw [R.cmetaIff]
      constructor
      · rintro ⟨hi, hci⟩; exact ⟨Or.inl hi, by rw [hcmeta i (hlt i hi)]; exact hci⟩
      · rintro ⟨hi | hi, hci⟩
        · exact ⟨hi, by rw [← hcmeta i (hlt i hi)]; exact hci⟩
        · subst hi; rw [hcl] at hci; cases hci
    | some c0 =>
      obtain ⟨_, hk⟩ := hc c0 hcl
      simp only [registerCmeta, insertKey_of_not_hasKey _ _ _ hk, List.mem_append, List.mem_singleton, Prod.mk.injEq]
      rw [R.cmetaIff]
      constructor
      · rintro (⟨hi, hci⟩ | ⟨rfl, rfl⟩)
        · exact ⟨Or.inl hi, by rw [hcmeta i (hlt i hi)]; exact hci⟩
        · exact ⟨Or.inr rfl, hcl⟩
      · rintro ⟨hi | hi, hci⟩
        · exact Or.inl ⟨hi, by rw [← hcmeta i (hlt i hi)]; exact hci⟩
        · subst hi; rw [hcl] at hci; exact Or.inr ⟨(Option.some.inj hci).symm, rfl⟩
  · cases hcl : cmeta' len with
    | none => exact R.cmetaKeys
    | some c0 =>
      obtain ⟨_, hk⟩ := hc c0 hcl
      simp only [registerCmeta, insertKey_of_not_hasKey _ _ _ hk, List.map_append, List.map_cons, List.map_nil]
      exact List.nodup_append.mpr ⟨R.cmetaKeys, by simp, by
        intro a ha b hb; simp at hb; subst hb; intro hab; subst hab
        have := (hasKey_iff_mem_keys a cm).mpr ha; rw [hk] at this; cases this⟩
  · intro i hi c hci
    rcases List.mem_append.mp hi with hi | hi
    · exact R.cmetaModel i hi c (by rw [← hcmeta i (hlt i hi)]; exact hci)
    · simp at hi; subst hi; exact (hc c hci).1
  · rw [List.map_append, mapo]
    refine List.pairwise_append.mpr ⟨R.orderInc, by simp, ?_⟩
    intro a ha b hb; simp at hb; subst hb
    obtain ⟨i, hi, rfl⟩ := List.mem_map.mp ha
    rw [hord]; exact R.orderBound i hi
  · intro i hi; rcases List.mem_append.mp hi with hi | hi
    · rw [horder i (hlt i hi)]; exact Nat.lt_succ_of_lt (R.orderBound i hi)
    · simp at hi; subst hi; rw [hord]; exact Nat.lt_succ_self _

/-- `remove_variable`: the name entry and the cmeta entry of `v` go -/
theorem RegInvOn.removeVar (R : RegInvOn mc len name cmeta order live cm no) (v : Nat) (hv : v ∈ live) :
    RegInvOn mc len name cmeta order (live.erase v)
      (match cmeta v with | some c => eraseKey c cm | none => cm) no := by
  have hsub : (live.erase v).Sublist live := List.erase_sublist
  have hmem : ∀ i, i ∈ live.erase v ↔ i ∈ live ∧ i ≠ v := by
    intro i; rw [R.liveNodup.mem_erase_iff]; exact and_comm
  refine ⟨hsub.nodup R.liveNodup, fun i hi => R.liveBound i (hsub.mem hi), (hsub.map _).nodup R.namesNodup, ?_, ?_,
    fun i hi => R.cmetaModel i (hsub.mem hi), R.orderInc.sublist (hsub.map _), fun i hi => R.orderBound i (hsub.mem hi)⟩
  · intro c i
    cases hcv : cmeta v with
    | none =>
      simp only []
      rw [R.cmetaIff, hmem]
      constructor
      · rintro ⟨hi, hci⟩; exact ⟨⟨hi, by rintro rfl; rw [hcv] at hci; cases hci⟩, hci⟩
      · rintro ⟨⟨hi, _⟩, hci⟩; exact ⟨hi, hci⟩
    | some c0 =>
      simp only [mem_eraseKey]
      rw [R.cmetaIff, hmem]
      constructor
      · rintro ⟨⟨hi, hci⟩, hne⟩
        refine ⟨⟨hi, ?_⟩, hci⟩
        rintro rfl; rw [hcv] at hci; exact hne (Option.some.inj hci).symm
      · rintro ⟨⟨hi, hne⟩, hci⟩
        refine ⟨⟨hi, hci⟩, ?_⟩
        intro hcc; change c = c0 at hcc; subst hcc
        have h1 : (c, i) ∈ cm := (R.cmetaIff c i).mpr ⟨hi, hci⟩
        have h2 : (c, v) ∈ cm := (R.cmetaIff c v).mpr ⟨hv, hcv⟩
        exact hne (functional_of_keys_nodup cm R.cmetaKeys c i v h1 h2)
  · cases hcv : cmeta v with
    | none => exact R.cmetaKeys
    | some c0 => exact (keys_eraseKey_sublist c0 cm).nodup R.cmetaKeys

/-- `add_cmeta_id` that invents the unused id `c` -/
theorem RegInvOn.setCmeta (R : RegInvOn mc len name cmeta order live cm no) (v : Nat) (c : String) (hv : v ∈ live)
    (hnone : cmeta v = none) (hfree : hasKey c cm = false) (hmc : mc ≠ some c) :
    RegInvOn mc len name (fun i => if i = v then some c else cmeta i) order live (insertKey c v cm) no := by
  refine ⟨R.liveNodup, R.liveBound, R.namesNodup, ?_, ?_, ?_, R.orderInc, R.orderBound⟩
  · intro c' i
    simp only [insertKey_of_not_hasKey _ _ _ hfree, List.mem_append, List.mem_singleton, Prod.mk.injEq]
    rw [R.cmetaIff]
    constructor
    · rintro (⟨hi, hci⟩ | ⟨rfl, rfl⟩)
      · refine ⟨hi, ?_⟩
        have : i ≠ v := by rintro rfl; rw [hnone] at hci; cases hci
        simp [this, hci]
      · exact ⟨hv, by simp⟩
    · rintro ⟨hi, hci⟩
      by_cases hiv : i = v
      · subst hiv; simp at hci; exact Or.inr ⟨hci.symm, rfl⟩
      · simp [hiv] at hci; exact Or.inl ⟨hi, hci⟩
  · simp only [insertKey_of_not_hasKey _ _ _ hfree, List.map_append, List.map_cons, List.map_nil]
    exact List.nodup_append.mpr ⟨R.cmetaKeys, by simp, by
      intro a ha b hb; simp at hb; subst hb; intro hab; subst hab
      have := (hasKey_iff_mem_keys a cm).mpr ha; rw [hfree] at this; cases this⟩
  · intro i hi c' hci
    by_cases hiv : i = v
    · subst hiv; simp at hci; subst hci; exact hmc
    · simp [hiv] at hci; exact R.cmetaModel i hi c' hci

/-- `transfer_cmeta_id` that succeeds -/
theorem RegInvOn.transfer (R : RegInvOn mc len name cmeta order live cm no) (src dst : Nat) (c : String)
    (hs : src ∈ live) (hd : dst ∈ live) (hcs : cmeta src = some c) (hcd : cmeta dst = none) :
    RegInvOn mc len name (fun i => if i = src then none else if i = dst then some c else cmeta i) order live
      (insertKey c dst cm) no := by
  have hne : src ≠ dst := by rintro rfl; rw [hcs] at hcd; cases hcd
  have hkey : hasKey c cm = true := (hasKey_iff _ _).mpr ⟨src, (R.cmetaIff c src).mpr ⟨hs, hcs⟩⟩
  refine ⟨R.liveNodup, R.liveBound, R.namesNodup, ?_, ?_, ?_, R.orderInc, R.orderBound⟩
  · intro c' i
    rw [mem_insertKey c dst cm R.cmetaKeys, R.cmetaIff]
    constructor
    · rintro (h | ⟨⟨hi, hci⟩, hcc⟩)
      · obtain ⟨rfl, rfl⟩ := Prod.mk.inj h
        exact ⟨hd, by simp [Ne.symm hne]⟩
      · simp only [ne_eq] at hcc
        refine ⟨hi, ?_⟩
        have h1 : i ≠ src := by rintro rfl; rw [hcs] at hci; exact hcc (Option.some.inj hci).symm
        have h2 : i ≠ dst := by rintro rfl; rw [hcd] at hci; cases hci
        simp [h1, h2, hci]
    · rintro ⟨hi, hci⟩
      by_cases h1 : i = src
      · subst h1; simp at hci
      · by_cases h2 : i = dst
        · subst h2; simp [h1] at hci; subst hci; exact Or.inl rfl
        · simp [h1, h2] at hci
          refine Or.inr ⟨⟨hi, hci⟩, ?_⟩
          simp only [ne_eq]; rintro rfl
          exact h1 (functional_of_keys_nodup cm R.cmetaKeys c' i src ((R.cmetaIff c' i).mpr ⟨hi, hci⟩)
            ((R.cmetaIff c' src).mpr ⟨hs, hcs⟩))
  · rw [keys_insertKey_of_hasKey _ _ _ hkey]; exact R.cmetaKeys
  · intro i hi c' hci
    by_cases h1 : i = src
    · subst h1; simp at hci
    · by_cases h2 : i = dst
      · subst h2; simp [h1] at hci; subst hci; exact R.cmetaModel src hs c hcs
      · simp [h1, h2] at hci; exact R.cmetaModel i hi c' hci

end Reg

-- ================================================================================================ frames
theorem SameButTypes.refl (h : List Var) : SameButTypes h h := fun _ => rfl

theorem RegInv.congr {s s' : MState} (R : RegInv s) (hmc : s'.modelCmeta = s.modelCmeta)
    (hh : SameButTypes s.heap s'.heap) (hl : s'.live = s.live) (hcm : s'.cmetaMap = s.cmetaMap)
    (hno : s'.nextOrder = s.nextOrder) : RegInv s' := by
  unfold RegInv at *
  rw [hmc, hh.length, hh.nameOfVar, hh.cmetaOf, hh.orderOf, hl, hcm, hno]; exact R

theorem EqInv.congr {s s' : MState} (E : EqInv s) (h1 : s'.equations = s.equations) (h2 : s'.varDef = s.varDef)
    (h3 : s'.odeDef = s.odeDef) : EqInv s' := by
  unfold EqInv at *; rw [h1, h2, h3]; exact E

theorem CacheInv.of_none {s : MState} (h1 : s.graph = none) (h2 : s.graphNum = none) : CacheInv s :=
  ⟨fun g hg => (by rw [h1] at hg; cases hg), fun g hg => (by rw [h2] at hg; cases hg)⟩

/-- the caches stay valid under a change that touches neither names, nor types, nor variables, nor equations -/
theorem CacheInv.congr {s s' : MState} (C : CacheInv s) (hg : s'.graph = s.graph) (hn : s'.graphNum = s.graphNum)
    (hnames : names s' = names s) (he : s'.equations = s.equations) (hl : s'.live = s.live)
    (ht : ∀ i : Nat, (s'.heap[i]?).map (·.type) = (s.heap[i]?).map (·.type)) : CacheInv s' := by
  refine ⟨?_, ?_⟩
  · intro g hg'
    rw [hg] at hg'
    obtain ⟨hb, hts⟩ := C.graph g hg'
    refine ⟨by rw [hnames, he]; exact hb, ?_⟩
    intro i v' hv' hrel
    rw [hl, he] at hrel
    have := ht i
    rw [hv'] at this
    cases hv : s.heap[i]? with
    | none => rw [hv] at this; cases this
    | some v =>
      rw [hv] at this
      simp only [Option.map_some, Option.some.injEq] at this
      rw [this, he]; exact hts i v hv hrel
  · intro g hg'
    rw [hn] at hg'
    obtain ⟨g0, h0, h1⟩ := C.graphNum g hg'
    exact ⟨g0, by rw [hg]; exact h0, h1⟩

theorem getElem?_setVar_proj {β} (π : Var → β) (h : List Var) (i j : Nat) (f : Var → Var) (hf : ∀ v, π (f v) = π v) :
    ((setVar h i f)[j]?).map π = (h[j]?).map π := by
  rw [getElem?_setVar]
  split
  · cases h[j]? <;> simp [hf]
  · rfl

theorem names_setVar (h : List Var) (i : Nat) (f : Var → Var) (hf : ∀ v, (f v).name = v.name) :
    (setVar h i f).map (·.name) = h.map (·.name) := by
  apply List.ext_getElem?; intro j
  simp only [List.getElem?_map]
  exact getElem?_setVar_proj (·.name) h i j f hf

-- ================================================================================================ add_variable
theorem nameOfVar_append_left (s : MState) (x : Var) (i : Nat) (hi : i < s.heap.length) :
    nameOf ((s.heap ++ [x]).map (·.name)) i = nameOfVar s i := by
  simp only [nameOfVar, nameOf, names, List.getElem?_map, List.getElem?_append_left hi]

theorem inv_addVariable {s : MState} (h : Inv s) (n : String) (c : Option String) (iv : Option Rat) :
    Inv (addVariable s n c iv).1 := by
  unfold addVariable
  by_cases hname : (s.live.any fun i => nameOfVar s i == n) = true
  · rw [if_pos hname]; exact h
  rw [if_neg hname]
  by_cases hcm : cmetaTaken s c = true
  · rw [if_pos hcm]; exact h
  rw [if_neg hcm]
  refine ⟨h.eq.congr rfl rfl rfl, CacheInv.of_none rfl rfl, ?_⟩
  have hR := h.reg
  unfold RegInv at hR ⊢
  simp only [invalidate, List.length_append, List.length_cons, List.length_nil]
  have hget : ∀ i, i < s.heap.length → (s.heap ++ [(⟨n, s.nextOrder, c, iv, none⟩ : Var)])[i]? = s.heap[i]? :=
    fun i hi => List.getElem?_append_left hi
  have hlast : (s.heap ++ [(⟨n, s.nextOrder, c, iv, none⟩ : Var)])[s.heap.length]? = some ⟨n, s.nextOrder, c, iv, none⟩ := by
    simp
  have key := RegInvOn.addVar hR
    (nameOfVar { s with heap := s.heap ++ [⟨n, s.nextOrder, c, iv, none⟩] })
    (cmetaOf { s with heap := s.heap ++ [⟨n, s.nextOrder, c, iv, none⟩] })
    (orderOf { s with heap := s.heap ++ [⟨n, s.nextOrder, c, iv, none⟩] })
    (fun i hi => nameOfVar_append_left s _ i hi)
    (fun i hi => by simp only [hget i hi, cmetaOf])
    (fun i hi => by simp only [hget i hi, orderOf])
    (by
      intro i hi hEq
      simp only [List.any_eq_true, not_exists, not_and, Bool.not_eq_true] at hname
      have := hname i hi
      simp only [nameOfVar, nameOf, names, List.getElem?_map, hlast, Option.map_some, Option.getD_some] at hEq
      simp only [nameOfVar, nameOf, names, List.getElem?_map] at this
      rw [hEq] at this; simp at this)
    (by simp only [orderOf, hlast, Option.map_some, Option.getD_some])
    (by
      intro c0 hc0
      simp only [cmetaOf, hlast, Option.bind_some] at hc0
      subst hc0
      simp only [cmetaTaken, hasCmetaId, Bool.or_eq_true, not_or, Bool.not_eq_true] at hcm
      exact ⟨by intro hm; simp [hm] at hcm, hcm.2⟩)
  have hcl : cmetaOf { s with heap := s.heap ++ [⟨n, s.nextOrder, c, iv, none⟩] } s.heap.length = c := by
    simp only [cmetaOf, hlast, Option.bind_some]
  rw [hcl] at key
  exact key

-- ================================================================================================ equations
/-- what `remove_equation` does on a coherent model -/
theorem removeEquation_cases {s : MState} (E : EqInv s) (e : Eqn) :
    (e ∉ s.equations ∧ removeEquation s e = (s, .raised .keyError)) ∨
    (∃ v, e ∈ s.equations ∧ e.lhs = .var v ∧ removeEquation s e =
      (invalidate { s with equations := s.equations.erase e, varDef := eraseKey v s.varDef }, .ok)) ∨
    (∃ st t o, e ∈ s.equations ∧ e.lhs = .deriv st t o ∧ removeEquation s e =
      (invalidate { s with equations := s.equations.erase e, odeDef := eraseKey st s.odeDef }, .ok)) := by
  unfold removeEquation
  by_cases hc : s.equations.contains e = true
  · have he : e ∈ s.equations := by simpa using hc
    simp only [hc, Bool.not_true, Bool.false_eq_true, if_false]
    cases hl : e.lhs with
    | var v =>
      have : hasKey v s.varDef = true := by
        rw [E.varDef]; exact (hasKey_iff _ _).mpr ⟨e, (mem_deriveVarDef _ _ _).mpr ⟨he, hl⟩⟩
      exact Or.inr (Or.inl ⟨v, he, rfl, by simp only [this, if_true]⟩)
    | deriv st t o =>
      have : hasKey st s.odeDef = true := by
        rw [E.odeDef]; exact (hasKey_iff _ _).mpr ⟨e, (mem_deriveOdeDef _ _ _).mpr ⟨he, t, o, hl⟩⟩
      exact Or.inr (Or.inr ⟨st, t, o, he, rfl, by simp only [this, if_true]⟩)
    | other => exact absurd hl (E.lhsOk e he)
  · have he : e ∉ s.equations := by simpa using hc
    have hc' : s.equations.contains e = false := by simpa using hc
    exact Or.inl ⟨he, by simp only [hc', Bool.not_false, if_true]⟩

theorem inv_removeEquation {s : MState} (h : Inv s) (e : Eqn) : Inv (removeEquation s e).1 := by
  rcases removeEquation_cases h.eq e with ⟨_, hr⟩ | ⟨v, he, hl, hr⟩ | ⟨st, t, o, he, hl, hr⟩
  · rw [hr]; exact h
  · rw [hr]
    exact ⟨EqInvOn.of_removeVar h.eq e v he hl, CacheInv.of_none rfl rfl,
      h.reg.congr rfl (SameButTypes.refl _) rfl rfl rfl⟩
  · rw [hr]
    exact ⟨EqInvOn.of_removeOde h.eq e st t o he hl, CacheInv.of_none rfl rfl,
      h.reg.congr rfl (SameButTypes.refl _) rfl rfl rfl⟩

/-- what `add_equation` (with the duplicate check) does on a coherent model -/
theorem addEquation_cases (s : MState) (e : Eqn) :
    addEquationCore s e true = (s, .raised .valueError) ∨
    (∃ v, e.lhs = .var v ∧ isDefined s v = false ∧ addEquationCore s e true =
      (invalidate { s with varDef := insertKey v e s.varDef, equations := s.equations ++ [e] }, .ok)) ∨
    (∃ st t o, e.lhs = .deriv st t o ∧ o ≤ 1 ∧ isDefined s st = false ∧ addEquationCore s e true =
      (invalidate { s with odeDef := insertKey st e s.odeDef, equations := s.equations ++ [e] }, .ok)) := by
  unfold addEquationCore
  cases hl : e.lhs with
  | var v =>
    by_cases hd : isDefined s v = true
    · simp [hd]
    · have hd' : isDefined s v = false := by simpa using hd
      exact Or.inr (Or.inl ⟨v, rfl, hd', by simp [hd']⟩)
  | deriv st t o =>
    by_cases ho : o > 1
    · simp [ho]
    · by_cases hd : isDefined s st = true
      · simp [ho, hd]
      · have hd' : isDefined s st = false := by simpa using hd
        exact Or.inr (Or.inr ⟨st, t, o, rfl, Nat.le_of_not_lt ho, hd', by simp [ho, hd']⟩)
  | other => simp

theorem inv_addEquation {s : MState} (h : Inv s) (e : Eqn) : Inv (addEquationCore s e true).1 := by
  rcases addEquation_cases s e with hr | ⟨v, hl, hd, hr⟩ | ⟨st, t, o, hl, ho, hd, hr⟩
  · rw [hr]; exact h
  · rw [hr]
    exact ⟨EqInvOn.of_addVar h.eq e v hl hd, CacheInv.of_none rfl rfl,
      h.reg.congr rfl (SameButTypes.refl _) rfl rfl rfl⟩
  · rw [hr]
    exact ⟨EqInvOn.of_addOde h.eq e st t o hl ho hd, CacheInv.of_none rfl rfl,
      h.reg.congr rfl (SameButTypes.refl _) rfl rfl rfl⟩

-- ================================================================================================ remove_variable
theorem getDefinition_mem {s : MState} (E : EqInv s) (v : Nat) (e : Eqn) (h : getDefinition s v = some e) :
    e ∈ s.equations := by
  unfold getDefinition at h
  cases ho : s.odeDef.lookup v with
  | some e' =>
    rw [ho] at h; cases h
    have := mem_of_lookup _ _ _ ho
    rw [E.odeDef] at this
    exact ((mem_deriveOdeDef _ _ _).mp this).1
  | none =>
    rw [ho] at h
    have := mem_of_lookup _ _ _ h
    rw [E.varDef] at this
    exact ((mem_deriveVarDef _ _ _).mp this).1

theorem inv_unregister {s : MState} (h : Inv s) (v : Nat) (hv : v ∈ s.live) :
    Inv (unregister s v).1 ∧ (unregister s v).2 = .ok := by
  have hR := RegInvOn.removeVar h.reg v hv
  unfold unregister
  cases hc : cmetaOf s v with
  | none =>
    simp only [hc] at hR
    exact ⟨⟨h.eq.congr rfl rfl rfl, CacheInv.of_none rfl rfl, hR⟩, by first | rfl | trivial⟩
  | some c =>
    simp only [hc] at hR
    have hk : hasKey c s.cmetaMap = true := (hasKey_iff _ _).mpr ⟨v, (h.reg.cmetaIff c v).mpr ⟨hv, hc⟩⟩
    simp only [hk, if_true]
    exact ⟨⟨h.eq.congr rfl rfl rfl, CacheInv.of_none rfl rfl, hR⟩, by first | rfl | trivial⟩

theorem removeVariable_cases {s : MState} (h : Inv s) (v : Nat) :
    (v ∉ s.live ∧ removeVariable s v = (s, .raised .notInModel)) ∨
    (v ∈ s.live ∧ ∃ s1, Inv s1 ∧ s1.live = s.live ∧ removeVariable s v = unregister s1 v) := by
  unfold removeVariable
  by_cases hv : isLive s v = true
  · have hv' : v ∈ s.live := by simpa [isLive] using hv
    simp only [hv, Bool.not_true, Bool.false_eq_true, if_false]
    refine Or.inr ⟨hv', ?_⟩
    cases hd : getDefinition s v with
    | none => exact ⟨s, h, rfl, rfl⟩
    | some e =>
      have he := getDefinition_mem h.eq v e hd
      rcases removeEquation_cases h.eq e with ⟨hne, _⟩ | ⟨w, _, hl, hr⟩ | ⟨st, t, o, _, hl, hr⟩
      · exact absurd he hne
      · exact ⟨(removeEquation s e).1, inv_removeEquation h e, by rw [hr]; rfl, by simp only [hr]⟩
      · exact ⟨(removeEquation s e).1, inv_removeEquation h e, by rw [hr]; rfl, by simp only [hr]⟩
  · have hv' : v ∉ s.live := by simpa [isLive] using hv
    have hv'' : isLive s v = false := by simpa using hv
    exact Or.inl ⟨hv', by simp only [hv'', Bool.not_false, if_true]⟩

theorem inv_removeVariable {s : MState} (h : Inv s) (v : Nat) : Inv (removeVariable s v).1 := by
  rcases removeVariable_cases h v with ⟨_, hr⟩ | ⟨hv, s1, h1, hl, hr⟩
  · rw [hr]; exact h
  · rw [hr]; exact (inv_unregister h1 v (by rw [hl]; exact hv)).1

-- ================================================================================================ cmeta ids
theorem cmeta_setVar (h : List Var) (v i : Nat) (k : Option String) (hv : v < h.length) :
    ((setVar h v (fun x => { x with cmeta := k }))[i]?).bind (·.cmeta) = if i = v then k else (h[i]?).bind (·.cmeta) := by
  rw [getElem?_setVar]
  by_cases hi : i = v
  · subst hi; simp [List.getElem?_eq_getElem hv]
  · simp [hi]

theorem sameButTypes_setVar_cmeta_fields (h : List Var) (v : Nat) (k : Option String) (i : Nat) :
    ((setVar h v (fun x => { x with cmeta := k }))[i]?).map (fun x => (x.name, x.order, x.init, x.type)) =
      (h[i]?).map (fun x => (x.name, x.order, x.init, x.type)) :=
  getElem?_setVar_proj _ h v i _ (fun _ => rfl)

theorem nameOf_setVar_cmeta (h : List Var) (v i : Nat) (k : Option String) :
    nameOf ((setVar h v (fun x => { x with cmeta := k })).map (·.name)) i = nameOf (h.map (·.name)) i := by
  rw [names_setVar h v (fun x => { x with cmeta := k }) (fun _ => rfl)]

theorem order_setVar_cmeta (h : List Var) (v i : Nat) (k : Option String) :
    (((setVar h v (fun x => { x with cmeta := k }))[i]?).map (·.order)).getD 0 = ((h[i]?).map (·.order)).getD 0 := by
  rw [getElem?_setVar_proj (·.order) h v i (fun x => { x with cmeta := k }) (fun _ => rfl)]

theorem freeCmeta_spec (s : MState) (c c' : String) (n : Nat) (h : freeCmeta s c n = some c') :
    hasCmetaId s c' = false := by
  induction n generalizing c with
  | zero =>
    unfold freeCmeta at h
    by_cases hh : hasCmetaId s c = true
    · simp [hh] at h
    · simp [hh] at h; subst h; simpa using hh
  | succ n ih =>
    unfold freeCmeta at h
    by_cases hh : hasCmetaId s c = true
    · simp only [hh, if_true] at h; exact ih _ h
    · simp [hh] at h; subst h; simpa using hh

/-- name, order, and the graph-related content of the state are untouched when only cmeta ids are rewritten -/
theorem inv_of_cmeta_edit {s s' : MState} (h : Inv s) (hE : s'.equations = s.equations) (hvd : s'.varDef = s.varDef)
    (hod : s'.odeDef = s.odeDef) (hg : s'.graph = s.graph) (hgn : s'.graphNum = s.graphNum) (hl : s'.live = s.live)
    (hf : ∀ i : Nat, (s'.heap[i]?).map (fun x => (x.name, x.order, x.init, x.type)) =
      (s.heap[i]?).map (fun x => (x.name, x.order, x.init, x.type)))
    (hR : RegInv s') : Inv s' := by
  have hnames : names s' = names s := by
    apply List.ext_getElem?; intro i
    have := hf i
    simp only [names, List.getElem?_map]
    cases h1 : s'.heap[i]? <;> cases h2 : s.heap[i]? <;> simp_all
  refine ⟨h.eq.congr hE hvd hod, h.cache.congr hg hgn hnames hE hl ?_, hR⟩
  intro i
  have := hf i
  cases h1 : s'.heap[i]? <;> cases h2 : s.heap[i]? <;> simp_all

theorem inv_addCmetaId {s : MState} (h : Inv s) (v : Nat) : Inv (addCmetaId s v).1 := by
  unfold addCmetaId
  by_cases hv : isLive s v = true
  · have hv' : v ∈ s.live := by simpa [isLive] using hv
    have hlt : v < s.heap.length := h.reg.liveBound v hv'
    simp only [hv, Bool.not_true, Bool.false_eq_true, if_false]
    cases hc : cmetaOf s v with
    | some c => exact h
    | none =>
      simp only []
      cases hf : freeCmeta s ((nameOfVar s v).replace "$" "__") (s.cmetaMap.length + 1) with
      | none => exact h
      | some c =>
        simp only []
        have hfree := freeCmeta_spec s _ c _ hf
        simp only [hasCmetaId, Bool.or_eq_false_iff] at hfree
        have hmc : s.modelCmeta ≠ some c := by intro hm; simp [hm] at hfree
        refine inv_of_cmeta_edit h (by rfl) (by rfl) (by rfl) (by rfl) (by rfl) (by rfl)
          (by exact sameButTypes_setVar_cmeta_fields s.heap v (some c)) ?_
        have key := RegInvOn.setCmeta h.reg v c hv' hc hfree.2 hmc
        unfold RegInv
        have e1 : cmetaOf { s with heap := setVar s.heap v (fun x => { x with cmeta := some c }),
                                   cmetaMap := insertKey c v s.cmetaMap } =
            fun i => if i = v then some c else cmetaOf s i := by
          funext i; exact cmeta_setVar s.heap v i (some c) hlt
        have e2 : nameOfVar { s with heap := setVar s.heap v (fun x => { x with cmeta := some c }),
                                     cmetaMap := insertKey c v s.cmetaMap } = nameOfVar s := by
          funext i; exact nameOf_setVar_cmeta s.heap v i (some c)
        have e3 : orderOf { s with heap := setVar s.heap v (fun x => { x with cmeta := some c }),
                                    cmetaMap := insertKey c v s.cmetaMap } = orderOf s := by
          funext i; exact order_setVar_cmeta s.heap v i (some c)
        rw [e1, e2, e3]
        simp only [length_setVar]
        exact key
  · have hv'' : isLive s v = false := by simpa using hv
    simp only [hv'', Bool.not_false, if_true]; exact h

theorem inv_transferCmetaId {s : MState} (h : Inv s) (src dst : Nat) : Inv (transferCmetaId s src dst).1 := by
  unfold transferCmetaId
  by_cases hl : (!isLive s src || !isLive s dst) = true
  · simp only [hl, if_true]; exact h
  · have hl' : (!isLive s src || !isLive s dst) = false := by simpa using hl
    simp only [hl', Bool.false_eq_true, if_false]
    simp only [Bool.or_eq_false_iff, Bool.not_eq_false'] at hl'
    have hs : src ∈ s.live := by simpa [isLive] using hl'.1
    have hd : dst ∈ s.live := by simpa [isLive] using hl'.2
    have hslt := h.reg.liveBound src hs
    have hdlt := h.reg.liveBound dst hd
    cases hcs : cmetaOf s src with
    | none => exact h
    | some c =>
      simp only []
      cases hcd : cmetaOf s dst with
      | some _ => exact h
      | none =>
        simp only []
        have hf : ∀ i : Nat, ((setVar (setVar s.heap dst (fun x => { x with cmeta := some c })) src
              (fun x => { x with cmeta := none }))[i]?).map (fun x => (x.name, x.order, x.init, x.type)) =
            (s.heap[i]?).map (fun x => (x.name, x.order, x.init, x.type)) := by
          intro i
          rw [sameButTypes_setVar_cmeta_fields, sameButTypes_setVar_cmeta_fields]
        refine inv_of_cmeta_edit h (by rfl) (by rfl) (by rfl) (by rfl) (by rfl) (by rfl) (by exact hf) ?_
        have key := RegInvOn.transfer h.reg src dst c hs hd hcs hcd
        unfold RegInv
        have hlen1 : dst < (setVar s.heap dst (fun x => { x with cmeta := some c })).length := by
          rw [length_setVar]; exact hdlt
        have hlen2 : src < (setVar s.heap dst (fun x => { x with cmeta := some c })).length := by
          rw [length_setVar]; exact hslt
        have e1 : cmetaOf { s with heap := setVar (setVar s.heap dst (fun x => { x with cmeta := some c })) src
                                      (fun x => { x with cmeta := none }),
                                   cmetaMap := insertKey c dst s.cmetaMap } =
            fun i => if i = src then none else if i = dst then some c else cmetaOf s i := by
          funext i
          show ((setVar (setVar s.heap dst _) src _)[i]?).bind (·.cmeta) = _
          rw [cmeta_setVar _ src i none hlen2]
          by_cases h1 : i = src
          · simp [h1]
          · simp only [h1, if_false]; exact cmeta_setVar s.heap dst i (some c) hdlt
        have e2 : nameOfVar { s with heap := setVar (setVar s.heap dst (fun x => { x with cmeta := some c })) src
                                      (fun x => { x with cmeta := none }),
                                     cmetaMap := insertKey c dst s.cmetaMap } = nameOfVar s := by
          funext i
          show nameOf ((setVar (setVar s.heap dst _) src _).map (·.name)) i = _
          rw [nameOf_setVar_cmeta, nameOf_setVar_cmeta]; rfl
        have e3 : orderOf { s with heap := setVar (setVar s.heap dst (fun x => { x with cmeta := some c })) src
                                      (fun x => { x with cmeta := none }),
                                    cmetaMap := insertKey c dst s.cmetaMap } = orderOf s := by
          funext i
          show (((setVar (setVar s.heap dst _) src _)[i]?).map (·.order)).getD 0 = _
          rw [order_setVar_cmeta, order_setVar_cmeta]; rfl
        rw [e1, e2, e3]
        simp only [length_setVar]
        exact key

-- ================================================================================================ graph queries
theorem typeOf_applyTypes (h : List Var) (rel : List Nat) (tm : List (Nat × VType)) (i : Nat) (hi : i ∈ rel) :
    ((applyTypes h rel tm)[i]?).bind (·.type) = if i < h.length then tyOf tm i else none := by
  rw [getElem?_applyTypes]
  have : rel.contains i = true := by simpa using hi
  by_cases hl : i < h.length
  · simp [hi, hl]
  · simp [hl]

/-- what reading `graph` does when nothing is cached -/
theorem queryGraph_of_none {s : MState} (hg : s.graph = none) :
    queryGraph s =
      ({ s with heap := applyTypes s.heap (relevant s.live s.equations) (typeMap s.equations),
                graph := (match buildGraph (names s) s.equations with | .ok g => some g | .error _ => none) },
        buildGraph (names s) s.equations) := by
  unfold queryGraph
  rw [hg]
  cases hb : buildGraph (names s) s.equations <;> simp

theorem queryGraph_of_some {s : MState} {g : Graph} (hg : s.graph = some g) : queryGraph s = (s, .ok g) := by
  unfold queryGraph; rw [hg]

theorem typesSettled_applyTypes (s : MState) (g : Option Graph) :
    TypesSettled { s with heap := applyTypes s.heap (relevant s.live s.equations) (typeMap s.equations), graph := g } := by
  intro i v hv hrel
  have := typeOf_applyTypes s.heap _ (typeMap s.equations) i hrel
  simp only at hv
  rw [hv] at this
  have hlt : i < s.heap.length := by
    have := (List.getElem?_eq_some_iff.mp hv).1
    rwa [length_applyTypes] at this
  simpa [hlt] using this

theorem names_applyTypes (h : List Var) (rel : List Nat) (tm : List (Nat × VType)) :
    (applyTypes h rel tm).map (·.name) = h.map (·.name) := by
  apply List.ext_getElem?; intro i
  simp only [List.getElem?_map, getElem?_applyTypes]
  cases h[i]? with
  | none => rfl
  | some v => simp only [Option.map_some]; split <;> rfl

theorem inv_queryGraph {s : MState} (h : Inv s) : Inv (queryGraph s).1 := by
  cases hg : s.graph with
  | some g => rw [queryGraph_of_some hg]; exact h
  | none =>
    rw [queryGraph_of_none hg]
    have hsame := sameButTypes_applyTypes s.heap (relevant s.live s.equations) (typeMap s.equations)
    have hnum : s.graphNum = none := by
      cases hn : s.graphNum with
      | none => rfl
      | some gn => obtain ⟨g0, h0, _⟩ := h.cache.graphNum gn hn; rw [hg] at h0; cases h0
    refine ⟨h.eq.congr rfl rfl rfl, ⟨?_, ?_⟩, h.reg.congr rfl hsame rfl rfl rfl⟩
    · intro g hg'
      refine ⟨?_, typesSettled_applyTypes s _⟩
      show buildGraph ((applyTypes s.heap _ _).map (·.name)) s.equations = .ok g
      rw [names_applyTypes]
      show buildGraph (names s) s.equations = .ok g
      cases hb : buildGraph (names s) s.equations with
      | ok g0 => simp only [hb] at hg'; rw [Option.some.inj hg']
      | error e => simp only [hb] at hg'; cases hg'
    · intro g hg'
      simp only [hnum] at hg'; cases hg'

theorem queryGraph_graph {s s' : MState} {g : Graph} (h : queryGraph s = (s', .ok g)) : s'.graph = some g := by
  cases hg : s.graph with
  | some g0 => rw [queryGraph_of_some hg] at h; cases h; exact hg
  | none =>
    rw [queryGraph_of_none hg] at h
    obtain ⟨h1, h2⟩ := Prod.mk.inj h
    subst h1; simp only [h2]

theorem inv_queryGraphNum {s : MState} (h : Inv s) : Inv (queryGraphNum s).1 := by
  unfold queryGraphNum
  cases hn : s.graphNum with
  | some g => exact h
  | none =>
    simp only []
    have h1 := inv_queryGraph h
    cases hq : queryGraph s with
    | mk s' r =>
      rw [hq] at h1
      cases r with
      | error e => exact h1
      | ok g =>
        simp only []
        have hg := queryGraph_graph hq
        refine ⟨h1.eq.congr rfl rfl rfl, ⟨?_, ?_⟩, h1.reg.congr rfl (SameButTypes.refl _) rfl rfl rfl⟩
        · intro g' hg'; exact h1.cache.graph g' hg'
        · intro g' hg'; simp only [Option.some.injEq] at hg'; exact ⟨g, hg, hg'.symm⟩

-- ================================================================================================ what queries answer
theorem queryGraph_snd {s : MState} (C : CacheInv s) : (queryGraph s).2 = buildGraph (names s) s.equations := by
  cases hg : s.graph with
  | some g => rw [queryGraph_of_some hg]; exact (C.graph g hg).1.symm
  | none => rw [queryGraph_of_none hg]

theorem queryGraphNum_of_none {s : MState} (hg : s.graph = none) (hn : s.graphNum = none) :
    (queryGraphNum s).2 = (buildGraph (names s) s.equations).map numGraph := by
  unfold queryGraphNum
  rw [hn]
  simp only [queryGraph_of_none hg]
  cases buildGraph (names s) s.equations <;> rfl

theorem queryGraphNum_snd {s : MState} (C : CacheInv s) :
    (queryGraphNum s).2 = (buildGraph (names s) s.equations).map numGraph := by
  cases hn : s.graphNum with
  | some g =>
    obtain ⟨g0, h0, h1⟩ := C.graphNum g hn
    unfold queryGraphNum; rw [hn, (C.graph g0 h0).1, h1]; rfl
  | none =>
    cases hg : s.graph with
    | none => exact queryGraphNum_of_none hg hn
    | some g0 =>
      unfold queryGraphNum
      rw [hn]
      simp only [queryGraph_of_some hg, (C.graph g0 hg).1]; rfl

theorem typeOf_queryGraph_of_none {s : MState} (hg : s.graph = none) (i : Nat)
    (hi : i ∈ relevant s.live s.equations) :
    typeOf (queryGraph s).1 i = if i < s.heap.length then tyOf (typeMap s.equations) i else none := by
  rw [queryGraph_of_none hg]
  exact typeOf_applyTypes s.heap _ _ i hi

theorem typeOf_queryGraph {s : MState} (C : CacheInv s) (i : Nat) (hi : i ∈ relevant s.live s.equations) :
    typeOf (queryGraph s).1 i = if i < s.heap.length then tyOf (typeMap s.equations) i else none := by
  cases hg : s.graph with
  | none => exact typeOf_queryGraph_of_none hg i hi
  | some g =>
    rw [queryGraph_of_some hg]
    have hts := (C.graph g hg).2
    by_cases hl : i < s.heap.length
    · simp only [hl, if_true, typeOf, List.getElem?_eq_getElem hl, Option.bind_some]
      exact hts i _ (List.getElem?_eq_getElem hl) hi
    · simp [hl, typeOf]

theorem Obs.eq_of {a b : Obs} (h1 : a.vars = b.vars) (h2 : a.equations = b.equations)
    (h3 : a.definition = b.definition) (h4 : a.states = b.states) (h5 : a.stateKeys = b.stateKeys)
    (h6 : a.free = b.free) (h7 : a.cmetaLookup = b.cmetaLookup) (h8 : a.hasCmeta = b.hasCmeta)
    (h9 : a.graph = b.graph) (h10 : a.graphNum = b.graphNum) (h11 : a.types = b.types) : a = b := by
  cases a; cases b; simp_all

/-- two states answer every query alike when they agree on what the queries read -/
theorem obs_congr {s s' : MState} (hmc : s'.modelCmeta = s.modelCmeta) (hh : SameButTypes s.heap s'.heap)
    (hl : s'.live = s.live) (he : s'.equations = s.equations) (hvd : s'.varDef = s.varDef)
    (hod : s'.odeDef = s.odeDef) (hcm : ∀ c, s'.cmetaMap.lookup c = s.cmetaMap.lookup c)
    (hhk : ∀ c, hasKey c s'.cmetaMap = hasKey c s.cmetaMap)
    (hg : (queryGraph s').2 = (queryGraph s).2) (hgn : (queryGraphNum s').2 = (queryGraphNum s).2)
    (ht : ∀ i ∈ relevant s.live s.equations, typeOf (queryGraph s').1 i = typeOf (queryGraph s).1 i) :
    obs s' = obs s := by
  apply Obs.eq_of
  · simp only [obs, hl, hh.nameOfVar, hh.cmetaOf, hh.initOf]
  · exact he
  · funext v; simp only [obs, getDefinition, hvd, hod]
  · simp only [obs, getStateVariables, stateKeys, hod, hh.orderOf]
  · simp only [obs, stateKeys, hod]
  · simp only [obs, getFreeVariable, hod]
  · funext c; exact hcm c
  · funext c; simp only [obs, hasCmetaId, hmc, hhk]
  · exact hg
  · exact hgn
  · simp only [obs, hl, he]
    exact List.map_congr_left (fun i hi => by rw [ht i hi])

/-- reading the graph when the build fails only rewrites `type` fields: nothing observable changes -/
theorem obs_failed_build {s : MState} (hg : s.graph = none) (hn : s.graphNum = none) :
    obs { s with heap := applyTypes s.heap (relevant s.live s.equations) (typeMap s.equations) } = obs s := by
  have hsame := sameButTypes_applyTypes s.heap (relevant s.live s.equations) (typeMap s.equations)
  have hnames : names { s with heap := applyTypes s.heap (relevant s.live s.equations) (typeMap s.equations) } =
      names s := names_applyTypes _ _ _
  refine obs_congr rfl hsame rfl rfl rfl rfl (fun _ => rfl) (fun _ => rfl) ?_ ?_ ?_
  · rw [queryGraph_of_none (by exact hg), queryGraph_of_none hg, hnames]
  · rw [queryGraphNum_of_none (by exact hg) (by exact hn), queryGraphNum_of_none hg hn, hnames]
  · intro i hi
    rw [typeOf_queryGraph_of_none (by exact hg) i (by exact hi), typeOf_queryGraph_of_none hg i hi]
    simp only [length_applyTypes]

-- ================================================================================================ fresh models
theorem mem_fresh_cmetaMap (s : MState) (c : String) (i : Nat) :
    (c, i) ∈ (fresh (content s)).cmetaMap ↔ (i ∈ s.live ∧ cmetaOf s i = some c) := by
  simp only [fresh, content, List.mem_filterMap, List.getElem?_map]
  constructor
  · rintro ⟨j, hj, h⟩
    cases hv : s.heap[j]? with
    | none => simp [hv] at h
    | some v =>
      simp only [hv, Option.map_some, Option.bind_some] at h
      cases hc : v.cmeta with
      | none => simp [hc] at h
      | some k =>
        simp only [hc, Option.map_some, Option.some.injEq, Prod.mk.injEq] at h
        obtain ⟨rfl, rfl⟩ := h
        exact ⟨hj, by simp [cmetaOf, hv, hc]⟩
  · rintro ⟨hi, hc⟩
    refine ⟨i, hi, ?_⟩
    simp only [cmetaOf] at hc
    cases hv : s.heap[i]? with
    | none => simp [hv] at hc
    | some v => simp only [hv, Option.bind_some] at hc; simp [hc]

/-- **coherence**: every query answers as on a model freshly built with the same variables and equations -/
theorem obs_fresh {s : MState} (h : Inv s) : obs s = obs (fresh (content s)) := by
  symm
  have hsame : SameButTypes s.heap (fresh (content s)).heap := sameButTypes_eraseTypes s.heap
  have hnames : names (fresh (content s)) = names s := hsame.names
  have hmem : ∀ c i, (c, i) ∈ (fresh (content s)).cmetaMap ↔ (c, i) ∈ s.cmetaMap := by
    intro c i; rw [mem_fresh_cmetaMap, h.reg.cmetaIff]
  have hfun : ∀ c a b, (c, a) ∈ s.cmetaMap → (c, b) ∈ s.cmetaMap → a = b :=
    fun c a b => functional_of_keys_nodup s.cmetaMap h.reg.cmetaKeys c a b
  refine obs_congr rfl hsame rfl rfl h.eq.varDef.symm h.eq.odeDef.symm ?_ ?_ ?_ ?_ ?_
  · intro c
    exact lookup_congr _ _ c (fun a b ha hb => hfun c a b ((hmem c a).mp ha) ((hmem c b).mp hb)) (hfun c)
      (fun v => hmem c v)
  · intro c
    rw [Bool.eq_iff_iff, hasKey_iff, hasKey_iff]
    exact ⟨fun ⟨v, hv⟩ => ⟨v, (hmem c v).mp hv⟩, fun ⟨v, hv⟩ => ⟨v, (hmem c v).mpr hv⟩⟩
  · rw [queryGraph_snd h.cache, queryGraph_of_none (by rfl), hnames]; rfl
  · rw [queryGraphNum_snd h.cache, queryGraphNum_of_none (by rfl) (by rfl), hnames]; rfl
  · intro i hi
    rw [typeOf_queryGraph h.cache i hi, typeOf_queryGraph_of_none (by rfl) i (by exact hi)]
    simp [fresh, content]

-- ================================================================================================ steps
theorem inv_init (mc : Option String) : Inv (init mc) := by
  refine ⟨⟨rfl, rfl, List.nodup_nil, (by intro e he; cases he), (by intro e he; cases he)⟩,
    CacheInv.of_none rfl rfl, ?_⟩
  refine ⟨List.nodup_nil, (by intro i hi; cases hi), List.nodup_nil, ?_, List.nodup_nil, (by intro i hi; cases hi),
    List.Pairwise.nil, (by intro i hi; cases hi)⟩
  intro c i; simp [init]

theorem ofGraphResult_fst (r : MState × Except GErr Graph) : (ofGraphResult r).1 = r.1 := by
  obtain ⟨s, r⟩ := r; cases r <;> rfl

theorem inv_step {s : MState} (h : Inv s) (op : Op) : Inv (step s op).1 := by
  cases op with
  | addVariable n c i => exact inv_addVariable h n c i
  | removeVariable v => exact inv_removeVariable h v
  | addEquation e => exact inv_addEquation h e
  | removeEquation e => exact inv_removeEquation h e
  | createQuantity => exact h
  | addCmetaId v => exact inv_addCmetaId h v
  | transferCmetaId a b => exact inv_transferCmetaId h a b
  | qGraph => simp only [step, ofGraphResult_fst]; exact inv_queryGraph h
  | qGraphNum => simp only [step, ofGraphResult_fst]; exact inv_queryGraphNum h
  | qStates => exact h
  | qFree => exact h
  | qDefinition v => simp only [step]; split <;> exact h

/-- a call that raises leaves the state as it was — except that a failing graph build has rewritten `type` fields -/
theorem raised_state {s s' : MState} (h : Inv s) (op : Op) (e : Err) (hs : step s op = (s', .raised e)) :
    s' = s ∨ ((op = .qGraph ∨ op = .qGraphNum) ∧ s.graph = none ∧ s.graphNum = none ∧
      s' = { s with heap := applyTypes s.heap (relevant s.live s.equations) (typeMap s.equations) }) := by
  have graphCase : ∀ s'' err, queryGraph s = (s'', .error err) → (s.graph = none ∧ s.graphNum = none ∧
      s'' = { s with heap := applyTypes s.heap (relevant s.live s.equations) (typeMap s.equations) }) := by
    intro s'' err hq
    cases hg : s.graph with
    | some g => rw [queryGraph_of_some hg] at hq; cases hq
    | none =>
      have hnum : s.graphNum = none := by
        cases hn : s.graphNum with
        | none => rfl
        | some gn => obtain ⟨g0, h0, _⟩ := h.cache.graphNum gn hn; rw [hg] at h0; cases h0
      rw [queryGraph_of_none hg] at hq
      obtain ⟨h1, h2⟩ := Prod.mk.inj hq
      refine ⟨rfl, hnum, ?_⟩
      rw [← h1]; simp only [h2]
  cases op with
  | addVariable n c i =>
    left
    simp only [step] at hs
    unfold addVariable at hs
    by_cases hname : (s.live.any fun i => nameOfVar s i == n) = true
    · rw [if_pos hname] at hs; exact (Prod.mk.inj hs).1.symm
    · rw [if_neg hname] at hs
      by_cases hcm : cmetaTaken s c = true
      · rw [if_pos hcm] at hs; exact (Prod.mk.inj hs).1.symm
      · rw [if_neg hcm] at hs; cases (Prod.mk.inj hs).2
  | removeVariable v =>
    left
    simp only [step] at hs
    rcases removeVariable_cases h v with ⟨_, hr⟩ | ⟨hv, s1, h1, hl, hr⟩
    · rw [hr] at hs; exact (Prod.mk.inj hs).1.symm
    · have := (inv_unregister h1 v (by rw [hl]; exact hv)).2
      rw [← hr, hs] at this; cases this
  | addEquation eq =>
    left
    simp only [step] at hs
    rcases addEquation_cases s eq with hr | ⟨v, _, _, hr⟩ | ⟨st, t, o, _, _, _, hr⟩
    · rw [hr] at hs; exact (Prod.mk.inj hs).1.symm
    · rw [hr] at hs; cases (Prod.mk.inj hs).2
    · rw [hr] at hs; cases (Prod.mk.inj hs).2
  | removeEquation eq =>
    left
    simp only [step] at hs
    rcases removeEquation_cases h.eq eq with ⟨_, hr⟩ | ⟨v, _, _, hr⟩ | ⟨st, t, o, _, _, hr⟩
    · rw [hr] at hs; exact (Prod.mk.inj hs).1.symm
    · rw [hr] at hs; cases (Prod.mk.inj hs).2
    · rw [hr] at hs; cases (Prod.mk.inj hs).2
  | createQuantity => simp only [step] at hs; cases (Prod.mk.inj hs).2
  | addCmetaId v =>
    left
    simp only [step] at hs
    unfold addCmetaId at hs
    split at hs
    · exact (Prod.mk.inj hs).1.symm
    · split at hs
      · cases (Prod.mk.inj hs).2
      · split at hs
        · exact (Prod.mk.inj hs).1.symm
        · cases (Prod.mk.inj hs).2
  | transferCmetaId a b =>
    left
    simp only [step] at hs
    unfold transferCmetaId at hs
    split at hs
    · exact (Prod.mk.inj hs).1.symm
    · split at hs
      · exact (Prod.mk.inj hs).1.symm
      · split at hs
        · exact (Prod.mk.inj hs).1.symm
        · cases (Prod.mk.inj hs).2
  | qGraph =>
    right
    simp only [step] at hs
    cases hq : queryGraph s with
    | mk s'' r =>
      rw [hq] at hs
      cases r with
      | ok g => cases (Prod.mk.inj hs).2
      | error err =>
        have := graphCase s'' err hq
        have hs' : s'' = s' := (Prod.mk.inj hs).1
        rw [← hs']; exact ⟨Or.inl rfl, this⟩
  | qGraphNum =>
    simp only [step] at hs
    unfold queryGraphNum at hs
    have hn : s.graphNum = none ∨ ∃ g, s.graphNum = some g := by cases s.graphNum <;> simp
    rcases hn with hn | ⟨g, hn⟩
    · rw [hn] at hs
      simp only [] at hs
      cases hq : queryGraph s with
      | mk s'' r =>
        rw [hq] at hs
        cases r with
        | ok g => cases (Prod.mk.inj hs).2
        | error err =>
          right
          have := graphCase s'' err hq
          have hs' : s'' = s' := (Prod.mk.inj hs).1
          rw [← hs']; exact ⟨Or.inr rfl, this⟩
    · rw [hn] at hs; cases (Prod.mk.inj hs).2
  | qStates => simp only [step] at hs; cases (Prod.mk.inj hs).2
  | qFree => left; simp only [step] at hs; exact (Prod.mk.inj hs).1.symm
  | qDefinition v =>
    left
    simp only [step] at hs
    split at hs
    · cases (Prod.mk.inj hs).2
    · exact (Prod.mk.inj hs).1.symm

-- ================================================================================================ order of the states
theorem insertSorted_perm (key : Nat → Nat) (x : Nat) (l : List Nat) : (insertSorted key x l).Perm (x :: l) := by
  induction l with
  | nil => exact List.Perm.refl _
  | cons y ys ih =>
    unfold insertSorted
    split
    · exact List.Perm.refl _
    · exact ((List.perm_cons y).mpr ih).trans (List.Perm.swap x y ys)

theorem sortByKey_perm (key : Nat → Nat) (l : List Nat) : (sortByKey key l).Perm l := by
  induction l with
  | nil => exact List.Perm.refl _
  | cons x xs ih => exact (insertSorted_perm key x _).trans ((List.perm_cons x).mpr ih)

theorem insertSorted_sorted (key : Nat → Nat) (x : Nat) (l : List Nat)
    (h : l.Pairwise (fun a b => key a ≤ key b)) : (insertSorted key x l).Pairwise (fun a b => key a ≤ key b) := by
  induction l with
  | nil => simp [insertSorted]
  | cons y ys ih =>
    unfold insertSorted
    have hy := List.pairwise_cons.mp h
    split
    · rename_i hxy
      refine List.pairwise_cons.mpr ⟨?_, h⟩
      intro b hb
      rcases List.mem_cons.mp hb with rfl | hb
      · exact hxy
      · exact Nat.le_trans hxy (hy.1 b hb)
    · rename_i hxy
      refine List.pairwise_cons.mpr ⟨?_, ih hy.2⟩
      intro b hb
      rcases List.mem_cons.mp ((insertSorted_perm key x ys).subset hb) with rfl | hb
      · exact Nat.le_of_lt (Nat.lt_of_not_le hxy)
      · exact hy.1 b hb

theorem sortByKey_sorted (key : Nat → Nat) (l : List Nat) :
    (sortByKey key l).Pairwise (fun a b => key a ≤ key b) := by
  induction l with
  | nil => exact List.Pairwise.nil
  | cons x xs ih => exact insertSorted_sorted key x _ ih

theorem keys_deriveOdeDef_sublist (eqs : List Eqn) :
    ((deriveOdeDef eqs).map (·.1)).Sublist (eqs.filterMap defKey) := by
  induction eqs with
  | nil => exact List.Sublist.refl _
  | cons e es ih =>
    cases hl : e.lhs with
    | var v => simpa [deriveOdeDef, defKey, hl] using List.Sublist.cons v ih
    | deriv st t o => simpa [deriveOdeDef, defKey, hl] using ih
    | other => simpa [deriveOdeDef, defKey, hl] using ih

theorem pairwise_lt_inj {key : Nat → Nat} {l : List Nat} (h : (l.map key).Pairwise (· < ·)) (a b : Nat)
    (ha : a ∈ l) (hb : b ∈ l) (hab : key a = key b) : a = b := by
  rw [List.pairwise_map] at h
  induction l with
  | nil => cases ha
  | cons x xs ih =>
    have hx := List.pairwise_cons.mp h
    rcases List.mem_cons.mp ha with ha1 | ha1 <;> rcases List.mem_cons.mp hb with hb1 | hb1
    · rw [ha1, hb1]
    · subst ha1; exact absurd hab (Nat.ne_of_lt (hx.1 b hb1))
    · subst hb1; exact absurd hab.symm (Nat.ne_of_lt (hx.1 a ha1))
    · exact ih hx.2 ha1 hb1

/-- `get_state_variables()` lists the state variables in the order in which `variables()` lists them -/
theorem states_in_variables_order {s : MState} (h : Inv s) (hlive : ∀ k ∈ stateKeys s, k ∈ s.live) :
    getStateVariables s = s.live.filter (fun i => hasKey i s.odeDef) := by
  have hkeysNodup : (stateKeys s).Nodup := by
    unfold stateKeys; rw [h.eq.odeDef]
    exact (keys_deriveOdeDef_sublist s.equations).nodup h.eq.nodup
  have hperm : (getStateVariables s).Perm (s.live.filter (fun i => hasKey i s.odeDef)) := by
    refine (sortByKey_perm _ _).trans ?_
    refine (List.perm_ext_iff_of_nodup hkeysNodup (h.reg.liveNodup.sublist List.filter_sublist)).mpr ?_
    intro a
    simp only [List.mem_filter]
    constructor
    · intro ha; exact ⟨hlive a ha, (hasKey_iff_mem_keys a s.odeDef).mpr ha⟩
    · rintro ⟨_, ha⟩; exact (hasKey_iff_mem_keys a s.odeDef).mp ha
  have hs1 := sortByKey_sorted (orderOf s) (stateKeys s)
  have hs2 : (s.live.filter (fun i => hasKey i s.odeDef)).Pairwise (fun a b => orderOf s a ≤ orderOf s b) := by
    have := h.reg.orderInc
    rw [List.pairwise_map] at this
    exact (this.imp (fun hab => Nat.le_of_lt hab)).filter _
  refine List.Perm.eq_of_pairwise ?_ hs1 hs2 hperm
  intro a b ha hb hab hba
  have ha' : a ∈ s.live := hlive a ((sortByKey_perm _ _).subset ha)
  have hb' : b ∈ s.live := (List.mem_filter.mp hb).1
  exact pairwise_lt_inj h.reg.orderInc a b ha' hb' (Nat.le_antisymm hab hba)

-- ================================================================================================ fresh = built
/-- adding the equations of a content one by one with `add_equation` to the model that holds its variables builds
    exactly `fresh` of that content (generalised over the equations already added) -/
theorem fresh_build_aux (c : Content) (l pre : List Eqn)
    (hn : ((pre ++ l).filterMap defKey).Nodup) (hl : ∀ e ∈ l, e.lhs ≠ .other)
    (ho : ∀ e ∈ l, ∀ st t o, e.lhs = .deriv st t o → o ≤ 1) :
    l.foldl (fun s e => (step s (.addEquation e)).1) (fresh { c with equations := pre }) =
      fresh { c with equations := pre ++ l } := by
  induction l generalizing pre with
  | nil => simp
  | cons e l ih =>
    have hassoc : pre ++ e :: l = (pre ++ [e]) ++ l := by simp
    have hrest := ih (pre ++ [e]) (by rw [← hassoc]; exact hn)
      (fun x hx => hl x (List.mem_cons_of_mem _ hx)) (fun x hx => ho x (List.mem_cons_of_mem _ hx))
    rw [hassoc, ← hrest, List.foldl_cons]
    congr 1
    -- one `add_equation` on the fresh model of `pre`
    have hkey : ∀ k, defKey e = some k → k ∉ pre.filterMap defKey := by
      intro k hk hmem
      rw [List.filterMap_append, List.filterMap_cons, hk] at hn
      exact (List.nodup_append.mp hn).2.2 k hmem k (List.mem_cons_self ..) rfl
    have hundef : ∀ k, defKey e = some k →
        (hasKey k (deriveOdeDef pre) || hasKey k (deriveVarDef pre)) = false := by
      intro k hk
      have := hkey k hk
      rw [Bool.or_eq_false_iff]
      constructor
      · cases h1 : hasKey k (deriveOdeDef pre) with
        | false => rfl
        | true => exact absurd (keys_deriveOdeDef_sub pre k h1) this
      · cases h1 : hasKey k (deriveVarDef pre) with
        | false => rfl
        | true => exact absurd (keys_deriveVarDef_sub pre k h1) this
    simp only [step]
    cases hlhs : e.lhs with
    | var v =>
      have hd := hundef v (by simp [defKey, hlhs])
      have hd2 := (Bool.or_eq_false_iff.mp hd).2
      simp only [addEquationCore, hlhs, isDefined, fresh, hd, Bool.and_false, Bool.false_eq_true, if_false,
        invalidate, insertKey_of_not_hasKey _ _ _ hd2]
      simp [deriveVarDef, deriveOdeDef, List.filterMap_append, hlhs]
    | deriv st t o =>
      have hd := hundef st (by simp [defKey, hlhs])
      have hd1 := (Bool.or_eq_false_iff.mp hd).1
      have hord : ¬ o > 1 := Nat.not_lt.mpr (ho e (List.mem_cons_self ..) st t o hlhs)
      simp only [addEquationCore, hlhs, hord, isDefined, fresh, hd, Bool.and_false, Bool.false_eq_true, if_false,
        invalidate, insertKey_of_not_hasKey _ _ _ hd1]
      simp [deriveVarDef, deriveOdeDef, List.filterMap_append, hlhs]
    | other => exact absurd hlhs (hl e (List.mem_cons_self ..))

/-- the fresh model of the content of a coherent state is what `add_equation`, called for each equation in turn on a
    model holding the same variables, builds -/
theorem fresh_is_built {s : MState} (h : Inv s) :
    s.equations.foldl (fun st e => (step st (.addEquation e)).1) (fresh { content s with equations := [] }) =
      fresh (content s) := by
  have := fresh_build_aux (content s) s.equations [] (by simpa using h.eq.nodup) h.eq.lhsOk h.eq.orderOk
  simpa [content] using this

end Model
