import Cellml.C02.Semantics
import Cellml.C02.Table

/-! Helper lemmas for `Cellml.Props.C02`: the algebraic core (`call_sound`: applying the operator value to the
    transpiled operands computes what MathML 2 says), the list-level lemmas and the induction over all trees. -/
namespace C02
open Cellml

theorem lookup_mem {β} : ∀ (l : List (String × β)) (k : String) (v : β), l.lookup k = some v → (k, v) ∈ l := by
  intro l k v h
  induction l with
  | nil => simp [List.lookup] at h
  | cons p r ih =>
    obtain ⟨a, b⟩ := p
    simp only [List.lookup] at h
    by_cases hk : k == a
    · simp only [hk] at h
      have : k = a := by simpa using hk
      simp at h; subst h; subst this; simp
    · simp only [hk] at h
      have := ih h
      simp [this]

/-- one boolean check over the GENERATED table (kernel-evaluated) from which every fact the proofs need follows -/
def tableCheck : Bool :=
  Gen.mathmlOps.all fun (t, c) =>
    Gen.mathmlOps.lookup t == some c &&
    !(specialHeads.contains c) && c != "ln2" &&
    (if (syMeaning c).isConst then sympyConstants.contains c && !Gen.naryRelations.contains t
     else !sympyConstants.contains c) &&
    (t == "rem" || mmlMeaning t == some (syMeaning c))

theorem tableCheck_ok : tableCheck = true := by decide +kernel

def mmlKeysCheck : Bool :=
  mmlTable.all fun (t, m) => (Gen.mathmlOps.lookup t).isSome && mmlTable.lookup t == some m

theorem mmlKeysCheck_ok : mmlKeysCheck = true := by decide +kernel

theorem transpile_simple (op : String) (k : Mml) (c : String) (h : Gen.mathmlOps.lookup op = some c) :
    transpile (.el op k) =
      .ok (if op ∈ Gen.naryRelations then .rel c else if c ∈ sympyConstants then .const c else .cls c) := by
  simp only [transpile, handlerOf, h, simpleOperator]
  simp
  split
  · rfl
  · split <;> rfl


theorem callClass_ok {c : String} {r e : Sy} (h : callClass c r = .ok e) : e = .app c r := by
  simp only [callClass] at h
  repeat' (split at h)
  all_goals (cases h; try rfl)

theorem arith1_ok {h : String} {a e : Sy} (hh : arith1 h a = .ok e) : e = .app h (.cons a .nil) := by
  unfold arith1 at hh; split at hh
  · injection hh with hh; exact hh.symm
  · cases hh

theorem arith2_ok {h : String} {a b e : Sy} (hh : arith2 h a b = .ok e) : e = .app h (.cons a (.cons b .nil)) := by
  unfold arith2 at hh; split at hh
  · injection hh with hh; exact hh.symm
  · cases hh

theorem evalSyArgs_nil_inv {I : Interp} {r : Sy} (h : evalSyArgs I r = some []) : r = .nil := by
  cases r <;> simp [evalSyArgs] at h
  · rfl
  · split at h <;> simp at h

theorem evalSyArgs_cons_inv {I : Interp} {r : Sy} {v : Val} {vs : List Val} (h : evalSyArgs I r = some (v :: vs)) :
    ∃ x r', r = .cons x r' ∧ evalSy I x = some v ∧ evalSyArgs I r' = some vs := by
  cases r <;> simp [evalSyArgs] at h
  rename_i x r'
  refine ⟨x, r', rfl, ?_⟩
  split at h <;> simp at h
  rename_i v' vs' h1 h2
  obtain ⟨rfl, rfl⟩ := h
  exact ⟨h1, h2⟩

theorem evalSy_app {I : Interp} {h : String} {r : Sy} {vs : List Val} (hp : h ≠ "Piecewise")
    (ha : evalSyArgs I r = some vs) : evalSy I (.app h r) = syApply I h vs := by
  simp [evalSy, hp, ha]

theorem handlerOf_minus : handlerOf "minus" = some "_minus_handler" := by decide +kernel
theorem handlerOf_divide : handlerOf "divide" = some "_divide_handler" := by decide +kernel
theorem handlerOf_power : handlerOf "power" = some "_power_handler" := by decide +kernel
theorem handlerOf_root : handlerOf "root" = some "_root_handler" := by decide +kernel
theorem handlerOf_log : handlerOf "log" = some "_log_handler" := by decide +kernel

theorem transpile_wrapped (op m : String) (k : Mml) (h : handlerOf op = some m) (hm : m ∈ wrappedHandlers) :
    transpile (.el op k) = .ok (.wrapped m) := by
  have h1 : (m == "_simple_operator_handler") = false := by
    simp only [wrappedHandlers, List.mem_cons, List.mem_nil_iff, or_false] at hm
    rcases hm with rfl | rfl | rfl | rfl | rfl | rfl <;> decide
  simp only [transpile, h, h1]
  simp [hm]

/-- the wrapped callbacks: minus, divide, power, root (degree first, default 2), log (logbase first, default 10) -/
theorem call_sound_wrapped (I : Interp) (op : String) (opk : Mml) (f r e : Sy) (items : List (Role × Val)) (v : Val)
    (hop : op = "minus" ∨ op = "divide" ∨ op = "power" ∨ op = "root" ∨ op = "log")
    (hf : transpile (.el op opk) = .ok f) (hc : call f r = .ok e)
    (hargs : evalSyArgs I r = some (items.map (·.2)))
    (hv : applyOp I op items = some v) : evalSy I e = some v := by
  rcases hop with rfl | rfl | rfl | rfl | rfl
  · rw [transpile_wrapped _ _ _ handlerOf_minus (by decide)] at hf
    injection hf with hf; subst hf
    simp only [applyOp] at hv
    simp at hv
    split at hv
    · rename_i a
      injection hv with hv; subst hv
      simp only [List.map] at hargs
      obtain ⟨x, r', rfl, hx, hr'⟩ := evalSyArgs_cons_inv hargs
      have := evalSyArgs_nil_inv hr'; subst this
      simp [call, callWrapped] at hc
      have := arith1_ok hc; subst this
      rw [evalSy_app (by decide) hargs]
      simp [syApply]
    · rename_i a b
      injection hv with hv; subst hv
      simp only [List.map] at hargs
      obtain ⟨x, r', rfl, hx, hr'⟩ := evalSyArgs_cons_inv hargs
      obtain ⟨y, r'', rfl, hy, hr''⟩ := evalSyArgs_cons_inv hr'
      have := evalSyArgs_nil_inv hr''; subst this
      simp [call, callWrapped] at hc
      have := arith2_ok hc; subst this
      rw [evalSy_app (by decide) hargs]
      simp [syApply]
    · cases hv
  · rw [transpile_wrapped _ _ _ handlerOf_divide (by decide)] at hf
    injection hf with hf; subst hf
    simp only [applyOp] at hv
    simp at hv
    split at hv
    · rename_i a b
      simp only [List.map] at hargs
      obtain ⟨x, r', rfl, hx, hr'⟩ := evalSyArgs_cons_inv hargs
      obtain ⟨y, r'', rfl, hy, hr''⟩ := evalSyArgs_cons_inv hr'
      have := evalSyArgs_nil_inv hr''; subst this
      simp [call, callWrapped] at hc
      have := arith2_ok hc; subst this
      rw [evalSy_app (by decide) hargs]
      simpa [syApply] using hv
    · cases hv
  · rw [transpile_wrapped _ _ _ handlerOf_power (by decide)] at hf
    injection hf with hf; subst hf
    simp only [applyOp] at hv
    simp at hv
    split at hv
    · rename_i a b
      simp only [List.map] at hargs
      obtain ⟨x, r', rfl, hx, hr'⟩ := evalSyArgs_cons_inv hargs
      obtain ⟨y, r'', rfl, hy, hr''⟩ := evalSyArgs_cons_inv hr'
      have := evalSyArgs_nil_inv hr''; subst this
      simp [call, callWrapped] at hc
      have := arith2_ok hc; subst this
      rw [evalSy_app (by decide) hargs]
      simpa [syApply] using hv
    · cases hv
  · rw [transpile_wrapped _ _ _ handlerOf_root (by decide)] at hf
    injection hf with hf; subst hf
    simp only [applyOp] at hv
    simp at hv
    split at hv
    · rename_i x
      simp only [List.map] at hargs
      obtain ⟨a, r', rfl, ha, hr'⟩ := evalSyArgs_cons_inv hargs
      have := evalSyArgs_nil_inv hr'; subst this
      simp [call, callWrapped] at hc
      have := arith2_ok hc; subst this
      have h2 : evalSyArgs I (.cons a (.cons (.int 2) .nil)) = some [.num x, .num 2] := by
        simp [evalSyArgs, ha, evalSy]
      rw [evalSy_app (by decide) h2]
      simpa [syApply] using hv
    · rename_i n x
      simp only [List.map] at hargs
      obtain ⟨a, r', rfl, ha, hr'⟩ := evalSyArgs_cons_inv hargs
      obtain ⟨b, r'', rfl, hb, hr''⟩ := evalSyArgs_cons_inv hr'
      have := evalSyArgs_nil_inv hr''; subst this
      simp [call, callWrapped] at hc
      have := arith2_ok hc; subst this
      have h2 : evalSyArgs I (.cons b (.cons a .nil)) = some [.num x, .num n] := by
        simp [evalSyArgs, ha, hb]
      rw [evalSy_app (by decide) h2]
      simpa [syApply] using hv
    · cases hv
  · rw [transpile_wrapped _ _ _ handlerOf_log (by decide)] at hf
    injection hf with hf; subst hf
    simp only [applyOp] at hv
    simp at hv
    split at hv
    · rename_i x
      simp only [List.map] at hargs
      obtain ⟨a, r', rfl, ha, hr'⟩ := evalSyArgs_cons_inv hargs
      have := evalSyArgs_nil_inv hr'; subst this
      simp [call, callWrapped] at hc
      have := arith2_ok hc; subst this
      have h2 : evalSyArgs I (.cons a (.cons (.int 10) .nil)) = some [.num x, .num 10] := by
        simp [evalSyArgs, ha, evalSy]
      rw [evalSy_app (by decide) h2]
      simpa [syApply] using hv
    · rename_i n x
      simp only [List.map] at hargs
      obtain ⟨a, r', rfl, ha, hr'⟩ := evalSyArgs_cons_inv hargs
      obtain ⟨b, r'', rfl, hb, hr''⟩ := evalSyArgs_cons_inv hr'
      have := evalSyArgs_nil_inv hr''; subst this
      simp [call, callWrapped] at hc
      have := arith2_ok hc; subst this
      have h2 : evalSyArgs I (.cons b (.cons a .nil)) = some [.num x, .num n] := by
        simp [evalSyArgs, ha, hb]
      rw [evalSy_app (by decide) h2]
      simpa [syApply] using hv
    · cases hv

theorem plainVals_map : ∀ {items : List (Role × Val)} {vs : List Val}, plainVals items = some vs → items.map (·.2) = vs := by
  intro items
  induction items with
  | nil => intro vs h; simp [plainVals] at h; simp [h]
  | cons it r ih =>
    intro vs h
    obtain ⟨ro, v⟩ := it
    cases ro <;> simp [plainVals] at h
    obtain ⟨vs', h', rfl⟩ := h
    simp [ih h']

theorem evalSyArgs_len {I : Interp} : ∀ {r : Sy} {vs : List Val}, evalSyArgs I r = some vs → r.len = vs.length := by
  intro r
  induction r with
  | nil => intro vs h; simp [evalSyArgs] at h; subst h; simp [Sy.len]
  | cons a t _ iht =>
    intro vs h
    cases vs with
    | nil => have := evalSyArgs_nil_inv h; cases this
    | cons v vs' =>
      obtain ⟨x, r', hr, _, h'⟩ := evalSyArgs_cons_inv h
      injection hr with h1 h2; subst h1; subst h2
      simp [Sy.len, iht h']
  | _ => intro vs h; simp [evalSyArgs] at h

theorem bools_map (bs : List Bool) : bools (bs.map Val.bool) = some bs := by
  induction bs with
  | nil => rfl
  | cons b r ih => simp [bools, ih]

theorem apply_fn_two (I : Interp) (n : String) (a b : Val) (rest : List Val) :
    (Meaning.fn n).apply I (a :: b :: rest) = none := by
  simp [Meaning.apply]

theorem syApply_eq_apply (I : Interp) (c : String) (vs : List Val) (v : Val) (hc : specialHeads.contains c = false)
    (h : (syMeaning c).apply I vs = some v) : syApply I c vs = some v := by
  simp only [specialHeads, List.contains_cons, List.contains_nil, Bool.or_false, Bool.or_eq_false_iff,
    beq_eq_false_iff_ne, ne_eq] at hc
  obtain ⟨_, h1, h2, h3, h4, h5, h6⟩ := hc
  unfold syApply
  simp only [h1, h2, h3, h4, h5, h6, if_false]
  split
  · rename_i hl
    obtain ⟨hcl, hlen⟩ := hl
    have hm : syMeaning c = .fn "log" := by rcases hcl with rfl | rfl <;> decide
    rw [hm] at h
    match vs, hlen with
    | [a, b], _ => simp [Meaning.apply] at h
  · exact h

theorem pairs_sound (I : Interp) (c : String) (hc : specialHeads.contains c = false) :
    ∀ (vs : List Val) (r ps : Sy) (v : Val),
      pairs c r = .ok ps → evalSyArgs I r = some vs → chain I (syMeaning c) vs = some v →
      ∃ bs : List Bool, evalSyArgs I ps = some (bs.map Val.bool) ∧ v = .bool (bs.foldr (· && ·) true) := by
  have hP : c ≠ "Piecewise" := by
    intro h; subst h; simp [specialHeads] at hc
  intro vs
  induction vs with
  | nil => intro r ps v _ _ h; simp [chain] at h
  | cons a vs' ih =>
    intro r ps v hp hr hch
    cases vs' with
    | nil => simp [chain] at hch
    | cons b rest =>
      obtain ⟨x, r1, rfl, hx, hr1⟩ := evalSyArgs_cons_inv hr
      obtain ⟨y, r2, rfl, hy, hr2⟩ := evalSyArgs_cons_inv hr1
      simp only [pairs] at hp
      split at hp
      · cases hp
      · rename_i p hpc
        have hpe := callClass_ok hpc; subst hpe
        split at hp
        · cases hp
        · rename_i ps' hps'
          injection hp with hp; subst hp
          simp only [chain] at hch
          split at hch
          · rename_i p0 hap
            have hev : evalSy I (.app c (.cons x (.cons y .nil))) = some (.bool p0) := by
              have h2 : evalSyArgs I (.cons x (.cons y .nil)) = some [a, b] := by simp [evalSyArgs, hx, hy]
              rw [evalSy_app hP h2]
              exact syApply_eq_apply I c _ _ hc hap
            cases rest with
            | nil =>
              simp at hch; subst hch
              have := evalSyArgs_nil_inv hr2; subst this
              simp [pairs] at hps'; subst hps'
              exact ⟨[p0], by simp [evalSyArgs, hev], by simp⟩
            | cons z rest' =>
              simp only at hch
              split at hch
              · rename_i q hq
                injection hch with hch; subst hch
                obtain ⟨bs, hbs, hq'⟩ := ih (.cons y r2) ps' (.bool q) hps' hr1 hq
                injection hq' with hq'
                exact ⟨p0 :: bs, by simp [evalSyArgs, hev, hbs], by simp [hq']⟩
              · cases hch
          · cases hch

theorem callRel_sound (I : Interp) (c : String) (hc : specialHeads.contains c = false) (r e : Sy) (vs : List Val) (v : Val)
    (hcall : callRel c r = .ok e) (hr : evalSyArgs I r = some vs) (hch : chain I (syMeaning c) vs = some v) :
    evalSy I e = some v := by
  have hP : c ≠ "Piecewise" := by
    intro h; subst h; simp [specialHeads] at hc
  have hlen := evalSyArgs_len hr
  unfold callRel at hcall
  split at hcall
  · -- more than two operands: And of the adjacent pairs
    split at hcall
    · cases hcall
    · rename_i ps hps
      injection hcall with hcall; subst hcall
      obtain ⟨bs, hbs, rfl⟩ := pairs_sound I c hc vs r ps v hps hr hch
      rw [evalSy_app (by decide) hbs]
      simp [syApply, syMeaning, syTable, List.lookup, Meaning.apply, bools_map]
  · rename_i hle
    have hcc : callClass c r = .ok e := by
      split at hcall
      · split at hcall <;> cases hcall
      · split at hcall
        · cases hcall
        · exact hcall
    have := callClass_ok hcc; subst this
    rw [evalSy_app hP hr]
    -- chain on at most two values: exactly two
    match vs, hch, hlen with
    | [a, b], hch, _ =>
      simp only [chain] at hch
      split at hch
      · rename_i p hp
        simp at hch; subst hch
        exact syApply_eq_apply I c _ _ hc hp
      · cases hch
    | a :: b :: z :: rest, _, hlen => simp [hlen] at hle
    | [], hch, _ => simp [chain] at hch
    | [a], hch, _ => simp [chain] at hch

theorem nary_relations_eq : Gen.naryRelations = mmlNaryRelations := by decide

theorem call_sound_simple (I : Interp) (op : String) (opk : Mml) (f r e : Sy) (items : List (Role × Val)) (v : Val)
    (h1 : op ≠ "minus") (h2 : op ≠ "divide") (h3 : op ≠ "power") (h4 : op ≠ "root") (h5 : op ≠ "log")
    (hrem : op ≠ "rem")
    (hf : transpile (.el op opk) = .ok f) (hc : call f r = .ok e)
    (hargs : evalSyArgs I r = some (items.map (·.2)))
    (hv : applyOp I op items = some v) : evalSy I e = some v := by
  simp only [applyOp, h1, h2, h3, h4, h5, if_false] at hv
  cases hp : plainVals items with
  | none => simp [hp] at hv
  | some vs =>
    cases hm : mmlMeaning op with
    | none => simp [hp, hm] at hv
    | some m =>
      simp only [hp, hm] at hv
      rw [plainVals_map hp] at hargs
      -- the tag is a key of the generated table
      have hmem := lookup_mem _ _ _ hm
      have hk := mmlKeysCheck_ok
      simp only [mmlKeysCheck, List.all_eq_true] at hk
      have hk1 := hk _ hmem
      simp only [Bool.and_eq_true] at hk1
      obtain ⟨c, hcl⟩ := Option.isSome_iff_exists.mp hk1.1
      have hmem2 := lookup_mem _ _ _ hcl
      have ht := tableCheck_ok
      simp only [tableCheck, List.all_eq_true] at ht
      have ht1 := ht _ hmem2
      simp only [Bool.and_eq_true, Bool.or_eq_true, beq_iff_eq, Bool.not_eq_true'] at ht1
      obtain ⟨⟨⟨⟨_, hsp⟩, _⟩, hconst⟩, hmean⟩ := ht1
      have hmc : m = syMeaning c := by
        rcases hmean with hr | hmm
        · exact absurd hr hrem
        · rw [hm] at hmm; injection hmm
      subst hmc
      rw [transpile_simple _ _ _ hcl] at hf
      injection hf with hf; subst hf
      by_cases hn : op ∈ Gen.naryRelations
      · have hn' : op ∈ mmlNaryRelations := nary_relations_eq ▸ hn
        simp only [hn, if_true, call] at hc
        simp only [hn', if_true] at hv
        exact callRel_sound I c hsp r e vs v hc hargs hv
      · have hn' : op ∉ mmlNaryRelations := nary_relations_eq ▸ hn
        simp only [hn, if_false] at hc
        simp only [hn', if_false] at hv
        by_cases hcon : c ∈ sympyConstants
        · simp [hcon, call] at hc
        · simp only [hcon, if_false, call] at hc
          have := callClass_ok hc; subst this
          have hP : c ≠ "Piecewise" := by
            intro h; subst h; simp [specialHeads] at hsp
          rw [evalSy_app hP hargs]
          exact syApply_eq_apply I c _ _ hsp hv

/-- `result[0](*result[1:])` computes what MathML 2 says the operator applied to those operands means -/
theorem call_sound (I : Interp) (op : String) (opk : Mml) (f r e : Sy) (items : List (Role × Val)) (v : Val)
    (hrem : op ≠ "rem")
    (hf : transpile (.el op opk) = .ok f) (hc : call f r = .ok e)
    (hargs : evalSyArgs I r = some (items.map (·.2)))
    (hv : applyOp I op items = some v) : evalSy I e = some v := by
  by_cases h1 : op = "minus"
  · exact call_sound_wrapped I op opk f r e items v (Or.inl h1) hf hc hargs hv
  by_cases h2 : op = "divide"
  · exact call_sound_wrapped I op opk f r e items v (Or.inr (Or.inl h2)) hf hc hargs hv
  by_cases h3 : op = "power"
  · exact call_sound_wrapped I op opk f r e items v (Or.inr (Or.inr (Or.inl h3))) hf hc hargs hv
  by_cases h4 : op = "root"
  · exact call_sound_wrapped I op opk f r e items v (Or.inr (Or.inr (Or.inr (Or.inl h4)))) hf hc hargs hv
  by_cases h5 : op = "log"
  · exact call_sound_wrapped I op opk f r e items v (Or.inr (Or.inr (Or.inr (Or.inr h5)))) hf hc hargs hv
  exact call_sound_simple I op opk f r e items v h1 h2 h3 h4 h5 hrem hf hc hargs hv

/-! ### structure -/

def Mml.size : Mml → Nat
  | .cons h t => 1 + h.size + t.size
  | .el _ kids => 1 + kids.size
  | _ => 1

/-- no `<rem/>` anywhere (known finding: sympy.Mod has the divisor's sign) -/
def Mml.remFree : Mml → Bool
  | .cons h t => h.remFree && t.remFree
  | .el tag kids => tag != "rem" && kids.remFree
  | _ => true

/-- no `<apply>` with exactly one child (known finding: it returns the child itself) -/
def Mml.noNullary : Mml → Bool
  | .cons h t => h.noNullary && t.noNullary
  | .el tag kids => !(tag == "apply" && kids.len == 1) && kids.noNullary
  | _ => true

theorem cn_sound (ty : Option String) (text : Option String) (kids : List (Bool × Option String)) (e : Sy) (q : Rat)
    (h : cnHandler ty text kids = .ok e) (hq : cnMeaning ty text kids = some q) : e = .num q := by
  unfold cnMeaning at hq
  split at hq
  · -- plain
    rename_i s
    simp only [specNumeral] at hq
    split at hq
    · cases hq
    · split at hq
      · rename_i q' hf
        injection hq with hq; subst hq
        simp [cnHandler, hf, ofFVal] at h
        exact h.symm
      · cases hq
  · rename_i t m k
    split at hq
    · rename_i ht
      subst ht
      simp only [specNumeralExp] at hq
      split at hq
      · cases hq
      · split at hq
        · cases hq
        · rename_i ex hex
          split at hq
          · rename_i q' hf
            injection hq with hq; subst hq
            simp [cnHandler, hex, hf, ofFVal] at h
            exact h.symm
          · cases hq
    · cases hq
  · cases hq

abbrev SoundAt (I : Interp) (k : Mml) : Prop :=
  k.noNullary = true → k.remFree = true → ∀ e v, transpile k = .ok e → evalMml I k = some v → evalSy I e = some v

theorem handlerOf_degree : handlerOf "degree" = some "_degree_handler" := by decide +kernel
theorem handlerOf_logbase : handlerOf "logbase" = some "_logbase_handler" := by decide +kernel
theorem handlerOf_apply : handlerOf "apply" = some "_apply_handler" := by decide +kernel
theorem handlerOf_piecewise : handlerOf "piecewise" = some "_piecewise_handler" := by decide +kernel
theorem handlerOf_piece : handlerOf "piece" = some "_piece_handler" := by decide +kernel
theorem handlerOf_otherwise : handlerOf "otherwise" = some "_otherwise_handler" := by decide +kernel

theorem transpile_container (tag m : String) (kids : Mml) (h : handlerOf tag = some m)
    (h1 : (m == "_simple_operator_handler") = false) (h2 : m ∉ wrappedHandlers) (h3 : (m == "transpile") = false) :
    transpile (.el tag kids) = (match transpile kids with | .error e => .error e | .ok r => assemble m r) := by
  simp only [transpile, h, h1, h3]
  simp [h2]
  cases transpile kids <;> rfl

theorem transpile_cons_ok {h t : Mml} {r : Sy} (hr : transpile (.cons h t) = .ok r) :
    ∃ a r', r = .cons a r' ∧ transpile h = .ok a ∧ transpile t = .ok r' := by
  simp only [transpile] at hr
  split at hr
  · cases hr
  · rename_i a ha
    split at hr
    · cases hr
    · rename_i r' hr'
      injection hr with hr
      exact ⟨a, r', hr.symm, ha, hr'⟩

def innerVal (I : Interp) : Mml → Option Val
  | .el _ (.cons d .nil) => evalMml I d
  | _ => none

theorem evalItems_cons (I : Interp) (k rest : Mml) :
    evalItems I (.cons k rest) = consItem (itemOf k (evalMml I k) (innerVal I k)) (evalItems I rest) := by
  cases k with
  | el tag kids =>
    cases kids with
    | cons d t =>
      cases t <;> simp only [evalItems, innerVal]
    | _ => simp only [evalItems, innerVal]
  | _ => simp only [evalItems, innerVal]

theorem evalMml_apply (I : Interp) (op : String) (opk rest : Mml) :
    evalMml I (.el "apply" (.cons (.el op opk) rest)) = applySem I op (evalItems I rest) := by
  simp only [evalMml, if_true]

theorem evalMml_piecewise (I : Interp) (kids : Mml) : evalMml I (.el "piecewise" kids) = evalPieces I kids := by
  cases kids with
  | cons k t => cases k <;> simp [evalMml]
  | _ => simp [evalMml]

theorem evalMml_el_inv (I : Interp) (tag : String) (kids : Mml) (v : Val) (h : evalMml I (.el tag kids) = some v) :
    (tag = "apply" ∧ ∃ op opk rest items, kids = .cons (.el op opk) rest ∧ evalItems I rest = some items ∧
        applyOp I op items = some v) ∨
    (tag = "piecewise" ∧ evalPieces I kids = some v) ∨
    (tag ≠ "apply" ∧ tag ≠ "piecewise" ∧ ∃ m, mmlMeaning tag = some m ∧ m.constVal I = some v) := by
  by_cases ha : tag = "apply"
  · subst ha
    left; refine ⟨rfl, ?_⟩
    cases kids with
    | cons k rest =>
      cases k with
      | el op opk =>
        rw [evalMml_apply] at h
        cases hi : evalItems I rest with
        | none => simp [hi, applySem] at h
        | some items => simp [hi, applySem] at h; exact ⟨op, opk, rest, items, rfl, hi, h⟩
      | _ => simp [evalMml] at h
    | _ => simp [evalMml] at h
  · by_cases hp : tag = "piecewise"
    · subst hp; right; left; rw [evalMml_piecewise] at h; exact ⟨rfl, h⟩
    · right; right; refine ⟨ha, hp, ?_⟩
      have : evalMml I (.el tag kids) = constSem I tag := by
        cases kids with
        | cons k t => cases k <;> simp [evalMml, ha, hp]
        | _ => simp [evalMml, ha, hp]
      rw [this] at h
      unfold constSem at h
      cases hm : mmlMeaning tag with
      | none => simp [hm] at h
      | some m => simp [hm] at h; exact ⟨m, rfl, h⟩

theorem evalPieces_inv (I : Interp) (t : Mml) (v : Val) (h : evalPieces I t = some v) :
    (∃ e c rest, t = .cons (.el "piece" (.cons e (.cons c .nil))) rest ∧
        pieceSem (evalMml I c) (evalMml I e) (evalPieces I rest) = some v) ∨
    (∃ e, t = .cons (.el "otherwise" (.cons e .nil)) .nil ∧ evalMml I e = some v) := by
  cases t with
  | cons k rest =>
    cases k with
    | el tag pk =>
      cases pk with
      | cons e pk1 =>
        cases pk1 with
        | nil =>
          cases rest with
          | nil =>
            simp only [evalPieces] at h
            split at h
            · rename_i ht; subst ht; exact Or.inr ⟨e, rfl, h⟩
            · cases h
          | _ => simp [evalPieces] at h
        | cons c pk2 =>
          cases pk2 with
          | nil =>
            simp only [evalPieces] at h
            split at h
            · rename_i ht; subst ht; exact Or.inl ⟨e, c, rest, rfl, h⟩
            · cases h
          | _ => simp [evalPieces] at h
        | _ => simp [evalPieces] at h
      | _ => simp [evalPieces] at h
    | _ => simp [evalPieces] at h
  | _ => simp [evalPieces] at h

theorem innerVal_inv (I : Interp) (k : Mml) (v : Val) (h : innerVal I k = some v) :
    ∃ tag d, k = .el tag (.cons d .nil) ∧ evalMml I d = some v := by
  cases k with
  | el tag kids =>
    cases kids with
    | cons d t =>
      cases t with
      | nil => exact ⟨tag, d, rfl, by simpa [innerVal] using h⟩
      | _ => simp [innerVal] at h
    | _ => simp [innerVal] at h
  | _ => simp [innerVal] at h

theorem items_sound (I : Interp) (N : Nat) (H : ∀ k : Mml, k.size < N → SoundAt I k) :
    ∀ (rest : Mml), rest.size ≤ N → rest.noNullary = true → rest.remFree = true →
      ∀ r items, transpile rest = .ok r → evalItems I rest = some items → evalSyArgs I r = some (items.map (·.2)) := by
  intro rest
  induction rest with
  | nil =>
    intro _ _ _ r items hr hi
    simp [transpile] at hr; subst hr
    simp [evalItems] at hi; subst hi
    simp [evalSyArgs]
  | cons k rest' _ ih =>
    intro hs hn hrf r items hr hi
    obtain ⟨a, r', rfl, ha, hr'⟩ := transpile_cons_ok hr
    simp only [Mml.size] at hs
    simp only [Mml.noNullary, Bool.and_eq_true] at hn
    simp only [Mml.remFree, Bool.and_eq_true] at hrf
    rw [evalItems_cons] at hi
    unfold consItem at hi
    split at hi
    · rename_i it its hit hits
      injection hi with hi; subst hi
      have hrest := ih (by omega) hn.2 hrf.2 r' its hr' hits
      suffices hka : evalSy I a = some it.2 by simp [evalSyArgs, hka, hrest]
      unfold itemOf at hit
      split at hit
      · -- plain operand
        cases hk : evalMml I k with
        | none => simp [hk] at hit
        | some v => simp [hk] at hit; subst hit; exact H k (by omega) hn.1 hrf.1 a v ha hk
      · rename_i ro hro
        cases hk : innerVal I k with
        | none => simp [hk] at hit
        | some v =>
          simp [hk] at hit; subst hit
          obtain ⟨tag, d, rfl, hd⟩ := innerVal_inv I k v hk
          simp only [Mml.noNullary, Mml.remFree, Bool.and_eq_true, Mml.size] at hn hrf hs
          have Hd := H d (by omega) hn.1.2.1 hrf.1.2.1
          simp only [Mml.qualifierRole] at hro
          split at hro
          · rename_i htag; subst htag
            rw [transpile_container _ _ _ handlerOf_degree (by decide) (by decide) (by decide)] at ha
            split at ha
            · cases ha
            · rename_i rr hrr
              obtain ⟨d', r'', rfl, hd', hnil⟩ := transpile_cons_ok hrr
              simp [transpile] at hnil; subst hnil
              simp [assemble] at ha; subst ha
              exact Hd d' v hd' hd
          · split at hro
            · rename_i htag; subst htag
              rw [transpile_container _ _ _ handlerOf_logbase (by decide) (by decide) (by decide)] at ha
              split at ha
              · cases ha
              · rename_i rr hrr
                obtain ⟨d', r'', rfl, hd', hnil⟩ := transpile_cons_ok hrr
                simp [assemble] at ha; subst ha
                exact Hd d' v hd' hd
            · cases hro
    · cases hi
  | _ => intro _ _ _ r items _ hi; simp [evalItems] at hi

theorem evalSy_true (I : Interp) : evalSy I (.const "true") = some (.bool true) := by
  simp [evalSy, syMeaning, syTable, List.lookup, Meaning.constVal]

theorem pieces_sound (I : Interp) (N : Nat) (H : ∀ k : Mml, k.size < N → SoundAt I k) :
    ∀ (t : Mml), t.size ≤ N → t.noNullary = true → t.remFree = true →
      ∀ r v, transpile t = .ok r → evalPieces I t = some v → evalSyPieces I r = some v := by
  intro t
  induction t with
  | cons k rest _ ih =>
    intro hs hn hrf r v hr hv
    obtain ⟨a, r', rfl, ha, hr'⟩ := transpile_cons_ok hr
    rcases evalPieces_inv I _ v hv with ⟨e, c, rest2, heq, hps⟩ | ⟨e, heq, hev⟩
    · injection heq with hk hrest; subst hk; subst hrest
      simp only [Mml.noNullary, Mml.remFree, Bool.and_eq_true, Mml.size] at hn hrf hs
      rw [transpile_container _ _ _ handlerOf_piece (by decide) (by decide) (by decide)] at ha
      split at ha
      · cases ha
      · rename_i rr hrr
        obtain ⟨e', r1, rfl, he', hr1⟩ := transpile_cons_ok hrr
        obtain ⟨c', r2, rfl, hc', hr2⟩ := transpile_cons_ok hr1
        simp [transpile] at hr2; subst hr2
        simp [assemble] at ha; subst ha
        have He := H e (by omega) hn.1.2.1 hrf.1.2.1
        have Hc := H c (by omega) hn.1.2.2.1 hrf.1.2.2.1
        unfold pieceSem at hps
        split at hps
        · rename_i hcv
          simp only [evalSyPieces, Hc c' _ hc' hcv]
          exact He e' v he' hps
        · rename_i hcv
          simp only [evalSyPieces, Hc c' _ hc' hcv]
          exact ih (by omega) hn.2 hrf.2 r' v hr' hps
        · cases hps
    · injection heq with hk hrest; subst hk; subst hrest
      simp only [Mml.noNullary, Mml.remFree, Bool.and_eq_true, Mml.size] at hn hrf hs
      rw [transpile_container _ _ _ handlerOf_otherwise (by decide) (by decide) (by decide)] at ha
      split at ha
      · cases ha
      · rename_i rr hrr
        obtain ⟨e', r1, rfl, he', hr1⟩ := transpile_cons_ok hrr
        simp [transpile] at hr1; subst hr1
        simp [assemble] at ha; subst ha
        have He := H e (by omega) hn.1.2.1 hrf.1.2.1
        simp only [evalSyPieces, evalSy_true]
        exact He e' v he' hev
  | _ => intro _ _ _ r v _ hv; simp [evalPieces] at hv

theorem sound_aux (I : Interp) : ∀ (n : Nat) (t : Mml), t.size < n → SoundAt I t := by
  intro n
  induction n with
  | zero => intro t h; omega
  | succ n ih =>
    intro t hs hn hrf e v ht hv
    cases t with
    | nil => simp [evalMml] at hv
    | cons h t => simp [evalMml] at hv
    | ci name =>
      simp [transpile] at ht; subst ht
      simp [evalMml] at hv; subst hv
      simp [evalSy]
    | cn ty text kids =>
      simp only [transpile] at ht
      simp only [evalMml] at hv
      cases hq : cnMeaning ty text kids with
      | none => simp [hq] at hv
      | some q =>
        simp [hq] at hv; subst hv
        have := cn_sound ty text kids e q ht hq; subst this
        simp [evalSy]
    | el tag kids =>
      simp only [Mml.size] at hs
      simp only [Mml.noNullary, Mml.remFree, Bool.and_eq_true] at hn hrf
      rcases evalMml_el_inv I tag kids v hv with ⟨rfl, op, opk, rest, items, rfl, hitems, hop⟩ | ⟨rfl, hpw⟩ |
          ⟨hna, hnp, m, hm, hcv⟩
      · -- apply
        rw [transpile_container _ _ _ handlerOf_apply (by decide) (by decide) (by decide)] at ht
        split at ht
        · cases ht
        · rename_i rr hrr
          obtain ⟨f, r, rfl, hf, hr⟩ := transpile_cons_ok hrr
          simp only [Mml.noNullary, Mml.remFree, Bool.and_eq_true, Mml.size, Mml.len] at hn hrf hs
          have hargs := items_sound I n (fun k hk => ih k hk) rest (by omega) hn.2.2 hrf.2.2 r items hr hitems
          have hrem : op ≠ "rem" := by
            have := hrf.2.1.1; simpa using this
          cases r with
          | nil =>
            -- exactly one child: excluded by `noNullary`
            exfalso
            cases rest with
            | nil => simp [Mml.len] at hn
            | cons k rest' => obtain ⟨_, _, h0, _, _⟩ := transpile_cons_ok hr; cases h0
            | _ => simp [evalItems] at hitems
          | cons a r' =>
            have hc : call f (.cons a r') = .ok e := by simpa [assemble] using ht
            exact call_sound I op opk f _ e items v hrem hf hc hargs hop
          | _ =>
            exfalso
            cases rest with
            | nil => simp [transpile] at hr
            | cons k rest' => obtain ⟨_, _, h0, _, _⟩ := transpile_cons_ok hr; cases h0
            | _ => simp [evalItems] at hitems
      · -- piecewise
        rw [transpile_container _ _ _ handlerOf_piecewise (by decide) (by decide) (by decide)] at ht
        split at ht
        · cases ht
        · rename_i r hr
          have hp := pieces_sound I n (fun k hk => ih k hk) kids (by omega) hn.2 hrf.2 r v hr hpw
          have he : e = .app "Piecewise" r := by
            simp only [assemble] at ht
            simp at ht
            split at ht
            · split at ht
              · cases ht
              · split at ht
                · cases ht
                · split at ht
                  · cases ht
                  · injection ht with ht; exact ht.symm
            · cases ht
          subst he
          simp [evalSy, hp]
      · -- a constant element
        have hmem := lookup_mem _ _ _ hm
        have hk := mmlKeysCheck_ok
        simp only [mmlKeysCheck, List.all_eq_true] at hk
        have hk1 := hk _ hmem
        simp only [Bool.and_eq_true] at hk1
        obtain ⟨c, hcl⟩ := Option.isSome_iff_exists.mp hk1.1
        have hmem2 := lookup_mem _ _ _ hcl
        have htc := tableCheck_ok
        simp only [tableCheck, List.all_eq_true] at htc
        have ht1 := htc _ hmem2
        simp only [Bool.and_eq_true, Bool.or_eq_true, beq_iff_eq, Bool.not_eq_true'] at ht1
        obtain ⟨⟨⟨⟨_, _⟩, _⟩, hconst⟩, hmean⟩ := ht1
        have hmc : m = syMeaning c := by
          rcases hmean with hr | hmm
          · subst hr
            have : m = .rem := by
              have : mmlMeaning "rem" = some .rem := by decide
              rw [this] at hm; injection hm with hm; exact hm.symm
            subst this; simp [Meaning.constVal] at hcv
          · rw [hm] at hmm; injection hmm
        subst hmc
        have hic : (syMeaning c).isConst = true := by
          cases hsm : syMeaning c <;> simp [hsm, Meaning.constVal] at hcv <;> simp [Meaning.isConst]
        simp only [hic, if_true, Bool.and_eq_true, Bool.not_eq_true'] at hconst
        rw [transpile_simple _ _ _ hcl] at ht
        have h1 : tag ∉ Gen.naryRelations := by
          intro hin
          have := hconst.2
          simp [hin] at this
        have h2 : c ∈ sympyConstants := by
          have := hconst.1
          simpa [List.contains_iff_mem] using this
        simp only [h1, h2, if_true, if_false] at ht
        injection ht with ht; subst ht
        simpa [evalSy] using hcv

end C02
