import Cellml.C18.Model
import Cellml.C18.InferClass

/-! C18 — every number in every equation keeps a real unit, through every manipulation.

    `AllUnits s`: every atom (quantity or variable) of every equation of `s` carries a unit of the model's own store.
    Shown for the loaded model, preserved by every operation, hence true after every history — for user-built equations
    under the documented contract of `add_equation` (`Step.contract`), which is automatic for every library operation.
    The code before commit 50d6d1a (`Variant.today`) is kept in the model with its proved counterexample. -/

namespace Cellml.Props.C18
open _root_.C18

/-- every atom of every equation has a unit of the model's store -/
def AllUnits (s : MState) : Prop := ∀ e ∈ s.eqs, ∀ i ∈ e, s.pool[i]? = some (.ofStore s.storeId)

instance (s : MState) : Decidable (AllUnits s) := by unfold AllUnits; infer_instance

/-- every object the model ever showed has a unit of the store (stronger: also objects no equation mentions now) -/
def PoolOk (s : MState) : Prop := ∀ r ∈ s.pool, r = .ofStore s.storeId

/-- equations mention existing objects only -/
def Scoped (s : MState) : Prop := ∀ e ∈ s.eqs, ∀ i ∈ e, i < s.pool.length

structure Inv (s : MState) : Prop where
  pool : PoolOk s
  inScope : Scoped s

theorem allunits_of_inv {s : MState} (h : Inv s) : AllUnits s := by
  intro e he i hi
  have hlt := h.inScope e he i hi
  rw [List.getElem?_eq_getElem hlt]
  exact congrArg some (h.pool _ (List.getElem_mem hlt))

/-- the factory, when it returns, returns a quantity with a unit of the store — whatever it was given -/
theorem createQuantity_ofStore {sid : Nat} {a : UnitArg} {r : UnitRef} (h : createQuantity sid a = .ok r) :
    r = .ofStore sid := by
  cases a <;> simp [createQuantity] at h <;> exact h.symm

/-- … and it refuses what it cannot tie to the store: a unit of another registry, an unknown name, `None` -/
theorem createQuantity_refuses (sid reg : Nat) :
    createQuantity sid (.foreignUnit reg) = .error .keyError ∧ createQuantity sid .unknownName = .error .keyError ∧
    createQuantity sid .noneArg = .error .keyError := ⟨rfl, rfl, rfl⟩

/-- after the repair every creation site hangs a unit of the store on what it creates -/
theorem creatorRef_fixed {sid : Nat} {c : Creator} (h : c.obeys sid = true) : creatorRef .fixed sid c = .ofStore sid := by
  cases c <;> simp_all [creatorRef, Creator.obeys]

/-- a library operation cannot reach the caller's `raw` site: for it the contract is automatic -/
theorem legal_obeys {op : Op} {c : Creator} (sid : Nat) (hop : op ≠ .userEdit) (h : legal op c = true) :
    c.obeys sid = true := by
  cases c <;> simp_all [Creator.obeys]
  cases op <;> simp_all [legal]

theorem contract_automatic {s : MState} {st : Step} (hop : st.op ≠ .userEdit) (hok : st.ok s = true) :
    st.contract s.storeId = true := by
  simp only [Step.ok, Bool.and_eq_true, List.all_eq_true] at hok
  simp only [Step.contract, List.all_eq_true]
  exact fun c hc => legal_obeys _ hop (hok.1 c hc)

@[simp] theorem step_storeId (v : Variant) (s : MState) (st : Step) : (step v s st).storeId = s.storeId := by
  unfold step; split <;> rfl

theorem inv_init (sid : Nat) : Inv (init sid) := ⟨by intro r hr; simp [init] at hr, by intro e he; simp [init] at he⟩

/-- the step theorem: every operation, under the contract for what the caller supplies, preserves the invariant -/
theorem inv_step {s : MState} {st : Step} (h : Inv s) (hc : st.contract s.storeId = true) : Inv (step .fixed s st) := by
  unfold step
  split
  · rename_i hok
    simp only [Step.ok, Bool.and_eq_true, List.all_eq_true] at hok
    simp only [Step.contract, List.all_eq_true] at hc
    refine ⟨?_, ?_⟩
    · intro r hr
      simp only [List.mem_append, List.mem_map] at hr
      rcases hr with hr | ⟨c, hcm, rfl⟩
      · exact h.pool r hr
      · exact creatorRef_fixed (hc c hcm)
    · intro e he i hi
      have := hok.2 e he i hi
      simp only [decide_eq_true_eq] at this
      simpa [List.length_append, List.length_map] using this
  · exact h

/-- every public operation keeps `AllUnits` (the invariant carries it) -/
theorem allunits_step {s : MState} {st : Step} (h : Inv s) (hc : st.contract s.storeId = true) :
    AllUnits (step .fixed s st) := allunits_of_inv (inv_step h hc)

/-- library operations need no hypothesis at all: `convert_variable`, `remove_fixable_singularities`, the unit-fix
    write-back, `remove_equation`, the loader, an operation on another model -/
theorem inv_step_library {s : MState} {st : Step} (h : Inv s) (hop : st.op ≠ .userEdit) : Inv (step .fixed s st) := by
  by_cases hok : st.ok s = true
  · exact inv_step h (contract_automatic hop hok)
  · unfold step; simp [hok]; exact h

theorem inv_load (sid : Nat) (creates : List Creator) (eqs : List (List Nat)) : Inv (load .fixed sid creates eqs) :=
  inv_step_library (inv_init sid) (by simp)

/-- the loaded model: cn literals, connection conversion factors, `transform_constants`, variables -/
theorem allunits_load (sid : Nat) (creates : List Creator) (eqs : List (List Nat)) :
    AllUnits (load .fixed sid creates eqs) := allunits_of_inv (inv_load sid creates eqs)

theorem inv_run {s : MState} (steps : List Step) (h : Inv s)
    (hc : ∀ st ∈ steps, st.op = .userEdit → st.contract s.storeId = true) : Inv (run .fixed s steps) := by
  induction steps generalizing s with
  | nil => exact h
  | cons st rest ih =>
      simp only [run, List.foldl_cons]
      have hst : Inv (step .fixed s st) := by
        by_cases hop : st.op = .userEdit
        · exact inv_step h (hc st (List.mem_cons_self) hop)
        · exact inv_step_library h hop
      exact ih hst (fun st' hm hop => by simpa using hc st' (List.mem_cons_of_mem _ hm) hop)

/-- the property: after loading and ANY sequence of operations (user edits obeying the contract of `add_equation`),
    every atom of every equation carries a unit of the model's store -/
theorem allunits_reachable (sid : Nat) (creates : List Creator) (eqs : List (List Nat)) (steps : List Step)
    (hc : ∀ st ∈ steps, st.op = .userEdit → st.contract sid = true) :
    AllUnits (run .fixed (load .fixed sid creates eqs) steps) :=
  allunits_of_inv (inv_run steps (inv_load sid creates eqs) (by simpa [load, init] using hc))

/-- several models in one process: an operation on one of them leaves the invariant of all -/
theorem inv_world {w : World} (who : Nat) (st : Step) (h : ∀ s ∈ w, Inv s)
    (hc : ∀ s, w[who]? = some s → st.contract s.storeId = true) : ∀ s ∈ wstep .fixed w who st, Inv s := by
  unfold wstep
  cases hw : w[who]? with
  | none => simpa using h
  | some s0 =>
      intro s hs
      rcases List.mem_or_eq_of_mem_set hs with hs | rfl
      · exact h s hs
      · exact inv_step (h s0 (List.mem_of_getElem? hw)) (hc s0 hw)

/-- what `convert_variable` is said to create, it has a site for -/
theorem convertCreates_legal (cf : CF) (d : Dir) (r : Role) (n : Nat) :
    ∀ c ∈ convertCreates cf d r n, legal (.convertVariable cf d r n) c = true := by
  intro c hc
  cases cf <;> cases d <;> cases r <;> simp [convertCreates, List.mem_replicate] at hc <;>
    first
    | (rcases hc with rfl | rfl | rfl <;> simp [legal])
    | (rcases hc with rfl | rfl | ⟨_, rfl⟩ <;> simp [legal])
    | (rcases hc with rfl | rfl <;> simp [legal])

/-! ### the code before commit 50d6d1a, and the contract -/

/-- a loaded model `x = 3·U/(exp U − 1)`: variables `x`, `V`, three literals -/
def demo : MState := load .fixed 0 [.loaderVariable, .loaderVariable, .cnLiteral, .cnLiteral, .cnLiteral] [[0, 2, 3, 1, 4]]

/-- singularity removal replaces the equation; the new one mentions two range bounds and `ONE` -/
def demoSing : Step :=
  { op := .removeSingularities, creates := [.singQuantity, .singQuantity, .singQuantity],
    eqs := [.atoms [0, 5, 1, 6, 2, 3, 4, 7]] }

/-- proved counterexample for the code before the repair: singularity removal plants bare strings -/
theorem today_plants_strings : AllUnits demo ∧ ¬ AllUnits (step .today demo demoSing) := by decide

/-- the same step after the repair -/
theorem fixed_plants_units : AllUnits (step .fixed demo demoSing) := by decide

/-- the contract of `add_equation` is needed: a directly constructed quantity breaks the property -/
theorem contract_needed :
    AllUnits demo ∧ ¬ AllUnits (step .fixed demo { op := .userEdit, creates := [.newVariable, .raw .bareString],
                                                   eqs := [.keep 0, .atoms [5, 6, 0]] }) := by decide

/-! ### non-vacuity -/

example : Inv demo := inv_load _ _ _
example : demo.pool.length = 5 ∧ demo.eqs = [[0, 2, 3, 1, 4]] := by decide
example : (step .fixed demo demoSing).pool.length = 8 := by decide
/-- a history load → convert_variable (INPUT, state) → singularity removal → user equation → unit-fix write-back -/
def demoHistory : List Step :=
  [ { op := .convertVariable .number .input .state 1, creates := convertCreates .number .input .state 1,
      eqs := [.keep 0, .atoms [6, 7, 5], .atoms [1, 6, 5]] },
    { op := .removeSingularities, creates := [.singQuantity, .singQuantity], eqs := [.atoms [0, 2, 3, 1, 4, 8, 9], .keep 1, .keep 2] },
    { op := .userEdit, creates := [.newVariable, .factoryQuantity], eqs := [.keep 0, .keep 1, .keep 2, .atoms [10, 11, 1]] },
    { op := .fixWriteBack, creates := [.maybeConvert], eqs := [.keep 0, .keep 1, .keep 2, .atoms [10, 12, 11, 1]] } ]
example : ∀ st ∈ demoHistory, st.op = .userEdit → st.contract 0 = true := by decide
example : (run .fixed demo demoHistory).pool.length = 13 ∧ (run .fixed demo demoHistory).eqs.length = 4 := by decide
example : AllUnits (run .fixed demo demoHistory) := allunits_reachable 0 _ _ demoHistory (by decide)
example : ¬ AllUnits (run .today demo demoHistory) := by decide

/-! ### inference answers with a unit or a `UnitError` (against the C04 model of `UnitCalculator.traverse`) -/

/-- On expressions of the common expression type — whose quantity and variable atoms carry unit containers of the store
    by construction; a quantity with a string unit is not representable as `qty` — `traverse` returns a unit, a
    `UnitError`, or one of the three magnitude-arithmetic exceptions recorded as known findings of C04. -/
theorem infer_total_class (reg : Registry) (Γ : VarEnv) (e : E) (w : String)
    (h : Infer.traverse reg Γ e = .error (.otherException w)) :
    w = "ZeroDivisionError" ∨ w = "OverflowError" ∨ w = "TypeError" :=
  InferClass.traverse_class reg Γ e w h

/-- … and without powers, derivatives, floor / ceiling and exp there is no such exception at all -/
theorem infer_total_class_strict (reg : Registry) (Γ : VarEnv) (e : E) (hm : InferClass.noMagnitudeOps e = true)
    (w : String) : Infer.traverse reg Γ e ≠ .error (.otherException w) :=
  InferClass.traverse_strict reg Γ e hm w

end Cellml.Props.C18
