"""Code-translator spec (see harness/translate_code.py and harness/code_specs/__init__.py): cellmlmanip/printer.py.

Every method is translated with OPEN RECURSION: `self._print(x)` (SymPy's dispatch back into the `_print_*` methods) is
the parameter `print : E -> Except PyErr String` of the generated definition. Calls between translated methods
(`self._bracket`, `self._bracket_args`, `self._print_ordinary_pow`, `self._print_ternary`, `self._print_float`, ...)
stay calls between generated definitions. Everything else bound below is a SymPy / python leaf."""

SIG1 = '(print : E → Except PyErr String) (expr : E) : Except PyErr String'

# leaves shared by all methods
COMMON = [
    ('self._print(__A)', '← print {A}'),
    ('self._bracket(__A, __B)', '← bracket print {A} {B}'),
    ('self._bracket_args(__A, __B)', '← bracketArgs print {A} {B}'),
    ('precedence(__A)', '(prec {A})'),                      # sympy.printing.precedence.precedence
    ("PRECEDENCE['Mul']", '(50 : Nat)'),                    # sympy.printing.precedence.PRECEDENCE (SymPy's table)
    ("PRECEDENCE['Pow']", '(60 : Nat)'),
    ('isinstance(__A, sympy.Pow)', '(isPow {A})'),
    ('__A.is_commutative', '(comm {A})'),
    ('-__A is sympy.S.Half', '(negIsHalf {A})'),            # SymPy evaluates the negation, `is` on a singleton
    ('-__A is sympy.S.One', '(negIsOne {A})'),
    ('__A is sympy.S.Half', '(isHalf {A})'),
    ('__A.exp', '(expOf {A})'),
    ('__A.base', '(baseOf {A})'),
    ('__A.lhs', '(lhsOf {A})'),
    ('__A.rhs', '(rhsOf {A})'),
    ('__A.rel_op', '(relOp {A})'),
    ('__A.func.__name__', '(funcName {A})'),
    ('self._function_names[__A]', '← fnNamesIdx {A}'),
    ('self._function_names.get(__A, None)', '(fnNamesGet {A})'),
    ('self._literal_names[__A]', '← litNamesIdx {A}'),
    ('str(__A)', '(PyStr.str {A})'),
    ('__A.p', '(pOf {A})'),
    ('__A.q', '(qOf {A})'),
    ('float(__A)', '(floatOf {A})'),
    ('__A.args', '(argsOf {A})'),
]

GROUP = {
    'name': 'Printer',
    'imports': ['Cellml.Tie.PrinterView'],
    'header': 'open Cellml.Tie.PPrinter\nopen C11',
    'patterns': COMMON,
    'functions': [
        {'file': 'cellmlmanip/printer.py', 'func': 'Printer._bracket', 'lean_name': 'bracket',
         'signature': '(print : E → Except PyErr String) (expr : E) (parent_precedence : Nat) : Except PyErr String'},
        {'file': 'cellmlmanip/printer.py', 'func': 'Printer._bracket_args', 'lean_name': 'bracketArgs',
         'signature': '(print : E → Except PyErr String) (args : List E) (parent_precedence : Nat) : '
                      'Except PyErr String'},
        {'file': 'cellmlmanip/printer.py', 'func': 'Printer.emptyPrinter', 'lean_name': 'emptyPrinter',
         'signature': SIG1},
        {'file': 'cellmlmanip/printer.py', 'func': 'Printer._print_And', 'lean_name': 'printAnd', 'signature': SIG1},
        {'file': 'cellmlmanip/printer.py', 'func': 'Printer._print_Or', 'lean_name': 'printOr', 'signature': SIG1},
        {'file': 'cellmlmanip/printer.py', 'func': 'Printer._print_BooleanFalse', 'lean_name': 'printBooleanFalse',
         'signature': SIG1},
        {'file': 'cellmlmanip/printer.py', 'func': 'Printer._print_BooleanTrue', 'lean_name': 'printBooleanTrue',
         'signature': SIG1},
        {'file': 'cellmlmanip/printer.py', 'func': 'Printer._print_Exp1', 'lean_name': 'printExp1', 'signature': SIG1},
        {'file': 'cellmlmanip/printer.py', 'func': 'Printer._print_Pi', 'lean_name': 'printPi', 'signature': SIG1},
        # `expr` is the python float, represented by its repr
        {'file': 'cellmlmanip/printer.py', 'func': 'Printer._print_float', 'lean_name': 'printFloat',
         'signature': '(print : E → Except PyErr String) (expr : String) : Except PyErr String'},
        {'file': 'cellmlmanip/printer.py', 'func': 'Printer._print_Float', 'lean_name': 'printFloatS',
         'signature': SIG1,
         'patterns': [('self._print_float(__A)', '← printFloat print {A}')]},
        {'file': 'cellmlmanip/printer.py', 'func': 'Printer._print_Integer', 'lean_name': 'printInteger',
         'signature': SIG1},
        {'file': 'cellmlmanip/printer.py', 'func': 'Printer._print_Rational', 'lean_name': 'printRational',
         'signature': SIG1},
        {'file': 'cellmlmanip/printer.py', 'func': 'Printer._print_Symbol', 'lean_name': 'printSymbol',
         'signature': SIG1,
         'patterns': [('self._symbol_function(__A)', '(symbolFunction {A})')]},
        {'file': 'cellmlmanip/printer.py', 'func': 'Printer._print_Function', 'lean_name': 'printFunction',
         'signature': SIG1,
         # python narrows `func` (Optional[str]) to str after the `is not None` test
         'patterns': [('func + __A', '(Option.getD func "" + {A})')]},
        {'file': 'cellmlmanip/printer.py', 'func': 'Printer._print_ordinary_pow', 'lean_name': 'printOrdinaryPow',
         'signature': SIG1},
        {'file': 'cellmlmanip/printer.py', 'func': 'Printer._print_Pow', 'lean_name': 'printPow', 'signature': SIG1,
         'patterns': [('self._print_ordinary_pow(__A)', '← printOrdinaryPow print {A}')]},
        {'file': 'cellmlmanip/printer.py', 'func': 'Printer._print_Relational', 'lean_name': 'printRelational',
         'signature': SIG1},
        {'file': 'cellmlmanip/printer.py', 'func': 'Printer._print_ternary', 'lean_name': 'printTernary',
         'signature': '(print : E → Except PyErr String) (cond expr : E) : Except PyErr String'},
        {'file': 'cellmlmanip/printer.py', 'func': 'Printer._print_Piecewise', 'lean_name': 'printPiecewise',
         'signature': SIG1,
         'patterns': [('self._print_ternary(__A, __B)', '← printTernary print {A} {B}'),
                      ('isinstance(__A, BooleanTrue)', '(isTrue {A})'),
                      ('expr.args', '(pairsOf expr)')]},
        # `optimize` (sympy.codegen.rewriting, with the table `_optims`) is a parameter: the hand model of its result
        # is `C11.rewriteTrig`; `super().doprint(expr)` is SymPy's dispatch `print`
        {'file': 'cellmlmanip/printer.py', 'func': 'Printer.doprint', 'lean_name': 'doprint',
         'signature': '(optimize : E → Except PyErr E) (print : E → Except PyErr String) (expr : E) : '
                      'Except PyErr String',
         'mutable_params': ['expr'],
         'patterns': [('isinstance(__A, sympy.Expr)', '(isExpr {A})'),
                      ('optimize(__A, self._optims)', '← optimize {A}'),
                      ('super().doprint(__A)', '← print {A}')]},
    ]}
