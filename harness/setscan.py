"""Static scan of /repo/cellmlmanip for iterations over set-valued expressions (C15).

No import of cellmlmanip: python `ast` over the source text of the working tree. A *site* is a place where the ORDER in
which a Python `set` hands out its elements can be observed:

    for x in S            comprehension `... for x in S` (list / generator / dict; a set comprehension is listed too)
    list(S) tuple(S) sorted(S, key=...) enumerate(S) iter(S) next(iter(S)) zip(S) map(f, S) reversed(S) deque(S)
    min(S, key=...) max(S, key=...) sum(S) str.join(S) [*S] f(*S) L.extend(S) L += S  S.pop()

where S is *set-valued*: `set(...)`, `frozenset(...)`, a set literal / comprehension, `.atoms(...)`, `.free_symbols`,
`nx.ancestors(...)`, `nx.descendants(...)`, set algebra on a set-valued operand (| & - ^, .union/.intersection/
.difference/.symmetric_difference/.copy), a name or `self.attr` assigned from such an expression in the same function /
class, or a call of a function of the repo whose `return` is set-valued (so `find_variables_and_derivatives(...)` is
found by inference, not by name). Order-blind consumers (`len`, `in`, `set(S)`, `any`, `all`, `S.update`, `sorted(S)`
without key, `|=`) are not sites.

Each site is identified by (file, enclosing function, kind, source text of S) — not by line number, so moving code does
not count as a change. `KNOWN` classifies every site of the tree the Lean model was written for:

    modelled   the Lean model (lean/Cellml/C15/Model.lean) makes this iteration an adversarial order parameter
    benign     the order cannot reach any ordered output (reason given)
    elsewhere  not reachable from load_model or from the ordered queries of C15 (belongs to another property)

`drift()` = sites of the working tree that are not in KNOWN: a NEW set iteration. The C15 check multiplies its
cross-process budget by 4 when there is drift and reports it in the evidence.
"""
import ast
import os
import sys

REPO = os.environ.get('CELLML_REPO', '/repo')
PKG = 'cellmlmanip'
SET_CALLS = {'set', 'frozenset'}
SET_METHODS = {'atoms', 'union', 'intersection', 'difference', 'symmetric_difference'}
SET_ATTRS = {'free_symbols'}
SET_QUALIFIED = {('nx', 'ancestors'), ('nx', 'descendants'), ('networkx', 'ancestors'), ('networkx', 'descendants')}
ORDER_CALLS = {'list', 'tuple', 'enumerate', 'iter', 'zip', 'map', 'reversed', 'deque', 'sum', 'filter'}
KEYED_CALLS = {'sorted', 'min', 'max'}       # order-blind unless a key= makes ties possible


def _src(node):
    try:
        return ast.unparse(node)
    except Exception:
        return type(node).__name__


class Scope:
    def __init__(self):
        self.names = set()      # local names known to hold a set


class Scanner(ast.NodeVisitor):
    def __init__(self, rel, set_funcs, set_attrs):
        self.rel = rel
        self.set_funcs = set_funcs          # names of repo functions whose return value is a set
        self.set_attrs = set_attrs          # attribute names (self.x) assigned a set somewhere in the repo
        self.stack = []                     # enclosing class / function names
        self.scopes = [Scope()]
        self.sites = []
        self.returns_set = set()
        self.new_attrs = set()

    # ------------------------------------------------------------------ set-valuedness
    def is_set(self, e):
        if isinstance(e, (ast.Set, ast.SetComp)):
            return True
        if isinstance(e, ast.Name):
            return any(e.id in s.names for s in self.scopes)
        if isinstance(e, ast.Attribute):
            if e.attr in SET_ATTRS:
                return True
            return isinstance(e.value, ast.Name) and e.value.id == 'self' and e.attr in self.set_attrs
        if isinstance(e, ast.BinOp) and isinstance(e.op, (ast.BitOr, ast.BitAnd, ast.Sub, ast.BitXor)):
            return self.is_set(e.left) or self.is_set(e.right)
        if isinstance(e, ast.IfExp):
            return self.is_set(e.body) or self.is_set(e.orelse)
        if isinstance(e, ast.Call):
            f = e.func
            if isinstance(f, ast.Name):
                return f.id in SET_CALLS or f.id in self.set_funcs
            if isinstance(f, ast.Attribute):
                if f.attr in SET_METHODS:
                    return f.attr == 'atoms' or self.is_set(f.value)
                if f.attr == 'copy':
                    return self.is_set(f.value)
                if isinstance(f.value, ast.Name) and (f.value.id, f.attr) in SET_QUALIFIED:
                    return True
                return f.attr in self.set_funcs
        return False

    # ------------------------------------------------------------------ bookkeeping
    def where(self):
        return '.'.join(self.stack) or '<module>'

    def site(self, node, kind, expr):
        self.sites.append({'file': self.rel, 'func': self.where(), 'kind': kind, 'expr': _src(expr), 'line': node.lineno})

    def visit_ClassDef(self, node):
        self.stack.append(node.name)
        self.generic_visit(node)
        self.stack.pop()

    def visit_FunctionDef(self, node):
        self.stack.append(node.name)
        self.scopes.append(Scope())
        # two passes over the body so that a name assigned after its first textual use is still known
        for _ in range(2):
            for sub in ast.walk(node):
                self._note_assign(sub)
        self.generic_visit(node)
        for sub in ast.walk(node):
            if isinstance(sub, ast.Return) and sub.value is not None and self.is_set(sub.value):
                self.returns_set.add(node.name)
        self.scopes.pop()
        self.stack.pop()
    visit_AsyncFunctionDef = visit_FunctionDef

    def _note_assign(self, sub):
        if isinstance(sub, ast.Assign) and self.is_set(sub.value):
            targets = sub.targets
        elif isinstance(sub, ast.AnnAssign) and sub.value is not None and self.is_set(sub.value):
            targets = [sub.target]
        elif isinstance(sub, ast.AugAssign) and isinstance(sub.op, (ast.BitOr, ast.BitAnd, ast.Sub, ast.BitXor)) \
                and self.is_set(sub.value):
            targets = [sub.target]
        else:
            return
        for t in targets:
            if isinstance(t, ast.Name):
                self.scopes[-1].names.add(t.id)
            elif isinstance(t, ast.Attribute) and isinstance(t.value, ast.Name) and t.value.id == 'self':
                self.new_attrs.add(t.attr)

    def visit_Module(self, node):
        for sub in node.body:
            self._note_assign(sub)
        self.generic_visit(node)

    # ------------------------------------------------------------------ sites
    def visit_For(self, node):
        if self.is_set(node.iter):
            self.site(node, 'for', node.iter)
        self.generic_visit(node)

    def _comp(self, node, kind):
        for g in node.generators:
            if self.is_set(g.iter):
                self.site(node, kind, g.iter)
        self.generic_visit(node)

    def visit_ListComp(self, node):
        self._comp(node, 'listcomp')

    def visit_GeneratorExp(self, node):
        self._comp(node, 'genexp')

    def visit_DictComp(self, node):
        self._comp(node, 'dictcomp')

    def visit_SetComp(self, node):
        self._comp(node, 'setcomp')

    def visit_Starred(self, node):
        if self.is_set(node.value):
            self.site(node, 'star', node.value)
        self.generic_visit(node)

    def visit_AugAssign(self, node):
        if isinstance(node.op, ast.Add) and self.is_set(node.value):
            self.site(node, 'list+=', node.value)
        self.generic_visit(node)

    def visit_Call(self, node):
        f = node.func
        args = list(node.args)
        if isinstance(f, ast.Name):
            if f.id in ORDER_CALLS:
                for a in args:
                    if self.is_set(a):
                        self.site(node, f.id, a)
            elif f.id in KEYED_CALLS and any(k.arg == 'key' for k in node.keywords):
                for a in args:
                    if self.is_set(a):
                        self.site(node, f.id + '-key', a)
            elif f.id == 'next' and args and isinstance(args[0], ast.Call) and isinstance(args[0].func, ast.Name) \
                    and args[0].func.id == 'iter':
                pass    # reported by the inner iter(...)
        elif isinstance(f, ast.Attribute):
            if f.attr == 'pop' and not args and self.is_set(f.value):
                self.site(node, 'pop', f.value)
            elif f.attr == 'update' and any(self.is_set(a) for a in args):
                for a in args:
                    if self.is_set(a):
                        self.site(node, 'update', a)     # order-blind when the receiver is a set; listed all the same
            elif f.attr in ('extend', 'join', 'fromkeys', 'extendleft'):
                for a in args:
                    if self.is_set(a):
                        self.site(node, f.attr, a)
            elif f.attr in ORDER_CALLS and isinstance(f.value, ast.Name):      # itertools.x / collections.deque
                for a in args:
                    if self.is_set(a):
                        self.site(node, f.attr, a)
        self.generic_visit(node)


def scan(repo=None):
    """All sites of <repo>/cellmlmanip/*.py, as a list of dicts (file, func, kind, expr, line), sorted."""
    repo = repo or REPO
    root = os.path.join(repo, PKG)
    files = sorted(f for f in os.listdir(root) if f.endswith('.py'))
    trees = {}
    for f in files:
        try:
            trees[f] = ast.parse(open(os.path.join(root, f), encoding='utf-8').read())
        except SyntaxError:
            trees[f] = None
    set_funcs, set_attrs = set(), set()
    sites = []
    for _ in range(4):                      # fixpoint over "function returns a set" / "self.attr holds a set"
        sites, grew = [], False
        for f, tree in trees.items():
            if tree is None:
                sites.append({'file': PKG + '/' + f, 'func': '<unparsable>', 'kind': 'syntax-error', 'expr': '', 'line': 0})
                continue
            sc = Scanner(PKG + '/' + f, set_funcs, set_attrs)
            sc.visit(tree)
            sites.extend(sc.sites)
            if not sc.returns_set <= set_funcs or not sc.new_attrs <= set_attrs:
                grew = True
            set_funcs |= sc.returns_set
            set_attrs |= sc.new_attrs
        if not grew:
            break
    seen, out = set(), []
    for s in sorted(sites, key=lambda s: (s['file'], s['line'], s['kind'], s['expr'])):
        k = (s['file'], s['line'], s['kind'], s['expr'])
        if k not in seen:
            seen.add(k)
            out.append(s)
    return out


def site_key(s):
    return '%s|%s|%s|%s' % (s['file'], s['func'], s['kind'], s['expr'])




# ------------------------------------------------------------------------------------------------ classification
M, B, E = 'modelled', 'benign', 'elsewhere'
_XR = 'builds the substitution dict of an xreplace: a mapping, no order'
_POP = ('Derivative(x, t).free_symbols is the singleton {x} for the first-order derivative of a variable, the only '
        'left-hand side add_equation supports; pop() of a singleton has one answer')
# site_key -> (expected count, class, note). Written for /repo after the C15 fixes (df25620; graph nodes).
KNOWN = {
    'cellmlmanip/model.py|Model.graph|sorted-key|self.find_variables_and_derivatives([equation.rhs])':
        (1, M, 'Adv.refs: the set of references of one equation is the INPUT of sorted(..., key=str) (C09.sortStr, a stable '
               'sort): with pairwise distinct str keys the adversary has no say (graph_order_independent); the sorted list '
               'decides the order of edges / late nodes of the graph'),
    'cellmlmanip/model.py|Model.get_equations_for|update|nx.ancestors(graph, output)':
        (1, M, 'Adv.anc: handed to set.update (order-blind); parameterised all the same'),
    'cellmlmanip/model.py|Model.graph|for|equation.atoms(Variable)':
        (1, B, 'resets Variable.type to None for every variable of every equation: idempotent, no order'),
    'cellmlmanip/model.py|Model.graph|pop|lhs.free_symbols': (1, B, _POP),
    'cellmlmanip/model.py|Model.graph|pop|equation.lhs.free_symbols':
        (1, B, _POP + ' (the STATE loop added by the fix of finding permutation:derived-free-variable-with-equation)'),
    'cellmlmanip/model.py|Model.add_equation|pop|lhs.free_symbols': (1, B, _POP),
    'cellmlmanip/model.py|Model.remove_equation|pop|lhs.free_symbols': (1, B, _POP),
    'cellmlmanip/model.py|Model.graph_with_sympy_numbers|dictcomp|dummies': (1, B, _XR),
    'cellmlmanip/model.py|Model._get_value|for|deps':
        (1, E, 'get_value (C10): memoised recursive evaluation, every value is computed from its own definition; the '
               'order only decides which undefined dependency is reported first'),
    'cellmlmanip/model.py|Model._get_value.expand_derivatives|for|derivatives':
        (1, E, 'get_value (C10): fills a replacement dict; the order only decides which missing ODE is reported first'),
    'cellmlmanip/_singularity_fixes.py|_float_dummies|dictcomp|expr.atoms(Float)': (1, E, 'C12: ' + _XR),
    'cellmlmanip/_singularity_fixes.py|_get_singularity|dictcomp|find_U[Z_wildcard].free_symbols': (1, E, 'C12: ' + _XR),
    'cellmlmanip/_singularity_fixes.py|_fix_expr_parts|dictcomp|expr.atoms(Quantity)': (1, E, 'C12: ' + _XR),
    'cellmlmanip/_singularity_fixes.py|remove_fixable_singularities|dictcomp|new_ex.atoms(Quantity)':
        (1, E, 'C12/C18: ' + _XR + ' (the Quantity objects are created in set order: only their dummy_index differs)'),
}
# the site the C15 fix removed; the Lean model keeps it as `transformConstantsSet` with a proved counterexample
REMOVED = {'cellmlmanip/parser.py|Parser.transform_constants|for|set(self.model.variables())':
           'fixed by df25620: iterating a set of Variables made the order of Model.equations vary between processes',
           # the site the graph-nodes fix removed; the Lean model keeps it as `graphSet` with a proved counterexample
           'cellmlmanip/model.py|Model.graph|for|self.find_variables_and_derivatives([equation.rhs])':
           'fixed (finding hashseed:graph_nodes): walking the set of references as it came made the order of '
           'Model.graph.nodes vary between processes'}


def report(repo=None):
    """{'sites': [...], 'new': [site...], 'regressed': [site...], 'stale': [key...], 'modelled': [key...]}"""
    sites = scan(repo)
    count = {}
    for s in sites:
        count.setdefault(site_key(s), []).append(s)
    new, regressed = [], []
    for k, ss in count.items():
        if k in REMOVED:
            regressed.extend(ss)
        elif k not in KNOWN:
            new.extend(ss)
        elif len(ss) > KNOWN[k][0]:
            new.extend(ss[KNOWN[k][0]:])
    for s in sites:
        k = site_key(s)
        s['class'] = KNOWN[k][1] if k in KNOWN else ('regressed' if k in REMOVED else 'NEW')
    stale = sorted(k for k in KNOWN if k not in count)
    return {'sites': sites, 'new': new, 'regressed': regressed, 'stale': stale,
            'modelled': sorted(k for k, v in KNOWN.items() if v[1] == M)}


def drift(repo=None):
    """Set-iteration sites of the working tree the Lean model does not know (new or re-introduced), as strings."""
    r = report(repo)
    return ['%s:%d %s %s(%s)' % (s['file'], s['line'], s['func'], s['kind'], s['expr']) for s in r['new'] + r['regressed']]


if __name__ == '__main__':
    r = report(sys.argv[1] if len(sys.argv) > 1 else None)
    for s in r['sites']:
        print('%-9s %s:%d  %-38s %-9s %s' % (s['class'], s['file'], s['line'], s['func'], s['kind'], s['expr']))
    for k in r['stale']:
        print('stale     (known site no longer in the tree) ' + k)
    print('drift: %s' % (drift(sys.argv[1] if len(sys.argv) > 1 else None) or 'none'))
