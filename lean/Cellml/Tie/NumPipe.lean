import Cellml.Generated.Code.NumPipe
import Cellml.C14.Roundtrip
import Mathlib.Tactic.SplitIfs

set_option linter.unusedSimpArgs false
set_option linter.unusedVariables false

/-! # Tie: the number pipeline after the parser (generated from cellmlmanip/model.py, parser.py, printer.py)
      = the stage functions of `C14/Pipeline.lean`

    | python                              | generated                    | model stage (`C14.…`)            | theorem |
    |-------------------------------------|------------------------------|----------------------------------|---------|
    | `Quantity.__new__`                  | `quantityNew`                | (the name; no stage reads it)    | `quantityNew_tie` |
    | `Quantity.__init__`                 | `quantityInit`               | `quantityValue` (the stored `_value`) | `quantityInit_tie` |
    | `Quantity(value, units)`            | `construct quantityNew quantityInit` | `quantityValue`          | `construct_tie` |
    | `Quantity.__float__`                | `quantityFloat`              | `quantityValue` / `initialValue` | `quantityFloat_tie`, `quantityFloat_str_tie` |
    | `Quantity._eval_evalf`              | `quantityEvalEvalf`          | first rounding of `evalfStage`   | `quantityEvalEvalf_tie` |
    | `q.evalf(FLOAT_PRECISION)`, `float` | `sympyEvalf (quantityEvalEvalf q) floatPrecision` | `strippedValue` | `evalf_float_tie`, `stripped_tie` |
    | `Model.create_quantity`             | `createQuantity`             | `quantityValue`                  | `createQuantity_tie`, `createQuantity_value` |
    | `Variable.__init__`                 | `variableInit`               | `initialValue`                   | `variableInit_tie`, `variableInit_initial` |
    | `Parser.transform_constants`        | `transformConstants`         | `quantityValue` of the constant  | `transformConstants_tie`, `tcStep_constant` |
    | `Model._get_value`                  | `getValueRec`, `getValue`    | `getValue`                       | `getValueRec_state_tie`, `getValueRec_quantity_tie`, `getValue_tie` |
    | `Model.graph_with_sympy_numbers`    | `graphWithSympyNumbers`      | `strippedValue` of every Quantity| `graphNum_tie`, `graphNum_float` |
    | `Printer._print_float/_Float/_int`  | `printFloat`, `printFloatS`, `printInt` | `Emits`, `renderInt`    | `printFloat_tie`, `printFloatS_tie`, `printInt_tie` |
    | `FLOAT_PRECISION`                   | `Cellml.Gen.floatPrecision`  | the precisions of the header of `C14/Pipeline.lean` (60 / 216 bits) | `floatPrecision_tie` |

    Every theorem is for ALL arguments (and every reading `v : PView` of the leaves without a model). -/

namespace Cellml.Tie.PNumPipe
open C14 Cellml.Gen Cellml.Gen.NumPipe

/-! ## `Quantity` -/

/-- **`Quantity.__new__`**: the new Dummy is named `'_' + '{:g}'.format(value)` for a float, `'_' + value` for a str —
    result for ALL values. No stage of the pipeline reads the name. -/
theorem quantityNew_tie (v : PView) (x : PyVal) :
    quantityNew v x = .ok (newDummy v ("_" ++ (match x with | .flt b => v.fmtG b | .str s => s)) true) := by
  cases x <;> rfl

/-- **`Quantity.__init__`**: stores the value OBJECT (`C14.quantityValue` is the identity) and the units; nothing else,
    and never raises. -/
theorem quantityInit_tie (q : QObj) (x : PyVal) (u : UArg) :
    quantityInit q x u = .ok { q with _value := some x, units := some u } := rfl

/-- python's `Quantity(value, units)` over the two generated methods -/
theorem construct_tie (v : PView) (x : PyVal) (u : UArg) :
    construct (quantityNew v) quantityInit x u
      = .ok { newDummy v ("_" ++ (match x with | .flt b => v.fmtG b | .str s => s)) true with
              _value := some x, units := some u } := by
  unfold construct; rw [quantityNew_tie]; rfl

/-- **`Quantity.__float__`** on a stored float = `C14.quantityValue` -/
theorem quantityFloat_tie (q : QObj) (b : Nat) (h : q._value = some (.flt b)) :
    quantityFloat q = .ok (quantityValue b) := by
  unfold quantityFloat attrValue; rw [h]; rfl

/-- … on a stored text = ONE parse, `C14.initialValue` (python: `create_quantity('1.5', u)`) -/
theorem quantityFloat_str_tie (q : QObj) (s : String) (h : q._value = some (.str s)) :
    quantityFloat q = (match initialValue s.toList with | some b => .ok b | none => .error ⟨"ValueError"⟩) := by
  unfold quantityFloat attrValue; rw [h]
  simp only [bind, Except.bind, pure, Except.pure, pyFloat, initialValue]
  cases decToBitsL s.toList <;> rfl

/-- … before `__init__`: AttributeError -/
theorem quantityFloat_unset (q : QObj) (h : q._value = none) : quantityFloat q = .error ⟨"AttributeError"⟩ := by
  unfold quantityFloat attrValue; rw [h]; rfl

/-- **`Quantity._eval_evalf(prec)`** = `sympy.Float(self._value, prec)`: for ALL objects and precisions -/
theorem quantityEvalEvalf_tie (q : QObj) (prec : Nat) :
    quantityEvalEvalf q prec = (match q._value with
      | some x => sympyFloat x prec
      | none => .error ⟨"AttributeError"⟩) := by
  unfold quantityEvalEvalf attrValue
  cases q._value with
  | none => rfl
  | some x =>
    simp only [bind, Except.bind, pure, Except.pure]

/-- **`float(q.evalf(fp))`** — the generated `_eval_evalf` inside sympy's `evalf`, then `Float.__float__` — is
    `C14.evalfStage fp` of the stored double, for EVERY precision `fp` and every bit pattern -/
theorem evalf_float_tie (q : QObj) (b fp : Nat) (h : q._value = some (.flt b)) :
    ∃ s, sympyEvalf (quantityEvalEvalf q) fp = .ok s ∧ floatOfSNum s = evalfStage fp b := by
  unfold sympyEvalf
  rw [quantityEvalEvalf_tie, h]
  unfold sympyFloat evalfStage
  by_cases hf : isFiniteBits b = true
  · simp only [hf, Bool.not_true, Bool.false_eq_true, if_false]
    by_cases hz : (decodeScaled (magOf b)).1 = 0
    · simp only [hz, if_true]; refine ⟨_, rfl, ?_⟩; rfl
    · simp only [hz, if_false]
      refine ⟨_, rfl, ?_⟩; rfl
  · have hf' : isFiniteBits b = false := by simpa using hf
    simp only [hf', Bool.not_false, if_true]
    refine ⟨_, rfl, ?_⟩; rfl

/-- at the generated constant: `C14.strippedValue` of `C14.quantityValue` -/
theorem stripped_tie (q : QObj) (b : Nat) (h : q._value = some (.flt b)) :
    ∃ s, sympyEvalf (quantityEvalEvalf q) Cellml.Gen.floatPrecision = .ok s ∧
      floatOfSNum s = strippedValue (quantityValue b) :=
  evalf_float_tie q b _ h

/-- **`FLOAT_PRECISION`** gives the binary precisions the model's header documents for sympy 1.14: `evalf` asks for 60
    bits, the `Float` inside `_eval_evalf` holds 216. (`FLOAT_PRECISION = 15` breaks this line and nothing else: 53 / 189
    bits still hold every double, see the report.) -/
theorem floatPrecision_tie : evalfPrec Cellml.Gen.floatPrecision = 60 ∧ innerPrec Cellml.Gen.floatPrecision = 216 := by
  decide +kernel

/-! ## `Model.create_quantity` -/

/-- **`Model.create_quantity`** for ALL arguments: the unit look-up for a name (its exception propagates), then the
    constructor -/
theorem createQuantity_tie (v : PView) (x : PyVal) (u : UArg) :
    createQuantity v x u = (match u with
      | .unit _ => construct (quantityNew v) quantityInit x u
      | .name s => match v.getUnit s with
        | .ok u' => construct (quantityNew v) quantityInit x (.unit u')
        | .error e => .error e) := by
  unfold createQuantity
  cases u with
  | unit s =>
    simp only [UArg.isUnit, Py.truthy_bool, Bool.not_true, Bool.false_eq_true, if_false, bind, Except.bind, pure,
      Except.pure]
  | name s =>
    simp only [UArg.isUnit, Py.truthy_bool, Bool.not_false, if_true, bind, Except.bind, pure, Except.pure, getUnitArg]
    cases v.getUnit s with
    | error e => rfl
    | ok u' => simp only [construct_tie]

/-- whatever `create_quantity` returns holds the value object it was given: no `float()`, no rounding, no snapping -/
theorem createQuantity_value (v : PView) (x : PyVal) (u : UArg) (q : QObj) (h : createQuantity v x u = .ok q) :
    q._value = some x := by
  rw [createQuantity_tie] at h
  cases u with
  | unit s => simp only [construct_tie] at h; injection h with h; rw [← h]
  | name s =>
    simp only at h
    cases hg : v.getUnit s with
    | error e => rw [hg] at h; cases h
    | ok u' => rw [hg] at h; simp only [construct_tie] at h; injection h with h; rw [← h]

/-- `create_quantity` only fails in the unit look-up -/
theorem createQuantity_unit_ok (v : PView) (x : PyVal) (s : String) : ∃ q, createQuantity v x (.unit s) = .ok q := by
  rw [createQuantity_tie]; simp only [construct_tie]; exact ⟨_, rfl⟩

/-! ## `Variable.__init__` -/

/-- **`Variable.__init__`** for ALL arguments: `initial_value` is `None`, or ONE `float()` of what was given (the text of
    the attribute ↦ `C14.initialValue`; ValueError for a text that is no number, and then no object) -/
theorem variableInit_tie (x : VObj) (name : Option String) (units : Option UArg) (model : Option Nat)
    (iv : Option PyVal) (pub priv : Option String) (order : Option Nat) (cm : Option String) :
    variableInit x name units model iv pub priv order cm =
      (match iv with
        | none => (Except.ok none : Except PyErr (Option PyVal))
        | some t => (match pyFloat t with | .ok b => Except.ok (someFlt b) | .error e => Except.error e)).bind fun ivv =>
      Except.ok { x with
        _model := model, name := name, units := units, initial_value := ivv, public_interface := pub
        private_interface := priv
        assigned_to := (if !(priv == some "in" || pub == some "in") then some x.id else none)
        order_added := order, _cmeta_id := cm, _rdf_identity := none, type := none } := by
  unfold variableInit
  cases iv with
  | none =>
    simp only [Option.isNone_none, if_true, bind, Except.bind, pure, Except.pure, Py.truthy_bool]
    split_ifs <;> rfl
  | some t =>
    simp only [Option.isNone_some, Bool.false_eq_true, if_false, bind, Except.bind, pure, Except.pure, pyFloatOpt,
      Py.truthy_bool]
    cases pyFloat t with
    | error e => rfl
    | ok b => simp only []; split_ifs <;> rfl

/-- the `initial_value` ATTRIBUTE TEXT: the variable holds `C14.initialValue text` -/
theorem variableInit_initial (x : VObj) (name : Option String) (units : Option UArg) (model : Option Nat)
    (text : String) (pub priv : Option String) (order : Option Nat) (cm : Option String) :
    (variableInit x name units model (some (.str text)) pub priv order cm).map (·.initial_value)
      = (match initialValue text.toList with
          | some b => .ok (some (.flt b))
          | none => .error ⟨"ValueError"⟩) := by
  rw [variableInit_tie]
  simp only [pyFloat, initialValue]
  cases decToBitsL text.toList <;> rfl

/-! ## `Parser.transform_constants` -/

/-- one round of the loop of `transform_constants` (what the generated body does to the model for one variable) -/
def tcStep (v : PView) (sv : List VObj) (m : NModel) (x : VObj) : Except PyErr NModel :=
  if sv.contains x then
    (if x.initial_value.isSome then .ok m else .error ⟨"AssertionError"⟩)
  else if x.initial_value.isSome then
    (optVal x.initial_value).bind fun iv => (optVal x.units).bind fun u =>
      (createQuantity (viewAt v m) iv u).bind fun q => (addEquationQ m x q).bind fun m' => .ok (clearInit m' x)
  else .ok m

theorem forIn_foldlM {α σ} (f : α → σ → Except PyErr (ForInStep σ)) (g : σ → α → Except PyErr σ)
    (hf : ∀ a s, f a s = (g s a).bind fun s' => .ok (.yield s')) :
    ∀ (l : List α) (s : σ), forIn l s f = l.foldlM g s
  | [], s => rfl
  | a :: l, s => by
    rw [List.forIn_cons, hf, List.foldlM_cons]
    simp only [bind, Except.bind]
    cases g s a with
    | error e => rfl
    | ok s' => exact forIn_foldlM f g hf l s'

/-- **`Parser.transform_constants`** for ALL models: the loop over a snapshot of the variables is the fold of `tcStep`
    (states are only checked; every other variable with an initial value becomes an equation `var = Quantity`) -/
theorem transformConstants_tie (v : PView) (m : NModel) :
    transformConstants v m = m.vars.foldlM (tcStep v (stateVars m)) m := by
  unfold transformConstants
  simp only [bind, Except.bind, pure, Except.pure]
  rw [forIn_foldlM _ (tcStep v (stateVars m))]
  · cases List.foldlM (tcStep v (stateVars m)) m m.vars <;> rfl
  · intro x s
    unfold tcStep
    simp only [Py.isIn, bind, Except.bind, pure, Except.pure, throw, throwThe, MonadExceptOf.throw]
    by_cases h1 : (stateVars m).contains x = true
    · simp only [h1, if_true]
      cases x.initial_value <;> rfl
    · simp only [h1, Bool.false_eq_true, if_false]
      cases hiv : x.initial_value with
      | none => rfl
      | some iv =>
        simp only [Option.isSome_some, if_true, optVal]
        cases hu : x.units with
        | none => rfl
        | some u =>
          simp only []
          cases createQuantity (viewAt v s) iv u with
          | error e => rfl
          | ok q =>
            simp only []
            cases addEquationQ s x q <;> rfl

/-- what one round does for a CONSTANT (not a state, `initial_value` a float `b`, units a Unit object, not defined
    yet): the model gains the definition `x = q` for a new Quantity `q` whose `_value` is that float, `float(q)` is
    `C14.quantityValue b`, and the variable's `initial_value` is cleared -/
theorem tcStep_constant (v : PView) (sv : List VObj) (m : NModel) (x : VObj) (b : Nat) (u : String)
    (hs : sv.contains x = false) (hiv : x.initial_value = some (.flt b)) (hu : x.units = some (.unit u))
    (hd : ((m.defs.any fun p => p.1 == x.id) || (m.odes.any fun p => p.1 == x.id)) = false) :
    ∃ q m', tcStep v sv m x = .ok m' ∧ q._value = some (.flt b) ∧ quantityFloat q = .ok (quantityValue b) ∧
      m'.defs = m.defs ++ [(x.id, ⟨0, [.qty q]⟩)] ∧ m'.odes = m.odes ∧ initialValueOf m' x.id = none := by
  obtain ⟨q, hq⟩ := createQuantity_unit_ok (viewAt v m) (.flt b) u
  have hv := createQuantity_value _ _ _ _ hq
  refine ⟨q, clearInit { m with defs := m.defs ++ [(x.id, ⟨0, [.qty q]⟩)], count := m.count + 1 } x, ?_, hv,
    quantityFloat_tie q b hv, rfl, rfl, ?_⟩
  · unfold tcStep
    simp only [hs, Bool.false_eq_true, if_false, hiv, hu, Option.isSome_some, if_true, optVal, Except.bind, hq,
      addEquationQ, hd]
  · unfold initialValueOf clearInit
    simp only
    induction m.vars with
    | nil => rfl
    | cons y ys ih =>
      simp only [List.map_cons, List.find?_cons]
      by_cases hy : (y.id == x.id) = true
      · simp [hy]
      · have hy' : (y.id == x.id) = false := by simpa using hy
        simp only [hy', Bool.false_eq_true, if_false]
        exact ih

/-- `transform_constants` on a model whose only variable is a constant: the model gains exactly `x = q` -/
theorem transformConstants_single (v : PView) (x : VObj) (b : Nat) (u : String)
    (hiv : x.initial_value = some (.flt b)) (hu : x.units = some (.unit u)) :
    ∃ m q, transformConstants v { vars := [x] } = .ok m ∧ m.defs = [(x.id, ⟨0, [.qty q]⟩)] ∧ m.odes = [] ∧
      q._value = some (.flt b) := by
  rw [transformConstants_tie]
  simp only [List.foldlM_cons, List.foldlM_nil, bind, Except.bind, pure, Except.pure]
  obtain ⟨q, m', hstep, hq, _, hdefs, hodes, _⟩ := tcStep_constant v
    (stateVars { vars := [x] }) { vars := [x] } x b u (by simp [stateVars]) hiv hu (by simp)
  rw [hstep]
  exact ⟨m', q, rfl, by simpa using hdefs, hodes, hq⟩

/-! ## `Model._get_value` -/

/-- **`_get_value`, state variable**: `float(variable.initial_value)` and nothing else — for ALL models, every
    `expand_derivatives`, every recursive call, every memo -/
theorem getValueRec_state_tie (m : NModel) (ed : NExpr → Except PyErr NExpr)
    (rec : Nat → NMemo → Except PyErr (Nat × NMemo)) (x : Nat) (ev : NMemo) (hx : x ∈ odeKeys m) :
    getValueRec m ed rec x ev = (pyFloatOpt (initialValueOf m x)).bind fun b => .ok (b, ev) := by
  unfold getValueRec
  have : Py.isIn x (odeKeys m) = true := by simpa [Py.isIn] using hx
  simp only [this, if_true, bind, Except.bind, pure, Except.pure]

/-- `expand_derivatives` leaves an expression without derivatives alone (generated code, every `rec`) -/
theorem expandDerivatives_none (m : NModel) (r : NExpr → Except PyErr NExpr) (e : NExpr) (h : derivAtoms e = []) :
    expandDerivatives m r e = .ok e := by
  unfold expandDerivatives
  simp [h, pure, Except.pure]

/-- **`_get_value`, a variable defined by a bare Quantity** (`v = <cn>`; a constant after `transform_constants`): the
    final `float(expr)` is the generated `Quantity.__float__` of that Quantity — for every recursive call and memo -/
theorem getValueRec_quantity_tie (m : NModel) (r1 : NExpr → Except PyErr NExpr)
    (rec : Nat → NMemo → Except PyErr (Nat × NMemo)) (x : Nat) (ev : NMemo) (q : QObj)
    (hx : x ∉ odeKeys m) (hd : varDefItem m x = .ok ⟨0, [.qty q]⟩) :
    getValueRec m (expandDerivatives m r1) rec x ev = (quantityFloat q).bind fun b => .ok (b, ev) := by
  unfold getValueRec
  have : Py.isIn x (odeKeys m) = false := by simpa [Py.isIn] using hx
  have hde : derivAtoms ⟨0, [.qty q]⟩ = [] := rfl
  have hva : varAtoms ⟨0, [.qty q]⟩ = [] := rfl
  simp only [this, Bool.false_eq_true, if_false, bind, Except.bind, pure, Except.pure, hd, tryCatch, tryCatchThe,
    MonadExceptOf.tryCatch, Except.tryCatch, EarlyReturnT.return, EarlyReturn.runK, ExceptT.pure, ExceptT.run,
    ExceptT.mk, expandDerivatives_none m r1 _ hde, hva, Py.truthy_list, List.isEmpty_nil,
    Bool.not_true, floatExpr]

/-- **`get_value`** over the generated `_get_value` (closed with any continuation for the recursive calls, which these
    two paths never make) = `C14.getValue` of the stored double:
    a state returns its `initial_value`, a variable defined by a Quantity the Quantity's float -/
theorem getValue_tie (m : NModel) (r1 : NExpr → Except PyErr NExpr) (rec : Nat → NMemo → Except PyErr (Nat × NMemo))
    (x b : Nat) :
    (x ∈ odeKeys m → initialValueOf m x = some (.flt b) →
      NumPipe.getValue m (getValueRec m (expandDerivatives m r1) rec) x = .ok (C14.getValue b)) ∧
    (∀ q, x ∉ odeKeys m → varDefItem m x = .ok ⟨0, [.qty q]⟩ → q._value = some (.flt b) →
      NumPipe.getValue m (getValueRec m (expandDerivatives m r1) rec) x = .ok (C14.getValue (quantityValue b))) := by
  constructor
  · intro hx hiv
    unfold NumPipe.getValue
    rw [getValueRec_state_tie m _ rec x none hx, hiv]; rfl
  · intro q hx hd hq
    unfold NumPipe.getValue
    rw [getValueRec_quantity_tie m r1 rec x none q hx hd, quantityFloat_tie q b hq]; rfl

/-! ## `Model.graph_with_sympy_numbers` -/

/-- the graph of one equation `x = q` (`q` a Quantity): one node, no edge -/
def graph1 (x : Nat) (q : QObj) : NGraph := ⟨[(x, some ⟨x, ⟨0, [.qty q]⟩⟩)], []⟩

/-- **`graph_with_sympy_numbers` on an equation `x = q`**: the Quantity is replaced by `q.evalf(FLOAT_PRECISION)` — the
    generated `_eval_evalf` inside sympy's `evalf` at the generated constant — whose `float()` is `C14.strippedValue`
    of the stored double; the result is cached. For every Quantity holding a float, every model around it. -/
theorem graphNum_single (m : NModel) (x : Nat) (q : QObj) (b : Nat) (hg : m.graph = .ok (graph1 x q))
    (hq : q._value = some (.flt b)) :
    ∃ s, graphWithSympyNumbers m none
        = .ok (⟨[(x, some ⟨x, ⟨0, [.num s]⟩⟩)], []⟩, some ⟨[(x, some ⟨x, ⟨0, [.num s]⟩⟩)], []⟩) ∧
      sympyEvalf (quantityEvalEvalf q) Cellml.Gen.floatPrecision = .ok s ∧
      floatOfSNum s = strippedValue (quantityValue b) := by
  obtain ⟨s, hs, hfl⟩ := stripped_tie q b hq
  refine ⟨s, ?_, hs, hfl⟩
  unfold graphWithSympyNumbers
  simp only [hg, graph1, NGraph.nodeIds, List.map_cons, List.map_nil, bind, Except.bind, pure, Except.pure,
    Option.isSome_none, Bool.false_eq_true, if_false, List.forIn_cons, List.forIn_nil, nodeEquation, List.find?_cons,
    beq_self_eq_true, Option.isNone_some, theEq, Option.getD_some, quantityAtoms, List.filterMap_cons,
    List.filterMap_nil, dedup, List.not_mem_nil, List.mapM_cons, List.mapM_nil, hs, Py.dictOf, List.foldl_cons,
    List.foldl_nil, Py.setAssoc, Py.truthy_list, List.isEmpty_cons, Bool.not_false, if_true, xreplaceQ, lookupQ,
    Option.map_some, inEdges, List.filter_nil, setEquation, varRefs]

/-- a cached value is returned as it is -/
theorem graphNum_cached (m : NModel) (c : NGraph) : graphWithSympyNumbers m (some c) = .ok (c, some c) := by
  unfold graphWithSympyNumbers
  simp [pure, Except.pure, theGraph]

/-! ## the printer -/

/-- **`Printer._print_float`**: `str(x)` of the float, nothing else -/
theorem printFloat_tie (v : PView) (b : Nat) : printFloat v b = .ok (v.reprF b) := rfl

/-- **`Printer._print_Float`**: `float()` of the sympy number (`C14.toFloat`), then `_print_float` -/
theorem printFloatS_tie (v : PView) (s : SNum) : printFloatS v s = .ok (v.reprF (floatOfSNum s)) := rfl

/-- **`Printer._print_int`**: python's `'%d'` (`C14.renderInt`) -/
theorem printInt_tie (v : PView) (z : Int) : printInt v z = .ok (String.ofList (renderInt z)) := rfl

/-- the text the generated printer emits for a finite double is a text of that double (`C14.Emits`), for every reading
    of `str(float)` that `float()` reads back -/
theorem printFloat_emits (v : PView) (hv : ReprOK v) (b : Nat) (hf : isFiniteBits b = true) (hb : b < 2 ^ 64) :
    ∃ t, printFloat v b = .ok t ∧ Emits b t.toList := ⟨_, rfl, hv b hf hb⟩

end Cellml.Tie.PNumPipe
