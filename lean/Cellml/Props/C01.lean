import Cellml.Load.Lemmas
import Cellml.Load.PermOutcome
import Cellml.Units.Lemmas

/-! # C01 — loading a CellML document preserves its mathematics (flattening fidelity)

    Model: `Load.load` (Cellml/Load/{Doc,Connect,Loader}.lean) = `Parser.parse` after schema validation: variable
    table, encapsulation, `_determine_connection_direction`, the `_add_connections` work list with `assigned_to` and
    `connected_variable_mapping`, `symbol_generator`, conversion equations, `transform_constants`.

    Semantics. Values are PHYSICAL: a valuation gives every variable its SI magnitude (`Rat`), and every derivative
    its SI magnitude; a number `q [u]` denotes `q · ⟦scale of u⟧`. Scales are prime ↦ exponent maps; their
    interpretation `den : Scale → Rat` is a PARAMETER of every theorem, constrained only by `DenOK` (respects equality of
    scales, `den 1 = 1`). `Load.denInt` is an instance, exact for integer exponents (`denOK_denInt`).

    Everything is proved for ALL documents: any number of components, any nesting, any chain length.
    Order independence of the OUTCOME of the work list: `connect_ok_iff_resolvable`, `connect_perm_outcome`
    (lemmas in Cellml/Load/PermOutcome.lean). -/

namespace Cellml.Props.C01
open Load PMap

/-! ## 1. The work list terminates and builds a forest -/

/-- `connect` is a total function (Lean accepted the well-founded definition on the measure
    `(|deque|, |deque| + 1 − unchanged_loop_count)`), and it is the loop of the source: these are its unfolding equations. -/
theorem connect_terminates (reg : Registry) (vt : VarTable) (l : List (VRef × VRef)) :
    (∃ st, connect reg vt l = .ok st) ∨ (∃ e, connect reg vt l = .error e) := by
  cases h : connect reg vt l with
  | ok st => exact Or.inl ⟨st, rfl⟩
  | error e => exact Or.inr ⟨e, rfl⟩

theorem connectLoop_nil (reg : Registry) (vt : VarTable) (unch : Nat) (h : unch ≤ ([] : List (VRef × VRef)).length)
    (st : CState) : connectLoop reg vt [] unch h st = .ok st := by
  unfold connectLoop; rfl

theorem connectLoop_cons (reg : Registry) (vt : VarTable) (c : VRef × VRef) (rest : List (VRef × VRef)) (unch : Nat)
    (h : unch ≤ (c :: rest).length) (st : CState) :
    connectLoop reg vt (c :: rest) unch h st =
      match stepConn reg vt st c with
      | .error e => .error e
      | .ok none =>
          if hlt : unch + 1 ≤ (rest ++ [c]).length then connectLoop reg vt (rest ++ [c]) (unch + 1) hlt st
          else .error (.assertion "Unable to add connections to the model")
      | .ok (some st') => connectLoop reg vt rest 0 (Nat.zero_le _) st' := by
  rw [connectLoop.eq_2]
  cases stepConn reg vt st c with
  | error e => rfl
  | ok o => cases o <;> rfl

/-- When the work list succeeds, `connected_variable_mapping` is a function whose graph is exactly the set of
    connections (target ↦ source), it is acyclic (`rank` strictly decreases from target to source), the `while` loop of
    `symbol_generator` computes the structural `root`, every target's chain ends at a variable with no `in` interface,
    the roots are exactly the non-targets, sources are their own roots, a variable has an `assigned_to` iff it is a
    source or a target, and `assigned_to` always lies on the variable's own chain. -/
theorem connect_forest {reg : Registry} {vt : VarTable} {l : List (VRef × VRef)} {st : CState}
    (h : connect reg vt l = .ok st) :
    (keys st.mapping).Nodup ∧
    (∀ t s, st.mapping.lookup t = some s ↔ (s, t) ∈ l) ∧
    (∀ t s, (s, t) ∈ l → rank st.mapping s < rank st.mapping t) ∧
    (∀ v, rootOf st v = root st.mapping v) ∧
    (∀ v, v ∈ keys st.mapping → Src vt (rootOf st v)) ∧
    (∀ v, rootOf st v = v ↔ v ∉ keys st.mapping) ∧
    (∀ v, Src vt v → rootOf st v = v) ∧
    (∀ v, rootOf st (rootOf st v) = rootOf st v) ∧
    (∀ v, (st.asg v).isSome ↔ (Src vt v ∨ v ∈ keys st.mapping)) ∧
    (∀ v a, st.asg v = some a → rootOf st a = rootOf st v ∧ st.asg a = some a) := by
  have inv := connect_inv h
  have hroot : ∀ v, rootOf st v = root st.mapping v := fun v => inv.wf.resolve_eq_root _ v (Nat.le_refl _)
  have hmem : ∀ t s, (t, s) ∈ st.mapping ↔ (s, t) ∈ l := by
    intro t s
    constructor
    · exact inv.map_from t s
    · intro hl
      rcases inv.conn_in (s, t) hl with hd | hm
      · simp at hd
      · exact hm
  refine ⟨inv.wf.keys_nodup, ?_, ?_, hroot, ?_, ?_, ?_, ?_, inv.asg_iff, ?_⟩
  · intro t s; rw [inv.wf.lookup_iff, hmem]
  · intro t s hl; exact inv.wf.rank_lt t s ((hmem t s).mpr hl)
  · intro v hv; rw [hroot]; exact inv.wf.root_is_src v hv
  · intro v
    rw [hroot]
    constructor
    · intro e hk
      exact inv.wf.key_not_src v hk (e ▸ inv.wf.root_is_src v hk)
    · exact root_of_not_key
  · intro v hv; rw [hroot]; exact inv.wf.root_src hv
  · intro v; rw [hroot, hroot]; exact root_of_not_key (inv.wf.root_not_key v)
  · intro v a hv; rw [hroot, hroot]; exact ⟨inv.asg_root v a hv, inv.asg_self v a hv⟩

/-! ## 2. Order independence -/

/-- Swapping (component_1, variable_1) with (component_2, variable_2) does not change the direction — nor whether the
    connection is refused — for ANY two declared variables, whatever their interfaces and wherever the components sit
    (after the two C17 repairs of `_determine_connection_direction`; before them this needed the hypothesis that the
    connection obeys the interface rules). The one hypothesis left excludes two components that are each other's parent,
    which `_add_relationships` does not refuse. -/
theorem direction_swap (par : ParentMap) (vt : VarTable) (c : Conn) (i1 i2 : VarInfo)
    (h1 : vt.lookup c.end1 = some i1) (h2 : vt.lookup c.end2 = some i2)
    (hmut : ¬ (par.lookup c.c2 = some c.c1 ∧ par.lookup c.c1 = some c.c2)) :
    direction par vt c.swap = direction par vt c := by
  have e1 : c.swap.end1 = c.end2 := rfl
  have e2 : c.swap.end2 = c.end1 := rfl
  have c1 : c.swap.c1 = c.c2 := rfl
  have c2 : c.swap.c2 = c.c1 := rfl
  unfold direction
  rw [e1, e2, c1, c2, h1, h2]
  simp only
  by_cases hs : par.lookup c.c1 = par.lookup c.c2
  · have hs' : par.lookup c.c2 = par.lookup c.c1 := hs.symm
    rw [if_pos hs, if_pos hs']
    cases hp1 : i1.pub <;> cases hp2 : i2.pub <;> simp
  · have hs' : ¬ par.lookup c.c2 = par.lookup c.c1 := fun e => hs e.symm
    rw [if_neg hs, if_neg hs']
    by_cases hP : par.lookup c.c2 = some c.c1
    · have hQ : ¬ par.lookup c.c1 = some c.c2 := fun q => hmut ⟨hP, q⟩
      simp only [if_pos hP, if_neg hQ]
    · by_cases hQ : par.lookup c.c1 = some c.c2
      · simp only [if_neg hP, if_pos hQ]
      · simp only [if_neg hP, if_neg hQ]

/-- The document that used to be connected in one attribute order only — a grandparent's private `out` variable and a
    grandchild's public `in` variable, not adjacent in the encapsulation hierarchy — is now refused in both (C17). -/
theorem direction_nonadjacent_refused :
    let par : ParentMap := [("C", "P"), ("P", "G")]
    let vt : VarTable := [(("G", "x"), ⟨[], .none, .out, none, none, ""⟩), (("C", "x"), ⟨[], .inn, .none, none, none, ""⟩)]
    direction par vt ⟨"C", "x", "G", "x"⟩ = .error (.valueError "Cannot determine the source & target for connection") ∧
    direction par vt ⟨"G", "x", "C", "x"⟩ = .error (.valueError "Cannot determine the source & target for connection") := by
  decide

/-- The resolved root of every variable does not depend on the order of the connections: if two lists with the same
    members (in particular: permutations of one another) are both resolved, every variable has the same root. -/
theorem connect_perm_root {reg : Registry} {vt : VarTable} {l l' : List (VRef × VRef)} {st st' : CState}
    (hl : ∀ c, c ∈ l ↔ c ∈ l') (h : connect reg vt l = .ok st) (h' : connect reg vt l' = .ok st') :
    ∀ v, rootOf st v = rootOf st' v := by
  obtain ⟨_, hlk, _⟩ := connect_forest h
  obtain ⟨_, hlk', _⟩ := connect_forest h'
  have inv := connect_inv h
  have inv' := connect_inv h'
  have hlook : ∀ v, st.mapping.lookup v = st'.mapping.lookup v := by
    intro v
    cases hv : st.mapping.lookup v with
    | some s => exact ((hlk' v s).mpr ((hl _).mp ((hlk v s).mp hv))).symm
    | none =>
        cases hv' : st'.mapping.lookup v with
        | none => rfl
        | some s =>
            have := (hlk v s).mpr ((hl _).mpr ((hlk' v s).mp hv'))
            rw [hv] at this; cases this
  intro v
  let n := max st.mapping.length st'.mapping.length
  have e1 : rootOf st v = resolve st.mapping n v := by
    unfold rootOf
    rw [inv.wf.resolve_eq_root _ v (Nat.le_refl _), inv.wf.resolve_eq_root n v (Nat.le_max_left _ _)]
  have e2 : rootOf st' v = resolve st'.mapping n v := by
    unfold rootOf
    rw [inv'.wf.resolve_eq_root _ v (Nat.le_refl _), inv'.wf.resolve_eq_root n v (Nat.le_max_right _ _)]
  rw [e1, e2]
  exact resolve_congr hlook n v

theorem connect_perm {reg : Registry} {vt : VarTable} {l l' : List (VRef × VRef)} {st st' : CState}
    (hp : l.Perm l') (h : connect reg vt l = .ok st) (h' : connect reg vt l' = .ok st') :
    ∀ v, rootOf st v = rootOf st' v :=
  connect_perm_root (fun _ => hp.mem_iff) h h'

/-- THE CHARACTERISATION of the connection sets the work list accepts (`Load.Resolvable`, stated without any order):
    (i) no variable is the target of two connections and no variable without `in` interface is a target,
    (ii) every source is fed from a variable without `in` interface through the connections (no unfed relay, no cycle),
    (iii) the two ends of every connection have convertible units, (iv) among the variables sharing one `assigned_to`
    at most one carries a cmeta id. `connect` succeeds iff the set is resolvable — in whatever order it is given. -/
theorem connect_ok_iff_resolvable (reg : Registry) (vt : VarTable) (cs : List (VRef × VRef)) :
    (∃ st, connect reg vt cs = .ok st) ↔ Resolvable reg vt cs :=
  connect_ok_iff_resolvable' reg vt cs

/-- Success or failure of the work list is the same for every order of the connections. (The exception CLASS of a
    failure may differ: "Target already assigned" ValueError in one order, the stuck-loop AssertionError in another.) -/
theorem connect_perm_outcome {reg : Registry} {vt : VarTable} {cs₁ cs₂ : List (VRef × VRef)} (hp : cs₁.Perm cs₂) :
    (∃ st, connect reg vt cs₁ = .ok st) ↔ (∃ st, connect reg vt cs₂ = .ok st) := by
  rw [connect_ok_iff_resolvable, connect_ok_iff_resolvable]
  exact ⟨Resolvable.perm hp, Resolvable.perm hp.symm⟩

/-- Outcome and roots together: if one order is resolved, every other order is resolved too and gives every variable
    the same root. -/
theorem connect_perm_total {reg : Registry} {vt : VarTable} {cs₁ cs₂ : List (VRef × VRef)} {st₁ : CState}
    (hp : cs₁.Perm cs₂) (h : connect reg vt cs₁ = .ok st₁) :
    ∃ st₂, connect reg vt cs₂ = .ok st₂ ∧ ∀ v, rootOf st₁ v = rootOf st₂ v := by
  obtain ⟨st₂, h₂⟩ := (connect_perm_outcome hp).mp ⟨st₁, h⟩
  exact ⟨st₂, h₂, connect_perm hp h h₂⟩

/-- the hypotheses of `direction_swap` for one connection: both variables exist, and the two components are not each
    other's parent -/
def SwapOK (par : ParentMap) (vt : VarTable) (c : Conn) : Prop :=
  ∃ i1 i2, vt.lookup c.end1 = some i1 ∧ vt.lookup c.end2 = some i2 ∧
    ¬ (par.lookup c.c2 = some c.c1 ∧ par.lookup c.c1 = some c.c2)

/-- Writing any subset of the connections of a document the other way round (component_1 ↔ component_2 together with
    variable_1 ↔ variable_2) gives the same list of directed connections, hence the same model. -/
theorem directAll_swap (comps : List String) (par : ParentMap) (vt : VarTable) (flip : Conn → Bool) :
    ∀ (ks : List Conn) (dl : List (VRef × VRef)), (∀ k ∈ ks, SwapOK par vt k) → directAll comps par vt ks = .ok dl →
      directAll comps par vt (ks.map (fun k => if flip k then k.swap else k)) = .ok dl
  | [], dl, _, h => h
  | k :: ks, dl, hok, h => by
      unfold directAll at h
      split at h
      · cases h
      · rename_i hc1
        split at h
        · cases h
        · rename_i hc2
          split at h
          · cases h
          · rename_i d hd
            split at h
            · cases h
            · rename_i ds hds
              simp only [Except.ok.injEq] at h; subst h
              have ih := directAll_swap comps par vt flip ks ds (fun k' hk' => hok k' (List.mem_cons_of_mem _ hk')) hds
              obtain ⟨i1, i2, h1, h2, hmut⟩ := hok k List.mem_cons_self
              have hsw := direction_swap par vt k i1 i2 h1 h2 hmut
              simp only [List.map_cons]
              unfold directAll
              cases hf : flip k with
              | false => simp only [Bool.false_eq_true, if_false, hc1, hc2, hd, ih]
              | true =>
                  have e1 : k.swap.c1 = k.c2 := rfl
                  have e2 : k.swap.c2 = k.c1 := rfl
                  simp only [if_true, e1, e2, hc1, hc2, hsw, hd, ih, Bool.false_eq_true, if_false]

/-- The order of the `<connection>` / `<map_variables>` elements does not matter: two connection lists with the same
    members, both resolved, give every variable the same root. -/
theorem conns_order_irrelevant {comps : List String} {par : ParentMap} {vt : VarTable} {reg : Registry}
    {ks ks' : List Conn} {dl dl' : List (VRef × VRef)} {st st' : CState}
    (hk : ∀ k, k ∈ ks ↔ k ∈ ks') (h1 : directAll comps par vt ks = .ok dl) (h2 : directAll comps par vt ks' = .ok dl')
    (c1 : connect reg vt dl = .ok st) (c2 : connect reg vt dl' = .ok st') :
    ∀ v, rootOf st v = rootOf st' v := by
  obtain ⟨a1, b1⟩ := directAll_spec h1
  obtain ⟨a2, b2⟩ := directAll_spec h2
  apply connect_perm_root _ c1 c2
  intro d
  constructor
  · intro hd
    obtain ⟨k, hkm, hdk⟩ := b1 d hd
    obtain ⟨d', hd', hdk'⟩ := a2 k ((hk k).mp hkm)
    rw [hdk] at hdk'; simp only [Except.ok.injEq] at hdk'; rw [hdk']; exact hd'
  · intro hd
    obtain ⟨k, hkm, hdk⟩ := b2 d hd
    obtain ⟨d', hd', hdk'⟩ := a1 k ((hk k).mpr hkm)
    rw [hdk] at hdk'; simp only [Except.ok.injEq] at hdk'; rw [hdk']; exact hd'

/-! ## 3. Substitution -/

/-- evaluating a renamed expression = evaluating the expression under the composed valuation -/
theorem eval_rename {α β υ φ : Type} (f : α → β) (g : υ → φ) (usc : φ → Rat) (σ : β → Rat) (δ : β → β → Rat)
    (e : Expr α υ) :
    (e.map f g).eval usc σ δ = e.eval (fun u => usc (g u)) (fun a => σ (f a)) (fun x t => δ (f x) (f t)) := by
  induction e with
  | num q u => rfl
  | var a => rfl
  | diff x t => rfl
  | add a b iha ihb => simp only [Expr.map, Expr.eval, iha, ihb]
  | sub a b iha ihb => simp only [Expr.map, Expr.eval, iha, ihb]
  | mul a b iha ihb => simp only [Expr.map, Expr.eval, iha, ihb]
  | div a b iha ihb => simp only [Expr.map, Expr.eval, iha, ihb]
  | neg a iha => simp only [Expr.map, Expr.eval, iha]
  | powi a n iha => simp only [Expr.map, Expr.eval, iha]

theorem sat_rename {α β υ φ : Type} (f : α → β) (g : υ → φ) (usc : φ → Rat) (σ : β → Rat) (δ : β → β → Rat)
    (e : Eqn α υ) :
    (e.map f g).Sat usc σ δ ↔ e.Sat (fun u => usc (g u)) (fun a => σ (f a)) (fun x t => δ (f x) (f t)) := by
  unfold Eqn.Sat Eqn.map
  simp only [eval_rename]
  cases e.lhs <;> exact Iff.rfl

/-! ## 4. Soundness of loading -/

/-- what the theorems need of the interpretation of scales as numbers -/
structure DenOK (den : Scale → Rat) : Prop where
  congr : ∀ a b : Scale, a ≃ b → den a = den b
  one   : den [] = 1

/-- the executable interpretation (exact for integer exponents) is an instance -/
theorem denOK_denInt : DenOK denInt where
  congr a b h := by unfold denInt; rw [norm_eq_of_equiv h]
  one := by decide

/-- SI value of one document unit -/
def uscD (den : Scale → Rat) (L : Loaded) (u : String) : Rat := uscF den L.reg (unitF L.ust u)

/-- the document differentiates this variable (or one connected to it) -/
def IsState (doc : Doc) (L : Loaded) (v : VRef) : Prop :=
  ∃ c ∈ doc.comps, ∃ e ∈ c.eqs, ∃ x t, e.lhs = .diff x t ∧ rootOf L.st (c.name, x) = rootOf L.st v

/-- DOCUMENT SEMANTICS. `σ` (SI value of every (component, variable)) and `δ` (SI value of every derivative) satisfy the
    document: every equation of every component holds physically over the component's own variables; every
    connection equates its two ends (as functions of time: also under derivatives); a variable with an initial value
    that is not a state is that constant. -/
structure DocSat (doc : Doc) (L : Loaded) (den : Scale → Rat) (σ : VRef → Rat) (δ : VRef → VRef → Rat) : Prop where
  eqs    : ∀ c ∈ doc.comps, ∀ e ∈ c.eqs,
             e.Sat (uscD den L) (fun x => σ (c.name, x)) (fun x t => δ (c.name, x) (c.name, t))
  conns  : ∀ k ∈ doc.conns, σ k.end1 = σ k.end2
  dconn₁ : ∀ k ∈ doc.conns, ∀ y, δ k.end1 y = δ k.end2 y
  dconn₂ : ∀ k ∈ doc.conns, ∀ x, δ x k.end1 = δ x k.end2
  inits  : ∀ c ∈ doc.comps, ∀ d ∈ c.vars, ∀ q, d.init = some q → ¬ IsState doc L (c.name, d.name) →
             σ (c.name, d.name) = q * uscD den L d.units

/-- FLAT SEMANTICS: every equation of the flat model holds physically. -/
def FlatSat (den : Scale → Rat) (F : Flat) (τ : VRef → Rat) (δ : VRef → VRef → Rat) : Prop :=
  ∀ e ∈ F.eqs, e.Sat (uscF den F.reg) τ δ

/-- what RELAX NG validation guarantees and the theorems use: an initial value only on a variable without an `in`
    interface (cellml_1_0.rnc, `cellml.variable`) -/
def InitOnSources (doc : Doc) : Prop :=
  ∀ c ∈ doc.comps, ∀ d ∈ c.vars, d.init.isSome → d.pub ≠ .inn ∧ d.priv ≠ .inn

theorem prepare_spec {doc : Doc} {L : Loaded} (h : prepare doc = .ok L) :
    L.vt = varTable L.ust doc.comps ∧ connect L.reg L.vt L.dl = .ok L.st ∧
    directAll (doc.comps.map (·.name)) L.par L.vt doc.conns = .ok L.dl := by
  unfold prepare at h
  split at h
  · cases h
  · split at h
    · cases h
    · simp only at h
      split at h
      · cases h
      · split at h
        · cases h
        · split at h
          · cases h
          · rename_i hc
            simp only [Except.ok.injEq] at h
            subst h
            rename_i hd _ _
            exact ⟨rfl, hc, hd⟩

theorem load_flat {doc : Doc} {F : Flat} (h : load doc = .ok F) : ∃ L, prepare doc = .ok L ∧ F = L.flat doc := by
  unfold load at h
  split at h
  · cases h
  · rename_i L hL
    split at h
    · cases h
    · split at h
      · cases h
      · simp only [Except.ok.injEq] at h
        exact ⟨L, hL, h.symm⟩

/-- the conversion factor of a connection equation, read with its unit `target.units / source.units`, is physically 1 -/
theorem conv_factor_one {reg : Registry} {su tu : Container} {cf : Scale} (h : Units.factor reg su tu = .ok cf) :
    PMap.add cf (Units.toRoot reg (PMap.sub tu su)).1 ≃ [] := by
  have hcf : cf ≃ PMap.sub (Units.toRoot reg su).1 (Units.toRoot reg tu).1 := by
    unfold Units.factor at h
    split at h
    · cases h
    · split at h
      · simp only [Except.ok.injEq] at h; subst h; exact norm_equiv _
      · cases h
  have h1 := (Units.toRoot_add reg tu (PMap.smul (-1) su)).1
  have h2 := (Units.toRoot_smul reg (-1) su).1
  intro p
  have e1 := h1 p
  have e2 := h2 p
  have e3 := hcf p
  simp only [PMap.sub, PMap.neg, get_add, get_smul, get_nil] at *
  rw [e3, e1, e2]
  grind

/-- a function that agrees on the two ends of every recorded connection agrees on a variable and its root -/
theorem root_respects {β : Type} (f : VRef → β) : ∀ (m : List (VRef × VRef)), (∀ t s, (t, s) ∈ m → f t = f s) →
    ∀ v, f (root m v) = f v
  | [], _, _ => rfl
  | (t0, s0) :: m, h, v => by
      have ih := root_respects f m (fun t s hm => h t s (List.mem_cons_of_mem _ hm))
      simp only [root]
      split
      · rename_i hv; rw [ih s0, hv]; exact (h t0 s0 List.mem_cons_self).symm
      · exact ih v

theorem mem_varTable {ust : Units.Store} {comps : List Comp} {v : VRef} {i : VarInfo} :
    (v, i) ∈ varTable ust comps ↔ ∃ c ∈ comps, ∃ d ∈ c.vars, (v, i) = entry ust c.name d := by
  unfold varTable
  simp only [List.mem_flatMap, List.mem_map]
  constructor
  · rintro ⟨c, hc, d, hd, e⟩; exact ⟨c, hc, d, hd, e.symm⟩
  · rintro ⟨c, hc, d, hd, e⟩; exact ⟨c, hc, d, hd, e.symm⟩

theorem mem_statesOf {eqs : List FlatEq} {v : VRef} :
    v ∈ statesOf eqs ↔ ∃ e ∈ eqs, e.lhs.isDiff = true ∧ e.lhs.defines = v := by
  unfold statesOf
  simp only [List.mem_map, List.mem_filter]
  constructor
  · rintro ⟨e, ⟨he, hd⟩, hv⟩; exact ⟨e, he, hd, hv⟩
  · rintro ⟨e, he, hd, hv⟩; exact ⟨e, ⟨he, hd⟩, hv⟩

theorem mem_mathsOf {ust : Units.Store} {st : CState} {comps : List Comp} {e : FlatEq} :
    e ∈ mathsOf ust st comps ↔ ∃ c ∈ comps, ∃ e0 ∈ c.eqs, e = transcribe ust st c.name e0 := by
  unfold mathsOf
  simp only [List.mem_flatMap, List.mem_map]
  constructor
  · rintro ⟨c, hc, e0, he0, h⟩; exact ⟨c, hc, e0, he0, h.symm⟩
  · rintro ⟨c, hc, e0, he0, h⟩; exact ⟨c, hc, e0, he0, h.symm⟩

/-- a source variable is a state of the flat model iff the document differentiates a variable connected to it -/
theorem state_iff {doc : Doc} {L : Loaded} {v : VRef} (hv : rootOf L.st v = v) :
    v ∈ L.states doc ↔ IsState doc L v := by
  unfold Loaded.states Loaded.maths IsState
  rw [mem_statesOf]
  constructor
  · rintro ⟨e, he, hd, hdef⟩
    obtain ⟨c, hc, e0, he0, rfl⟩ := mem_mathsOf.mp he
    refine ⟨c, hc, e0, he0, ?_⟩
    unfold transcribe Eqn.map at hd hdef
    cases hl : e0.lhs with
    | var a => rw [hl] at hd; simp [Lhs.map, Lhs.isDiff] at hd
    | diff x t =>
        rw [hl] at hdef
        simp only [Lhs.map, Lhs.defines] at hdef
        exact ⟨x, t, rfl, by rw [hdef, hv]⟩
  · rintro ⟨c, hc, e0, he0, x, t, hl, hr⟩
    refine ⟨transcribe L.ust L.st c.name e0, mem_mathsOf.mpr ⟨c, hc, e0, he0, rfl⟩, ?_, ?_⟩
    · unfold transcribe Eqn.map; rw [hl]; rfl
    · unfold transcribe Eqn.map; rw [hl]; simp only [Lhs.map, Lhs.defines]; rw [hr, hv]

/-- facts about a successfully loaded document used by both directions -/
theorem loaded_facts {doc : Doc} {L : Loaded} (hprep : prepare doc = .ok L) :
    (∀ k ∈ doc.conns, rootOf L.st k.end1 = rootOf L.st k.end2) ∧
    (∀ t s, (t, s) ∈ L.st.mapping → ∃ k ∈ doc.conns, (t = k.end1 ∧ s = k.end2) ∨ (t = k.end2 ∧ s = k.end1)) := by
  obtain ⟨_, hconn, hdir⟩ := prepare_spec hprep
  obtain ⟨hd1, hd2⟩ := directAll_spec hdir
  have inv := connect_inv hconn
  have hroot : ∀ v, rootOf L.st v = root L.st.mapping v := fun v => inv.wf.resolve_eq_root _ v (Nat.le_refl _)
  constructor
  · intro k hk
    obtain ⟨⟨s, t⟩, hd, hdk⟩ := hd1 k hk
    have hm : (t, s) ∈ L.st.mapping := by
      rcases inv.conn_in (s, t) hd with h | h
      · simp at h
      · exact h
    have := inv.wf.root_mem t s hm
    rw [hroot, hroot]
    rcases direction_ends hdk with ⟨rfl, rfl⟩ | ⟨rfl, rfl⟩
    · exact this.symm
    · exact this
  · intro t s hm
    obtain ⟨k, hk, hdk⟩ := hd2 (s, t) (inv.map_from t s hm)
    refine ⟨k, hk, ?_⟩
    rcases direction_ends hdk with ⟨rfl, rfl⟩ | ⟨rfl, rfl⟩
    · exact Or.inr ⟨rfl, rfl⟩
    · exact Or.inl ⟨rfl, rfl⟩

/-- a variable with an initial value is its own root (in a schema-valid document) -/
theorem init_root_self {doc : Doc} {L : Loaded} (hprep : prepare doc = .ok L) (hvalid : InitOnSources doc)
    {c : Comp} (hc : c ∈ doc.comps) {d : VarDecl} (hd : d ∈ c.vars) (hi : d.init.isSome) :
    rootOf L.st (c.name, d.name) = (c.name, d.name) := by
  obtain ⟨hvt, hconn, _⟩ := prepare_spec hprep
  obtain ⟨_, _, _, _, _, _, hsrc, _⟩ := connect_forest hconn
  apply hsrc
  have hm : entry L.ust c.name d ∈ L.vt := by rw [hvt]; exact mem_varTable.mpr ⟨c, hc, d, hd, rfl⟩
  apply src_of_mem hm
  obtain ⟨h1, h2⟩ := hvalid c hc d hd hi
  simp only [VarInfo.isSrc]
  cases hp : d.pub <;> cases hq : d.priv <;> simp_all

/-- `load_sound`, from the flat model to the document: every physical solution of the flat model, read through `root`,
    is a physical solution of the document. -/
theorem load_sound {doc : Doc} {F : Flat} {den : Scale → Rat} (hload : load doc = .ok F) (hvalid : InitOnSources doc)
    (τ : VRef → Rat) (δ : VRef → VRef → Rat) (hsat : FlatSat den F τ δ) :
    ∃ L, prepare doc = .ok L ∧
      DocSat doc L den (fun v => τ (rootOf L.st v)) (fun x t => δ (rootOf L.st x) (rootOf L.st t)) := by
  obtain ⟨L, hprep, rfl⟩ := load_flat hload
  refine ⟨L, hprep, ?_⟩
  obtain ⟨hconns, _⟩ := loaded_facts hprep
  obtain ⟨hvt, _, _⟩ := prepare_spec hprep
  have hF : ∀ e, e ∈ L.st.convs.map ConvEq.toEq ++ L.maths doc ++ constsOf (L.states doc) L.vt →
      e.Sat (uscF den L.reg) τ δ := hsat
  refine ⟨?_, ?_, ?_, ?_, ?_⟩
  · intro c hc e he
    have hm : transcribe L.ust L.st c.name e ∈ L.maths doc := mem_mathsOf.mpr ⟨c, hc, e, he, rfl⟩
    have := hF _ (List.mem_append_left _ (List.mem_append_right _ hm))
    exact (sat_rename (fun x => rootOf L.st (c.name, x)) (unitF L.ust) (uscF den L.reg) τ δ e).mp this
  · intro k hk; simp only [hconns k hk]
  · intro k hk y; simp only [hconns k hk]
  · intro k hk x; simp only [hconns k hk]
  · intro c hc d hd q hq hns
    have hself := init_root_self hprep hvalid hc hd (by rw [hq]; rfl)
    have hnot : (c.name, d.name) ∉ L.states doc := fun hs => hns ((state_iff hself).mp hs)
    have hm : entry L.ust c.name d ∈ L.vt := by rw [hvt]; exact mem_varTable.mpr ⟨c, hc, d, hd, rfl⟩
    have hcm : (⟨.var (c.name, d.name), .num q (unitF L.ust d.units)⟩ : FlatEq) ∈ constsOf (L.states doc) L.vt := by
      unfold constsOf
      rw [List.mem_filterMap]
      refine ⟨entry L.ust c.name d, hm, ?_⟩
      have : (L.states doc).contains (c.name, d.name) = false := by
        simpa using hnot
      simp only [entry, this, hq, Option.map_some, unitF]
      rfl
    have := hF _ (List.mem_append_right _ hcm)
    simp only [Eqn.Sat, Lhs.eval, Expr.eval] at this
    show τ (rootOf L.st (c.name, d.name)) = q * uscD den L d.units
    rw [hself]; exact this

/-- `load_sound` in magnitudes: if `ν` gives every flat variable its magnitude in its declared unit (`sc x ≠ 0` the SI
    scale of that unit) then the magnitude of a document variable `(c, v)` in ITS declared unit is
    `ν (root (c,v)) · sc (root (c,v)) / sc (c,v)` — the value of its ultimate source times the ratio of the unit scales. -/
theorem load_sound_numeric {doc : Doc} {F : Flat} {den : Scale → Rat} (hload : load doc = .ok F)
    (hvalid : InitOnSources doc) (ν sc : VRef → Rat) (hsc : ∀ v, sc v ≠ 0) (δ : VRef → VRef → Rat)
    (hsat : FlatSat den F (fun x => ν x * sc x) δ) :
    ∃ L, prepare doc = .ok L ∧
      DocSat doc L den (fun v => (ν (rootOf L.st v) * sc (rootOf L.st v) / sc v) * sc v)
        (fun x t => δ (rootOf L.st x) (rootOf L.st t)) := by
  obtain ⟨L, hprep, h⟩ := load_sound hload hvalid (fun x => ν x * sc x) δ hsat
  refine ⟨L, hprep, ?_⟩
  have e : (fun v => (ν (rootOf L.st v) * sc (rootOf L.st v) / sc v) * sc v) =
      (fun v => ν (rootOf L.st v) * sc (rootOf L.st v)) := by
    funext v
    exact Rat.div_mul_cancel (hsc v)
  rw [e]; exact h

/-- `load_sound`, from the document to the flat model: every physical solution of the document is, as it stands, a
    physical solution of the flat model (the flat variables ARE document variables). -/
theorem load_complete {doc : Doc} {F : Flat} {den : Scale → Rat} (hden : DenOK den) (hload : load doc = .ok F)
    (hvalid : InitOnSources doc) (σ : VRef → Rat) (δ : VRef → VRef → Rat)
    (L : Loaded) (hprep : prepare doc = .ok L) (hsat : DocSat doc L den σ δ) :
    FlatSat den F σ δ := by
  obtain ⟨L', hprep', rfl⟩ := load_flat hload
  rw [hprep] at hprep'
  simp only [Except.ok.injEq] at hprep'
  subst hprep'
  obtain ⟨_, hmap⟩ := loaded_facts hprep
  obtain ⟨hvt, hconn, _⟩ := prepare_spec hprep
  have inv := connect_inv hconn
  have hroot : ∀ v, rootOf L.st v = root L.st.mapping v := fun v => inv.wf.resolve_eq_root _ v (Nat.le_refl _)
  -- σ and δ do not distinguish a variable from its root
  have hσ : ∀ v, σ (rootOf L.st v) = σ v := by
    intro v; rw [hroot]
    apply root_respects σ
    intro t s hm
    obtain ⟨k, hk, h | h⟩ := hmap t s hm
    · rw [h.1, h.2]; exact hsat.conns k hk
    · rw [h.1, h.2]; exact (hsat.conns k hk).symm
  have hδ₁ : ∀ x y, δ (rootOf L.st x) y = δ x y := by
    intro x y; rw [hroot]
    apply root_respects (fun x => δ x y)
    intro t s hm
    obtain ⟨k, hk, h | h⟩ := hmap t s hm
    · rw [h.1, h.2]; exact hsat.dconn₁ k hk y
    · rw [h.1, h.2]; exact (hsat.dconn₁ k hk y).symm
  have hδ₂ : ∀ x y, δ x (rootOf L.st y) = δ x y := by
    intro x y; rw [hroot]
    apply root_respects (fun y => δ x y)
    intro t s hm
    obtain ⟨k, hk, h | h⟩ := hmap t s hm
    · rw [h.1, h.2]; exact hsat.dconn₂ k hk x
    · rw [h.1, h.2]; exact (hsat.dconn₂ k hk x).symm
  intro e he
  have he' : e ∈ L.st.convs.map ConvEq.toEq ++ L.maths doc ++ constsOf (L.states doc) L.vt := he
  simp only [List.mem_append] at he'
  rcases he' with (he' | he') | he'
  · -- conversion equation
    obtain ⟨ce, hce, rfl⟩ := List.mem_map.mp he'
    obtain ⟨_, _, hr, hf⟩ := inv.conv_ok ce hce
    have h1 : uscF den L.reg (ce.cf, PMap.sub ce.tu ce.su) = 1 := by
      unfold uscF; rw [hden.congr _ _ (conv_factor_one hf), hden.one]
    have h2 : σ ce.src = σ ce.target := by
      rw [← hσ ce.src, ← hσ ce.target, hroot, hroot, hr]
    show σ ce.target = σ ce.src * (1 * uscF den L.reg (ce.cf, PMap.sub ce.tu ce.su))
    rw [h1, h2]; grind
  · -- component equation
    obtain ⟨c, hc, e0, he0, rfl⟩ := mem_mathsOf.mp he'
    apply (sat_rename (fun x => rootOf L.st (c.name, x)) (unitF L.ust) (uscF den L.reg) σ δ e0).mpr
    have := hsat.eqs c hc e0 he0
    simp only [hσ, hδ₁, hδ₂]
    exact this
  · -- constant
    unfold constsOf at he'
    rw [List.mem_filterMap] at he'
    obtain ⟨⟨v, i⟩, hm, hx⟩ := he'
    rw [hvt] at hm
    obtain ⟨c, hc, d, hd, hentry⟩ := mem_varTable.mp hm
    simp only at hx
    split at hx
    · cases hx
    · rename_i hns
      cases hi : i.init with
      | none => rw [hi] at hx; cases hx
      | some q =>
          rw [hi] at hx
          simp only [Option.map_some, Option.some.injEq] at hx
          subst hx
          have hv : v = (c.name, d.name) := by
            have := congrArg Prod.fst hentry; simpa [entry] using this
          have hi' : i = (entry L.ust c.name d).2 := congrArg Prod.snd hentry
          have hq : d.init = some q := by rw [hi'] at hi; simpa [entry] using hi
          have hself := init_root_self hprep hvalid hc hd (by rw [hq]; rfl)
          have hnot : ¬ IsState doc L (c.name, d.name) := by
            intro hs
            have := (state_iff hself).mpr hs
            rw [← hv] at this
            have hc' : (L.states doc).contains v = true := by simpa using this
            exact hns hc'
          have := hsat.inits c hc d hd q hq hnot
          show σ v = q * uscF den L.reg ([], i.units)
          rw [hv, this, hi']
          rfl

/-! ## 5. Non-vacuity: a 3-component relay with mV → V -/

/-- membrane (owns `V` in mV, `V = 2 mV + 0.5 V`) ⊃ channel (relays `V` in volt to its child) ⊃ gate (reads `v` in mV,
    `y = v + 1 mV`). Connections are written child-first and the file order is reversed. -/
def relayDoc : Doc :=
  { units := [.derived "mV" [{ units := "volt", pfx := some "milli" }]]
    comps := [
      ⟨"gate", [⟨"v", "mV", .inn, .none, none, none⟩, ⟨"y", "mV", .none, .none, none, none⟩],
        [⟨.var "y", .add (.var "v") (.num 1 "mV")⟩]⟩,
      ⟨"channel", [⟨"V", "volt", .inn, .out, none, none⟩], []⟩,
      ⟨"membrane", [⟨"V", "mV", .none, .out, none, none⟩],
        [⟨.var "V", .add (.num 2 "mV") (.num (1/2) "volt")⟩]⟩]
    encaps := [(none, "membrane"), (some "membrane", "channel"), (some "channel", "gate")]
    conns := [⟨"gate", "v", "channel", "V"⟩, ⟨"channel", "V", "membrane", "V"⟩] }

def relayUnits : Registry × Units.Store :=
  match buildUnits relayDoc.units (Units.builtinRegistry, { id := 0, known := [] }) with
  | .ok p => p
  | .error _ => ([], { id := 0, known := [] })
def relayNames : List String := relayDoc.comps.map (·.name)
def relayVt : VarTable := varTable relayUnits.2 relayDoc.comps
def relayPar : ParentMap :=
  match buildParents relayNames relayDoc.encaps [] [] with
  | .ok p => p
  | .error _ => []
def relayDl : List (VRef × VRef) :=
  match directAll relayNames relayPar relayVt relayDoc.conns with
  | .ok d => d
  | .error _ => []
def relaySt : CState :=
  match connectLoopF relayUnits.1 relayVt 10 relayDl 0 (initState relayVt) with
  | some (.ok st) => st
  | _ => initState relayVt
def relayL : Loaded := ⟨relayUnits.1, relayUnits.2, relayVt, relayPar, relayDl, relaySt⟩

/-- the first connection of the file (gate ← channel) cannot be resolved before the second: the deque is rotated once -/
theorem relay_connect : connect relayUnits.1 relayVt relayDl = .ok relaySt :=
  connect_of_fuel 10 (by decide +kernel)

theorem relay_prepare : prepare relayDoc = .ok relayL :=
  prepare_of_parts (chk := ([("membrane", "V"), ("channel", "V"), ("gate", "y"), ("gate", "v")], []))
    (by decide +kernel) (by decide +kernel) (by decide +kernel) (by decide +kernel) relay_connect

theorem relay_load : load relayDoc = .ok (relayL.flat relayDoc) :=
  load_of_parts (defined := [("membrane", "V"), ("gate", "y"), ("channel", "V"), ("gate", "v")])
    relay_prepare (by decide +kernel) (by decide +kernel)

/-- the flat model: two conversion equations (mV → volt with factor 10⁻³, volt → mV with factor 10³), and the two
    component equations, in which `gate$v` has been replaced by its ultimate source `membrane$V` -/
example : (relayL.flat relayDoc).eqs =
    [⟨.var ("channel", "V"), .mul (.var ("membrane", "V")) (.num 1 ([(2, -3), (5, -3)], [("volt", 1), ("store0_mV", -1)]))⟩,
     ⟨.var ("gate", "v"), .mul (.var ("channel", "V")) (.num 1 ([(2, 3), (5, 3)], [("store0_mV", 1), ("volt", -1)]))⟩,
     ⟨.var ("gate", "y"), .add (.var ("membrane", "V")) (.num 1 ([], [("store0_mV", 1)]))⟩,
     ⟨.var ("membrane", "V"), .add (.num 2 ([], [("store0_mV", 1)])) (.num (1/2) ([], [("volt", 1)]))⟩] := by
  decide +kernel

example : rootOf relaySt ("gate", "v") = ("membrane", "V") ∧ rootOf relaySt ("channel", "V") = ("membrane", "V") ∧
    relaySt.asg ("gate", "v") = some ("gate", "v") ∧
    (initAssigned relayVt).lookup ("membrane", "V") = some ("membrane", "V") := by
  decide +kernel

/-- `connect_perm` is not vacuous: the other order of the two connections is resolved too (without rotation) -/
example : ∃ st', connect relayUnits.1 relayVt relayDl.reverse = .ok st' ∧ relayDl.Perm relayDl.reverse :=
  ⟨_, connect_of_fuel (r := .ok (match connectLoopF relayUnits.1 relayVt 10 relayDl.reverse 0 (initState relayVt) with
      | some (.ok st) => st
      | _ => initState relayVt)) 10 (by decide +kernel), (List.reverse_perm _).symm⟩

/-- `direction_swap` is not vacuous: the parent-child connection gate–channel satisfies its hypotheses -/
example : direction relayPar relayVt (Conn.swap ⟨"gate", "v", "channel", "V"⟩) =
    direction relayPar relayVt ⟨"gate", "v", "channel", "V"⟩ := by
  decide +kernel

theorem relay_valid : InitOnSources relayDoc := by
  unfold InitOnSources; decide +kernel

/-- a physical solution of the flat model: V = 2 mV + 0.5 V = 0.502 V everywhere, y = 0.503 V -/
def relayτ (v : VRef) : Rat := if v = ("gate", "y") then 503 / 1000 else 502 / 1000

theorem relay_flatSat : FlatSat denInt (relayL.flat relayDoc) relayτ (fun _ _ => 0) := by
  unfold FlatSat; decide +kernel

/-- `load_sound` applied: the document's own equations and connections hold of the flat solution read through `root` -/
example : ∃ L, prepare relayDoc = .ok L ∧
    DocSat relayDoc L denInt (fun v => relayτ (rootOf L.st v)) (fun _ _ => 0) :=
  load_sound relay_load relay_valid relayτ (fun _ _ => 0) relay_flatSat

/-- and back (`load_complete`): that document solution solves the flat model -/
example (σ : VRef → Rat) (δ : VRef → VRef → Rat) (h : DocSat relayDoc relayL denInt σ δ) :
    FlatSat denInt (relayL.flat relayDoc) σ δ :=
  load_complete denOK_denInt relay_load relay_valid σ δ relayL relay_prepare h

/-- `connect_ok_iff_resolvable`, both sides inhabited: the relay is resolvable … -/
example : Resolvable relayUnits.1 relayVt relayDl :=
  (connect_ok_iff_resolvable _ _ _).mp ⟨_, relay_connect⟩

/-- … while a second source for `channel$V` (here `gate$y`) is refused in both orders (ValueError in both), -/
def twoSources : List (VRef × VRef) := [(("membrane", "V"), ("channel", "V")), (("gate", "y"), ("channel", "V"))]

example : connect relayUnits.1 relayVt twoSources = .error (.valueError "Target already assigned") ∧
    connect relayUnits.1 relayVt twoSources.reverse = .error (.valueError "Target already assigned") ∧
    ¬ Resolvable relayUnits.1 relayVt twoSources := by
  have h1 : connect relayUnits.1 relayVt twoSources = .error (.valueError "Target already assigned") :=
    connect_of_fuel 10 (by decide +kernel)
  have h2 : connect relayUnits.1 relayVt twoSources.reverse = .error (.valueError "Target already assigned") :=
    connect_of_fuel 10 (by decide +kernel)
  refine ⟨h1, h2, fun R => ?_⟩
  obtain ⟨st, hst⟩ := (connect_ok_iff_resolvable _ _ _).mpr R
  rw [h1] at hst; cases hst

/-- … and a relay nobody feeds (`channel$V` has an `in` interface and no incoming connection) stops the loop with the
    `assert` (AssertionError): not resolvable either. -/
example : connect relayUnits.1 relayVt [(("channel", "V"), ("gate", "v"))] =
      .error (.assertion "Unable to add connections to the model") ∧
    ¬ Resolvable relayUnits.1 relayVt [(("channel", "V"), ("gate", "v"))] := by
  have h1 : connect relayUnits.1 relayVt [(("channel", "V"), ("gate", "v"))] =
      .error (.assertion "Unable to add connections to the model") := connect_of_fuel 10 (by decide +kernel)
  refine ⟨h1, fun R => ?_⟩
  obtain ⟨st, hst⟩ := (connect_ok_iff_resolvable _ _ _).mpr R
  rw [h1] at hst; cases hst

/-- `connect_perm_outcome` applied: a refused set is refused in the reversed order too (no evaluation of that order) -/
example (st : CState) : connect relayUnits.1 relayVt (twoSources ++ relayDl).reverse ≠ .ok st := by
  intro h
  obtain ⟨st', h'⟩ := (connect_perm_outcome (List.reverse_perm _)).mp ⟨st, h⟩
  have : connect relayUnits.1 relayVt (twoSources ++ relayDl) = .error (.valueError "Target already assigned") :=
    connect_of_fuel 20 (by decide +kernel)
  rw [this] at h'; cases h'

end Cellml.Props.C01
