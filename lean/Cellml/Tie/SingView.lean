import Cellml.Tie.Prelude
import Cellml.C12.Piecewise
import Cellml.C12.Fix
import Cellml.C12.Traverse
import Cellml.C18.Model

/-! # What the translated functions of `_singularity_fixes.py` see (core Lean only)

    The pattern tables of `harness/code_specs/sing*.py` bind the SymPy / Model leaves of `_generate_piecewise`,
    `_fix_expr_parts`, `_remove_singularities` and `remove_fixable_singularities` to the accessors below, which read
    the hand-written model of C12 (`Cellml/C12/{Expr,Window,Piecewise,Fix,Traverse}.lean`) and C18
    (`Cellml/C18/Model.lean`). -/

namespace Cellml.Tie.Sing
open C12 C12.Expr

/-! ## `_generate_piecewise` on values -/

/-- `float(x)` for a bound that IS a number. (For a bound with free symbols python raises `TypeError`; the hand model
    only has numeric bounds — `Win Rat` — so that branch is outside the model.) -/
def pyFloat {K : Type} (x : K) : Except PyErr K := pure x

/-! ## `_fix_expr_parts`: SymPy trees as `C12.Expr` -/

/-- the 5-tuple `(Vmin, Vmax, sp, expr, has_piecewise)`; the first three are a `Quantity` or `None` -/
abbrev PyRes := Option Rat × Option Rat × Option Rat × Expr × Bool

/-- how the model's `Res` is spelled as the python tuple -/
def enc (r : Res) : PyRes := (r.win.map (·.vmin), r.win.map (·.vmax), r.win.map (·.sp), r.ex, r.changed)

/-- `isinstance(e, Mul)` / `Add` / `Pow` -/
def isMul : Expr → Bool | .mul _ => true | _ => false
def isAdd : Expr → Bool | .add _ => true | _ => false
def isPow : Expr → Bool | .pow _ _ => true | _ => false

/-- `e.args` (the exponent of the model's `Pow` is an integer; as an argument it is that number) -/
def args : Expr → List Expr
  | .add as | .mul as | .fn _ as => as
  | .pow b n => [b, .num (Rat.ofInt n)]
  | .exp a => [a]
  | .pw _ _ f => [f]
  | _ => []

/-- `e.args[0]` -/
def arg0 : Expr → Expr
  | .pow b _ => b
  | e => (args e).headD e

/-- `e.args[1]` of a `Pow`, as the number it is compared with (`== -1`, `== -1.0`) -/
def powExp : Expr → Int
  | .pow _ n => n
  | _ => 0

/-- `str(getattr(a, 'units', 'dimensionless')) == 'dimensionless'`: the numbers of the C12 model carry no unit -/
def unitless (_ : Expr) : Bool := true

/-- `_generate_piecewise(ex, V, sp, Vmin, Vmax)` on trees: the model's `wrapWin` (tied to the python source of
    `_generate_piecewise` by `generatePiecewise_eval`); total: without all three numbers nothing is wrapped -/
def genPw (e : Expr) (sp vmin vmax : Option Rat) : Expr :=
  match vmin, vmax, sp with
  | some a, some b, some s => wrapWin ⟨a, b, s⟩ e
  | _, _, _ => e

/-- a range returned by `_get_singularity` as the python triple of quantities -/
def winTuple (w : Win Rat) : Option Rat × Option Rat × Option Rat := (some w.vmin, some w.vmax, some w.sp)

/-- `[item for (Vmin, Vmax, …) in rs for item in (Vmin, Vmax)]` -/
def bounds5 (rs : List PyRes) : List (Option Rat) := rs.flatMap (fun r => [r.1, r.2.1])
def bounds3 (rs : List (Option Rat × Option Rat × Option Rat)) : List (Option Rat) := rs.flatMap (fun r => [r.1, r.2.1])

/-- python `set(xs)` as the list of its distinct elements (only its length is read) -/
def pySet {α} [BEq α] : List α → List α
  | [] => []
  | a :: as => if (pySet as).contains a then pySet as else a :: pySet as

/-- `[str(sp) for (_, _, sp, _, _) in rs]`: a quantity is identified by its number, `None` by `none` -/
def spStrs (rs : List PyRes) : List (Option Rat) := rs.map (fun r => r.2.2.1)

/-- `min(range, key=lambda v: float(str(v)))` over quantities: the first smallest (python's `min`) -/
def pyMin (l : List (Option Rat)) : Option Rat :=
  match l.filterMap id with
  | [] => none
  | a :: as => some (as.foldl min2 a)
def pyMax (l : List (Option Rat)) : Option Rat :=
  match l.filterMap id with
  | [] => none
  | a :: as => some (as.foldl max2 a)

def pyResDefault : PyRes := (none, none, none, .num 0, false)

/-! ## `remove_fixable_singularities`: the model's equations -/

/-- the model's `fix` argument of `traverse` for a `_remove_singularities` returning the python pair `(changed, ex)` -/
def fixOf (p : Expr → Bool × Expr) (r : Expr) : Option Expr := if (p r).1 then some (p r).2 else none

/-- the attributes of `eq = model.graph.nodes[variable]['equation']` (which may be `None`) -/
def eqLhs (e : Option Eqn) : String := (e.map (·.lhs)).getD ""
def eqRhs (e : Option Eqn) : Expr := (e.map (·.rhs)).getD (.num 0)

/-- `d[k]` for the dict `unprocessed_eqs` -/
def envGet (env : Env) (k : String) : Expr := (lookup env k).getD (.num 0)
/-- `d[k] = v`: the key is overwritten -/
def envSet (env : Env) (k : String) (v : Expr) : Env := (k, v) :: env.filter (fun p => p.1 != k)
/-- `d.pop(k)` -/
def envPop (env : Env) (k : String) : Env := env.filter (fun p => p.1 != k)

/-- `model.units.get_unit(name)`: a `Unit` of this model's store. The only name the C18 model is sure the store knows
    is the built-in 'dimensionless' (for any other name `get_unit`, like `create_quantity` on an unknown name, raises
    `KeyError`) -/
def storeUnit (n : String) : C18.UnitArg := if n == "dimensionless" then .ownUnit else .unknownName

/-- what the re-unit step of `remove_fixable_singularities` sees of a quantity `q` of the new expression:
    `q is ONE` -/
structure QAtom where
  isONE : Bool

/-- `new_ex.xreplace({q: model.create_quantity(q._value, <unit for q>) for q in new_ex.atoms(Quantity)
    if isinstance(q.units, str)})`: every quantity created by the analysis (the module constant `ONE`, and the
    range bounds / singular points made by `_float_dummies`) is re-created by `Model.create_quantity` (C18
    `createQuantity`) with the unit argument the source computes for it. The C12 trees carry no units, so the tree is
    unchanged; the units hung on the new atoms are recorded. -/
def reunit (sid : Nat) (unitFor : QAtom → C18.UnitArg) (e : Expr) (created : List C18.UnitRef) :
    Except PyErr (Expr × List C18.UnitRef) :=
  match C18.createQuantity sid (unitFor ⟨true⟩), C18.createQuantity sid (unitFor ⟨false⟩) with
  | .ok r₁, .ok r₂ => .ok (e, created ++ [r₁, r₂])
  | _, _ => .error ⟨"KeyError"⟩

end Cellml.Tie.Sing
