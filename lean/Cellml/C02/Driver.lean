import Cellml.Basic.Sexp
import Cellml.C02.Model

/-! Channel C02: `(C02 <mml>)` → `(ok <sy>)` | `(err <PythonErrorClass>)` | `(outside "why")`.

    mml ::= `(ci "name")` | `(cn <opt> <opt> (kid…))` | `(el "tag" mml…)`        opt ::= `none` | `(some "text")`
    kid ::= `(sep <opt>)` | `(other <opt>)`                                       (the child's tail text)
    sy  ::= `(num p/q)` `(int n)` `(special s)` `(sym "x")` `(const c)` `(cls c)` `(wrapped m)` `(rel c)`
            `(app head sy…)` `(tuple sy sy)` `(pylist sy…)` -/
namespace C02
open Sexp

def opt? : Sexp → Option String
  | .list [.atom "some", .str s] => some s
  | .list [.atom "some", .atom s] => some s
  | _ => none

def kid? : Sexp → (Bool × Option String)
  | .list [.atom "sep", o] => (true, opt? o)
  | .list [_, o] => (false, opt? o)
  | _ => (false, none)

partial def mmlOf : Sexp → Mml
  | .list [.atom "ci", n] => .ci ((atomOf? n).getD "")
  | .list [.atom "cn", ty, text, .list kids] => .cn (opt? ty) (opt? text) (kids.map kid?)
  | .list (.atom "el" :: tag :: kids) => .el ((atomOf? tag).getD "") (Mml.ofList (kids.map mmlOf))
  | _ => .el "?bad-request" .nil

partial def syOut : Sy → Sexp
  | .nil => .list [.atom "pylist"]
  | .cons h t => .list (.atom "pylist" :: (Sy.cons h t).toList.map syOut)
  | .num q => .list [.atom "num", ofRat q]
  | .int n => .list [.atom "int", ofInt n]
  | .special s => .list [.atom "special", .atom s]
  | .sym n => .list [.atom "sym", .str n]
  | .const c => .list [.atom "const", .atom c]
  | .cls c => .list [.atom "cls", .atom c]
  | .wrapped m => .list [.atom "wrapped", .atom m]
  | .rel c => .list [.atom "rel", .atom c]
  | .app h args => .list (.atom "app" :: .atom h :: args.toList.map syOut)
  | .tuple e c => .list [.atom "tuple", syOut e, syOut c]
  | .pylist xs => .list (.atom "pylist" :: xs.toList.map syOut)

def errOut : Err → Sexp
  | .value => .list [.atom "err", .atom "ValueError"]
  | .type => .list [.atom "err", .atom "TypeError"]
  | .index => .list [.atom "err", .atom "IndexError"]
  | .attribute => .list [.atom "err", .atom "AttributeError"]
  | .outside w => .list [.atom "outside", .str w]

def handle (args : List Sexp) : Sexp :=
  match args with
  | [t] =>
    match transpile (mmlOf t) with
    | .ok e => .list [.atom "ok", syOut e]
    | .error e => errOut e
  | _ => .atom "bad-request"

end C02
