import Cellml.Tie.Prelude
import Cellml.C17.Model

/-! # What the translated functions of parser.py see of the loader's state

    The generated code refers to python attribute paths (`self.components[c].parent`, `variable.public_interface`,
    `source.assigned_to` …). The pattern tables of harness/code_specs.py bind each of them to one of the accessors below,
    which read the state of the hand-written model (`Load.Connect`). Core Lean only. -/

namespace Cellml.Tie
open Load

/-- a `Variable` object as the loader sees it: its flat identity and its declared attributes -/
abbrev VarObj := VRef × VarInfo

/-- the python spelling of an interface value -/
def ifaceStr : Iface → String
  | .none => "none"
  | .inn => "in"
  | .out => "out"

@[simp] theorem ifaceStr_eq_out (i : Iface) : (ifaceStr i == "out") = (i == .out) := by cases i <;> decide
@[simp] theorem ifaceStr_eq_in (i : Iface) : (ifaceStr i == "in") = (i == .inn) := by cases i <;> decide

/-- `Parser` as seen by `_determine_connection_direction` -/
structure LoaderView where
  /-- `self.components[c].parent` -/
  parent : String → Option String
  /-- `self.model.get_variable_by_name(self._get_variable_name(c, v))`; KeyError when there is no such variable -/
  getVar : String → String → Except PyErr VarObj

/-- `Parser` / `Model` as seen by the body of the `while connections_to_process:` loop of `_add_connections` -/
structure ConnLoopView where
  /-- `self.model.units.get_conversion_factor(from_unit=a.units, to_unit=b.units)` -/
  factor : VRef → VRef → Except PyErr Scale
  /-- `v.units` -/
  unitsOf : VRef → Container

def connLoopView (reg : Registry) (vt : VarTable) : ConnLoopView where
  factor s t := match Units.factor reg (Load.unitsOf vt s) (Load.unitsOf vt t) with
    | .ok f => .ok f
    | .error .dimensionality => .error ⟨"DimensionalityError"⟩
    | .error _ => .error ⟨"KeyError"⟩
  unitsOf v := Load.unitsOf vt v

/-- `deque.popleft()` -/
def popleft {α} : List α → Except PyErr (α × List α)
  | [] => .error ⟨"IndexError"⟩
  | a :: l => .ok (a, l)

/-- `cf == 1` for a conversion factor (a scale is a prime-exponent map; 1 is the empty map) -/
def scaleIsOne (f : Scale) : Bool := f.isEmpty

/-- `v.assigned_to = w` (`w` may be `None` only where the variable has no source yet: nothing to record) -/
def setAssigned (st : CState) (v : VRef) (w : Option VRef) : CState :=
  match w with
  | some a => { st with assigned := (v, a) :: st.assigned }
  | none => st

/-- `self.model.transfer_cmeta_id(source=s, target=t)` on the work-list state -/
def transferCmeta (st : CState) (s : VRef) (t : Option VRef) : Except PyErr CState :=
  match t with
  | none => .error ⟨"AttributeError"⟩
  | some a =>
    if (cmetaOf st a).isSome then .error ⟨"ValueError"⟩
    else .ok { st with cmeta := (a, cmetaOf st s) :: (s, none) :: st.cmeta }

/-- `self.model.add_equation(sympy.Eq(target, src * cf_quant))` where `cf_quant = create_quantity(cf, tu / su)` -/
def addConvEq (st : CState) (target : VRef) (src : Option VRef) (q : Scale × Container × Container) :
    Except PyErr CState :=
  match src with
  | none => .error ⟨"TypeError"⟩
  | some a => .ok { st with convs := st.convs ++ [⟨target, a, q.1, q.2.1, q.2.2⟩] }

def loaderView (par : ParentMap) (vt : VarTable) : LoaderView where
  parent c := par.lookup c
  getVar c v := match vt.lookup (c, v) with
    | some i => .ok ((c, v), i)
    | none => .error ⟨"KeyError"⟩

/-! ## `Parser.transform_constants` -/

/-- `Parser` / `Model` as seen by `transform_constants` -/
structure ConstsView where
  /-- `set(self.model.get_state_variables())` (only used for `in`) -/
  stateVars : List VarObj
  /-- `list(self.model.variables())`: the Variable objects in insertion order -/
  variables : List VarObj

/-- what `transform_constants` changes in the `Model` -/
structure TCState where
  /-- keys of `_var_definition_map` and `_ode_definition_map` (newest first) -/
  defined : List VRef
  /-- equations appended to `model.equations` by this function, in order -/
  added : List FlatEq
  /-- variables whose `initial_value` was set to `None`, in order -/
  cleared : List VRef
deriving Repr, DecidableEq

/-- `self.model.create_quantity(var.initial_value, var.units)` (`float(None)` is a TypeError) -/
def mkQuantity (q : Option Rat) (u : Container) : Except PyErr (Expr VRef FUnit) :=
  match q with
  | some q => .ok (.num q ([], u))
  | none => .error ⟨"TypeError"⟩

/-- `self.model.add_equation(sympy.Eq(var, value))` for a Variable left-hand side: `_check_duplicate_definitions`
    (ValueError), then the definition is recorded and the equation appended -/
def addEquationVar (st : TCState) (v : VarObj) (rhs : Expr VRef FUnit) : Except PyErr TCState :=
  if st.defined.contains v.1 then .error ⟨"ValueError"⟩
  else .ok { st with defined := v.1 :: st.defined, added := st.added ++ [⟨.var v.1, rhs⟩] }

/-- `var.initial_value = None` -/
def clearInit (st : TCState) (v : VarObj) : TCState := { st with cleared := st.cleared ++ [v.1] }

/-- the state variables are the Variable objects of the table whose identity is in `states` -/
def constsView (states : List VRef) (vt : VarTable) : ConstsView where
  stateVars := vt.filter (fun p => states.contains p.1)
  variables := vt

/-! ## the closure `symbol_generator` of `Parser._add_maths` -/

/-- `prefix = component_element.get('name') + SYMPY_SYMBOL_DELIMITER`: the component part of a flat name -/
structure CompPrefix where
  comp : String

/-- `prefix + identifer`: the flat name `component$identifier`, which the models write as the pair (`Load.VRef`) -/
instance : HAdd CompPrefix String VRef := ⟨fun p x => (p.comp, x)⟩

/-- `str(x)` for `x` a Variable (its flat name) or `None` (the text `None`, which is not the name of any variable) -/
abbrev PyName := Option VRef

/-- `str(out)` -/
def pyStr (o : Option VRef) : PyName := o

/-- `connected_variable_mapping`: name of a connected (target) variable ↦ its source Variable, newest first
    (`CState.mapping`) -/
structure VMap where
  entries : List (VRef × VRef)

/-- `k in connected_variable_mapping`: the keys of the dict -/
instance : Coe VMap (List PyName) := ⟨fun m => m.entries.map (fun e => some e.1)⟩

/-- `connected_variable_mapping[k]` (KeyError when absent) -/
def dictGet (m : VMap) (k : PyName) : Except PyErr (Option VRef) :=
  match k with
  | none => .error ⟨"KeyError"⟩
  | some v =>
    match m.entries.lookup v with
    | some s => .ok (some s)
    | none => .error ⟨"KeyError"⟩

/-- `variable_to_symbol` of a component: the Variable objects of the table under their flat names -/
def varToSymbol (vt : VarTable) (r : VRef) : Option VRef := (vt.lookup r).map (fun _ => r)

/-! ## `Parser._add_relationships` / `Parser._handle_component_ref` -/

/-- an XML element as the two functions see it: a `<group>` or a `<component_ref>` -/
inductive Elem where
  /-- `component`: `e.attrib.get('component')` (mandatory on `<component_ref>`, an `ident`: never empty);
      `relationships`: the `relationship` attribute of every `<relationship_ref>` child (`e.findall(...)`);
      `refs`: the `<component_ref>` children in document order (`e.findall(...)`) -/
  | mk (component : String) (relationships : List (Option String)) (refs : List Elem)

def Elem.component : Elem → String | .mk c _ _ => c
def Elem.relationships : Elem → List (Option String) | .mk _ r _ => r
def Elem.refs : Elem → List Elem | .mk _ _ r => r

/-- the `<model>` element -/
structure ModelElem where
  /-- `model.findall(with_ns(XmlNs.CELLML, 'group'))` -/
  groups : List Elem

/-- `Parser` as seen by the two functions: the names in `self.components` -/
structure RelView where
  components : List String

/-- the part of `self.components[...]` the two functions write: `parent` of every component that has one
    (`Load.ParentMap`) and the `encapsulated` sets as (parent, child) pairs, newest first -/
structure RelState where
  par : ParentMap
  enc : List (String × String)
deriving Repr, DecidableEq

/-- `self.components[p].add_encapsulated(c)`: KeyError when there is no component `p`, ValueError when `c` is already
    in the set -/
def addEncapsulated (self : RelView) (st : RelState) (p : Option String) (c : String) : Except PyErr RelState :=
  match p with
  | none => .error ⟨"KeyError"⟩
  | some p =>
    if !self.components.contains p then .error ⟨"KeyError"⟩
    else if st.enc.contains (p, c) then .error ⟨"ValueError"⟩
    else .ok { st with enc := (p, c) :: st.enc }

/-- `self.components[c].set_parent(p)`: KeyError when there is no component `c`, ValueError when it has a parent -/
def setParent (self : RelView) (st : RelState) (c : String) (p : Option String) : Except PyErr RelState :=
  if !self.components.contains c then .error ⟨"KeyError"⟩
  else if (st.par.lookup c).isSome then .error ⟨"ValueError"⟩
  else match p with
    | some p => .ok { st with par := (c, p) :: st.par }
    | none => .ok st

/-- `self.components[a].add_sibling(b)`: `_Component.siblings` is written here and read nowhere in cellmlmanip (only by
    the `assert` of `add_sibling` itself); the models have no sibling sets. ASSUMPTION (argued in the report, not
    proved): its KeyError / AssertionError cannot fire, because `set_parent` has succeeded for `a` in this very call. -/
def noteSibling (st : RelState) (_a _b : String) : RelState := st

/-- `itertools.product(xs, ys)` -/
def pyProduct {α β : Type} (xs : List α) (ys : List β) : List (α × β) := xs.flatMap (fun a => ys.map (fun b => (a, b)))

/-! ## `Parser._add_components` -/

/-- a `<component>` element: what `Load.Comp` holds, and its `<reaction>` children
    (`element.findall(with_ns(XmlNs.CELLML, 'reaction'))`) -/
structure CompElem where
  comp : Comp
  reactions : List Unit

/-- the `<model>` element: `model.findall(with_ns(XmlNs.CELLML, 'component'))` -/
structure CompsElem where
  components : List CompElem

/-- `Parser` / `Model` as seen by `_add_components`: the unit store `self.model.units` -/
structure CompsView where
  ust : Units.Store

/-- what `_add_components` / `_add_variables` write: the keys of `self.components` (newest first), the names and
    cmeta ids the `Model` knows (`Load.checkVars`' accumulator) and the variables in the order they were added -/
structure CompsState where
  components : List String
  acc : List VRef × List String
  vt : VarTable

/-- `self.components[name] = _Component(name)` -/
def newComponent (st : CompsState) (name : String) : CompsState := { st with components := name :: st.components }

/-- `self._add_variables(element)` — a LEAF of `_add_components`: what it raises is `Load.checkVars` (unit lookup,
    then `Model.add_variable`: name clash, cmeta clash), what it records is `Load.entry` per `<variable>`;
    returns `variable_to_symbol` (flat name ↦ Variable) -/
def addVariables (self : CompsView) (st : CompsState) (e : CompElem) :
    Except PyErr (List (VRef × VRef) × CompsState) :=
  match checkVars self.ust e.comp.name e.comp.vars st.acc with
  | .error err => .error ⟨err.className⟩
  | .ok acc' => .ok (e.comp.vars.map (fun d => ((e.comp.name, d.name), (e.comp.name, d.name))),
      { st with acc := acc', vt := st.vt ++ e.comp.vars.map (entry self.ust e.comp.name) })

/-! ## `Parser.parse` -/

/-- the parsed file (`etree.parse(...)`), its root `<model>` element -/
structure XmlTree where
  root : C17.FaultDoc

/-- what `parse` builds up in `self` / `self.model`, stage by stage -/
structure ParseState where
  /-- after `_add_units`: the pint registry and the unit store -/
  units : Option (Registry × Units.Store) := none
  /-- after `_add_relationships`: `self.components[c].parent` -/
  par : Option ParentMap := none
  /-- after `_add_connections`: everything `Load.prepare` computes -/
  loaded : Option Loaded := none
  /-- after `_add_maths`: the variables that have a defining equation -/
  defined : Option (List VRef) := none
  /-- after `_add_maths`: the equations it has added to `model.equations`, in order (recorded by the GENERATED-symbol
      stage `LoaderClose.genMathsStage` only; the stages of `parseView` re-derive them from the document) -/
  maths : Option (List FlatEq) := none
  /-- after `transform_constants`: the finished model -/
  flat : Option Flat := none

/-- the stages `parse` calls, as functions of the state (each is tied, or bound, separately) -/
structure ParseView where
  /-- `etree.parse(self.filepath, parser)` (an XML syntax error is outside the models) -/
  readTree : Except PyErr XmlTree
  /-- `self._validate(parser, tree)`: RELAX NG -/
  validate : XmlTree → Except PyErr Unit
  /-- `model_xml.findall('component/units')` -/
  unitsInComponents : C17.FaultDoc → List Nat
  /-- `self.model = Model(name, cmeta id, unit_store=unit_store)` -/
  newModel : C17.FaultDoc → Option Unit → ParseState → ParseState
  addUnits : C17.FaultDoc → ParseState → Except PyErr ParseState
  addRdf : C17.FaultDoc → ParseState → Except PyErr ParseState
  addComponents : C17.FaultDoc → ParseState → Except PyErr ParseState
  addRelationships : C17.FaultDoc → ParseState → Except PyErr ParseState
  addConnections : C17.FaultDoc → ParseState → Except PyErr ParseState
  addMaths : ParseState → Except PyErr ParseState
  transformConstants : ParseState → Except PyErr ParseState

/-- a stage that needs something an earlier stage has not provided (cannot happen in the order of `parse`) -/
def notReady {α : Type} : Except PyErr α := .error ⟨"AttributeError"⟩

/-- error of a model stage as `load_model` shows it -/
def stageErr {α : Type} (e : Err) : Except PyErr α := .error ⟨C17.className e⟩

/-- the stages of the hand model `C17.loadFull` on the document `fd` -/
def parseView (fd : C17.FaultDoc) : ParseView where
  readTree := .ok ⟨fd⟩
  validate t := if !C17.schemaVars t.root.doc then .error ⟨"ValueError"⟩ else .ok ()
  unitsInComponents d := d.compUnits
  newModel _ _ st := st
  addUnits d st := match Units.addUnits 0 d.udefs with
    | .error e => stageErr (C17.unitErr e)
    | .ok u => .ok { st with units := some u }
  addRdf _ st := .ok st
  addComponents d st := match st.units with
    | none => notReady
    | some (_, ust) =>
      match C17.reactionErr ust d with
      | some e => stageErr e
      | none => match checkComps ust d.doc.comps [] ([], d.doc.cmeta.toList) with
        | .error e => stageErr e
        | .ok _ => .ok st
  addRelationships d st := match buildParents (d.doc.comps.map (·.name)) d.doc.encaps [] [] with
    | .error e => stageErr e
    | .ok par => .ok { st with par := some par }
  addConnections d st := match st.units, st.par with
    | some (reg, ust), some par =>
      let vt := varTable ust d.doc.comps
      match directAll (d.doc.comps.map (·.name)) par vt d.doc.conns with
      | .error e => stageErr e
      | .ok dl => match connect reg vt dl with
        | .error e => stageErr e
        | .ok cst => .ok { st with loaded := some ⟨reg, ust, vt, par, dl, cst⟩ }
    | _, _ => notReady
  addMaths st := match st.loaded with
    | none => notReady
    | some L => match fd.badEqs.head? with
      | some b => stageErr (C17.badEqErr L fd.doc b)
      | none => match checkMaths L.ust L.vt L.st fd.doc.comps (L.st.convs.map (·.target)) with
        | .error e => stageErr e
        | .ok defined => .ok { st with defined := some defined }
  transformConstants st := match st.loaded, st.defined with
    | some L, some defined => match checkConstants (L.states fd.doc) defined L.vt with
      | .error e => stageErr e
      | .ok () => .ok { st with flat := some (L.flat fd.doc) }
    | _, _ => notReady

end Cellml.Tie
