"""Scratch probe: single and paired faults injected at random sites of generated valid documents; load_model must raise, quickly (C17)."""
import random, sys, collections, logging, os, tempfile, time, copy, re, importlib
logging.disable(logging.CRITICAL)
import cellmlmanip
from lxml import etree
seed = int(sys.argv[1]) if len(sys.argv) > 1 else 0; N = int(sys.argv[2]) if len(sys.argv) > 2 else 60
sys.argv = ['docprobe.py', str(seed), '0']      # import generator without running its loop
dp = importlib.import_module('docprobe'); dp.rng.seed(seed)
rng = random.Random(seed + 1); finds = collections.defaultdict(list); stats = collections.Counter()
NS = {'c': 'http://www.cellml.org/cellml/1.0#', 'm': 'http://www.w3.org/1998/Math/MathML'}
C = '{%s}' % NS['c']
def faults(root):
    """yield (name, mutator) applicable to this document"""
    out = []
    mv = root.findall('.//c:map_variables', NS); conns = root.findall('c:connection', NS); comps = root.findall('c:component', NS)
    vars_ = root.findall('.//c:variable', NS); cis = root.findall('.//m:ci', NS)
    recv = [v for v in vars_ if 'in' in (v.get('public_interface'), v.get('private_interface'))]
    if mv:
        out.append(('conn: missing variable', lambda: rng.choice(mv).set('variable_2', 'nonexistent')))
        out.append(('conn: missing component', lambda: rng.choice(conns).find('c:map_components', NS).set('component_2', 'nonexistent')))
        out.append(('conn: duplicated connection', lambda: root.append(copy.deepcopy(rng.choice(conns)))))
    if recv:
        def both_out(): v = rng.choice(recv); v.set('public_interface', 'out'); v.set('private_interface', 'out')
        def no_iface(): v = rng.choice(recv); v.set('public_interface', 'none'); v.set('private_interface', 'none')
        def bad_units(): rng.choice(recv).set('units', 'second')
        def recv_init(): rng.choice(recv).set('initial_value', '1.0')
        out += [('receiver made a source (both ends out)', both_out), ('receiver declares no interface', no_iface), ('incompatible units across connection', bad_units), ('receiver given an initial_value', recv_init)]
        def recv_defined():
            v = rng.choice(recv); comp = v.getparent(); math = comp.find('m:math', NS)
            if math is None: math = etree.SubElement(comp, '{%s}math' % NS['m'])
            math.append(etree.fromstring('<apply xmlns="%s" xmlns:cellml="%s"><eq/><ci>%s</ci><cn cellml:units="%s">3</cn></apply>' % (NS['m'], NS['c'], v.get('name'), v.get('units'))))
        out.append(('receiver also defined by an equation', recv_defined))
    srcs = [v for v in vars_ if v.get('public_interface') == 'out' and v.get('private_interface') == 'out']
    if srcs and mv:
        def src_in(): v = rng.choice(srcs); v.set('public_interface', 'in'); v.set('private_interface', 'in')
        out.append(('source made a receiver (both ends in)', src_in))
    if vars_: out.append(('variable with undefined units', lambda: rng.choice(vars_).set('units', 'nonexistent_units')))
    if cis: out.append(('undefined identifier in maths', lambda: setattr(rng.choice(cis), 'text', 'nonexistent')))
    def cyc(): root.insert(0, etree.fromstring('<units xmlns="%s" name="cy1"><unit units="cy2"/></units>' % NS['c'])); root.insert(0, etree.fromstring('<units xmlns="%s" name="cy2"><unit units="cy1"/></units>' % NS['c']))
    def dang(): root.insert(rng.randint(0, 3), etree.fromstring('<units xmlns="%s" name="dg"><unit units="nowhere"/></units>' % NS['c']))
    def dupu(): root.insert(rng.randint(0, 3), etree.fromstring('<units xmlns="%s" name="mV"><unit units="volt"/></units>' % NS['c']))
    def builtin(): root.insert(rng.randint(0, 3), etree.fromstring('<units xmlns="%s" name="volt"><unit units="metre"/></units>' % NS['c']))
    def offs(): root.insert(rng.randint(0, 3), etree.fromstring('<units xmlns="%s" name="degC"><unit units="kelvin" offset="273.15"/></units>' % NS['c']))
    def dupc(): root.append(copy.deepcopy(rng.choice(comps)))
    def compunits(): rng.choice(comps).insert(0, etree.fromstring('<units xmlns="%s" name="local_u"><unit units="volt"/></units>' % NS['c']))
    def badlhs():
        comp = rng.choice([c for c in comps if c.find('c:variable', NS) is not None] or comps); v = comp.find('c:variable', NS); math = comp.find('m:math', NS)
        if math is None: math = etree.SubElement(comp, '{%s}math' % NS['m'])
        math.append(etree.fromstring('<apply xmlns="%s" xmlns:cellml="%s"><eq/><apply><plus/><ci>%s</ci><cn cellml:units="%s">1</cn></apply><cn cellml:units="%s">3</cn></apply>' % (NS['m'], NS['c'], v.get('name'), v.get('units'), v.get('units'))))
    out += [('cyclic units', cyc), ('dangling units', dang), ('duplicate units', dupu), ('built-in overridden', builtin), ('offset units', offs), ('duplicate component', dupc), ('units inside component', compunits), ('non-variable LHS', badlhs)]
    return out
def load(xml):
    fd, p = tempfile.mkstemp(suffix='.cellml', dir='/tmp/pr'); os.write(fd, xml); os.close(fd); t0 = time.time()
    try: m = cellmlmanip.load_model(p); return ('LOADED', m, time.time() - t0)
    except BaseException as ex: return ('raised', type(ex).__name__ + ': ' + str(ex)[:60], time.time() - t0)
    finally: os.unlink(p)
for case in range(N):
    xml, sigs, vars_, truth = dp.gen_doc()
    base = etree.fromstring(xml.encode())
    names = [f[0] for f in faults(base)]
    for k in (1, 2):
        for combo in ([ (n,) for n in names ] if k == 1 else [tuple(rng.sample(names, 2)) for _ in range(6)]):
            root = etree.fromstring(xml.encode())
            avail = dict(faults(root)); ok = True
            for n in combo:
                if n in avail:
                    try: avail[n]()
                    except Exception: ok = False
                else: ok = False
            if not ok: continue
            r = load(etree.tostring(root)); stats['%d-fault %s' % (k, r[0])] += 1
            if r[2] > 5: finds['SLOW (%.1fs)' % r[2]].append((case, combo))
            if r[0] == 'LOADED': finds['LOADED despite: ' + ' + '.join(combo)].append((case, [str(e) for e in r[1].equations][:4]))
            else: stats['  ' + r[1].split(':')[0]] += 1
print(dict(stats))
for k, v in finds.items(): print('##', k, len(v), str(v[0])[:260])
