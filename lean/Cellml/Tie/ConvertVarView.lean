import Cellml.Model.ConvertVar
import Cellml.Tie.Prelude

/-! # View of the `convert_variable` family (model.py) for the code translator — core Lean only

    The generated definitions (`Cellml/Generated/Code/ConvertVar.lean`) thread the hand model's state `Model.CV.CState`
    through the python statements as an explicit variable `st` (python mutates `self`). Every accessor below stands for
    ONE python leaf (an attribute path or a call into another method of `Model` / pint / sympy) and is defined from the
    functions of the hand model `Cellml/Model/ConvertVar.lean` — the very ones the theorems of `Props/C06.lean` are about.

    Exceptions. The hand model does not stop at a call that raises in python: it sets `CState.raised` and goes on. The
    python code stops. The `…M` wrappers below turn the flag into a python exception of the class the hand model names in
    its comments (`ValueError` of `add_variable` / `add_equation` / `transfer_cmeta_id`, `KeyError` of `remove_equation`);
    the tie theorems then say: the generated code returns exactly the model's result when the model's flag stays down,
    and raises when the model's flag goes up. -/

namespace Cellml.Tie.CV
open Model Model.CV Cellml.Tie

-- ------------------------------------------------------------------------------------------------ python values
/-- python `str + str` -/
instance : Add String := ⟨String.append⟩
@[simp] theorem str_add (a b : String) : a + b = a ++ b := rfl

/-- `units / units` (pint) -/
instance : Div U := ⟨U.div⟩

/-- `Variable * expr`, `expr * expr`, `Variable / expr` (sympy): a `Variable` is its identity number -/
instance : HMul Nat X X := ⟨fun v c => X.mul (.var v) c⟩
instance : HMul X X X := ⟨X.mul⟩
instance : HDiv Nat X X := ⟨fun v c => X.div (.var v) c⟩

/-- `initial_value * float(cf)`: the initial value is a python float or None; the product is only evaluated where the
    source has tested `is not None` -/
instance : HMul (Option Rat) Rat (Option Rat) := ⟨fun o r => o.map (· * r)⟩

/-- the dynamically typed local `cf` of `convert_variable`: first the number `get_conversion_factor` returns, then the
    `Quantity` (number with units) `create_quantity` makes of it. Symbolic factors (C19) are not modelled. -/
inductive CfVal
  | num (q : Rat)
  | quant (x : X)
deriving DecidableEq, Repr

/-- the literal `1` in `cf == 1` -/
instance : OfNat CfVal 1 := ⟨.num 1⟩

/-- `isinstance(cf, numbers.Number)` -/
def CfVal.isNumber : CfVal → Bool
  | .num _ => true
  | .quant _ => false

/-- `self.create_quantity(cf, units)` -/
def createQuantity : CfVal → U → CfVal
  | .num q, u => .quant (.lit q u)
  | .quant x, _ => .quant x

/-- the sympy expression a `cf` is when it is passed on to the helpers -/
def CfVal.toX : CfVal → X
  | .num q => .lit q {}
  | .quant x => x

/-- `float(cf)` of a Quantity: its number -/
def pyFloat : X → Rat
  | .lit q _ => q
  | _ => 0

/-- what the units module does for `convert_variable`: `self.units.get_conversion_factor(from_unit=…, to_unit=…)`
    (the subject of C07; an input of the hand model) -/
structure CVView where
  getConversionFactor : U → U → Except PyErr Rat

def CVView.getCf (self : CVView) (a b : U) : Except PyErr CfVal :=
  match self.getConversionFactor a b with
  | .ok q => .ok (.num q)
  | .error e => .error e

-- ------------------------------------------------------------------------------------------------ sympy constructors
/-- what may stand on the left of `sympy.Eq(lhs, rhs)` here: a `Variable` or a `sympy.Derivative(x, t)` -/
class ToLhs (α : Type) where
  toLhs : α → CLhs
instance : ToLhs Nat := ⟨CLhs.var⟩
instance : ToLhs CLhs := ⟨id⟩

/-- `sympy.Eq(lhs, rhs)` -/
def mkEq {α} [ToLhs α] (l : α) (r : X) : CEqn := ⟨ToLhs.toLhs l, r⟩

/-- python uses a value it has just tested with `is not None` as the value itself -/
class AsEqn (α : Type) where
  asEqn : α → CEqn
instance : AsEqn CEqn := ⟨id⟩
instance : AsEqn (Option CEqn) := ⟨fun o => o.getD default⟩

/-- `equation.args[1]`: the right-hand side -/
def eqArg1 {α} [AsEqn α] (e : α) : X := (AsEqn.asEqn e).rhs

/-- `ode.lhs.args[0]` of a `Derivative`: the state variable (`IndexError` on a plain `Variable`, whose `args` is `()`) -/
def derivArg0 : CLhs → Except PyErr Nat
  | .deriv x _ => .ok x
  | .var _ => .error ⟨"IndexError"⟩

/-- `ode.lhs.args[1]` of a `Derivative`: the free variable (the `(t, 1)` tuple is folded into `t`) -/
def derivArg1 : CLhs → Except PyErr Nat
  | .deriv _ t => .ok t
  | .var _ => .error ⟨"IndexError"⟩

/-- `ode.args[0].args[1].args[0]`: the bound variable of the derivative on the left of an ODE -/
def odeBoundVar (e : CEqn) : Except PyErr Nat := derivArg1 e.lhs

/-- a `Derivative` used as a dict key: `Rep` keys are the pair (state, free) -/
def derivKey : CLhs → Nat × Nat
  | .deriv x t => (x, t)
  | .var v => (v, v)

/-- `d.update(other)` on insertion-ordered dicts -/
def dictUpdate (d r : Rep) : Rep := r.foldl (fun m p => insertKey p.1 p.2 m) d

/-- `set(d.keys())` -/
def dictKeys (d : Rep) : List (Nat × Nat) := d.map (·.1)

/-- `a.isdisjoint(b)` -/
def isDisjoint (a b : List (Nat × Nat)) : Bool := !(b.any (fun d => a.contains d))

-- ------------------------------------------------------------------------------------------------ reads of the Model
/-- the keys of `self._ode_definition_map` (for `in` / `not in`) -/
def odeKeys (st : CState) : List Nat := st.odeDef.map (·.1)

/-- `self.get_state_variables()` (used only on the right of `in`) -/
def stateVariables (st : CState) : List Nat := odeKeys st

/-- `self._ode_definition_map[v]` (`KeyError` when absent) -/
def odeLookupM (st : CState) (v : Nat) : Except PyErr CEqn :=
  match st.odeDef.lookup v with
  | some e => .ok e
  | none => .error ⟨"KeyError"⟩

/-- `self.get_free_variable()` (`ValueError` when the model has no ODE) -/
def getFreeVariableM (st : CState) : Except PyErr (Option Nat) :=
  match getFree st with
  | some t => .ok (some t)
  | none => .error ⟨"ValueError"⟩

/-- `self._ode_definition_map.items()` -/
def odeItems (st : CState) : List (Nat × CEqn) := st.odeDef

/-- `v.order_added`: no variable is ever removed in this model, so the identity number of a variable is its position
    in `vars`, which is its `order_added` (header of `Model/ConvertVar.lean`) -/
def orderAdded (_st : CState) (v : Nat) : Nat := v

/-- python `sorted(xs, key=…)`: a stable sort (insertion from the right, as `Model.sortByKey`) -/
def pyInsert {α : Type} (key : α → Nat) (x : α) : List α → List α
  | [] => [x]
  | y :: ys => if key x ≤ key y then x :: y :: ys else y :: pyInsert key x ys

def pySorted {α : Type} (key : α → Nat) : List α → List α
  | [] => []
  | x :: xs => pyInsert key x (pySorted key xs)

-- ------------------------------------------------------------------------------------------------ writes to the Model
/-- `v.initial_value = x` -/
def setInitialValue (st : CState) (v : Nat) (x : Option Rat) : CState :=
  { st with vars := setV st.vars v (fun y => { y with init := x }) }

/-- the hand model's flag as a python exception -/
def guardRaised (cls : String) (r : CState) : Except PyErr CState :=
  match r.raised with
  | true => .error ⟨cls⟩
  | false => .ok r

/-- `self.add_variable(name=…, units=…, initial_value=…)` -/
def addVariableM (st : CState) (name : String) (u : U) (init : Option Rat) : Except PyErr (CState × Nat) :=
  match (addVariable st name u init).1.raised with
  | true => .error ⟨"ValueError"⟩
  | false => .ok (addVariable st name u init)

/-- `self.add_equation(eq, check_duplicates=check)` -/
def addEqM (st : CState) (e : CEqn) (check : Bool) : Except PyErr CState := guardRaised "ValueError" (addEq st e check)

/-- `self.remove_equation(eq)` -/
def removeEqM {α} [AsEqn α] (st : CState) (e : α) : Except PyErr CState :=
  guardRaised "KeyError" (removeEq st (AsEqn.asEqn e))

/-- `self.transfer_cmeta_id(src, dst)` -/
def transferCmetaM (st : CState) (src dst : Nat) : Except PyErr CState := guardRaised "ValueError" (transferCmeta st src dst)

end Cellml.Tie.CV
