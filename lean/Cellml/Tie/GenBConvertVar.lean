import Cellml.Tie.Units
import Cellml.Tie.ConvertVarSym

/-! # GenB: the generated `Model.convert_variable` over the GENERATED `get_conversion_factor`

    `Tie/ConvertVarSym.lean` runs the generated `convert_variable` on a view (`symView`) whose leaf
    `self.units.get_conversion_factor(…)` is bound to the hand model `Units.conversionFactorR`. `symViewGen` binds it to
    the generated `UnitStore.get_conversion_factor` instead; `symViewGen_eq` shows the two views are the same
    (`getConversionFactor_tie`, and: a unit error of the conversion is never `UErr.other`, the one constructor on which
    the two class-name tables `uErrClass` / `CVSym.uerrClass` differ). -/

set_option linter.unusedSimpArgs false

namespace Cellml.Tie.PGenB
open Units PMap Cellml.Gen Cellml.Tie Cellml.Tie.PUnits Cellml.Tie.CVSym

/-- the classes pint raises in a conversion -/
def PintConvErr (e : UErr) : Prop := e = .undefinedUnit ∨ e = .dimensionality

theorem factor_err {reg : Registry} {a b : Container} {e : UErr} (h : factor reg a b = .error e) : PintConvErr e := by
  unfold factor at h
  split at h
  · cases h; exact Or.inl rfl
  · split at h
    · cases h
    · cases h; exact Or.inr rfl

theorem convertWithRules_err {reg : Registry} {rules : List Rule} {a b : Container} {e : UErr}
    (h : convertWithRules reg rules a b = .error e) : PintConvErr e := by
  unfold convertWithRules at h
  split at h
  · cases h; exact Or.inl rfl
  · split at h
    · cases hf : factor reg a b with
      | error e' => rw [hf] at h; cases h; exact factor_err hf
      | ok f => rw [hf] at h; cases h
    · rename_i path _
      simp only at h
      cases hf : factor reg (PMap.add a (pathUnit (rulesAlong rules (dimsOf reg a) path))) b with
      | error e' => rw [hf] at h; cases h; exact factor_err hf
      | ok f => rw [hf] at h; cases h

theorem conversionFactorR_err {reg : Registry} {rules : List Rule} {a b : Container} {e : UErr}
    (h : conversionFactorR reg rules a b = .error e) : PintConvErr e := by
  unfold conversionFactorR at h
  rw [convertQ_eq] at h
  cases hc : convertWithRules reg rules a b with
  | error e' => rw [hc] at h; cases h; exact convertWithRules_err hc
  | ok p => rw [hc] at h; cases h

theorem uerrClass_eq {e : UErr} (h : PintConvErr e) : uerrClass e = uErrClass e := by
  rcases h with rfl | rfl <;> rfl

/-- the view of `convert_variable` whose `self.units.get_conversion_factor(original.units, units)` is the GENERATED
    `UnitStore.get_conversion_factor` on the object of the model's unit store -/
def symViewGen (st : Store) (reg : Registry) (rules : List Rule) (a b : Container) (kind : VarKind) (hasInit : Bool)
    (nOdes : Nat) (cmeta : Option Unit) : SymView :=
  { getCf := (Gen.Units.getConversionFactor (storeObj st reg rules) ⟨a⟩ ⟨b⟩).map CFObj.toModel,
    kind := kind, hasInit := hasInit, nOdes := nOdes, cmeta := cmeta }

theorem symViewGen_eq (st : Store) (reg : Registry) (rules : List Rule) (a b : Container) (kind : VarKind)
    (hasInit : Bool) (nOdes : Nat) (cmeta : Option Unit) :
    symViewGen st reg rules a b kind hasInit nOdes cmeta = symView reg rules a b kind hasInit nOdes cmeta := by
  unfold symViewGen symView
  rw [getConversionFactor_tie]
  cases h : conversionFactorR reg rules a b with
  | ok o => rfl
  | error e => simp only [errClass, uerrClass_eq (conversionFactorR_err h)]

/-- the generated `convert_variable` (with its four generated helpers) over the generated `get_conversion_factor`
    produces the outcome of the hand model of C19 -/
theorem genConvertVariable_eq (st : Store) (reg : Registry) (rules : List Rule) (a b : Container) (dir : Dir)
    (kind : VarKind) (hasInit : Bool) (nOdes : Nat) (cmeta : Option Unit) (move : Bool) :
    ConvertVarSym.convertVariable (symViewGen st reg rules a b kind hasInit nOdes cmeta) {} .orig dir move =
      enc (Units.convertVariable reg rules a b dir kind hasInit nOdes) := by
  rw [symViewGen_eq, convertVariable_sym_tie]

/-- the generated `get_conversion_factor` returns the int `1` exactly when the model's factor is `none` -/
theorem genCf_one_iff (st : Store) (reg : Registry) (rules : List Rule) (a b : Container) :
    Gen.Units.getConversionFactor (storeObj st reg rules) ⟨a⟩ ⟨b⟩ = .ok 1 ↔
      conversionFactorR reg rules a b = .ok none := by
  have h := getConversionFactor_tie st reg rules a b
  cases hg : Gen.Units.getConversionFactor (storeObj st reg rules) ⟨a⟩ ⟨b⟩ with
  | error e =>
    rw [hg] at h
    cases hc : conversionFactorR reg rules a b with
    | error e' => simp
    | ok o => rw [hc] at h; cases h
  | ok r =>
    rw [hg] at h
    cases hc : conversionFactorR reg rules a b with
    | error e' => rw [hc] at h; cases h
    | ok o =>
      rw [hc] at h
      simp only [Except.map, errClass, Except.ok.injEq] at h
      subst h
      cases r with
      | one => simp [CFObj.toModel]; rfl
      | mag m =>
        simp only [CFObj.toModel, Except.ok.injEq, reduceCtorEq, iff_false]

/-- … and a magnitude `(f, y)` exactly when the model's factor is `some (f, y)` -/
theorem genCf_mag_iff (st : Store) (reg : Registry) (rules : List Rule) (a b : Container) (f : Scale) (y : Syms) :
    Gen.Units.getConversionFactor (storeObj st reg rules) ⟨a⟩ ⟨b⟩ = .ok (CFObj.mag ⟨f, y⟩) ↔
      conversionFactorR reg rules a b = .ok (some (f, y)) := by
  have h := getConversionFactor_tie st reg rules a b
  cases hg : Gen.Units.getConversionFactor (storeObj st reg rules) ⟨a⟩ ⟨b⟩ with
  | error e =>
    rw [hg] at h
    cases hc : conversionFactorR reg rules a b with
    | error e' => simp
    | ok o => rw [hc] at h; cases h
  | ok r =>
    rw [hg] at h
    cases hc : conversionFactorR reg rules a b with
    | error e' => rw [hc] at h; cases h
    | ok o =>
      rw [hc] at h
      simp only [Except.map, errClass, Except.ok.injEq] at h
      subst h
      cases r with
      | one =>
        simp only [CFObj.toModel, Except.ok.injEq, reduceCtorEq, iff_false]
      | mag m =>
        obtain ⟨f', y'⟩ := m
        simp [CFObj.toModel]

end Cellml.Tie.PGenB
