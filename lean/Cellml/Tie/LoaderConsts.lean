import Cellml.Generated.Code.LoaderConsts
import Mathlib.Tactic.SplitIfs

/-! # Tie: `Parser.transform_constants` (generated from the source) = `Load.checkConstants` (what it raises),
    `Load.constsOf` (the equations it appends), and the initial values `Load.flatVars` keeps -/

namespace Cellml.Tie
open Load Cellml.Gen

/-- the variables `transform_constants` turns into constants: not a state, has an initial value (table order) -/
def tcKeys (states : List VRef) (l : VarTable) : List VRef :=
  (l.filter (fun p => !states.contains p.1 && p.2.init.isSome)).map (·.1)

/-- the hand model of `transform_constants` run on the variables `l` from the model state `st`:
    `checkConstants` decides whether (and with which class) it raises, `constsOf` is what it appends -/
def tcModel (states defined : List VRef) (st : TCState) (l : VarTable) : Except PyErr TCState :=
  match checkConstants states defined l with
  | .error e => .error ⟨e.className⟩
  | .ok () => .ok ⟨(tcKeys states l).reverse ++ st.defined, st.added ++ constsOf states l, st.cleared ++ tcKeys states l⟩

theorem isIn_stateVars (states : List VRef) (vt : VarTable) (p : VarObj) (h : p ∈ vt) :
    Py.isIn p (vt.filter (fun p => states.contains p.1)) = states.contains p.1 := by
  unfold Py.isIn
  rw [Bool.eq_iff_iff]
  simp only [List.contains_eq_mem, List.mem_filter, decide_eq_true_eq]
  exact ⟨fun h => h.2, fun h2 => ⟨h, h2⟩⟩

/-- one iteration of `for var in list(self.model.variables()):` — the text of the generated loop body -/
def tcStep (sv : List VarObj) (var : VarObj) (s : TCState) : Except PyErr (ForInStep TCState) :=
  if Py.isIn var sv = true then
    if (!var.snd.init.isSome) = true then do
      throw { cls := "AssertionError" }
      pure (ForInStep.yield s)
    else pure (ForInStep.yield s)
  else
    if var.snd.init.isSome = true then do
      let value ← mkQuantity var.snd.init var.snd.units
      let st ← addEquationVar s var value
      pure (ForInStep.yield (clearInit st var))
    else pure (ForInStep.yield s)

theorem transformConstants_forIn (self : ConstsView) (st : TCState) :
    LoaderConsts.transformConstants self st = forIn self.variables st (tcStep self.stateVars) := by
  unfold LoaderConsts.transformConstants
  simp only [bind_pure]
  rfl

theorem transformConstants_loop (states defined : List VRef) (vt : VarTable) :
    ∀ (l : VarTable) (st : TCState), (∀ p ∈ l, p ∈ vt) → (l.map (·.1)).Nodup →
      (∀ p ∈ l, st.defined.contains p.1 = defined.contains p.1) →
      forIn l st (tcStep (constsView states vt).stateVars) = tcModel states defined st l := by
  intro l
  induction l with
  | nil => intro st _ _ _; simp [tcModel, checkConstants, tcKeys, constsOf]; rfl
  | cons p l ih =>
    intro st hsub hnd hdef
    obtain ⟨v, i⟩ := p
    have hmem : (v, i) ∈ vt := hsub _ List.mem_cons_self
    have hsub' : ∀ p ∈ l, p ∈ vt := fun p hp => hsub p (List.mem_cons_of_mem _ hp)
    have hnd' : (l.map (·.1)).Nodup := (List.nodup_cons.mp hnd).2
    have hv : ∀ p ∈ l, p.1 ≠ v := by
      intro p hp he
      exact (List.nodup_cons.mp hnd).1 (he ▸ List.mem_map_of_mem (f := (·.1)) hp)
    have hdef' : ∀ p ∈ l, st.defined.contains p.1 = defined.contains p.1 :=
      fun p hp => hdef p (List.mem_cons_of_mem _ hp)
    have hdv : st.defined.contains v = defined.contains v := hdef (v, i) List.mem_cons_self
    have hin : Py.isIn (v, i) (constsView states vt).stateVars = states.contains v :=
      isIn_stateVars states vt (v, i) hmem
    rw [List.forIn_cons]
    cases hs : states.contains v with
    | true =>
      have hs' : v ∈ states := by simpa using hs
      cases hi : i.init with
      | none =>
        have : tcStep (constsView states vt).stateVars (v, i) st = .error ⟨"AssertionError"⟩ := by
          unfold tcStep; rw [hin, hs]; simp [hi, bind, Except.bind, throw, throwThe, MonadExceptOf.throw]
        rw [this]
        simp [tcModel, checkConstants, hs', hi, bind, Except.bind, Err.className]
      | some q =>
        have : tcStep (constsView states vt).stateVars (v, i) st = .ok (.yield st) := by
          unfold tcStep; rw [hin, hs]; simp [hi, pure, Except.pure]
        rw [this]
        simp only [bind, Except.bind]
        rw [ih st hsub' hnd' hdef']
        simp [tcModel, checkConstants, hs', hi, tcKeys, constsOf]
    | false =>
      have hs' : v ∉ states := by simpa using hs
      cases hi : i.init with
      | none =>
        have : tcStep (constsView states vt).stateVars (v, i) st = .ok (.yield st) := by
          unfold tcStep; rw [hin, hs]; simp [hi, pure, Except.pure]
        rw [this]
        simp only [bind, Except.bind]
        rw [ih st hsub' hnd' hdef']
        simp [tcModel, checkConstants, hs', hi, tcKeys, constsOf]
      | some q =>
        cases hd : defined.contains v with
        | true =>
          have hdm : v ∈ defined := by simpa using hd
          have hdm' : v ∈ st.defined := by rw [← hdv] at hd; simpa using hd
          have : tcStep (constsView states vt).stateVars (v, i) st = .error ⟨"ValueError"⟩ := by
            unfold tcStep; rw [hin, hs]; simp [hi, hdm', bind, Except.bind, mkQuantity, addEquationVar]
          rw [this]
          simp [tcModel, checkConstants, hs', hi, hdm, bind, Except.bind, Err.className]
        | false =>
          have hdm : v ∉ defined := by simpa using hd
          have hd' : v ∉ st.defined := by rw [← hdv] at hd; simpa using hd
          have : tcStep (constsView states vt).stateVars (v, i) st = .ok (.yield
              ⟨v :: st.defined, st.added ++ [⟨.var v, .num q ([], i.units)⟩], st.cleared ++ [v]⟩) := by
            unfold tcStep; rw [hin, hs]; simp [hi, hd', bind, Except.bind, mkQuantity, addEquationVar, clearInit, pure, Except.pure]
          rw [this]
          simp only [bind, Except.bind]
          rw [ih _ hsub' hnd' (by
            intro p hp
            rw [← hdef' p hp]
            have := hv p hp
            simp [List.contains_cons, this])]
          simp [tcModel, checkConstants, hs', hi, hdm, tcKeys, constsOf]

/-- **`Parser.transform_constants`**, for every table of variables with distinct identities (what `Model.add_variable`
    guarantees: `checkVars` refuses a second variable of the same name), every set of state variables and every set of
    already defined variables: the generated function raises exactly when `Load.checkConstants` does, with the same
    class; otherwise it appends exactly `Load.constsOf states vt` (the very list `Load.Loaded.flat` appends) and clears
    the initial value of exactly the variables of those equations. Outside the hypothesis (two table entries with the
    same identity, both with an initial value) `add_equation` would raise ValueError at the second one and
    `checkConstants` does not look. -/
theorem transformConstants_tie (states defined : List VRef) (vt : VarTable) (hnd : (vt.map (·.1)).Nodup)
    (added : List FlatEq) (cleared : List VRef) :
    LoaderConsts.transformConstants (constsView states vt) ⟨defined, added, cleared⟩ =
      match checkConstants states defined vt with
      | .error e => .error ⟨e.className⟩
      | .ok () => .ok ⟨(tcKeys states vt).reverse ++ defined, added ++ constsOf states vt, cleared ++ tcKeys states vt⟩ := by
  rw [transformConstants_forIn]
  exact transformConstants_loop states defined vt vt ⟨defined, added, cleared⟩ (fun _ h => h) hnd (fun _ _ => rfl)

/-- the initial values after `transform_constants` are those of `Load.flatVars`: kept for the state variables,
    `None` for everything else -/
theorem transformConstants_inits (states : List VRef) (vt : VarTable) (v : VRef) (i : VarInfo) (h : (v, i) ∈ vt) :
    (if (tcKeys states vt).contains v then none else i.init) = (if states.contains v then i.init else none) := by
  by_cases hs : v ∈ states
  · have : v ∉ tcKeys states vt := by
      simp only [tcKeys, List.mem_map, List.mem_filter, not_exists, not_and]
      rintro ⟨v', i'⟩ ⟨_, h2⟩ rfl
      simp [hs] at h2
    simp [hs, this]
  · cases hi : i.init with
    | none => simp [hs]
    | some q =>
      have : v ∈ tcKeys states vt := by
        simp only [tcKeys, List.mem_map, List.mem_filter]
        exact ⟨(v, i), ⟨h, by simp [hs, hi]⟩, rfl⟩
      simp [hs, this]

end Cellml.Tie
