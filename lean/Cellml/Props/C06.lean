import Cellml.C06.CaseFree

/-! # C06 — changing the units of a model variable never changes what the model computes

    Model: `Cellml/Model/ConvertVar.lean` (`convertVariable` and its helpers, step by step as in model.py).
    Lemmas: `Cellml/C06/*.lean`. A *point solution* of a model is a valuation of its variables and derivative atoms in
    a field `K` that satisfies every equation under plain evaluation (`Sat`); numbers are read through any
    `lit : ℚ → K` with `lit cf ≠ 0`, function symbols through any interpretation.

    `WF s` is what the C08 invariant guarantees of a model built through the API (maps = equations filed by left-hand
    side, no variable defined twice, nothing raised) plus: one free variable, no `d x / d x`. -/

namespace Cellml.Props.C06
open Model Model.CV

variable {K : Type} [Field K]

/-- **Soundness of one call**, any direction, any kind of variable (state variable, free variable, constant,
    computed variable), any factor other than 1, with or without moving annotations. `CallOK` says: the call returns
    the new variable; the result is well-formed again (in particular *nothing raised*); every point solution of `s`
    extends to one of `s'` that agrees on every pre-existing variable and derivative, has `new = cf · original`,
    `x_orig_deriv = d x / d t`, and every derivative rescaled by the state and time factors; and every point solution
    of `s'` restricts to one of `s` with the same relations. -/
theorem convert_var_sound (I : Interp K) {s : CState} (hwf : WF s) (v : Nat) (hv : v < s.vars.length) (u : U)
    (cf : Rat) (hcf1 : cf ≠ 1) (hcf : I.lit cf ≠ 0) (dir : Dir) (move : Bool) :
    CallOK I s v cf dir (convertVariable s v u cf dir move) := by
  cases dir with
  | output => exact case_output I hwf v hv u cf hcf1 hcf move
  | input =>
    cases hst : hasKey v s.odeDef with
    | true => exact case_input_state I hwf v hv u cf hcf1 hcf move hst
    | false =>
      by_cases hfr : getFree s = some v
      · exact case_input_free I hwf v hv u cf hcf1 hcf move hst hfr
      · exact case_input_plain I hwf v hv u cf hcf1 hcf move hst hfr

/-- a conversion to equivalent units (factor 1) leaves the model untouched and returns the original variable -/
theorem convert_var_noop (s : CState) (v : Nat) (u : U) (dir : Dir) (move : Bool) :
    convertVariable s v u 1 dir move = (s, v, []) := convertVariable_noop s v u dir move

/-- from a well-formed model no call made by `convert_variable` raises, and the result is well-formed -/
theorem convert_var_wf {s : CState} (hwf : WF s) (v : Nat) (hv : v < s.vars.length) (u : U) (cf : Rat) (dir : Dir)
    (move : Bool) : WF (convertVariable s v u cf dir move).1 ∧ (convertVariable s v u cf dir move).1.raised = false := by
  by_cases hcf1 : cf = 1
  · subst hcf1; rw [convertVariable_noop]; exact ⟨hwf, hwf.inv.notRaised⟩
  · by_cases hcf0 : cf = 0
    · -- the invariant does not depend on the field; read the numbers in ℚ with `lit 0 := 1`
      let I : Interp ℚ := ⟨fun q => if q = 0 then 1 else q, fun _ x => x, fun _ x _ => x⟩
      have := (convert_var_sound I hwf v hv u cf hcf1 (by simp [I, hcf0]) dir move).wf
      exact ⟨this, this.inv.notRaised⟩
    · let I : Interp ℚ := ⟨fun q => q, fun _ x => x, fun _ x _ => x⟩
      have := (convert_var_sound I hwf v hv u cf hcf1 (by simpa [I] using hcf0) dir move).wf
      exact ⟨this, this.inv.notRaised⟩

/-- `get_unique_name` answers a name that no variable of the model has: `…_converted` / `…_orig_deriv`, with as many
    `_a` suffixes as needed, never clash -/
theorem convert_var_names_fresh (s : CState) (base : String) : freshName s base ∉ names s := freshName_fresh s base

-- ================================================================================================ non-vacuity
/-! The model of the docstring of `convert_variable`:
    `var time :: ms {cmeta_id: time}`, `var sv1 :: mV {cmeta_id: sv11, init: 2}`, `ode(sv1, time) = 1 :: mV_per_ms`. -/

def uVolt : U := ⟨1, ⟨2, 1, -3, -1, 0, 0, 0, 0⟩⟩
def uMV : U := ⟨1/1000, ⟨2, 1, -3, -1, 0, 0, 0, 0⟩⟩
def uSec : U := ⟨1, ⟨0, 0, 1, 0, 0, 0, 0, 0⟩⟩
def uMs : U := ⟨1/1000, ⟨0, 0, 1, 0, 0, 0, 0, 0⟩⟩

def demoOde : CEqn := ⟨.deriv 1 0, .lit 1 (uMV.div uMs)⟩

def demo0 : CState :=
  { vars := [⟨"time", uMs, none, some "time"⟩, ⟨"sv1", uMV, some 2, some "sv11"⟩],
    cmetaMap := [("time", 0), ("sv11", 1)] }

/-- the model as `add_equation` builds it -/
def demo : CState := addEq demo0 demoOde true

theorem demo0_inv : Inv0 demo0 :=
  { notRaised := rfl, scopedE := fun _ h => by cases h, keys := List.nodup_nil, vdKeys := List.nodup_nil,
    odKeys := List.nodup_nil, vd := fun _ _ => ⟨fun h => by cases h, fun h => by cases h.1⟩,
    od := fun _ _ => ⟨fun h => by cases h, fun h => by cases h.1⟩ }

theorem demo_eqs : demo.equations = [demoOde] :=
  (addEq_ok demo0_inv demoOde true (by intro i hi; simp [demoOde, CEqn.allVars, CLhs.vars, X.vars] at hi;
    rcases hi with rfl | rfl <;> decide) (fun _ h => by cases h) (fun _ _ h => by cases h)).1

theorem demo_wf : WF demo := by
  have h := addEq_ok demo0_inv demoOde true (by intro i hi; simp [demoOde, CEqn.allVars, CLhs.vars, X.vars] at hi;
    rcases hi with rfl | rfl <;> decide) (fun _ h => by cases h) (fun _ _ h => by cases h)
  refine ⟨h.2.2.2, ?_, ?_, ?_⟩
  · rw [demo_eqs]; intro e₁ h₁ e₂ h₂ v x t hv _
    simp only [List.mem_cons, List.not_mem_nil, or_false] at h₁; subst h₁; cases hv
  · rw [demo_eqs]; intro e₁ h₁ e₂ h₂ x₁ t₁ x₂ t₂ hl₁ hl₂
    simp only [List.mem_cons, List.not_mem_nil, or_false] at h₁ h₂; subst h₁; subst h₂
    cases hl₁; cases hl₂; rfl
  · rw [demo_eqs]; intro e he x t hl
    simp only [List.mem_cons, List.not_mem_nil, or_false] at he; subst he; cases hl; decide

/-- the three worked examples of the docstring -/
example : (convertVariable demo 1 uVolt (1/1000) .output true).1.equations =
    [demoOde, ⟨.var 2, .mul (.var 1) (.lit (1/1000) (uVolt.div uMV))⟩] := by decide +kernel
example : ((convertVariable demo 1 uVolt (1/1000) .output true).1.vars.map fun x => (x.name, x.init, x.cmeta)) =
    [("time", none, some "time"), ("sv1", some 2, none), ("sv1_converted", none, some "sv11")] := by decide +kernel
example : (convertVariable demo 1 uVolt (1/1000) .input true).1.equations =
    [⟨.var 1, .div (.var 2) (.lit (1/1000) (uVolt.div uMV))⟩,
     ⟨.var 3, .lit 1 (uMV.div uMs)⟩,
     ⟨.deriv 2 0, .mul (.var 3) (.lit (1/1000) (uVolt.div uMV))⟩] := by decide +kernel
example : ((convertVariable demo 1 uVolt (1/1000) .input true).1.vars.map fun x => (x.name, x.init, x.cmeta)) =
    [("time", none, some "time"), ("sv1", none, none), ("sv1_converted", some (1/500), some "sv11"),
     ("sv1_orig_deriv", none, none)] := by decide +kernel
example : (convertVariable demo 0 uSec (1/1000) .input true).1.equations =
    [⟨.var 0, .div (.var 2) (.lit (1/1000) (uSec.div uMs))⟩,
     ⟨.var 3, .lit 1 (uMV.div uMs)⟩,
     ⟨.deriv 1 2, .div (.var 3) (.lit (1/1000) (uSec.div uMs))⟩] := by decide +kernel
example : ((convertVariable demo 0 uSec (1/1000) .input true).1.vars.map fun x => (x.name, x.init, x.cmeta)) =
    [("time", none, none), ("sv1", some 2, some "sv11"), ("time_converted", none, some "time"),
     ("sv1_orig_deriv", none, none)] := by decide +kernel

/-- the hypotheses of `convert_var_sound` are met by the docstring's model, and it has point solutions -/
example : CallOK (K := ℚ) ⟨fun q => q, fun _ x => x, fun _ x _ => x⟩ demo 1 (1/1000) .input
    (convertVariable demo 1 uVolt (1/1000) .input true) :=
  convert_var_sound _ demo_wf 1 (by decide) uVolt (1/1000) (by decide) (by norm_num) .input true
example : CallOK (K := ℚ) ⟨fun q => q, fun _ x => x, fun _ x _ => x⟩ demo 0 (1/1000) .input
    (convertVariable demo 0 uSec (1/1000) .input true) :=
  convert_var_sound _ demo_wf 0 (by decide) uSec (1/1000) (by decide) (by norm_num) .input true
example : Sat (K := ℚ) ⟨fun q => q, fun _ x => x, fun _ x _ => x⟩ ⟨fun _ => 5, fun _ _ => 1⟩ demo := by
  unfold Sat; rw [demo_eqs]; intro e he
  simp only [List.mem_cons, List.not_mem_nil, or_false] at he; subst he
  simp [Holds, demoOde, lhsVal]

end Cellml.Props.C06
