import Cellml.Load.Lemmas

/-! # The conversion equations do not depend on the order of the connections (as a set)

    `assigned_to` of a connected variable and the conversion equation of a connection are determined by the chain of
    connections, not by the order in which the work list resolves them: invariant `J` of the loop, then comparison of
    two resolutions of the same connections by induction on the rank of a variable in its chain. -/

namespace C15
open Load

/-- what the work list has recorded about `assigned_to` and the conversion equations -/
structure J (reg : Registry) (vt : VarTable) (st : CState) : Prop where
  /-- a source is assigned to itself, from the start -/
  srcSelf : ∀ v, Src vt v → st.asg v = some v
  /-- a connected target: assigned to what its source is assigned to (factor 1), or to itself (conversion) -/
  asgTarget : ∀ t s, (t, s) ∈ st.mapping → ∃ a f, st.asg s = some a ∧
    Units.factor reg (unitsOf vt s) (unitsOf vt t) = .ok f ∧ st.asg t = some (if f = [] then a else t)
  /-- the conversion equations are exactly those of the recorded connections whose factor is not 1 -/
  convIff : ∀ e, e ∈ st.convs ↔ ∃ t s a f, (t, s) ∈ st.mapping ∧ st.asg s = some a ∧
    Units.factor reg (unitsOf vt s) (unitsOf vt t) = .ok f ∧ f ≠ [] ∧ e = ⟨t, a, f, unitsOf vt t, unitsOf vt s⟩

theorem J_init (reg : Registry) (vt : VarTable) : J reg vt (initState vt) where
  srcSelf := by
    intro v hv
    unfold Src at hv
    cases hl : (initAssigned vt).lookup v with
    | none => rw [hl] at hv; cases hv
    | some a =>
        have := initAssigned_lookup vt v a hl
        subst this
        exact hl
  asgTarget := by intro t s h; simp [initState] at h
  convIff := by
    intro e
    simp [initState]

/-- pushing the connection `s → t` (with `asg t = none`, `asg s = some a`, factor `f`) keeps `J` -/
theorem J_push {reg : Registry} {vt : VarTable} {st st' : CState} {s t a : VRef} {f : Scale}
    (h : J reg vt st) (ht : st.asg t = none) (hs : st.asg s = some a)
    (hf : Units.factor reg (unitsOf vt s) (unitsOf vt t) = .ok f)
    (hmap : st'.mapping = (t, s) :: st.mapping)
    (hasg : st'.assigned = (t, if f = [] then a else t) :: st.assigned)
    (hconv : st'.convs = if f = [] then st.convs else st.convs ++ [⟨t, a, f, unitsOf vt t, unitsOf vt s⟩]) :
    J reg vt st' := by
  have hlook : ∀ v, st'.asg v = if v = t then some (if f = [] then a else t) else st.asg v := by
    intro v
    unfold CState.asg
    rw [hasg, lookup_cons]
  have hold : ∀ v x, st.asg v = some x → st'.asg v = some x := by
    intro v x hv
    rw [hlook]
    have : v ≠ t := by intro e; rw [e, ht] at hv; cases hv
    rw [if_neg this]; exact hv
  have hnew : st'.asg t = some (if f = [] then a else t) := by rw [hlook, if_pos rfl]
  refine ⟨?_, ?_, ?_⟩
  · intro v hv; exact hold v v (h.srcSelf v hv)
  · intro t0 s0 hm
    rw [hmap] at hm
    rcases List.mem_cons.mp hm with he | hm
    · simp only [Prod.mk.injEq] at he
      obtain ⟨rfl, rfl⟩ := he
      exact ⟨a, f, hold _ _ hs, hf, hnew⟩
    · obtain ⟨a0, f0, h1, h2, h3⟩ := h.asgTarget t0 s0 hm
      exact ⟨a0, f0, hold _ _ h1, h2, hold _ _ h3⟩
  · intro e
    have hiff : (∃ t0 s0 a0 f0, (t0, s0) ∈ st'.mapping ∧ st'.asg s0 = some a0 ∧
          Units.factor reg (unitsOf vt s0) (unitsOf vt t0) = .ok f0 ∧ f0 ≠ [] ∧
          e = ⟨t0, a0, f0, unitsOf vt t0, unitsOf vt s0⟩) ↔
        (e ∈ st.convs ∨ (f ≠ [] ∧ e = ⟨t, a, f, unitsOf vt t, unitsOf vt s⟩)) := by
      constructor
      · rintro ⟨t0, s0, a0, f0, hm, h1, h2, h3, h4⟩
        rw [hmap] at hm
        rcases List.mem_cons.mp hm with he | hm
        · simp only [Prod.mk.injEq] at he
          obtain ⟨rfl, rfl⟩ := he
          have e1 : a0 = a := by
            have := hold _ _ hs; rw [this] at h1; exact (Option.some.inj h1).symm
          have e2 : f0 = f := by rw [hf] at h2; exact (Except.ok.inj h2).symm
          subst e1 e2
          exact Or.inr ⟨h3, h4⟩
        · left
          obtain ⟨a1, f1, g1, _, _⟩ := h.asgTarget t0 s0 hm
          have : a0 = a1 := by
            have := hold _ _ g1; rw [this] at h1; exact (Option.some.inj h1).symm
          subst this
          exact (h.convIff e).mpr ⟨t0, s0, a0, f0, hm, g1, h2, h3, h4⟩
      · rintro (he | ⟨hne, he⟩)
        · obtain ⟨t0, s0, a0, f0, hm, h1, h2, h3, h4⟩ := (h.convIff e).mp he
          exact ⟨t0, s0, a0, f0, by rw [hmap]; exact List.mem_cons_of_mem _ hm, hold _ _ h1, h2, h3, h4⟩
        · exact ⟨t, s, a, f, by rw [hmap]; exact List.mem_cons_self, hold _ _ hs, hf, hne, he⟩
    rw [hiff, hconv]
    by_cases hf0 : f = []
    · simp [hf0]
    · simp [hf0]

/-- one successful iteration of the loop body keeps `J` -/
theorem stepConn_J {reg : Registry} {vt : VarTable} {s t : VRef} {st st' : CState}
    (h : J reg vt st) (hstep : stepConn reg vt st (s, t) = .ok (some st')) : J reg vt st' := by
  unfold stepConn at hstep
  simp only at hstep
  split at hstep
  · cases hstep
  · rename_i hnt
    have ht : st.asg t = none := by
      cases hx : st.asg t with
      | none => rfl
      | some x => rw [hx] at hnt; simp at hnt
    split at hstep
    · cases hstep
    · rename_i a hs
      split at hstep
      · cases hstep
      · cases hstep
      · rename_i f hf
        split at hstep
        · rename_i hf0
          split at hstep
          · simp only [Except.ok.injEq, Option.some.injEq] at hstep
            subst hstep
            exact J_push h ht hs hf rfl (by simp [hf0]) (by simp [hf0])
          · split at hstep
            · cases hstep
            · simp only [Except.ok.injEq, Option.some.injEq] at hstep
              subst hstep
              exact J_push h ht hs hf rfl (by simp [hf0]) (by simp [hf0])
        · rename_i hf0
          simp only [Except.ok.injEq, Option.some.injEq] at hstep
          subst hstep
          exact J_push h ht hs hf rfl (by simp [hf0]) (by simp [hf0])

theorem connectLoop_J {reg : Registry} {vt : VarTable} :
    ∀ (dq : List (VRef × VRef)) (unch : Nat) (hu : unch ≤ dq.length) (st st' : CState),
      J reg vt st → connectLoop reg vt dq unch hu st = .ok st' → J reg vt st' := by
  intro dq unch hu st
  fun_induction connectLoop reg vt dq unch hu st with
  | case1 unch st hu _ => intro st' hj h; simp only [Except.ok.injEq] at h; subst h; exact hj
  | case2 unch st c rest hu e he _ => intro st' hj h; cases h
  | case3 unch st c rest hu he hlt _ ih => intro st' hj h; exact ih st' hj h
  | case4 unch st c rest hu he hlt _ => intro st' hj h; cases h
  | case5 unch st c rest hu st1 he _ ih =>
      intro st' hj h
      obtain ⟨s, t⟩ := c
      exact ih st' (stepConn_J hj he) h

theorem connect_J {reg : Registry} {vt : VarTable} {l : List (VRef × VRef)} {st : CState}
    (h : connect reg vt l = .ok st) : J reg vt st :=
  connectLoop_J l 0 (Nat.zero_le _) (initState vt) st (J_init reg vt) h

/-- **`assigned_to` and the conversion equations depend on the SET of connections only.** Two resolutions of
    connection lists with the same members give every variable the same `assigned_to` and the same conversion
    equations (as a set). -/
theorem connect_perm_convs {reg : Registry} {vt : VarTable} {l l' : List (VRef × VRef)} {st st' : CState}
    (hl : ∀ c, c ∈ l ↔ c ∈ l') (h : connect reg vt l = .ok st) (h' : connect reg vt l' = .ok st') :
    (∀ v, st.asg v = st'.asg v) ∧ ∀ e, e ∈ st.convs ↔ e ∈ st'.convs := by
  have inv := connect_inv h
  have inv' := connect_inv h'
  have j := connect_J h
  have j' := connect_J h'
  have hmem : ∀ t s, (t, s) ∈ st.mapping ↔ (t, s) ∈ st'.mapping := by
    intro t s
    constructor
    · intro hm
      have := (hl _).mp (inv.map_from t s hm)
      rcases inv'.conn_in (s, t) this with hd | hm'
      · simp at hd
      · exact hm'
    · intro hm
      have := (hl _).mpr (inv'.map_from t s hm)
      rcases inv.conn_in (s, t) this with hd | hm'
      · simp at hd
      · exact hm'
  have hkeys : ∀ v, v ∈ keys st.mapping ↔ v ∈ keys st'.mapping := by
    intro v
    simp only [keys, List.mem_map]
    constructor
    · rintro ⟨⟨t, s⟩, hm, rfl⟩; exact ⟨(t, s), (hmem t s).mp hm, rfl⟩
    · rintro ⟨⟨t, s⟩, hm, rfl⟩; exact ⟨(t, s), (hmem t s).mpr hm, rfl⟩
  have hasg : ∀ (n : Nat) (v : VRef), rank st.mapping v ≤ n → st.asg v = st'.asg v := by
    intro n
    induction n with
    | zero =>
        intro v hv
        by_cases hk : v ∈ keys st.mapping
        · obtain ⟨⟨t, s⟩, hm, rfl⟩ := List.mem_map.mp hk
          have := inv.wf.rank_lt t s hm
          simp only at hv
          omega
        · by_cases hsrc : Src vt v
          · rw [j.srcSelf v hsrc, j'.srcSelf v hsrc]
          · have n1 : ¬ (st.asg v).isSome := fun hx => by
              rcases (inv.asg_iff v).mp hx with h1 | h1
              · exact hsrc h1
              · exact hk h1
            have n2 : ¬ (st'.asg v).isSome := fun hx => by
              rcases (inv'.asg_iff v).mp hx with h1 | h1
              · exact hsrc h1
              · exact hk ((hkeys v).mpr h1)
            cases e1 : st.asg v with
            | some x => rw [e1] at n1; simp at n1
            | none =>
                cases e2 : st'.asg v with
                | some x => rw [e2] at n2; simp at n2
                | none => rfl
    | succ n ih =>
        intro v hv
        by_cases hk : v ∈ keys st.mapping
        · obtain ⟨⟨t, s⟩, hm, rfl⟩ := List.mem_map.mp hk
          simp only at hv ⊢
          have hlt := inv.wf.rank_lt t s hm
          obtain ⟨a, f, h1, h2, h3⟩ := j.asgTarget t s hm
          obtain ⟨a', f', h1', h2', h3'⟩ := j'.asgTarget t s ((hmem t s).mp hm)
          have hs := ih s (by omega)
          rw [h1, h1'] at hs
          have ea : a = a' := Option.some.inj hs
          have ef : f = f' := by rw [h2] at h2'; exact Except.ok.inj h2'
          rw [h3, h3', ea, ef]
        · by_cases hsrc : Src vt v
          · rw [j.srcSelf v hsrc, j'.srcSelf v hsrc]
          · have n1 : ¬ (st.asg v).isSome := fun hx => by
              rcases (inv.asg_iff v).mp hx with h1 | h1
              · exact hsrc h1
              · exact hk h1
            have n2 : ¬ (st'.asg v).isSome := fun hx => by
              rcases (inv'.asg_iff v).mp hx with h1 | h1
              · exact hsrc h1
              · exact hk ((hkeys v).mpr h1)
            cases e1 : st.asg v with
            | some x => rw [e1] at n1; simp at n1
            | none =>
                cases e2 : st'.asg v with
                | some x => rw [e2] at n2; simp at n2
                | none => rfl
  have hall : ∀ v, st.asg v = st'.asg v := fun v => hasg _ v (Nat.le_refl _)
  refine ⟨hall, ?_⟩
  intro e
  rw [j.convIff, j'.convIff]
  constructor
  · rintro ⟨t, s, a, f, hm, h1, h2, h3, h4⟩
    exact ⟨t, s, a, f, (hmem t s).mp hm, hall s ▸ h1, h2, h3, h4⟩
  · rintro ⟨t, s, a, f, hm, h1, h2, h3, h4⟩
    exact ⟨t, s, a, f, (hmem t s).mpr hm, (hall s).symm ▸ h1, h2, h3, h4⟩

end C15
