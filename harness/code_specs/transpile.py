"""Code-translator spec (see harness/translate_code.py and notes/TIE_GUIDE.md): `cellmlmanip.parser.Transpiler`
(properties C02, C14). Python values are the `C02.Sy` terms of the hand model, python sequences (`result`,
`*expressions`) are `List Sy`; every template below is a LEAF: an operation of python / lxml / SymPy on such values
(lean/Cellml/Tie/TranspileView.lean says which python expression each accessor stands for)."""

P = 'cellmlmanip/parser.py'

# ---- leaves shared by all functions --------------------------------------------------------------------------------
SEQ = [
    # python slicing / indexing / zip of sequences
    ('__A[1:]', '(({A}).drop 1)'),
    ('__A[:-1]', '(({A}).dropLast)'),
    ('__A[__I]', '← PyItem.item {A} {I}'),
    ('zip(__A, __B)', '(List.zip {A} {B})'),
    ('any(map(__F, __A))', '(({A}).any {F})'),
    ('all(map(__F, __A))', '(({A}).all {F})'),
]
CLASSES = [
    # a class object is represented by its name
    ('sympy.logic.boolalg.BooleanTrue', '"BooleanTrue"'),
    ('sympy.logic.boolalg.BooleanFalse', '"BooleanFalse"'),
    ('isinstance(__A, (__B, __C))', '(pyIsInstance {A} [{B}, {C}])'),
    ('isinstance(__A, __B)', '(pyIsInstance {A} [{B}])'),
    ('list', '"list"'),
    # `Transpiler._is_bool` is translated and tied on its own (`isBool_tie`); elsewhere the call is this leaf
    ('self._is_bool(__A)', '(isBoolConst {A})'),
    ('self._is_bool', 'isBoolConst'),
]
CONTAINER = SEQ + [
    ('self.transpile(node)', '← self.transpile node'),
]


def wrapped(handler, fn, lean_name, signature, patterns):
    return {'file': P, 'func': 'Transpiler.%s.%s' % (handler, fn), 'lean_name': lean_name, 'signature': signature,
            'emit_params': True, 'tail_assign': True, 'patterns': patterns}


def container(handler, lean_name, patterns=(), stmt_patterns=()):
    return {'file': P, 'func': 'Transpiler.' + handler, 'lean_name': lean_name,
            'signature': '(self : TView) (node : Mml) : Except PyErr Sy',
            'patterns': list(patterns) + CONTAINER, 'stmt_patterns': list(stmt_patterns)}


CN_COMMON = [
    ("'type' in node.attrib", '(node.ty).isSome'),
    ("node.attrib['type']", '← pyAttrib node.ty'),
    # `with_ns(XmlNs.MATHML, 'sep')`: the qualified tag name; the model stores of a child whether it is this element
    ("with_ns(XmlNs.MATHML, 'sep')", 'mathmlSepTag'),
    ('__A.tag', '(childTag {A})'),
    ('__A.tail', '(childTail {A})'),
    ('node[__I]', '← pyChild node {I}'),
    ('__A.strip()', '← self.strip {A}'),
    ('int(__A)', '← self.int {A}'),
    ("node.get(with_ns(XmlNs.CELLML, 'units'))", '(node.units)'),
    ('self.number_generator(__A, __B)', '← self.numberGenerator {A} {B}'),
]

GROUP = {
    'name': 'Transpile',
    'imports': ['Cellml.Tie.TranspileView'],
    'header': 'open C02\nopen Cellml.Tie.PTranspile',
    'functions': [
        # ---- `_is_bool` -------------------------------------------------------------------------------------------
        {'file': P, 'func': 'Transpiler._is_bool', 'lean_name': 'isBool', 'params': ['expr'],
         'signature': '(expr : Sy) : Except PyErr Bool',
         'patterns': CLASSES[:4]},
        # ---- the closures returned by the explicit handlers (called by `_apply_handler` with the operands) ----------
        wrapped('_minus_handler', '_wrapped_minus', 'wrappedMinus',
                '(left_operand : Sy) (right_operand : Option Sy) : Except PyErr Sy',
                [('-__A', '← pyNeg {A}'), ('__A - __B', '← pySub {A} {B}')]),
        wrapped('_divide_handler', '_wrapped_divide', 'wrappedDivide',
                '(dividend divisor : Sy) : Except PyErr Sy',
                [('__A / __B', '← pyDiv {A} {B}')]),
        wrapped('_power_handler', '_wrapped_power', 'wrappedPower',
                '(base exponent : Sy) : Except PyErr Sy',
                [('__A ** __B', '← pyPow {A} {B}')]),
        wrapped('_root_handler', '_wrapped_root', 'wrappedRoot',
                '(first_argument : Sy) (second_argument : Option Sy) : Except PyErr Sy',
                [('sympy.root(__A, __B)', '← sympyRoot {A} {B}')]),
        wrapped('_log_handler', '_wrapped_log', 'wrappedLog',
                '(first_element : Sy) (second_element : Option Sy) : Except PyErr Sy',
                [('sympy.log(__A, __B)', '← sympyLog {A} {B}')]),
        wrapped('_diff_handler', '_wrapped_diff', 'wrappedDiff',
                # `evaluate`: `none` = the default `False` (no MathML operand is python's False)
                '(x_symbol y_symbol : Sy) (evaluate : Option Sy) : Except PyErr Sy',
                [('sympy.Derivative(__Y, __V, __N, evaluate=__E)', '← sympyDerivativeN {Y} {V} {N} {E}'),
                 ('sympy.Derivative(__Y, __V, evaluate=__E)', '← sympyDerivative {Y} {V} {E}'),
                 ('int(__A)', '← pyIntOf {A}')] + SEQ + CLASSES),
        # ---- n-ary relations --------------------------------------------------------------------------------------
        {'file': P, 'func': 'Transpiler._get_nary_relation_callback._wrapper_relational',
         'lean_name': 'wrapperRelational', 'params': ['sympy_relation', 'expressions'],
         'signature': '(sympy_relation : String) (expressions : List Sy) : Except PyErr Sy',
         'mutable': ['relations'], 'raise_evaluates': True,
         'patterns': [('sympy_relation(__A, __B)', '← sympyClassCall sympy_relation [{A}, {B}]'),
                      ('sympy_relation(*__A)', '← sympyClassCall sympy_relation {A}'),
                      ('sympy.And(*__A)', '(sympyAndOf {A})'),
                      ('sympy.Ge', '"Ge"'), ('sympy.Le', '"Le"'), ('sympy.Gt', '"Gt"'), ('sympy.Lt', '"Lt"'),
                      ('sympy.Eq', '"Eq"'), ('sympy.Ne', '"Ne"'), ('sympy.Derivative', '"Derivative"'),
                      # membership in a tuple display: the tuple is written as a list
                      ('__A in (__B, __C, __D, __E)', '(Py.isIn {A} [{B}, {C}, {D}, {E}])'),
                      ('__A in (__B, __C)', '(Py.isIn {A} [{B}, {C}])'),
                      ('[]', '([] : List Sy)')] + SEQ + CLASSES,
         'stmt_patterns': [('relations.append(__A)', 'relations := relations ++ [{A}]')]},
        # ---- container handlers: transpile the children, then assemble ----------------------------------------------
        container('_apply_handler', 'applyHandler', [('__F(*__A)', '← pyCall {F} {A}')]),
        container('_piecewise_handler', 'piecewiseHandler', [('sympy.Piecewise(*__A)', '← sympyPiecewise {A}')]),
        container('_piece_handler', 'pieceHandler', [('(__A, __B)', '(Sy.tuple {A} {B})')]),
        container('_otherwise_handler', 'otherwiseHandler', [('(__A, __B)', '(Sy.tuple {A} {B})'), ('True', 'pyTrue')]),
        container('_degree_handler', 'degreeHandler'),
        container('_bvar_handler', 'bvarHandler', stmt_patterns=[('return result', 'return (pyListOf result)')]),
        container('_logbase_handler', 'logbaseHandler'),
        # ---- dispatch: the loop of `transpile` over the children, and the table operators --------------------------
        {'file': P, 'func': 'Transpiler.transpile', 'lean_name': 'transpileChildren',
         'signature': '(self : DView) (element : Mml) : Except PyErr (List Sy)',
         'mutable': ['sympy_expressions'],
         'patterns': [("element.iterchildren(tag='*')", '(mmlChildren element)'),
                      ('etree.QName(__A.tag).localname', '(mmlTag {A})'),
                      ('tag_name in self.handlers', '(self.hasHandler tag_name)'),
                      ('self.handlers[__T](__A)', '← self.runHandler {T} {A}'),
                      ('[]', '([] : List Sy)')],
         'stmt_patterns': [('sympy_expressions.append(__A)', 'sympy_expressions := sympy_expressions ++ [{A}]')]},
        {'file': P, 'func': 'Transpiler._simple_operator_handler', 'lean_name': 'simpleOperatorHandler',
         'signature': '(node : Mml) : Except PyErr Sy',
         'patterns': [('etree.QName(__A.tag).localname', '(mmlTag {A})'),
                      ('SIMPLE_MATHML_TO_SYMPY_CLASSES[__T]', '← operatorTableGet {T}'),
                      ('MATHML_NARY_RELATIONS', 'Cellml.Gen.naryRelations'),
                      ('self._get_nary_relation_callback(__H)', '(naryRelationCallback {H})')]},
        # ---- `<cn>` as the C02 model sees it: `float('%se%d' % (m, k))` is ONE leaf (`pyFloatExp`); the pattern pins
        #      the format string (an edit of it no longer matches, and the generic `%` rule then does not type-check) ----
        {'file': P, 'func': 'Transpiler._cn_handler', 'lean_name': 'cnHandler',
         'signature': '{F R : Type} (self : CnView F R) (node : CnNode) : Except PyErr R', 'tail_assign': True,
         'patterns': [("float('%se%d' % (__A, __B))", '← self.floatE {A} {B}'),
                      ('float(__A)', '← self.float {A}')] + CN_COMMON},
        # ---- `<cn>` as the C14 model sees it: strip, int, '%se%d' formatting, ONE float() of the text --------------
        {'file': P, 'func': 'Transpiler._cn_handler', 'lean_name': 'cnHandlerText',
         'signature': '{F R : Type} (self : CnView F R) (node : CnNode) : Except PyErr R', 'tail_assign': True,
         'patterns': [('float(__A)', '← self.float {A}'),
                      ('__F % (__A, __B)', '(Py.fmt {F} [PyStr.str {A}, PyStr.str {B}])')] + CN_COMMON},
    ]}
