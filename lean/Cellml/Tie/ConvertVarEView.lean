import Cellml.Model.ConvertVarErr
import Cellml.Tie.ConvertVarView

/-! # View of the `convert_variable` family for the group `ConvertVarE` (exception class AND state at the raise)

    Same leaves as `Tie/ConvertVarView.lean` (values, sympy constructors, reads of the Model: re-used from there). What
    differs is the exception type: `Model.CVE.Raised` = class + the model state python leaves behind. The four mutating
    methods of `Model` are bound to their stopping hand models `Model.CVE.addVariable / addEq / removeEq / transferCmeta`
    (which answer the state their python method leaves behind); the reading leaves below raise with the threaded state
    untouched; `raise` / `assert` of the translated functions carry the threaded state by the translator extension
    `harness/translate_ext/cverr.py`. Core Lean only. -/

namespace Cellml.Tie.CVE
open Model Model.CV Cellml.Tie Cellml.Tie.CV
open Model.CVE (Raised)

/-- `self._ode_definition_map[v]` (`KeyError` when absent; a read: the model is untouched) -/
def odeLookupE (st : CState) (v : Nat) : Except Raised CEqn :=
  match st.odeDef.lookup v with
  | some e => .ok e
  | none => .error ⟨"KeyError", st⟩

/-- `ode.lhs.args[0]` of a `Derivative`: the state variable (`IndexError` on a plain `Variable`, whose `args` is `()`) -/
def derivArg0E (st : CState) : CLhs → Except Raised Nat
  | .deriv x _ => .ok x
  | .var _ => .error ⟨"IndexError", st⟩

/-- `ode.lhs.args[1]` of a `Derivative`: the free variable (the `(t, 1)` tuple is folded into `t`) -/
def derivArg1E (st : CState) : CLhs → Except Raised Nat
  | .deriv _ t => .ok t
  | .var _ => .error ⟨"IndexError", st⟩

/-- `ode.args[0].args[1].args[0]`: the bound variable of the derivative on the left of an ODE -/
def odeBoundVarE (st : CState) (e : CEqn) : Except Raised Nat := derivArg1E st e.lhs

/-- `self.get_free_variable()` (`ValueError` when the model has no ODE; a read) -/
def getFreeVariableE (st : CState) : Except Raised (Option Nat) :=
  match getFree st with
  | some t => .ok (some t)
  | none => .error ⟨"ValueError", st⟩

/-- `self.remove_equation(eq)` (the argument may be a value python has just tested with `is not None`) -/
def removeEqE {α} [AsEqn α] (st : CState) (e : α) : Except Raised CState := Model.CVE.removeEq st (AsEqn.asEqn e)

/-- what the units module does for `convert_variable`: `self.units.get_conversion_factor(from_unit=…, to_unit=…)` answers
    a number or raises an exception of some class (the subject of C07; an input of the hand model) -/
structure CVViewE where
  getConversionFactor : U → U → Except String Rat

/-- the call of `get_conversion_factor` inside `convert_variable`: an exception escapes with the model as it is -/
def CVViewE.getCfE (self : CVViewE) (st : CState) (a b : U) : Except Raised CfVal :=
  match self.getConversionFactor a b with
  | .ok q => .ok (.num q)
  | .error c => .error ⟨c, st⟩

end Cellml.Tie.CVE
